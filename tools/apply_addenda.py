#!/usr/bin/env python3
"""apply_addenda.py: inserts design_addenda/<name>.md (the paragraph each extension wrote for DESIGN.md) at the end of the section of the
property it belongs to (### Cxx in §3), between markers, idempotently.  name -> property: tieNN -> CNN, aud_Cxx -> Cxx, other names via MAP."""
import re, os, glob
MAP = {}
root = os.path.dirname(os.path.dirname(os.path.abspath(__file__)))
d = open(os.path.join(root, "DESIGN.md")).read()
# drop earlier insertions
d = re.sub(r"\n<!-- ADDENDUM:[^\n]*:BEGIN -->.*?<!-- ADDENDUM:[^\n]*:END -->\n", "\n", d, flags=re.S)
for f in sorted(glob.glob(os.path.join(root, "design_addenda", "*.md"))):
    name = os.path.splitext(os.path.basename(f))[0]
    if name.startswith("AUDIT_"): continue
    m = re.fullmatch(r"tie(\d\d)", name) or re.fullmatch(r"aud_C(\d\d)", name) or re.fullmatch(r"\w+_C(\d\d)", name)
    pid = MAP.get(name) or ("C" + m.group(1) if m else None)
    if not pid: print("no property for", name); continue
    text = open(f).read().strip()
    h = re.search(r"^### " + pid + r" [^\n]*\n", d, re.M)
    if not h: print("no section for", pid); continue
    nxt = re.search(r"^(### C\d\d |-{20,})", d[h.end():], re.M)
    pos = h.end() + nxt.start()
    kind = "coverage audit of the oracle" if name.startswith("aud_") else "source-text tie / deepening"
    audit = f" Surface table: `design_addenda/AUDIT_{pid}.md`." if os.path.exists(os.path.join(root, "design_addenda", f"AUDIT_{pid}.md")) and name.startswith("aud_") else ""
    block = f"<!-- ADDENDUM:{name}:BEGIN -->\n*As built (third session, {kind}; `{name}`).*{audit} {text}\n<!-- ADDENDUM:{name}:END -->\n\n"
    d = d[:pos] + block + d[pos:]
open(os.path.join(root, "DESIGN.md"), "w").write(d)
print("ok")
