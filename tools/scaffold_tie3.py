#!/usr/bin/env python3
"""
scaffold_tie3 -- ONE-TIME scaffolding of the statement lists in lean/PaletteProofs/Tie_Clamp.lean and Tie_Ops.lean.

NOT part of the check and never run by it: the tie theorems are hand-maintained proof obligations whose *statements pin* the shape the model is
used with (bounds table per type, `increase` / `other` spec, hue position).  Regenerating them from the sources on every run would make them
follow the sources and prove nothing.  This script only saved typing ~500 formulaic statements when the families were added; rerun it by hand
(`python3 tools/scaffold_tie3.py clamp|ops`) when a new colour type / macro is registered, review the diff, and commit the reviewed file.
"""
import sys, os, re
sys.path.insert(0, os.path.dirname(os.path.abspath(__file__)))
import rust2lean as R
import rust_macros as M

repo = os.environ.get("PALETTE_REPO", "/repo")
def read_src(rel): return R.strip_comments(open(os.path.join(repo, "palette", "src", rel)).read())
eng = M.Engine(read_src, R.tokenize, R.MACRO_FILES)

def binds_of(file, macro, ty):
    invs = [x for x in eng.invocations(file, macro) if x and x[0][0] == "tok" and x[0][2] == ty]
    assert len(invs) == 1, (file, macro, ty)
    for matcher, _ in eng.arms(macro):
        b = {}
        try:
            if M.match_seq(matcher, invs[0], 0, b) == len(invs[0]): return b
        except M.NoMatch:
            pass
    raise SystemExit(f"no arm for {macro} {ty}")

def leaf_text(b): return M.text_of(b[2]).replace(" ", "")
def seq_texts(b): return [leaf_text(x) for x in b[1]]

def fields(ty): return [f for f, _ in R.struct_fields(read_src(R.TYPES3[ty][0]), ty)]

def acc(prefix, ty, expr, wpacc):
    """Lean text of a bound expression of an invocation"""
    def one(m):
        fn = m.group(1)
        n = f"Gen.Body.{prefix}{ty}{R.camel(fn)}"
        return f"({n} wp)" if (ty, fn) in wpacc else n
    e = re.sub(r"Self::(\w+)\(\)", one, expr)
    e = e.replace("+T::from_f64(ok_utils::MAX_SRGB_SATURATION_INACCURACY)", " + Scalar.const (1e-6 : K)")
    if " + " in e: e = "(" + e + ")"
    return e

def wp_accessors(bodies):
    return {(b["self_ty"], b["fn"]) for b in bodies if b.get("wp") and b["model"] is None and b.get("as_fn")}

def clamp():
    bodies = R.bodies_clamp(read_src)
    wpacc = wp_accessors(bodies)
    wpb = {b["name"] for b in bodies if b.get("wp")}
    out = []
    for ty in R.TYPES3:
        inv = R.TYPES3[ty][1]
        if R.has_invocation(read_src, inv, "impl_clamp", ty):
            fs = fields(ty)
            bc = binds_of(inv, "impl_clamp", ty)
            comps = seq_texts(bc["component"]); mins = seq_texts(bc["get_min"]); maxs = [seq_texts(x) for x in bc["get_max"][1]]
            tab = {}
            for c, lo, hi in zip(comps, mins, maxs):
                tab[c] = f".both {acc('bound', ty, lo, wpacc)} {acc('bound', ty, hi[0], wpacc)}" if hi else f".minOnly {acc('bound', ty, lo, wpacc)}"
            bw = binds_of(inv, "impl_is_within_bounds", ty)
            comps_w = seq_texts(bw["component"]); mins_w = seq_texts(bw["get_min"]); maxs_w = seq_texts(bw["get_max"])
            tabw = {}
            for c, lo, hi in zip(comps_w, mins_w, maxs_w):
                tabw[c] = f".both {acc('bound', ty, lo, wpacc)} {acc('bound', ty, hi, wpacc)}" if hi != "None" else f".minOnly {acc('bound', ty, lo, wpacc)}"
            bs = "[" + ", ".join(tab.get(f, ".untouched") for f in fs) + "]"
            bsw = "[" + ", ".join(tabw.get(f, ".untouched") for f in fs) + "]"
            wp = f"clamp{ty}" in wpb
            args, call = ("(wp c : V3 α)", "wp c") if wp else ("(c : V3 α)", "c")
            out.append(f"/-! ### `{ty}` ({inv}) -/")
            out.append(f"theorem tie_clamp{ty} {args} :\n    (Gen.Body.clamp{ty} {call}).toList = Clamp.clampAll c.toList {bs} := rfl")
            out.append(f"theorem tie_clampAssign{ty} {args} :\n    (Gen.Body.clampAssign{ty} {call}).toList = Clamp.clampAll c.toList {bs} := rfl")
            out.append(f"theorem tie_within{ty} {args} :\n    Gen.Body.within{ty} {call} = Clamp.withinAll c.toList {bsw} := by\n"
                       f"  simp only [Gen.Body.within{ty}, V3.toList, Clamp.withinAll, Clamp.withinC, Bool.and_true, Bool.true_and, Bool.and_assoc]")
            out.append("")
    print("\n".join(out))

def ops():
    bodies = R.bodies_ops(read_src)
    names = {b["name"]: b for b in bodies}
    wpacc = wp_accessors(bodies)
    out = []
    for ty in R.TYPES3:
        inv = R.TYPES3[ty][1]
        fs = fields(ty)
        hue = fs.index("hue") if "hue" in fs else 3
        def wpargs(n, params):
            if names[n].get("wp"): return "(wp : V3 α) " + params, "wp "
            return params, ""
        out.append(f"/-! ### `{ty}` ({inv}): fields {fs}" + (f", hue at {hue}" if hue < 3 else "") + " -/")
        for fn, _, _ in R.ARITH:
            if f"{fn}{ty}" not in names: continue
            out.append(f"theorem tie_{fn}{ty} (a b : V3 α) : (Gen.Body.{fn}{ty} a b).toList = Ops.{fn}C a.toList b.toList := rfl")
            out.append(f"theorem tie_{fn}S{ty} (a : V3 α) (c : α) : (Gen.Body.{fn}S{ty} a c).toList = Ops.{fn}S a.toList c := rfl")
            out.append(f"theorem tie_{fn}Assign{ty} (a b : V3 α) : (Gen.Body.{fn}Assign{ty} a b).toList = Ops.{fn}AssignC a.toList b.toList := rfl")
            out.append(f"theorem tie_{fn}AssignS{ty} (a : V3 α) (c : α) : (Gen.Body.{fn}AssignS{ty} a c).toList = Ops.{fn}AssignS a.toList c := rfl")
        if f"mix{ty}" in names:
            if names[f"mix{ty}"]["model"] == "Ops.mixLin":
                out.append(f"theorem tie_mix{ty} (a b : V3 α) (f : α) : (Gen.Body.mix{ty} a b f).toList = Ops.mixLin a.toList b.toList f := rfl")
                out.append(f"theorem tie_mixAssign{ty} (a b : V3 α) (f : α) : (Gen.Body.mixAssign{ty} a b f).toList = Ops.mixLinAssign a.toList b.toList f := rfl")
            else:
                out.append(f"theorem tie_mix{ty} (a b : V3 α) (f : α) : (Gen.Body.mix{ty} a b f).toList = Ops.mixHue (Ops.roles 3 {hue}) a.toList b.toList f := rfl")
                out.append(f"theorem tie_mixAssign{ty} (a b : V3 α) (f : α) : (Gen.Body.mixAssign{ty} a b f).toList = Ops.mixHueAssign (Ops.roles 3 {hue}) a.toList b.toList f := rfl")
        for kind in ("lighten", "saturate"):
            if f"{kind}{ty}" not in names or names[f"{kind}{ty}"]["model"] != "Ops.incValue": continue
            b = binds_of(inv, "impl_" + kind, ty)
            # impl_lighten! forwards `$($input: tt)+` to `_impl_increase_value_trait!`: match that one for the component lists
            toks = eng.invocations(inv, "impl_" + kind)
            toks = [x for x in toks if x and x[0][2] == ty][0]
            if not (len(toks) > 1 and M.is_tok(toks[1], "<")): toks = [toks[0], ("tok", "op", "<"), ("tok", "op", ">")] + toks[1:]
            head = R.tokenize("Lighten::{lighten, lighten_fixed}, LightenAssign::{lighten_assign, lighten_fixed_assign},")
            full = M.tree(head) + toks
            bb = {}
            arm = eng.arms("_impl_increase_value_trait")[0]
            assert M.match_seq(arm[0], full, 0, bb) == len(full)
            comps = seq_texts(bb["component"]); mins = seq_texts(bb["get_min"]); maxs = seq_texts(bb["get_max"]); others = seq_texts(bb["other_component"])
            assert sorted(comps + others) == sorted(fs), (ty, comps, others, fs)
            tab = {c: f".increase {acc('lim', ty, lo, wpacc)} {acc('lim', ty, hi, wpacc)}" for c, lo, hi in zip(comps, mins, maxs)}
            spec = "[" + ", ".join(tab.get(f, ".other") for f in fs) + "]"
            for form, model in (("", "incValue"), ("Fixed", "incFixedValue"), ("Assign", "incAssign"), ("FixedAssign", "incFixedAssign")):
                n = f"{kind}{form}{ty}"
                params, call = wpargs(n, "(c : V3 α) (f : α)")
                out.append(f"theorem tie_{n} {params} :\n    (Gen.Body.{n} {call}c f).toList = Ops.{model} {spec} c.toList f := rfl")
        if f"lighten{ty}" in names and names[f"lighten{ty}"]["model"] == "Ops.hwbLighten":
            lim = f"⟨Gen.Body.lim{ty}MinWhiteness, Gen.Body.lim{ty}MaxWhiteness, Gen.Body.lim{ty}MinBlackness, Gen.Body.lim{ty}MaxBlackness⟩"
            for form, model in (("", "hwbLighten"), ("Fixed", "hwbLightenFixed"), ("Assign", "hwbLightenAssign"), ("FixedAssign", "hwbLightenFixedAssign")):
                n = f"lighten{form}{ty}"
                out.append(f"theorem tie_{n} (c : V3 α) (f : α) :\n    Gen.Body.{n} c f = ⟨c.c0, (Ops.{model} {lim} c.c1 c.c2 f).1, (Ops.{model} {lim} c.c1 c.c2 f).2⟩ := rfl")
        if f"getHue{ty}" in names:
            out.append(f"theorem tie_getHue{ty} (c : V3 α) : some (Gen.Body.getHue{ty} c) = Ops.getHue {hue} c.toList := rfl")
            out.append(f"theorem tie_withHue{ty} (c : V3 α) (h : α) : (Gen.Body.withHue{ty} c h).toList = Ops.withHue {hue} c.toList h := rfl")
            out.append(f"theorem tie_setHue{ty} (c : V3 α) (h : α) : (Gen.Body.setHue{ty} c h).toList = Ops.setHue {hue} c.toList h := rfl")
            out.append(f"theorem tie_shiftHue{ty} (c : V3 α) (x : α) : (Gen.Body.shiftHue{ty} c x).toList = Ops.shiftHue {hue} c.toList x := rfl")
            out.append(f"theorem tie_shiftHueAssign{ty} (c : V3 α) (x : α) : (Gen.Body.shiftHueAssign{ty} c x).toList = Ops.shiftHueAssign {hue} c.toList x := rfl")
        if f"complementary{ty}" in names and names[f"complementary{ty}"]["model"] == "Ops.labComplementary":
            b = binds_of(inv, "impl_lab_color_schemes", ty)
            a_, b_ = (leaf_text(b["a"]), leaf_text(b["b"])) if "a" in b else ("a", "b")
            ia, ib = fs.index(a_), fs.index(b_)
            out.append(f"theorem tie_complementary{ty} (c : V3 α) : (Gen.Body.complementary{ty} c).toList = Ops.labComplementary {ia} {ib} c.toList := rfl")
            out.append(f"theorem tie_tetradic{ty} (c : V3 α) :\n    ((Gen.Body.tetradic{ty} c).1.toList, (Gen.Body.tetradic{ty} c).2.1.toList, (Gen.Body.tetradic{ty} c).2.2.toList) = Ops.labTetradic {ia} {ib} c.toList := rfl")
        out.append("")
    print("\n".join(out))

if __name__ == "__main__":
    {"clamp": clamp, "ops": ops}[sys.argv[1]]()
