#!/bin/sh
# rerun_seed.sh <seed id, e.g. C17-4>: runs the property's quick check on the private copy (/tmp/seedrun) with the STORED patch applied and
# rewrites the detection part of seeded/<id>/meta.json (summary, confirmation and note are kept)
id=$1; pid=${id%%-*}
/tmp/seedrun/sync.sh > /dev/null 2>&1
/tmp/seedrun/run.sh /verif/seeded/$id/patch.diff $pid > /tmp/seedrun/proc_$id.txt 2>&1
python3 /verif/tools/rerun_seed_meta.py "$id" "$pid"
