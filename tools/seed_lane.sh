#!/bin/sh
# seed_lane.sh <lane> Cxx [Cyy ..]: queue the processing of fresh seeds (/tmp/mut/Cxx/_out/patch_k.diff) on a lane; serialised per lane by flock
lane=$1; shift
d=/tmp/seedrun$lane
( flock 9; $d/sync.sh > /dev/null 2>&1; SEEDRUN=$d /verif/tools/process_seeds.sh "$@" >> $d/results.txt 2>&1 ) 9> $d/lane.lock &
