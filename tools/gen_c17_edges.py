#!/usr/bin/env python3
# authoring aid: writes lean/PaletteProofs/C17_Edges.lean (plain Lean text, one block per edge; NOT part of the check flow --
# run it by hand after adding an edge to the table `E`, the result is an ordinary theorem file)
import os
OPS = lambda l: "exactOps" if not l else "(exactPlus [" + ", ".join("." + o for o in l) + "])"
HUEC = ["radToDeg", "pi", "atan2", "neg"]
POLAR = ["hypot", "radToDeg", "pi", "atan2", "neg"]
CART = ["cos", "degToRad", "sin"]
# name, shape, body name, uses (fused, angle), non-exact ops, hand model, model theorem, hand takes angle, doc
E = [
 ("angleNormalizeUnsigned", 1, "Gen.BodyV.angleNormalizeUnsigned", (0,0), [], "RgbFam.normalizeUnsigned", "TieV.model_normalizeUnsigned", 0, "`UnsignedAngle::normalize_unsigned_angle` (the `impl_angle_wide_float!` text)"),
 ("angleNormalizeSigned", 1, "Gen.BodyV.angleNormalizeSigned", (0,0), [], "Ops.normSigned", "TieV.tieV_angleNormalizeSigned", 0, "`SignedAngle::normalize_signed_angle` (the `impl_angle_wide_float!` text)"),
 ("srgbIntoLinear", 1, "Gen.BodyV.srgbIntoLinear", (1,0), ["powf", "mulAdd"], "Transfer.srgbIntoLinear", "TieV.model_srgbIntoLinear", 0, "sRGB decoding"),
 ("srgbFromLinear", 1, "Gen.BodyV.srgbFromLinear", (1,0), ["mulSub", "powf"], "Transfer.srgbFromLinear", "TieV.model_srgbFromLinear", 0, "sRGB encoding"),
 ("recIntoLinear", 1, "Gen.BodyV.recIntoLinear", (1,0), ["powf", "mulAdd"], "Transfer.recIntoLinear", "TieV.model_recIntoLinear", 0, "Rec. 709/2020 decoding"),
 ("recFromLinear", 1, "Gen.BodyV.recFromLinear", (1,0), ["mulSub", "powf"], "Transfer.recFromLinear", "TieV.model_recFromLinear", 0, "Rec. 709/2020 encoding"),
 ("adobeIntoLinear", 1, "Gen.BodyV.adobeIntoLinear", (0,0), ["powf"], "Transfer.adobeIntoLinear", "TieV.model_adobeIntoLinear", 0, "Adobe RGB decoding"),
 ("adobeFromLinear", 1, "Gen.BodyV.adobeFromLinear", (0,0), ["powf"], "Transfer.adobeFromLinear", "TieV.model_adobeFromLinear", 0, "Adobe RGB encoding"),
 ("p3IntoLinear", 1, "Gen.BodyV.p3IntoLinear", (0,0), ["powf"], "Transfer.p3IntoLinear", "TieV.model_p3IntoLinear", 0, "DCI-P3 decoding"),
 ("p3FromLinear", 1, "Gen.BodyV.p3FromLinear", (0,0), ["powf"], "Transfer.p3FromLinear", "TieV.model_p3FromLinear", 0, "DCI-P3 encoding"),
 ("prophotoIntoLinear", 1, "Gen.BodyV.prophotoIntoLinear", (0,0), ["powf"], "Transfer.prophotoIntoLinear", "TieV.model_prophotoIntoLinear", 0, "ProPhoto decoding"),
 ("prophotoFromLinear", 1, "Gen.BodyV.prophotoFromLinear", (0,0), ["powf"], "Transfer.prophotoFromLinear", "TieV.model_prophotoFromLinear", 0, "ProPhoto encoding"),
 ("gammaIntoLinear", 1, "Gen.BodyV.gammaIntoLinear", (0,0), ["powf"], "Transfer.gammaIntoLinear", "TieV.model_gammaIntoLinear", 0, "`GammaFn<F2p2>` decoding"),
 ("gammaFromLinear", 1, "Gen.BodyV.gammaFromLinear", (0,0), ["powf"], "Transfer.gammaFromLinear", "TieV.model_gammaFromLinear", 0, "`GammaFn<F2p2>` encoding"),
 ("hueFromCartesian", 2, "Gen.BodyV.hueFromCartesian", (0,1), HUEC, "Cie.hueFromCartesian", "TieV.model_hueFromCartesian", 1, "`LabHue/LuvHue/OklabHue::from_cartesian`"),
 ("xyzToYxy", 3, "Gen.BodyV.xyzToYxy", (0,0), [], "Cie.xyzToYxy", "TieV.model_xyzToYxy", 0, "Xyz → Yxy"),
 ("yxyToXyz", 3, "Gen.BodyV.yxyToXyz", (0,0), [], "Cie.yxyToXyz", "TieV.model_yxyToXyz", 0, "Yxy → Xyz"),
 ("xyzToLab", 33, "Gen.BodyV.xyzToLab", (0,0), [], "Cie.xyzToLab", "TieV.model_xyzToLab", 0, "Xyz → Lab (first argument: the white point)"),
 ("labToXyz", 33, "Gen.BodyV.labToXyz", (0,0), [], "Cie.labToXyz", "TieV.model_labToXyz", 0, "Lab → Xyz"),
 ("labToLch", 3, "Gen.BodyV.labToLch", (0,1), POLAR, "Cie.labToLch", "TieV.model_labToLch", 1, "Lab → Lch"),
 ("lchToLab", 3, "Gen.BodyV.lchToLab", (0,1), CART, "Cie.lchToLab", "TieV.model_lchToLab", 1, "Lch → Lab"),
 ("luvToLchuv", 3, "Gen.BodyV.luvToLchuv", (0,1), POLAR, "Cie.luvToLchuv", "TieV.model_luvToLchuv", 1, "Luv → Lchuv"),
 ("lchuvToLuv", 3, "Gen.BodyV.lchuvToLuv", (0,1), CART, "Cie.lchuvToLuv", "TieV.model_lchuvToLuv", 1, "Lchuv → Luv"),
 ("rgbToHsvMask", 3, "Gen.BodyV.rgbToHsvMask", (0,0), ["neg"], "RgbFam.rgbToHsvMask", "TieV.model_rgbToHsvMask", 0, "Rgb → Hsv, the branch taken when `T::Mask ≠ bool`"),
 ("rgbToHslMask", 3, "Gen.BodyV.rgbToHslMask", (0,0), ["neg"], "RgbFam.rgbToHslMask", "TieV.model_rgbToHslMask", 0, "Rgb → Hsl, the branch taken when `T::Mask ≠ bool`"),
 ("hsvToRgb", 3, "Gen.BodyV.hsvToRgb", (0,0), [], "RgbFam.hsvToRgb", "TieV.model_hsvToRgb", 0, "Hsv → Rgb"),
 ("hslToRgb", 3, "Gen.BodyV.hslToRgb", (0,0), [], "RgbFam.hslToRgb", "TieV.model_hslToRgb", 0, "Hsl → Rgb"),
 ("hslToHsv", 3, "Gen.BodyV.hslToHsv", (0,0), [], "RgbFam.hslToHsv", "TieV.model_hslToHsv", 0, "Hsl → Hsv"),
 ("hsvToHsl", 3, "Gen.BodyV.hsvToHsl", (0,0), [], "RgbFam.hsvToHsl", "TieV.model_hsvToHsl", 0, "Hsv → Hsl"),
 ("hsvToHwb", 3, "Gen.BodyV.hsvToHwb", (0,0), [], "RgbFam.hsvToHwb", "TieV.model_hsvToHwb", 0, "Hsv → Hwb"),
 ("hwbToHsv", 3, "Gen.BodyV.hwbToHsv", (0,0), [], "RgbFam.hwbToHsv", "TieV.model_hwbToHsv", 0, "Hwb → Hsv"),
 ("xyzToOklab", 3, "Gen.BodyV.xyzToOklab", (0,0), [], "Ok.xyzToOklab", "TieV.model_xyzToOklab", 0, "Xyz → Oklab"),
 ("oklabToXyz", 3, "Gen.BodyV.oklabToXyz", (0,0), [], "Ok.oklabToXyz", "TieV.model_oklabToXyz", 0, "Oklab → Xyz"),
 ("linSrgbToOklab", 3, "Gen.BodyV.linSrgbToOklab", (0,0), [], "Ok.linSrgbToOklab", "TieV.model_linSrgbToOklab", 0, "linear sRGB → Oklab (direct)"),
 ("oklabToLinSrgb", 3, "Gen.BodyV.oklabToLinSrgb", (0,0), [], "Ok.oklabToLinSrgb", "TieV.model_oklabToLinSrgb", 0, "Oklab → linear sRGB (direct)"),
 ("oklabToOklch", 3, "Gen.BodyV.oklabToOklch", (0,1), POLAR, "Ok.oklabToOklch", "TieV.model_oklabToOklch", 1, "Oklab → Oklch"),
 ("oklchToOklab", 3, "Gen.BodyV.oklchToOklab", (0,1), CART, "Ok.oklchToOklab", "TieV.model_oklchToOklab", 1, "Oklch → Oklab"),
 ("okhsvToOkhwb", 3, "Gen.BodyV.okhsvToOkhwb", (0,0), [], "Ok.okhsvToOkhwb", "TieV.model_okhsvToOkhwb", 0, "Okhsv → Okhwb"),
 ("okhwbToOkhsv", 3, "Gen.BodyV.okhwbToOkhsv", (0,0), [], "Ok.okhwbToOkhsv", "TieV.model_okhwbToOkhsv", 0, "Okhwb → Okhsv"),
 ("hwbToRgb", 3, "SimdOps.hwbToRgb", (0,0), [], None, "TieV.model_hwbToRgb", 0, "Hwb → Rgb (`Rgb ← Hsv ← Hwb`)"),
 ("rgbToHwb", 3, "SimdOps.rgbToHwb", (0,0), ["neg"], None, "TieV.model_rgbToHwb", 0, "Rgb → Hwb (`Hwb ← Hsv ← Rgb`, mask-generic first hop)"),
]
BLEND = ["multiply", "screen", "overlay", "darken", "lighten", "dodge", "burn", "hardLight", "softLight", "difference", "exclusion"]
for m in BLEND:
    E.append((m + "Blend", 2, "Gen.BodyV." + m + "Blend", (0,0), [], "Blend." + m + "Blend", "TieV.tieV_" + m + "Blend", 0, f"blend mode `{m}` on one component (`src`, `dst`)"))

HANDS = {"hwbToRgb": "RgbFam.hsvToRgb (RgbFam.hwbToHsv {})", "rgbToHwb": "RgbFam.hsvToHwb (RgbFam.rgbToHsvMask {})"}
def rhs(name, hand, la):
    return f"{hand} {la}" if hand else HANDS[name].format(la)

def vars_(shape):
    return {1: "(Tm.var 0)", 2: "(Tm.var 0) (Tm.var 1)", 3: "(vars3 0)", 33: "(vars3 0) (vars3 3)"}[shape]
def args(shape):
    return {1: ["x"], 2: ["x", "y"], 3: ["c"], 33: ["w", "c"]}[shape]
def argty(shape, ty):
    return {1: f"(x : {ty})", 2: f"(x y : {ty})", 3: f"(c : V3 ({ty}))", 33: f"(w c : V3 ({ty}))"}[shape] if shape in (3, 33) else {1: f"(x : {ty})", 2: f"(x y : {ty})"}[shape]
def lane_of(shape, e):
    return f"unpack ({e}) i" if shape in (3, 33) else f"({e}) i"
def lane_args(shape):
    return {1: "(x i)", 2: "(x i) (y i)", 3: "(unpack c i)", 33: "(unpack w i) (unpack c i)"}[shape]

out = []
out.append('''/-
  C17 — every conversion edge that compiles for the SIMD component types: **each lane equals the scalar result**, as instances of the
  lifting lemma.  (GENERATED text layout, plain Lean: one block per edge.)

  Per edge `f` (mask-generic body `Gen.BodyV.f`, re-translated from the Rust text on every run, or glue from `SimdOps.lean`):

  * `f_reified` — the body instantiated at the term algebra `Tm` is a term that (i) evaluates, under the interpretation given by
    *any* instances of the interface, to the body at those instances and (ii) uses only the operations of the stated set: `exactOps`
    or `exactPlus [the non-exact operations the edge uses]`.  Both by `rfl` (kernel evaluation of the syntax).
  * `f_wide` — the parameterised statement.  `W`: **any** implementation of the interface on `Fin n → α` (think: the `wide` type);
    `V`: what one lane computes; assumed: `W` acts lane by lane as `V` *on the operations the edge uses*, and `V` agrees with the
    scalar type's own operations on `exactOps`.  Then lane `i` of the edge computed with `W` is
      - exact-class edges: the **hand model's scalar function** (`Cie.*`, `RgbFam.*`, `Ok.*`, `Transfer.*`, `Blend.*`) at lane `i`'s
        input — bit-identical, whatever `wide` does for `powf`, `sin`, `neg`, …;
      - edges that use approximated operations: the hand model's scalar function *read at `withApprox S V` / `V.angle`*, i.e. the
        same formula with exactly those operations replaced by what a lane of `wide` computes — the conclusion is exact, the only
        difference to the scalar result is the accuracy of the replaced operations themselves (oracle).
  * `f_lanes` — the model's own SIMD representation (`Simd.lanes`: every operation lifted pointwise from the scalar type's, the one
    the driver replays against `wide`): lane `i` of the body at `Lanes n α` = the hand model's function at lane `i`, any `n`.

  `nonExact_table` (end of file) is the decided table "edge ↦ non-exact operations it uses"; it is the oracle's `exact()` / `approx()`
  classification (harness/src/c17.rs), now derived from the source text.
-/
import PaletteProofs.C17_Shapes
import PaletteProofs.C17_TieOps

namespace C17
open Simd

theorem sub_all (P : Op → Bool) : ∀ o, P o = true → allOps o = true := fun _ _ => rfl
''')

for (name, shape, body, (fu, an), ne, hand, model, hang, doc) in E:
    P = OPS(ne)
    a = args(shape)
    bodyfun = "fun " + " ".join(a) + " => " + body + " " + " ".join(a)
    red = f"Reified{shape}"
    out.append(f"/-! ### {doc} -/")
    out.append(f"theorem {name}_reified : {red} {P} ({bodyfun}) ({body} {vars_(shape)}) := ⟨fun {' '.join('_' for _ in a)} => rfl, rfl⟩")
    winst = "W.vscalar" + (" W.vfused" if fu else "") + (" W.angle" if an else "")
    wbody = f"@{body} _ _ {winst} {' '.join(a)}"
    lhs = lane_of(shape, wbody)
    la = lane_args(shape)
    exact = not ne
    handf = hand if hand else None
    if exact:
        needA = " [Angle α]"
        out.append(f"theorem {name}_wide {{α : Type}} [Scalar α] [Angle α] {{n : Nat}} (W : Ops (Lanes n α) (Lanes n Bool)) (V : Ops α Bool)\n"
                   f"    (hW : LaneWise W V exactOps) (hV : AgreeOn V (scalarOps α) exactOps) {argty(shape, 'Lanes n α')} (i : Fin n) :\n"
                   f"    {lhs} = {rhs(name, hand, la)} := by")
        if hand:
            out.append(f"  rw [{name}_reified.exact W V hW hV, {model}]")
        else:
            out.append(f"  rw [{name}_reified.exact W V hW hV]; exact {model} _")
    else:
        uses_ms = "mulSub" in ne
        hyp_ms = " (hms : ∀ x m s, V.mulSub x m s = V.sub (V.mul x m) s)" if uses_ms else ""
        agree = "(agreeOn_withApprox_all V hV hms).mono (sub_all _)" if uses_ms else f"(agreeOn_withApprox V hV).mono (by intro o; cases o <;> decide)"
        hinst = "(withApprox S V)" + (" V.angle" if hang else "")
        out.append(f"theorem {name}_wide {{α : Type}} [S : Scalar α] [Angle α] {{n : Nat}} (W : Ops (Lanes n α) (Lanes n Bool)) (V : Ops α Bool)\n"
                   f"    (hW : LaneWise W V {P}) (hV : AgreeOn V (scalarOps α) exactOps){hyp_ms} {argty(shape, 'Lanes n α')} (i : Fin n) :\n"
                   f"    {lhs} = @{hand if hand else 'id'} α {hinst} {la} := by" if hand else
                   f"theorem {name}_wide {{α : Type}} [S : Scalar α] [Angle α] {{n : Nat}} (W : Ops (Lanes n α) (Lanes n Bool)) (V : Ops α Bool)\n"
                   f"    (hW : LaneWise W V {P}) (hV : AgreeOn V (scalarOps α) exactOps){hyp_ms} {argty(shape, 'Lanes n α')} (i : Fin n) :\n"
                   f"    {lhs} = @RgbFam.hsvToHwb α (withApprox S V) (@RgbFam.rgbToHsvMask α (withApprox S V) {la}) := by")
        out.append(f"  rw [{name}_reified.approx W V hW ({agree})]")
        if hand:
            minst = "(withApprox S V)" + (" V.angle" if hang or an else "")
            out.append(f"  exact congrFun{'₂' if False else ''} (@{model} α {minst}) _" if shape in (1, 3) else
                       f"  exact congrFun (congrFun (@{model} α {minst}) _) _")
        else:
            out.append(f"  exact @{model} α (withApprox S V) _")
    # lanes at the model's own SIMD representation
    needang = " [Angle α]" if an else ""
    out.append(f"theorem {name}_lanes {{α : Type}} [Scalar α]{needang} {{n : Nat}} {argty(shape, 'Lanes n α')} (i : Fin n) :\n"
               f"    {lane_of(shape, body + ' ' + ' '.join(a))} = {rhs(name, hand, la)} := by")
    if an:
        pre = f"have h := {name}_reified.lanes (α := α) {' '.join(a)} i"
    else:
        pre = f"have h := @Reified{shape}.lanes _ _ _ {name}_reified α Bool _ _ ⟨0.0, id, id, fun a _ => a⟩ n {' '.join(a)} i"
    out.append(f"  {pre}")
    if hand:
        out.append(f"  rw [{model}] at h; exact h")
    else:
        out.append(f"  rw [← {model}]; exact h")
    out.append("")

# table
rows = []
for (name, shape, body, (fu, an), ne, hand, model, hang, doc) in E:
    t = f"{body} {vars_(shape)}"
    ts = f"v3Terms ({t})" if shape in (3, 33) else f"[{t}]"
    rows.append((name, ts, ne))
out.append("/-- **which non-exact operations each edge uses** (decided on the syntax obtained from the Rust text): `[]` = every lane is\n"
           "    bit-identical to the scalar result given only IEEE `+ − × ÷ abs sqrt min max`, comparisons, `blend` and palette's own lane loops\n"
           "    (`cbrt floor ceil`).  `neg`: `wide` computes `0 − x` (sign of a zero result); `powf sin cos atan2`: polynomial\n"
           "    approximations; `mul_add`/`mul_sub`: fused or not by target feature; `hypot`: `sqrt(a² + b²)`; `to_degrees/to_radians`, π:\n"
           "    factor computed in the lane type. -/")
out.append("theorem nonExact_table :\n    [" + ",\n     ".join(f'("{n}", nonExact ({ts}))' for n, ts, _ in rows) + "]\n  = [" +
           ",\n     ".join(f'("{n}", [' + ", ".join("Op." + o for o in sorted_ne) + "])" for n, _, sorted_ne in rows) + "] := by\n  decide +kernel")
out.append("\nend C17")
open(os.path.join(os.path.dirname(os.path.dirname(os.path.abspath(__file__))), "lean", "PaletteProofs", "C17_Edges.lean"), "w").write("\n".join(out) + "\n")
