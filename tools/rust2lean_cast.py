#!/usr/bin/env python3
"""
rust2lean_cast -- translate the *arithmetic and control flow* of palette's zero-copy casts (C04) into Lean: family `cast`.

Sources, re-read on every run (tools/extract_plugins/cast.py):
  * palette/src/cast/array.rs and cast/uint.rs: EVERY `pub fn` / `pub const fn` at file scope (the list is derived from the file, a new
    function without registration / tie stops the run);
  * cast/as_arrays_traits.rs, as_components_traits.rs, as_uints_traits.rs, from_into_arrays_traits.rs, from_into_components_traits.rs,
    from_into_uints_traits.rs: every method body of every `impl`, the macro-generated ones read from the expansion of the *actual invocations*
    (`impl_as_arrays!([C], [C; M] where (const M: usize))`, ..) against the `macro_rules!` arms as written now (tools/rust_macros.py).
Output: lean/PaletteModel/Gen/BodiesCast.lean (namespace `Gen.BodyCast`), tied in lean/PaletteProofs/Tie_Cast.lean (free functions) and
Tie_CastTraits.lean (which free function each trait method forwards to).

What is translated is everything *around* the unsafe pointer work; the pointer work itself has the reading of PaletteModel/BodyPrimCast.lean
(same tokenizer / Pratt parser as tools/rust2lean.py; this file adds `unsafe { .. }` blocks, `assert!` / `assert_eq!`, string literals and a
*typed, panic-aware* lowering):
  * every translated function takes `{α : Type} (sizeOf alignOf : CPrim.Ty → Nat) (n : Nat)`, its const generics (`(N M : Nat)`), then its Rust
    parameters, and returns `CPrim.Res τ` (value or panic).  `core::mem::size_of::<X>()` / `align_of::<X>()` -> `sizeOf ⟦X⟧` / `alignOf ⟦X⟧` with
    `⟦T⟧ = .var 0` (i-th type parameter), `⟦X::Array⟧ = .array ⟦X⟧`, `⟦X::Uint⟧ = .uint ⟦X⟧`, `⟦<X::Array as ArrayExt>::Item⟧ = .item ⟦X⟧`,
    `⟦[X; K]⟧ = .arr ⟦X⟧ K`;  `X::Array::LENGTH` (the channel count) -> `n`
  * statements, in source order: `assert_eq!(a, b, <message ..>);` -> `CPrim.assertEq a b <| rest` (the message arguments are not evaluated for
    the value), `assert!(c);` -> `CPrim.assert c <| rest`, `let x = e;` -> `let x := e` (type annotations `*const T` / `*mut [T]` are the
    reference-to-raw-pointer coercion: same address), `if c { return e; }` -> `if c then <e> else rest`; `unsafe { e }` -> `e`
  * `usize` arithmetic `* / % + -` on `Nat` (lengths and capacities of existing buffers: no overflow), `==` / `!=` -> `=` / `≠` (decidable `Prop`s)
  * Rust types -> Lean types (parameter and return types are *derived from the signature*): `&[E]`, `&mut [E]`, `Box<[E]>` -> `CPrim.Slice α`;
    `Vec<E>`, `[E; K]`, `&Vec<E>`, `&[E; K]` -> `Cast.Buf α` (the model's raw parts); `&E`, `&mut E`, `Box<E>` -> `CPrim.Ptr α`; a bare type
    parameter / associated type by value -> `β`; `Result<A, E>` -> `Except E A`; the three error types -> `CPrim.SliceCastError`,
    `CPrim.BoxedSliceCastError α`, `CPrim.VecCastError α` (field lists / variants compared with the source); `Infallible` -> `Empty`
  * `x.len()` -> `x.len`, `x.capacity()` -> `x.cap`, `x.as_ptr()` / `as_mut_ptr()` -> `x.asPtr` / `x.asMutPtr`, `p.cast::<U>()` -> `p.cast`,
    `core::slice::from_raw_parts(_mut)(p, l)` -> `CPrim.sliceFromRawParts(Mut) p l`, `Vec::from_raw_parts(p, l, c)` -> `CPrim.vecFromRawParts p l c`,
    `ManuallyDrop::new / into_inner`, `Box::leak / into_raw / from_raw`, `transmute_copy(&x)` -> the named identities of BodyPrimCast.lean
    (`transmute_copy` into a declared return type `[_; K]` -> `CPrim.transmuteArray K x`), `&*p` / `&mut *p` -> `CPrim.reborrow p`, `&x` -> `x`,
    `x.as_ref()` / `x.as_mut()` -> `x.asRefSlice`; an argument of type `Cast.Buf α` passed where the callee takes a slice -> `.asRefSlice` (deref coercion)
  * a call of another translated function is *monadic*: it is bound (`CPrim.Res.bind (callee sizeOf alignOf n ..) fun t => ..`) before the
    expression that uses it, in evaluation order; the callee's const generics are inferred as rustc does (from the array length of the argument,
    else the same-named const of the caller); `r.unwrap()` -> `CPrim.unwrap r`; `Ok` / `Err` -> `Except.ok` / `Except.error`
  * blanket impls (`impl<T, C> ArraysFrom<C> for T where C: IntoArrays<T>`): dictionary passing as in tools/rust2lean_glue.py - the trait-dispatched
    callee is a parameter (`BLANKET`)
Anything else raises `Untranslatable` (extract: `die`, i.e. `broken[extraction]`); so does a translated body without its `tie_` theorem.
"""
import re, os, sys
sys.path.insert(0, os.path.dirname(os.path.abspath(__file__)))
import rust2lean as R
import rust_macros
from rust2lean import Untranslatable, fail, tokenize, find_fn, strip_comments, split_top, struct_fields, enum_variants, match_brace

ARRAY_RS, UINT_RS = "cast/array.rs", "cast/uint.rs"
TRAIT_FILES = ["cast/as_arrays_traits.rs", "cast/as_components_traits.rs", "cast/as_uints_traits.rs",
               "cast/from_into_arrays_traits.rs", "cast/from_into_components_traits.rs", "cast/from_into_uints_traits.rs"]

SLICE, BUF, PTR, VAL, NAT, PROP = "CPrim.Slice α", "Cast.Buf α", "CPrim.Ptr α", "β", "Nat", "Prop"

def camel(s):
    p = s.split("_")
    return p[0] + "".join(w[:1].upper() + w[1:] for w in p[1:])

def cut_tests(src):
    return src.split("#[cfg(test)]")[0]

def prep(src):
    """string literals (assert messages) are not tokens of the shared tokenizer"""
    return re.sub(r'"(?:[^"\\]|\\.)*"', "__str", src)

def squeeze(t):
    """normalised type text: no lifetimes, no spaces except between two words (`&mut [T]`, `X as Y`)"""
    t = re.sub(r"'\w+", " ", t)
    parts = re.findall(r"\w+|[^\w\s]", t)
    out = ""
    for p in parts:
        if out and re.match(r"\w", p) and re.match(r"\w", out[-1]): out += " "
        out += p
    for pre in ("alloc::boxed::", "alloc::vec::", "core::convert::", "core::result::"):
        out = out.replace(pre, "")
    return out

# ------------------------------------------------------------------------------------------------ parser extensions
class CastParser(R.Parser):
    """the shared parser + `unsafe { .. }` (a block whose value is the value of its body)"""
    def atom(self, no_struct):
        k, v = self.peek()
        if k == "id" and v == "unsafe" and self.peek(1)[1] == "{":
            self.i += 1
            return ("unsafe", self.block())
        return super().atom(no_struct)

def assert_hook(name, toks):
    """`assert_eq!(..)` / `assert!(..)` -> a call of the reserved function `__assert_eq` / `__assert` (the lowering reads it as a statement)"""
    if name in ("assert_eq", "assert"):
        return [("id", "__" + name), ("op", "(")] + list(toks) + [("op", ")")]
    return None

def parse_body(body):
    old = R.EXPR_MACRO_HOOK
    R.EXPR_MACRO_HOOK = assert_hook
    try:
        p = CastParser(tokenize(prep(body)))
        blk = p.block()
        if p.peek()[0] != "eof": fail("trailing tokens after the body")
        return blk
    finally:
        R.EXPR_MACRO_HOOK = old

# ------------------------------------------------------------------------------------------------ types
class Sig:
    """the generic context of one function: type parameters (in order), const generics, Self type, associated `Error`, blanket type map"""
    def __init__(self, tparams, consts, self_ty=None, error_ty=None, tymap=None):
        self.tparams, self.consts, self.self_ty, self.error_ty, self.tymap = tparams, consts, self_ty, error_ty, tymap or {}

def parse_generics(text):
    """`<'a, T, C, const N: usize, F>` -> ([type params], [const generics])"""
    tps, cs = [], []
    text = text.strip()
    if text.startswith("<"): text = text[1:-1]
    for part in split_top(text):
        part = part.strip()
        if not part or part.startswith("'"): continue
        m = re.match(r"const\s+(\w+)\s*:", part)
        if m: cs.append(m.group(1)); continue
        m = re.match(r"(\w+)", part)
        tps.append(m.group(1))
    return tps, cs

def split_semicolon(inner):
    depth = 0
    for i, ch in enumerate(inner):
        if ch in "([<": depth += 1
        elif ch in ")]>": depth -= 1
        elif ch == ";" and depth == 0: return inner[:i], inner[i + 1:]
    return inner, None

def lean_type(t, sig):
    """normalised Rust type -> (Lean type, array length | None)"""
    t = squeeze(t)
    ref = False
    if re.match(r"&mut\b", t): t, ref = t[4:].strip(), True
    elif t.startswith("&"): t, ref = t[1:], True
    if t == "Self":
        if sig.self_ty is None: fail("`Self` outside an impl")
        t2 = squeeze(sig.self_ty)
        if ref and t2.startswith("&"): fail("reference to a reference")
        ty, al = lean_type(t2, sig)
        if ref and ty == VAL: return PTR, None
        return ty, al
    if t == "Self::Error":
        if sig.error_ty is None: fail("`Self::Error` without `type Error = ..;`")
        return lean_type(sig.error_ty, sig)
    if t in sig.tymap and (not ref or sig.tymap.get("__blanket")): return sig.tymap[t], None
    if t.startswith("[") and t.endswith("]"):
        a, k = split_semicolon(t[1:-1])
        if k is None: return SLICE, None
        return BUF, k.strip()
    m = re.fullmatch(r"Vec<(.*)>", t)
    if m: return BUF, None
    m = re.fullmatch(r"Box<(.*)>", t)
    if m:
        inner = m.group(1)
        if inner.startswith("["):
            a, k = split_semicolon(inner[1:-1])
            if k is not None: fail(f"boxed array {t}")
            return SLICE, None
        return PTR, None
    m = re.fullmatch(r"Result<(.*)>", t)
    if m:
        a, e = [x.strip() for x in split_top(m.group(1))]
        return f"Except ({lean_type(e, sig)[0]}) ({lean_type(a, sig)[0]})", None
    if t == "SliceCastError": return "CPrim.SliceCastError", None
    if re.fullmatch(r"BoxedSliceCastError<.*>", t): return "CPrim.BoxedSliceCastError α", None
    if re.fullmatch(r"VecCastError<.*>", t): return "CPrim.VecCastError α", None
    if t == "Infallible": return "Empty", None
    if re.fullmatch(r"(\w+)(::(Array|Uint))?", t) and t.split("::")[0] in sig.tparams:
        return (PTR if ref else VAL), None
    fail(f"type `{t}` is outside the translated subset")

def ty_term(text, sig):
    """the argument of `size_of::<..>` -> a `CPrim.Ty` term"""
    t = squeeze(text)
    if t.startswith("[") and t.endswith("]"):
        a, k = split_semicolon(t[1:-1])
        if k is None: fail(f"size_of an unsized type `{t}`")
        k = k.strip()
        if not (k in sig.consts or k.isdigit()): fail(f"array length `{k}` is not a const generic of the function")
        return f"(.arr {ty_term(a, sig)} {k})"
    m = re.fullmatch(r"<(\w+)::Array as ArrayExt>::Item", t)
    if m: return f"(.item {ty_term(m.group(1), sig)})"
    m = re.fullmatch(r"(\w+)::Array", t)
    if m: return f"(.array {ty_term(m.group(1), sig)})"
    m = re.fullmatch(r"(\w+)::Uint", t)
    if m: return f"(.uint {ty_term(m.group(1), sig)})"
    if t in sig.tparams: return f"(.var {sig.tparams.index(t)})"
    fail(f"size_of / align_of of `{t}`: not a type expression of the translated subset")

# ------------------------------------------------------------------------------------------------ lowering
class V:
    def __init__(self, code, ty, alen=None): self.code, self.ty, self.alen = code, ty, alen

IDENT_CALLS = {"ManuallyDrop::new": "CPrim.manuallyDropNew", "ManuallyDrop::into_inner": "CPrim.manuallyDropIntoInner",
               "Box::leak": "CPrim.boxLeak", "Box::into_raw": "CPrim.boxIntoRaw", "Box::from_raw": "CPrim.boxFromRaw"}
KIND = {"LengthMismatch": "lengthMismatch", "CapacityMismatch": "capacityMismatch"}

class Lower:
    def __init__(self, sig, registry, ret_ty, ret_alen, dict_=None):
        self.sig, self.registry, self.ret_ty, self.ret_alen = sig, registry, ret_ty, ret_alen
        self.dict = dict_ or {}
        self.pre, self.n = [], 0
        self.deps = set()

    def tmp(self):
        self.n += 1
        return f"t{self.n}"

    def hoist(self, mcode, ty, alen=None):
        t = self.tmp()
        self.pre.append((t, mcode, ty))
        return V(t, ty, alen)

    # ---- expressions
    def expr(self, e, env):
        k = e[0]
        if k == "num":
            if not re.fullmatch(r"\d+(usize)?", e[1]): fail(f"literal {e[1]}")
            return V(e[1].replace("usize", ""), NAT)
        if k == "path": return self.path(e, env)
        if k == "unsafe": return self.block_value(e[1], env)
        if k == "block": return self.block_value(e, env)
        if k == "unary":
            if e[1] == "&" and e[2][0] == "unary" and e[2][1] == "*":
                x = self.expr(e[2][2], env)
                return V(f"(CPrim.reborrow {x.code})", x.ty, x.alen)
            if e[1] in ("&", "*"): return self.expr(e[2], env)
            fail(f"unary operator {e[1]!r}")
        if k == "binary": return self.binary(e, env)
        if k == "call": return self.call(e, env)
        if k == "mcall": return self.mcall(e, env)
        if k == "struct": return self.struct_lit(e, env)
        fail(f"expression kind {k!r} is outside the cast subset")

    def path(self, e, env):
        segs = e[1]
        if len(segs) == 1:
            nme = segs[0]
            if nme in env: return env[nme]
            if nme in self.sig.consts: return V(nme, NAT)
            if nme == "SliceCastError": return V("CPrim.SliceCastError.mk", "CPrim.SliceCastError")
        if len(segs) == 3 and segs[1] == "Array" and segs[2] == "LENGTH" and segs[0] in self.sig.tparams:
            return V("n", NAT)
        if len(segs) == 2 and segs[0] == "VecCastErrorKind" and segs[1] in KIND:
            return V("CPrim.VecCastErrorKind." + KIND[segs[1]], "CPrim.VecCastErrorKind")
        fail(f"path `{'::'.join(segs)}` is neither a local, a const generic nor a registered constant")

    def binary(self, e, env):
        op, a, b = e[1], self.expr(e[2], env), self.expr(e[3], env)
        if a.ty != NAT or b.ty != NAT: fail(f"operator {op!r} on non-`usize` operands")
        if op in ("*", "/", "%", "+", "-"): return V(f"({a.code} {op} {b.code})", NAT)
        if op == "==": return V(f"({a.code} = {b.code})", PROP)
        if op == "!=": return V(f"({a.code} ≠ {b.code})", PROP)
        fail(f"operator {op!r} is outside the cast subset")

    def call(self, e, env):
        f, args = e[1], e[2]
        if f[0] != "path": fail("call of a computed function")
        segs, gens = f[1], f[2]
        for pre in (["core", "mem"], ["core", "slice"], ["alloc", "vec"], ["alloc", "boxed"], ["core", "ptr"], ["super"]):
            if segs[:len(pre)] == pre and len(segs) > len(pre): segs = segs[len(pre):]
        key = "::".join(segs)
        if key in ("size_of", "align_of"):
            if args or len(gens) != 1: fail(f"{key}: expected `{key}::<X>()`")
            return V(f"({'sizeOf' if key == 'size_of' else 'alignOf'} {ty_term(gens[0], self.sig)})", NAT)
        if key in ("__assert", "__assert_eq"): fail("assert in value position")
        if key in ("from_raw_parts", "from_raw_parts_mut") and len(args) == 2:
            p, l = self.expr(args[0], env), self.expr(args[1], env)
            if p.ty != PTR or l.ty != NAT: fail(f"slice::{key}: expected (pointer, usize)")
            return V(f"(CPrim.sliceFromRawParts{'Mut' if key.endswith('mut') else ''} {p.code} {l.code})", SLICE)
        if key == "Vec::from_raw_parts" and len(args) == 3:
            p, l, c = [self.expr(x, env) for x in args]
            if p.ty != PTR or l.ty != NAT or c.ty != NAT: fail("Vec::from_raw_parts: expected (pointer, usize, usize)")
            return V(f"(CPrim.vecFromRawParts {p.code} {l.code} {c.code})", BUF)
        if key in IDENT_CALLS and len(args) == 1:
            x = self.expr(args[0], env)
            return V(f"({IDENT_CALLS[key]} {x.code})", x.ty, x.alen)
        if key == "transmute_copy" and len(args) == 1:
            x = self.expr(args[0], env)
            if self.ret_alen is not None:
                if x.ty != BUF: fail("transmute_copy into an array type from a non-array")
                return V(f"(CPrim.transmuteArray {self.ret_alen} {x.code})", BUF, self.ret_alen)
            return V(f"(CPrim.transmuteCopy {x.code})", x.ty, x.alen)
        if key in ("Ok", "Err") and len(args) == 1:
            x = self.expr(args[0], env)
            m = re.fullmatch(r"Except \((.*?)\) \((.*)\)", self.ret_ty)
            if not m: fail(f"`{key}(..)` in a function that does not return a `Result`")
            want = m.group(2) if key == "Ok" else m.group(1)
            if x.ty != want: fail(f"`{key}({x.code})`: the payload has type {x.ty}, the signature says {want}")
            return V(f"(Except.{'ok' if key == 'Ok' else 'error'} {x.code})", self.ret_ty)
        if key in self.dict:
            lname_, lty, argtys, rty = self.dict[key]
            xs = [self.expr(x, env) for x in args]
            return self.hoist("(" + " ".join([lname_] + [x.code for x in xs]) + ")", rty)
        if len(segs) == 1 and key in self.registry:
            return self.call_translated(self.registry[key], args, gens, env)
        fail(f"call of `{key}`: not a reading of BodyPrimCast.lean and not a translated function")

    def call_translated(self, rec, args, gens, env):
        if len(args) != len(rec["ptys"]): fail(f"call of {rec['rust']}: {len(args)} arguments, the function takes {len(rec['ptys'])}")
        xs, binds = [], {}
        for a, (pty, palen) in zip(args, rec["ptys"]):
            x = self.expr(a, env)
            code = x.code
            if x.ty == BUF and pty == SLICE: code = f"{code}.asRefSlice"        # deref coercion `&Vec<E>` / `&[E; K]` -> `&[E]`
            elif x.ty != pty: fail(f"call of {rec['rust']}: argument of type {x.ty}, parameter of type {pty}")
            if palen is not None and palen in rec["consts"]:
                if x.alen is None: fail(f"call of {rec['rust']}: cannot infer the const generic {palen}")
                binds[palen] = x.alen
            xs.append(code)
        cs = []
        for c in rec["consts"]:
            if c in binds: cs.append(binds[c])
            elif c in self.sig.consts: cs.append(c)
            else: fail(f"call of {rec['rust']}: const generic {c} cannot be inferred")
        lay = "sizeOf alignOf"
        if gens:
            if len(gens) != 1: fail("turbofish with more than one argument")
            g = squeeze(gens[0])
            if g not in self.sig.tparams: fail(f"turbofish `{g}`")
            i = self.sig.tparams.index(g)
            if i != 0: lay = f"(fun t => sizeOf (t.inst (.var {i}))) (fun t => alignOf (t.inst (.var {i})))"
        elif rec["rust"] in self.sig.tymap.get("__inst", {}):
            i = self.sig.tymap["__inst"][rec["rust"]]
            if i != 0: lay = f"(fun t => sizeOf (t.inst (.var {i}))) (fun t => alignOf (t.inst (.var {i})))"
        alen = rec["ralen"]
        if alen in binds: alen = binds[alen]
        self.deps.add(rec["rust"])
        return self.hoist("(" + " ".join([rec["lean"], lay, "n"] + cs + xs) + ")", rec["rty"], alen)

    def mcall(self, e, env):
        recv, m, args = e[1], e[2], e[3]
        rn = recv[1][0] if recv[0] == "path" and len(recv[1]) == 1 else None
        for key in ([f"{rn}.{m}"] if rn else []) + ["." + m]:
            if key in self.dict:
                lname_, lty, argtys, rty = self.dict[key]
                xs = [self.expr(recv, env)] + [self.expr(x, env) for x in args]
                return self.hoist("(" + " ".join([lname_] + [x.code for x in xs]) + ")", rty)
        x = self.expr(recv, env)
        if args: fail(f"method .{m}(..) with arguments")
        if m == "len" and x.ty in (SLICE, BUF): return V(f"{x.code}.len", NAT)
        if m == "capacity" and x.ty == BUF: return V(f"{x.code}.cap", NAT)
        if m in ("as_ptr", "as_mut_ptr") and x.ty in (SLICE, BUF): return V(f"{x.code}.{camel(m)}", PTR)
        if m == "cast" and x.ty == PTR: return V(f"{x.code}.cast", PTR)
        if m in ("as_ref", "as_mut") and x.ty in (SLICE, BUF): return V(f"{x.code}.asRefSlice", SLICE)
        if m == "unwrap":
            mm = re.fullmatch(r"Except \((.*?)\) \((.*)\)", x.ty)
            if not mm: fail(".unwrap() on a value that is not a `Result`")
            return self.hoist(f"(CPrim.unwrap {x.code})", mm.group(2))
        fail(f"method .{m}() on a value of type {x.ty} is outside the cast subset")

    def struct_lit(self, e, env):
        name = e[1][1][-1]
        if e[3] is not None: fail("struct update syntax")
        got = {f: self.expr(x, env) for f, x in e[2]}
        spec = {"BoxedSliceCastError": ("CPrim.BoxedSliceCastError.mk", [("values", SLICE)], "CPrim.BoxedSliceCastError α"),
                "VecCastError": ("CPrim.VecCastError.mk", [("kind", "CPrim.VecCastErrorKind"), ("values", BUF)], "CPrim.VecCastError α")}.get(name)
        if spec is None: fail(f"struct literal of the unregistered struct {name}")
        mk, fields, ty = spec
        if sorted(got) != sorted(f for f, _ in fields): fail(f"struct literal {name}: fields {sorted(got)}")
        for f, fty in fields:
            if got[f].ty != fty: fail(f"struct literal {name}: field {f} has type {got[f].ty}, expected {fty}")
        return V("(" + " ".join([mk] + [got[f].code for f, _ in fields]) + ")", ty)

    # ---- statements
    def flush(self, lines):
        for (t, mcode, ty) in self.pre: lines.append(f"CPrim.Res.bind {mcode} fun {t} =>")
        self.pre = []

    def ret(self, e, env, lines):
        """the function's value: `lines` so far + the final term"""
        v = self.expr(e, env)
        if self.pre and self.pre[-1][0] == v.code:          # the value *is* the last monadic step
            t, mcode, ty = self.pre.pop()
            self.flush(lines)
            if ty != self.ret_ty: fail(f"the value has type {ty}, the signature says {self.ret_ty}")
            return lines + [mcode]
        self.flush(lines)
        if v.ty != self.ret_ty: fail(f"the value has type {v.ty}, the signature says {self.ret_ty}")
        return lines + [f".val {v.code}"]

    def block_value(self, b, env):
        """a block in value position: only `{ e }` (the `unsafe { .. }` wrappers)"""
        if b[1]: fail("a nested block with statements")
        if b[2] is None: fail("a nested block without value")
        return self.expr(b[2], env)

    def is_return_block(self, b):
        if b[0] != "block": return None
        if not b[1] and b[2] is not None and b[2][0] == "return": return b[2][1]
        if len(b[1]) == 1 and b[2] is None and b[1][0][0] == "expr" and b[1][0][1][0] == "return": return b[1][0][1][1]
        return None

    def body(self, b, env):
        lines = []
        env = dict(env)
        stmts = list(b[1])
        tail = b[2]
        if tail is None and stmts and stmts[-1][0] == "expr" and stmts[-1][1][0] in ("unsafe", "return"):
            tail = stmts.pop()[1]
        for s in stmts:
            if s[0] == "let":
                pat, ty, init = s[1], s[2], s[3]
                if pat[0] != "pid" or init is None: fail("let: only `let [mut] x [: T] = e;`")
                v = self.expr(init, env)
                self.flush(lines)
                nme = R.lname(pat[1])
                if v.code != nme: lines.append(f"let {nme} := {v.code}")
                env[pat[1]] = V(nme, v.ty, v.alen)
            elif s[0] == "expr":
                x = s[1]
                if x[0] == "call" and x[1][0] == "path" and x[1][1] == ["__assert_eq"]:
                    if len(x[2]) < 2: fail("assert_eq!: two operands expected")
                    a, c = self.expr(x[2][0], env), self.expr(x[2][1], env)
                    if a.ty != NAT or c.ty != NAT: fail("assert_eq!: operands must be `usize`")
                    self.flush(lines)
                    lines.append(f"CPrim.assertEq {a.code} {c.code} <|")
                elif x[0] == "call" and x[1][0] == "path" and x[1][1] == ["__assert"]:
                    if len(x[2]) != 1: fail("assert!: one operand expected")
                    c = self.expr(x[2][0], env)
                    if c.ty != PROP: fail("assert!: the operand must be a comparison")
                    self.flush(lines)
                    lines.append(f"CPrim.assert {c.code} <|")
                elif x[0] == "if" and x[3] is None and self.is_return_block(x[2]) is not None:
                    c = self.expr(x[1], env)
                    if c.ty != PROP: fail("if: the condition must be a comparison")
                    self.flush(lines)
                    sub = Lower(self.sig, self.registry, self.ret_ty, self.ret_alen, self.dict)
                    sub.n = self.n
                    rl = sub.ret(self.is_return_block(x[2]), env, [])
                    self.n = sub.n
                    self.deps |= sub.deps
                    lines.append(f"if {c.code} then (" + " ".join(rl) + ") else")
                else: fail(f"statement of kind {x[0]!r} is outside the cast subset")
            else: fail(f"statement {s[0]!r} is outside the cast subset")
        if tail is None: fail("the body has no value")
        if tail[0] == "return": tail = tail[1]
        return self.ret(tail, env, lines)

# ------------------------------------------------------------------------------------------------ one function
def param_list(text, sig):
    """[(rust name, lean type, alen)]; `self` forms take the impl's Self type"""
    out = []
    for p in split_top(text):
        p = p.strip()
        if not p: continue
        m = re.fullmatch(r"(&\s*(?:'\w+\s+)?)?(mut\s+)?self", p)
        if m:
            if sig.self_ty is None: fail("`self` outside an impl")
            ty, al = lean_type(("&" if m.group(1) else "") + sig.self_ty, sig) if not (m.group(1) and squeeze(sig.self_ty).startswith("&")) else fail("`&self` on a reference type")
            out.append(("self", ty, al)); continue
        m = re.match(r"(?:mut\s+)?(\w+)\s*:\s*(.*)$", p, re.S)
        if not m: fail(f"parameter {p!r}")
        ty, al = lean_type(m.group(2), sig)
        out.append((m.group(1), ty, al))
    return out

def signature(lean_name, sig, params, ret, rust_name):
    ps = param_list(params, sig)
    rty, ralen = lean_type(ret, sig) if ret.strip() else fail("a function without return type")
    return dict(lean="Gen.BodyCast." + lean_name, rust=rust_name, ptys=[(ty, al) for (_n, ty, al) in ps], rty=rty, ralen=ralen, consts=list(sig.consts))

def translate_fn(lean_name, doc, sig, params, ret, body, registry, rust_name, dict_=None, extra_binders=""):
    ps = param_list(params, sig)
    rty, ralen = lean_type(ret, sig) if ret.strip() else fail("a function without return type")
    blk = parse_body(body)
    lw = Lower(sig, registry, rty, ralen, {k: v for k, v in (dict_ or {}).items()})
    env = {}
    for (nme, ty, al) in ps:
        env[nme] = V("self_" if nme == "self" else R.lname(nme), ty, al)
    lines = lw.body(blk, env)
    uses_beta = any(ty == VAL for _, ty, _ in ps) or VAL in rty
    uses_alpha = any("α" in ty for _, ty, _ in ps) or "α" in rty
    binders = (["{α : Type}"] if uses_alpha else []) + (["{β : Type}"] if uses_beta else []) + ([extra_binders] if extra_binders else []) + \
              ["(sizeOf alignOf : CPrim.Ty → Nat)", "(n : Nat)"] + ([f"({' '.join(sig.consts)} : Nat)"] if sig.consts else []) + \
              [f"({lname_} : {lty})" for (lname_, lty, _a, _r) in (dict_ or {}).values()] + \
              [f"({env[nme].code} : {ty})" for (nme, ty, _al) in ps]
    text = f"/-- {doc} -/\ndef {lean_name} " + " ".join(binders) + f" : CPrim.Res ({rty}) :=\n" + "".join(f"  {l}\n" for l in lines)
    rec = dict(lean="Gen.BodyCast." + lean_name, rust=rust_name, ptys=[(ty, al) for (_n, ty, al) in ps], rty=rty, ralen=ralen, consts=list(sig.consts),
               deps=sorted(lw.deps))
    return text, rec

def topo(items):
    """[(rust name, text, deps)] -> texts, every definition after the definitions it calls (source order otherwise)"""
    done, out = set(), []
    names = {n for n, _t, _d in items}
    def visit(it, stack=()):
        n, t, d = it
        if n in done: return
        if n in stack: fail(f"recursive call chain through {n}")
        for dep in d:
            if dep in names: visit(next(x for x in items if x[0] == dep), stack + (n,))
        done.add(n); out.append(t)
    for it in items: visit(it)
    return out

# ------------------------------------------------------------------------------------------------ free functions of array.rs / uint.rs
def free_fns(src):
    """[(name, generics text)] of every `pub fn` / `pub const fn` at file scope, in source order"""
    out = []
    depth = 0
    i = 0
    # file scope: brace depth 0
    for m in re.finditer(r"[{}]|\bpub\s+(?:const\s+)?(?:unsafe\s+)?fn\s+(\w+)\s*(<[^({]*>)?\s*\(", src):
        tok = m.group(0)
        if tok == "{": depth += 1
        elif tok == "}": depth -= 1
        elif depth == 0: out.append((m.group(1), m.group(2) or ""))
    return out

# model function each free function is tied to (Tie_Cast.lean): a function of the file without an entry here stops the run
MODEL_FREE = {}
for _n in ("into_array", "from_array", "into_array_ref", "from_array_ref", "into_array_mut", "from_array_mut", "into_array_array", "from_array_array",
           "into_array_slice", "from_array_slice", "into_array_slice_mut", "from_array_slice_mut", "into_array_box", "from_array_box",
           "into_array_slice_box", "from_array_slice_box", "into_array_vec", "from_array_vec",
           "into_uint", "from_uint", "into_uint_ref", "from_uint_ref", "into_uint_mut", "from_uint_mut", "into_uint_array", "from_uint_array",
           "into_uint_slice", "from_uint_slice", "into_uint_slice_mut", "from_uint_slice_mut", "into_uint_slice_box", "from_uint_slice_box",
           "into_uint_vec", "from_uint_vec"):
    MODEL_FREE[_n] = "CastForms.sameUnit"
for _n in ("into_component_slice", "into_component_slice_mut", "into_component_slice_box", "into_component_vec"):
    MODEL_FREE[_n] = "CastForms.intoComponents"
MODEL_FREE.update({
    "into_component_array": "CastForms.intoComponentArray", "from_component_array": "CastForms.fromComponentArray",
    "try_from_component_slice": "CastForms.tryFromComponentSlice", "try_from_component_slice_mut": "CastForms.tryFromComponentSlice",
    "from_component_slice": "CastForms.fromComponentSlice", "from_component_slice_mut": "CastForms.fromComponentSlice",
    "try_from_component_slice_box": "CastForms.tryFromComponentSliceBox", "from_component_slice_box": "CastForms.fromComponentSliceBox",
    "try_from_component_vec": "CastForms.tryFromComponentVec", "from_component_vec": "CastForms.fromComponentVec",
})
# bodies of array.rs that are NOT translated (reason in UNTRANSLATED)
SKIP_FREE = {"map_vec_in_place", "map_slice_box_in_place"}

def check_decls(src):
    """the error types read by BodyPrimCast.lean"""
    if not re.search(r"\bpub\s+struct\s+SliceCastError\s*;", src): fail("`pub struct SliceCastError;` (unit struct) not found")
    got = [f for f, _ in struct_fields(src, "BoxedSliceCastError")]
    if got != ["values"]: fail(f"struct BoxedSliceCastError: fields {got}, CPrim.BoxedSliceCastError has [values]")
    got = [(f, squeeze(t)) for f, t in struct_fields(src, "VecCastError")]
    if got != [("kind", "VecCastErrorKind"), ("values", "Vec<T>")]: fail(f"struct VecCastError: fields {got}, CPrim.VecCastError has kind : VecCastErrorKind, values : Vec<T>")
    m = re.search(r"\bstruct\s+BoxedSliceCastError\b[^{;(]*\{([^}]*)\}", src)
    if not re.search(r"values\s*:\s*Box\s*<\s*\[\s*T\s*\]\s*>", m.group(1)): fail("BoxedSliceCastError.values is not `Box<[T]>`")
    got = enum_variants(src, "VecCastErrorKind")
    if got != [("LengthMismatch", 0), ("CapacityMismatch", 0)]: fail(f"enum VecCastErrorKind: variants {got}")

def translate_free(read_src, file, registry, defs, tied):
    src = cut_tests(read_src(file))
    if file == ARRAY_RS: check_decls(src)
    fns = []
    for (fn, gen) in free_fns(src):
        if fn in SKIP_FREE: continue
        if fn not in MODEL_FREE:
            fail(f"{file}: `pub fn {fn}` has no registration in tools/rust2lean_cast.py (MODEL_FREE): a new cast function needs a model function and a tie")
        if fn in registry: fail(f"{file}: `pub fn {fn}` is defined twice")
        tps, cs = parse_generics(gen)
        sig = Sig(tps, cs)
        params, ret, body = find_fn(src, None, fn)
        try:
            registry[fn] = signature(camel(fn), sig, params, ret, fn)      # the functions call each other before their definition
        except Untranslatable as e:
            raise Untranslatable(f"signature of {fn} ({file}): {e}")
        fns.append((fn, sig, params, ret, body))
    for fn in sorted(set(MODEL_FREE) - set(registry)):
        if file == UINT_RS: fail(f"registered cast function `{fn}` was not found in {ARRAY_RS} / {UINT_RS}")
    items = []
    for (fn, sig, params, ret, body) in fns:
        name = camel(fn)
        try:
            text, rec = translate_fn(name, f"`{file}`: `pub fn {fn}`", sig, params, ret, body, registry, fn)
        except Untranslatable as e:
            raise Untranslatable(f"body {name} ({file}: fn {fn}): {e}")
        items.append((fn, text, rec["deps"]))
        tied.append((name, MODEL_FREE[fn], "Tie_Cast.lean"))
    defs.extend(topo(items))

# ------------------------------------------------------------------------------------------------ trait impls
def expand_file(read_src, file):
    """the file with every invocation of a locally defined `macro_rules!` macro replaced by its expansion (and the definitions removed)"""
    src = cut_tests(read_src(file))
    names = re.findall(r"\bmacro_rules!\s+(\w+)", src)
    eng = rust_macros.Engine(lambda f: src, tokenize, [file])
    out = src
    for nme in names:             # drop the definitions
        m = re.search(r"\bmacro_rules!\s+" + nme + r"\s*\{", out)
        j = match_brace(out, m.end() - 1)
        out = out[:m.start()] + out[j:]
    for nme in names:
        while True:
            m = re.search(r"(?<![\w$!])" + nme + r"\s*!\s*\(", out)
            if not m: break
            i, depth = m.end() - 1, 0
            for j in range(i, len(out)):
                if out[j] == "(": depth += 1
                elif out[j] == ")":
                    depth -= 1
                    if depth == 0: break
            old = rust_macros.TY_STOP_WORDS
            rust_macros.TY_STOP_WORDS = {"where"}       # rustc: `where` is in the follow set of a `ty` fragment
            try:
                exp = rust_macros.text_of(eng.expand_items(nme, rust_macros.tree(tokenize(out[i + 1:j]))))
            except rust_macros.MacroError as e:
                fail(f"{file}: {nme}!: {e}")
            finally:
                rust_macros.TY_STOP_WORDS = old
            k = j + 1
            while k < len(out) and out[k].isspace(): k += 1
            if k < len(out) and out[k] == ";": k += 1
            out = out[:m.start()] + "\n" + exp + "\n" + out[k:]
    return out

def impls(text):
    """[(generics, trait, trait argument, Self type, block text)] of every `impl<..> Trait<Arg> for Self { .. }`"""
    out = []
    for m in re.finditer(r"\bimpl\s*<", text):
        i = m.end() - 1
        depth = 0
        while True:
            if text[i] == "<": depth += 1
            elif text[i] == ">": depth -= 1
            i += 1
            if depth == 0: break
        gen = text[m.end() - 1:i]
        j = text.index("{", i)
        head = text[i:j]
        hm = re.match(r"\s*(\w+)\s*<(.*)>\s*for\s+(.*?)\s*(?:\bwhere\b.*)?$", head, re.S)
        if not hm: fail(f"impl header `{head.strip()[:80]}` is not `Trait<Arg> for Self`")
        # the trait argument: balanced up to the matching `>`
        rest = head[head.index("<") + 1:]
        d, k = 1, 0
        while d:
            if rest[k] == "<": d += 1
            elif rest[k] == ">" and rest[k - 1] != "-": d -= 1
            k += 1
        arg = rest[:k - 1]
        fm = re.match(r"\s*for\s+(.*?)\s*(?:\bwhere\b.*)?$", rest[k:], re.S)
        if not fm: fail(f"impl header `{head.strip()[:80]}`: `for Self` expected")
        out.append((gen, hm.group(1), arg.strip(), fm.group(1).strip(), text[j:match_brace(text, j)]))
    return out

def kind_of(t):
    t = squeeze(t)
    pre = ""
    if re.match(r"&mut\b", t): pre, t = "Mut", t[4:].strip()
    elif t.startswith("&"): pre, t = "Ref", t[1:]
    if t.startswith("Vec<"): k = "Vec"
    elif t.startswith("Box<"): k = "Box"
    elif t.startswith("["): k = "Array" if split_semicolon(t[1:-1])[1] is not None else "Slice"
    elif re.fullmatch(r"\w+", t): k = ""
    else: fail(f"type `{t}` has no kind")
    return pre + k

# blanket impls: (trait, method) -> (type map, dictionary [(rust key, lean name, lean type, arg types, result type)], model)
BLANKET = {
    ("ComponentsAs", "components_as"): ({"T": "σ", "C": "τ"}, [(".try_components_as", "tryComponentsAs", "σ → CPrim.Res (Except ε τ)", ["σ"], "Except (ε) (τ)")], "CPrim.unwrap"),
    ("ComponentsAsMut", "components_as_mut"): ({"T": "σ", "C": "τ"}, [(".try_components_as_mut", "tryComponentsAsMut", "σ → CPrim.Res (Except ε τ)", ["σ"], "Except (ε) (τ)")], "CPrim.unwrap"),
    ("FromComponents", "from_components"): ({"C": "σ", "T": "τ"}, [("Self::try_from_components", "tryFromComponents", "σ → CPrim.Res (Except ε τ)", ["σ"], "Except (ε) (τ)")], "CPrim.unwrap"),
    ("ComponentsInto", "components_into"): ({"T": "σ", "C": "τ"}, [(".try_components_into", "tryComponentsInto", "σ → CPrim.Res (Except ε τ)", ["σ"], "Except (ε) (τ)")], "CPrim.unwrap"),
    ("TryComponentsInto", "try_components_into"): ({"T": "σ", "C": "τ"}, [("C::try_from_components", "tryFromComponents", "σ → CPrim.Res (Except ε τ)", ["σ"], "Except (ε) (τ)")], "tryFromComponents"),
    ("ComponentsFrom", "components_from"): ({"C": "σ", "T": "τ"}, [(".into_components", "intoComponents", "σ → CPrim.Res τ", ["σ"], "τ")], "intoComponents"),
    ("ArraysFrom", "arrays_from"): ({"C": "σ", "T": "τ"}, [(".into_arrays", "intoArrays", "σ → CPrim.Res τ", ["σ"], "τ")], "intoArrays"),
    ("ArraysInto", "arrays_into"): ({"T": "σ", "C": "τ"}, [("C::from_arrays", "fromArrays", "σ → CPrim.Res τ", ["σ"], "τ")], "fromArrays"),
    ("UintsFrom", "uints_from"): ({"C": "σ", "U": "τ"}, [(".into_uints", "intoUints", "σ → CPrim.Res τ", ["σ"], "τ")], "intoUints"),
    ("UintsInto", "uints_into"): ({"U": "σ", "C": "τ"}, [("C::from_uints", "fromUints", "σ → CPrim.Res τ", ["σ"], "τ")], "fromUints"),
}

def translate_traits(read_src, file, registry, defs, tied, seen):
    text = expand_file(read_src, file)
    for (gen, trait, arg, self_ty, block) in impls(text):
        tps, cs = parse_generics(gen)
        em = re.search(r"\btype\s+Error\s*=\s*([^;]+);", block)
        for fm in re.finditer(r"\bfn\s+(\w+)\s*\(", block):
            fn = fm.group(1)
            params, ret, body = find_fn(block, None, fn)
            label = f"`{file}`: `fn {fn}` of `impl {trait}<{squeeze(arg)}> for {squeeze(self_ty)}`"
            if (trait, fn) in BLANKET:
                tymap, dct, model = BLANKET[(trait, fn)]
                if re.fullmatch(r"\w+", squeeze(self_ty)) is None: fail(f"{label}: registered as a blanket impl")
                sig = Sig([], cs, self_ty, "ε", dict(tymap))
                sig.tymap["Self::Error"] = "ε"; sig.tymap["ε"] = "ε"; sig.tymap["__blanket"] = True; sig.tymap["Self"] = "τ"
                sig.tymap["Result<C,Self::Error>"] = "Except (ε) (τ)"
                name = camel(fn)
                d = {k: (ln, lt, at, rt) for (k, ln, lt, at, rt) in dct}
                extra = "{σ τ ε : Type}" if any("ε" in lt for (_k, _ln, lt, _at, _rt) in dct) else "{σ τ : Type}"
                model = model
                tiefile = "Tie_CastTraits.lean"
            else:
                sig = Sig(tps, cs, self_ty, em.group(1).strip() if em else None)
                first = split_top(params)[0].strip() if params.strip() else ""
                if re.fullmatch(r"(&\s*(?:'\w+\s+)?)?(mut\s+)?self", first): k = kind_of(self_ty)
                else: k = kind_of(first.split(":", 1)[1])
                name = camel(fn) + k
                d, extra = None, ""
                model, tiefile = None, "Tie_CastTraits.lean"
            if name in seen: fail(f"{label}: the name {name} is already taken by {seen[name]}")
            seen[name] = label
            try:
                t, rec = translate_fn(name, label, sig, params, ret, body, registry, f"{trait}::{fn}", d, extra)
            except Untranslatable as e:
                raise Untranslatable(f"body {name} ({label}): {e}")
            defs.append(t)
            tied.append((name, model, tiefile))

UNTRANSLATED = [
    "`map_vec_in_place`, `map_slice_box_in_place` (array.rs): the loop `for item in &mut *values { ptr::read; map; ptr::write }` over a `ManuallyDrop` of the",
    "  array view; the conversion families read it as `Prim.mapInPlace` with the text pinned by digest (family `convert`), its allocation behaviour is",
    "  observed by the correspondence run of C04 / C13",
    "the unsafe pointer work itself: `ptr.cast()`, `&*ptr`, `slice::from_raw_parts(_mut)`, `Vec::from_raw_parts`, `Box::from_raw / into_raw / leak`,",
    "  `ManuallyDrop`, `transmute_copy` are *read* (PaletteModel/BodyPrimCast.lean: same address, the given length / capacity); that the re-typing is",
    "  sound is Rust semantics (DESIGN 2.9-3)",
    "the message arguments of `assert_eq!` (format string and its operands): not part of the value",
    "`unsafe impl ArrayCast / UintCast` (which `Array` / `Uint` type a colour names: Gen/Types.lean, C04 type-table theorems), `cast/packed.rs` (C12),",
    "  `impl Display / Debug / Error` of the three error types (text only)",
]

def generate(read_src, tie_texts):
    """-> text of Gen/BodiesCast.lean.  tie_texts: {file name: text} of the tie modules"""
    registry, defs, tied, seen = {}, [], [], {}
    translate_free(read_src, ARRAY_RS, registry, defs, tied)
    translate_free(read_src, UINT_RS, registry, defs, tied)
    for f in TRAIT_FILES:
        translate_traits(read_src, f, registry, defs, tied, seen)
    for (name, model, tiefile) in tied:
        tt = tie_texts.get(tiefile, "")
        m = re.search(r"\btheorem\s+tie_" + name + r"\b(.*?):=", tt, re.S)
        if not m: raise Untranslatable(f"body {name} is translated but lean/PaletteProofs/{tiefile} has no theorem tie_{name}")
        if not re.search(r"Gen\.BodyCast\." + name + r"\b", m.group(1)):
            raise Untranslatable(f"theorem tie_{name} ({tiefile}) does not mention Gen.BodyCast.{name}")
        if model is not None and not re.search(re.escape(model) + r"(?![\w])", m.group(1)):
            raise Untranslatable(f"theorem tie_{name} ({tiefile}) does not state Gen.BodyCast.{name} against {model}")
    have = {n for (n, _m, _f) in tied}
    for tiefile, tt in tie_texts.items():
        for m in re.finditer(r"\btheorem\s+tie_(\w+)", tt):
            if m.group(1) not in have:
                raise Untranslatable(f"lean/PaletteProofs/{tiefile} has theorem tie_{m.group(1)}, but no body {m.group(1)} is translated any more "
                                     f"(the function / impl / macro invocation it was read from disappeared from palette/src/cast)")
    free = [(n, m) for (n, m, f) in tied if f == "Tie_Cast.lean"]
    tr = [n for (n, m, f) in tied if f != "Tie_Cast.lean"]
    head = ["/- GENERATED by tools/extract.py (plugin tools/extract_plugins/cast.py, translator tools/rust2lean_cast.py, family `cast`) from palette/src/cast -- do not edit",
            "",
            "  zero-copy casts (C04): every `pub fn` of cast/array.rs and cast/uint.rs, and every method body of the cast traits (as_arrays_traits.rs,",
            "  as_components_traits.rs, as_uints_traits.rs, from_into_arrays_traits.rs, from_into_components_traits.rs, from_into_uints_traits.rs; the",
            "  macro-generated impls from the expansion of their actual invocations).",
            "  Each definition is the translation of the *current* text of one Rust function (named in its doc comment): the layout asserts, the",
            "  length / capacity arithmetic, the divisibility tests and their order, which error is built from which buffer - around the unsafe pointer",
            "  operations, which have the reading of PaletteModel/BodyPrimCast.lean.  Conventions in the header of tools/rust2lean_cast.py.",
            "  Every definition takes the layout functions `sizeOf alignOf : CPrim.Ty → Nat` (what `size_of::<X>()` / `align_of::<X>()` return) and the",
            "  channel count `n` (`T::Array::LENGTH`) as parameters.  `PaletteProofs/Tie_Cast.lean` proves for every `sizeOf`, `alignOf`, `n`, length, capacity:",
            ] + ["    " + ", ".join(f"{n} = {m}" for n, m in free[i:i + 3]) for i in range(0, len(free), 3)] + [
            f"  `PaletteProofs/Tie_CastTraits.lean` proves for each of the {len(tr)} trait methods which translated free function it forwards to:",
            ] + ["    " + ", ".join(tr[i:i + 8]) for i in range(0, len(tr), 8)] + [
            "",
            "  NOT translated in this family:"] + ["    " + u for u in UNTRANSLATED] + ["-/",
            "import PaletteModel.BodyPrimCast", "",
            "set_option linter.unusedVariables false   -- `sizeOf`, `alignOf`, `n` and the const generics stay parameters of every body, used or not", "",
            "namespace Gen.BodyCast", "",
            "/-- names of the translated bodies of family `cast`, with the model function (PaletteModel/CastForms.lean) the tie is stated against -/",
            "def tiedCast : List (String × String) := [\n" + ",\n".join("  " + ", ".join(f'("{n}", "{m or "forwarding"}")' for n, m, _f in tied[i:i + 3]) for i in range(0, len(tied), 3)) + "]", ""]
    return "\n".join(head) + "\n" + "\n".join(defs) + "\nend Gen.BodyCast\n", tied

if __name__ == "__main__":
    repo = os.environ.get("PALETTE_REPO", "/repo")
    def read_src(rel): return strip_comments(open(os.path.join(repo, "palette", "src", rel)).read())
    root = os.path.dirname(os.path.dirname(os.path.abspath(__file__)))
    ties = {}
    for f in ("Tie_Cast.lean", "Tie_CastTraits.lean"):
        p = os.path.join(root, "lean", "PaletteProofs", f)
        ties[f] = open(p).read() if os.path.exists(p) else ""
    try:
        if "--no-tie" in sys.argv:
            # translate only (used when scaffolding the tie modules)
            registry, defs, tied, seen = {}, [], [], {}
            translate_free(read_src, ARRAY_RS, registry, defs, tied)
            translate_free(read_src, UINT_RS, registry, defs, tied)
            for f in TRAIT_FILES: translate_traits(read_src, f, registry, defs, tied, seen)
            sys.stdout.write("\n".join(defs))
            sys.stderr.write(f"{len(tied)} bodies\n")
        else:
            sys.stdout.write(generate(read_src, ties)[0])
    except Untranslatable as e:
        print("FAILED:", e); sys.exit(1)
