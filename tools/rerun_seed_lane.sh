#!/bin/sh
# rerun_seed_lane.sh <lane> <seed id ...>: re-runs stored seeds (seeded/<id>/patch.diff) against the CURRENT framework on a lane (serialised by the lane's flock)
# and rewrites the detection part of seeded/<id>/meta.json (summary, confirmation and note are kept)
lane=$1; shift
d=/tmp/seedrun$lane
( flock 9; $d/sync.sh > /dev/null 2>&1
  for id in "$@"; do pid=${id%%-*}
    $d/run.sh /verif/seeded/$id/patch.diff $pid > $d/proc_$id.txt 2>&1
    SEEDRUN=$d python3 /verif/tools/rerun_seed_meta.py "$id" "$pid" >> $d/reruns.txt 2>&1
  done ) 9> $d/lane.lock &
