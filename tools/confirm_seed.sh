#!/bin/sh
# confirm_seed.sh <Cxx> <k>: in the scratch worktree /tmp/mut/Cxx confirm that patch_k (a) compiles, (b) passes the whole pinned suite,
# (c) makes demo_k fail, and that demo_k passes on the unchanged tree.  Prints CONFIRMED or the first thing that is not as claimed.
pid=$1; k=$2; w=/tmp/mut/$pid; o=$w/_out
cd $w || exit 2
git checkout -q -- . ; git clean -qfd -e _out -e target
place=$(head -3 $o/demo_$k.rs | grep -o "integration_tests/tests/[A-Za-z0-9_]*\.rs\|palette/tests/[A-Za-z0-9_]*\.rs\|palette/examples/[A-Za-z0-9_]*\.rs" | head -1)
[ -z "$place" ] && place=integration_tests/tests/demo_$k.rs
name=$(basename $place .rs)
case $place in integration_tests/*) pkg=integration_tests;; *) pkg=palette;; esac
feat=$(head -3 $o/demo_$k.rs | grep -o -- '--features "[^"]*"\|--features [a-z0-9_,]*' | head -1)
mkdir -p $(dirname $place); cp $o/demo_$k.rs $place
# unchanged tree: demo passes
eval cargo test --offline -p $pkg --test $name $feat > $o/confirm_${k}_clean.log 2>&1; rc_clean=$?
git apply $o/patch_$k.diff || { echo "NOT CONFIRMED: patch does not apply"; exit 1; }
eval cargo test --offline -p $pkg --test $name $feat > $o/confirm_${k}_patched.log 2>&1; rc_pat=$?
rm -f $place
cargo test --workspace --no-fail-fast --offline --lib --tests > $o/confirm_${k}_suite.log 2>&1; rc_suite=$?
passed=$(grep -E "^test result" $o/confirm_${k}_suite.log | awk '{s+=$4} END {print s}')
cargo build --offline -p palette --features "random serializing wide bytemuck gamma_lut_u16" > $o/confirm_${k}_feat.log 2>&1; rc_feat=$?
git checkout -q -- . ; git clean -qfd -e _out -e target
echo "demo on clean tree rc=$rc_clean; demo on patched tree rc=$rc_pat; suite rc=$rc_suite passed=$passed; all-features build rc=$rc_feat"
if [ $rc_clean -eq 0 ] && [ $rc_pat -ne 0 ] && [ $rc_suite -eq 0 ] && [ "$passed" = "871" ] && [ $rc_feat -eq 0 ]; then echo CONFIRMED; else echo "NOT CONFIRMED"; fi
