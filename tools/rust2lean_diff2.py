#!/usr/bin/env python3
"""
rust2lean_diff2 -- family `diff2` of the source-text tie (C09): what the header of Gen/BodiesDiff.lean lists as NOT translated.

  * palette/src/relative_contrast.rs (deprecated `RelativeContrast`): the free function `contrast_ratio` (a `lazy_select!` on
    `luma1 > luma2`), the five default predicates of the trait (three compare `self.get_contrast_ratio(other)` with a threshold, two
    *forward* to another predicate), and every `impl<..> crate::RelativeContrast for <Ty>` found in the sources (the registrations are
    derived from the impl blocks found: a new impl without `tie_` theorem stops the run, a removed one makes its theorem unbuildable)
  * the deprecated `ColorDifference::get_color_difference` for `Lab` and `Lch` (own impl blocks ending in `get_ciede2000_difference`)
  * every invocation of `impl_euclidean_distance!` / `impl_hyab!` that family `diff` does not instantiate (found by scanning the sources:
    Luv, Oklab, Xyz, Yxy, Lms, Rgb, Luma / Luv, Oklab, Cam16UcsJab today)

Tokenizer, Pratt parser, `find_fn`, `macro_expand`, the lowering `Lower` and `translate_body` are those of tools/rust2lean.py, unchanged (this
file only *registers* bodies and readings while it runs and removes them afterwards).  Additional conventions of this family:
  * dictionary passing for the two trait-dispatched conversions the impls start with: `Xyz::from_color(x)` (bound `Xyz<..>: FromColor<Self>`) is
    the parameter `toXyz : V3 α → V3 α`, `self.into_linear()` of `Luma` (bound `S::TransferFn: IntoLinear<T, T>`) is the parameter
    `intoLinear : Prim.Luma1 α → Prim.Luma1 α`; the ties hold for every value of these parameters
  * `self.get_contrast_ratio(other)` in the trait's default methods is the hole `ratio` (as `self.relative_contrast(other)` in family `diff`);
    `self.has_min_contrast_text(other)` / `self.has_min_contrast_large_text(other)` inside another default method is a call of the translated
    default method at the same `ratio` (sound because no impl block overrides a predicate: checked, an override stops the run)
  * `Luma<S, T>` is `Prim.Luma1 α` (field list re-read from the struct); `a - b`, `a * b` on it have the reading `Diff2Prim.luma1Sub/Mul`
    (`impl_color_sub!` / `impl_color_mul!(Luma<S>, [luma], standard)`: checked to be invoked with exactly that component list)
Generated definitions live in namespace `Gen.BodyDiff2` (lean/PaletteModel/Gen/BodiesDiff2.lean); lean/PaletteProofs/Tie_Diff2.lean has one
`tie_<name>` per body with a model function.
"""
import os, re, sys
sys.path.insert(0, os.path.dirname(os.path.abspath(__file__)))
import rust2lean as R
from rust2lean import B, Untranslatable, fail

NS = "Gen.BodyDiff2"
DF = dict(prims="diff", mask="prop")

def camel(s): return "".join(w[:1].upper() + w[1:] for w in s.split("_"))
def lower1(s): return s[:1].lower() + s[1:]

# ------------------------------------------------------------------------------------------------ lowering: two additions
CURRENT = {}        # the registration being translated (set by `translate_family`)

class Lower2(R.Lower):
    def __init__(self, *a, **kw):
        super().__init__(*a, **kw)
        # a call of another default method of the same trait on the same pair: the translated default method at the same hole value(s)
        # (a copy: the list passed in is also the list of hole *binders* of translate_body_)
        self.holes = list(self.holes) + [(R.parse_expr(rust), R.Val(lean, ty)) for rust, (lean, ty) in (CURRENT.get("forwards") or {}).items()]

    def binary(self, e, env):
        if e[1] in ("-", "*"):
            a, b = self.expr(e[2], env), self.expr(e[3], env)
            if a.ty == ("S", "Luma") and b.ty == ("S", "Luma"):
                return R.Val(f"(Diff2Prim.luma1{'Sub' if e[1] == '-' else 'Mul'} {a.code} {b.code})", ("S", "Luma"))
        return super().binary(e, env)

LUMA_STRUCT = dict(lean="Prim.Luma1", file="luma/luma.rs", fields=[("luma", "T", "{}.luma")], mk="(Prim.Luma1.mk {luma})")

# ------------------------------------------------------------------------------------------------ discovery of the registrations
COLOUR_FILES = dict(R.COLOR_FILES)
COLOUR_FILES.update({"Lms": ["lms/lms.rs"], "Cam16UcsJab": ["cam16/ucs_jab.rs"], "Cam16UcsJmh": ["cam16/ucs_jmh.rs"], "Oklch": ["oklch.rs"]})

RC_TRAIT = (r"\btrait\s+RelativeContrast\b", "trait RelativeContrast")
RATIO = {"self.get_contrast_ratio(other)": "ratio"}

def rc_impls(read_src, files):
    """[(type, file)] of every `impl<..> [crate::]RelativeContrast for <Ty><..>` in the sources, in file order"""
    out = []
    for f in files:
        src = read_src(f)
        for m in re.finditer(r"\bimpl\s*<[^{]*?>\s*(?:crate\s*::\s*)?RelativeContrast\s+for\s+(\w+)", src):
            i = src.index("{", m.end())
            block = src[i:R.match_brace(src, i)]
            fns = re.findall(r"\bfn\s+(\w+)", block)
            if fns != ["get_contrast_ratio"]:
                fail(f"{f}: `impl RelativeContrast for {m.group(1)}` defines {fns}; only `get_contrast_ratio` is expected (an overridden predicate "
                     f"would no longer be the trait's default method the ties are about)")
            out.append((m.group(1), f))
    return out

def macro_invocations(read_src, files, macro):
    """[(file, type, [type params], raw `{..}` text, raw argument text)] of every `macro!(Ty<..> {..} ..)` outside macros/"""
    out = []
    for f in files:
        if f.startswith("macros/"): continue
        src = read_src(f)
        for m in re.finditer(r"(?<![\w$])" + macro + r"\s*!\s*\(\s*((\w+)\s*(?:<\s*([\w\s,]*)>)?\s*\{([^}]*)\})", src):
            tps = [x.strip() for x in (m.group(3) or "").split(",") if x.strip()]
            out.append((f, m.group(2), tps, m.group(4), re.sub(r"\s+", " ", m.group(1))))
    return out

def bodies(read_src, files):
    bs = []
    # ---- relative_contrast.rs
    bs.append(B("contrastRatio", "relative_contrast.rs", None, "contrast_ratio", "Diff.relativeContrast", as_fn=["crate::contrast_ratio", "contrast_ratio"], **DF))
    def pred(name, fn, model, forwards=None):
        return B(name, "relative_contrast.rs", RC_TRAIT, fn, model, holes=RATIO, skip_params=["self", "other"], forwards=forwards, **DF)
    bs += [pred("depHasMinContrastText", "has_min_contrast_text", "Diff.hasMinContrastText"),
           pred("depHasMinContrastLargeText", "has_min_contrast_large_text", "Diff.hasMinContrastLargeText"),
           pred("depHasEnhancedContrastText", "has_enhanced_contrast_text", "Diff.hasEnhancedContrastText"),
           pred("depHasEnhancedContrastLargeText", "has_enhanced_contrast_large_text", "Diff.hasEnhancedContrastLargeText",
                forwards={"self.has_min_contrast_text(other)": (f"(Gen.Body.depHasMinContrastText ratio)", "B"),
                          "self.has_min_contrast_large_text(other)": (f"(Gen.Body.depHasMinContrastLargeText ratio)", "B")}),
           pred("depHasMinContrastGraphics", "has_min_contrast_graphics", "Diff.hasMinContrastGraphics",
                forwards={"self.has_min_contrast_text(other)": (f"(Gen.Body.depHasMinContrastText ratio)", "B"),
                          "self.has_min_contrast_large_text(other)": (f"(Gen.Body.depHasMinContrastLargeText ratio)", "B")})]
    impls = rc_impls(read_src, files)
    if not impls: fail("no `impl RelativeContrast for ..` found")
    for ty, f in impls:
        where = (r"\bimpl\s*<[^{]*?>\s*(?:crate\s*::\s*)?RelativeContrast\s+for\s+" + ty + r"\b", f"impl RelativeContrast for {ty}")
        if ty == "Luma":
            bs.append(B("lumaGetContrastRatio", f, where, "get_contrast_ratio", "Diff.relativeContrast", self_ty="Luma", dicts="luma", **DF))
        else:
            if ty not in COLOUR_FILES: fail(f"{f}: `impl RelativeContrast for {ty}`: {ty} is not a registered three-component colour")
            # the dictionary parameter `toXyz` exists iff the body converts (Xyz, Yxy read their own component); the tie states which
            conv = "from_color" in R.find_fn(read_src(f), where[0], "get_contrast_ratio")[2]
            bs.append(B(lower1(ty) + "GetContrastRatio", f, where, "get_contrast_ratio", "Diff.relativeContrast", self_ty=ty, dicts="xyz" if conv else None, **DF))
    # ---- the deprecated ColorDifference for Lab / Lch: the helpers are re-translated here (namespace of their own), unfolded in the ties
    HUES = (r"macro_rules!\s+make_hues\b", "macro_rules! make_hues")
    bs += [B("diffHueIntoRawRadians", "hues.rs", HUES, "into_raw_radians", None, self_ty="Hue", as_method=[("T", "into_raw_radians")], **DF),
           B("diffHueIntoCartesian", "hues.rs", HUES, "into_cartesian", None, self_ty="Hue", as_method=[("T", "into_cartesian")], **DF),
           B("diffLchToLab", "lab.rs", R.conv("Lch<Wp, T>", "Lab<Wp, T>"), "from_color_unclamped", None,
             as_fn=["Lab::from_color_unclamped"], as_method=[("Lch", "into_color_unclamped")], **DF),
           B("labColorDiffFromLab", "color_difference.rs", R.impl_of("From<Lab<Wp, T>> for LabColorDiff<T>"), "from", None, self_ty="LabColorDiff",
             as_method=[("Lab", "into")], **DF),
           B("labColorDiffFromLch", "color_difference.rs", R.impl_of("From<Lch<Wp, T>> for LabColorDiff<T>"), "from", None, self_ty="LabColorDiff",
             as_method=[("Lch", "into")], **DF),
           B("getCiede2000Difference", "color_difference.rs", None, "get_ciede2000_difference", None, as_fn=["get_ciede2000_difference"], **DF)]
    for ty, f in (("Lab", "lab.rs"), ("Lch", "lch.rs")):
        bs.append(B(lower1(ty) + "GetColorDifference", f, R.impl_of(f"crate::ColorDifference for {ty}<Wp, T>", f"impl ColorDifference for {ty}"),
                    "get_color_difference", "Diff.ciede2000", self_ty=ty, **DF))
    # ---- the remaining invocations of impl_euclidean_distance! / impl_hyab!
    done = {("impl_euclidean_distance", "Lab"), ("impl_euclidean_distance", "Cam16UcsJab"), ("impl_hyab", "Lab")}     # family `diff`
    for file, ty, tps, comps, raw in macro_invocations(read_src, files, "impl_euclidean_distance"):
        if ("impl_euclidean_distance", ty) in done: continue
        cs = [c.strip() for c in comps.split(",") if c.strip()]
        if ty != "Luma" and ty not in COLOUR_FILES: fail(f"{file}: impl_euclidean_distance!({raw}): {ty} is not a registered colour")
        if len(cs) not in (1, 3): fail(f"{file}: impl_euclidean_distance!({raw}): {len(cs)} components")
        bs.append(B(lower1(ty) + "DistanceSquared", "macros/color_difference.rs", R.EUCLID, "distance_squared", "Diff.distSq3" if len(cs) == 3 else "Diff.distSq1",
                    self_ty=ty, macro_args={"ty": ty, "ty_param": tps, "component": cs}, invocation=(file, "impl_euclidean_distance", raw), **DF))
    for file, ty, tps, comps, raw in macro_invocations(read_src, files, "impl_hyab"):
        if ("impl_hyab", ty) in done: continue
        m = re.fullmatch(r"\s*lightness\s*:\s*(\w+)\s*,\s*chroma1\s*:\s*(\w+)\s*,\s*chroma2\s*:\s*(\w+)\s*,?\s*", comps)
        if not m: fail(f"{file}: impl_hyab!({raw}): component list not recognised")
        if ty not in COLOUR_FILES: fail(f"{file}: impl_hyab!({raw}): {ty} is not a registered colour")
        bs.append(B(lower1(ty) + "Hyab", "macros/color_difference.rs", R.HYAB, "hybrid_distance", "Diff.hyab", self_ty=ty,
                    macro_args={"ty": ty, "ty_param": tps, "lightness": m.group(1), "chroma1": m.group(2), "chroma2": m.group(3)},
                    invocation=(file, "impl_hyab", raw), **DF))
    return bs

DICTS = {
    "xyz": dict(binders="(toXyz : V3 α → V3 α)",
                fns={"Xyz::from_color": dict(lean="toXyz", params=[("V3", None)], ret=("V3", "Xyz"), extra=[])}, methods={}),
    "luma": dict(binders="(intoLinear : Prim.Luma1 α → Prim.Luma1 α)", fns={},
                 methods={("Luma", "into_linear"): dict(lean="intoLinear", params=[("S", "Luma")], ret=("S", "Luma"), extra=[])}),
}

UNTRANSLATED = [
    "`Xyz::from_color(self)` (bound `Xyz<..>: FromColor<Self>`: the conversion graph of C01 / C03) and `Luma::into_linear` (bound `S::TransferFn: IntoLinear`,",
    "  C05) inside the `get_contrast_ratio` impls: trait dispatch, translated as the parameters `toXyz` / `intoLinear` (the ties hold for every value)",
    "`impl_color_sub!` / `impl_color_mul!` at `Luma` (`self - other`, `difference * difference` of the one-component `impl_euclidean_distance!`): read as",
    "  `Diff2Prim.luma1Sub/Mul` (component-wise; the invocation `(Luma<S>, [luma], standard)` is checked to exist); at the three-component colours",
    "  the reading is `Prim.v3Sub/v3Mul` as in family `diff` (the macro bodies themselves are family `ops`, Tie_Ops)",
    "`Hypot::hypot`, `to_degrees/to_radians`, `Powi::powi(7)`: per-type primitives, read as in family `diff` (header of Gen/BodiesDiff.lean)",
    "the `#[deprecated]` attributes and doc comments of relative_contrast.rs (not code)",
]

def check_luma_ops(read_src):
    src = re.sub(r"\s+", "", read_src("luma/luma.rs"))
    for mac in ("impl_color_sub", "impl_color_mul"):
        if mac + "!(Luma<S>,[luma],standard)" not in src:
            fail(f"luma/luma.rs: `{mac}!(Luma<S>, [luma], standard)` not found (the reading Diff2Prim.luma1Sub/Mul rests on it)")

# ------------------------------------------------------------------------------------------------ driver
def translate_family(read_src, files, tie_text, check_stale=True):
    """-> (list of definition texts, registrations)"""
    global CURRENT
    ctx = R.make_ctx(read_src)
    ctx.type_files.update(COLOUR_FILES)
    saved_lower, had_luma = R.Lower, R.STRUCTS2.get("Luma")
    R.Lower = Lower2
    R.STRUCTS2["Luma"] = LUMA_STRUCT
    defs = []
    try:
        R.verify_decls(read_src, ["LabColorDiff", "Luma"], [])
        check_luma_ops(read_src)
        bs = bodies(read_src, files)
        names = [s["name"] for s in bs]
        if len(set(names)) != len(names): fail(f"duplicate body names {sorted(n for n in names if names.count(n) > 1)}")
        for spec in bs:
            CURRENT = spec
            d = DICTS.get(spec.get("dicts"))
            if d:
                spec["inst"] = d["binders"]
                ctx.fns.update(d["fns"]); ctx.methods.update(d["methods"])
            try:
                text, rec = R.translate_body(ctx, spec, read_src)
            except Untranslatable as e:
                raise Untranslatable(f"body {spec['name']} ({spec['file']}: fn {spec['fn']}): {e}")
            finally:
                if d:
                    for k in d["fns"]: ctx.fns.pop(k, None)
                    for k in d["methods"]: ctx.methods.pop(k, None)
            if d:       # every dictionary entry of the registration must be used: a body that no longer converts is a different body
                for dd in list(d["fns"].values()) + list(d["methods"].values()):
                    if not re.search(r"\(" + dd["lean"] + r"\b", text.split(":=", 1)[1]): fail(f"body {spec['name']}: the registered callee `{dd['lean']}` is not called any more")
            defs.append(text)
            for k in spec.get("as_fn", []): ctx.fns[k] = rec
            for k in spec.get("as_method", []): ctx.methods[tuple(k)] = rec
            if spec["model"] is not None:
                m = re.search(r"\btheorem\s+tie_" + spec["name"] + r"\b(.*?):=", tie_text, re.S)
                if not m: raise Untranslatable(f"body {spec['name']} is translated but lean/PaletteProofs/Tie_Diff2.lean has no theorem tie_{spec['name']}")
                if not (re.search(re.escape(NS) + r"\." + spec["name"] + r"\b", m.group(1)) and re.search(re.escape(spec["model"]) + r"(?![\w.])", m.group(1))):
                    raise Untranslatable(f"theorem tie_{spec['name']} does not state {NS}.{spec['name']} against {spec['model']}")
        have = {s_["name"] for s_ in bs if s_["model"] is not None}
        for m in re.finditer(r"\btheorem\s+tie_(\w+)", tie_text if check_stale else ""):
            if m.group(1) not in have:
                raise Untranslatable(f"lean/PaletteProofs/Tie_Diff2.lean has theorem tie_{m.group(1)}, but no body {m.group(1)} is translated any more (the impl / macro invocation "
                                     f"it was read from disappeared from palette/src)")
    finally:
        CURRENT = {}
        R.Lower = saved_lower
        if had_luma is None: R.STRUCTS2.pop("Luma", None)
        else: R.STRUCTS2["Luma"] = had_luma
    return defs, bs

def generate(read_src, files, tie_text):
    defs, bs = translate_family(read_src, files, tie_text)
    tied = [s for s in bs if s["model"]]
    body = "\n".join(defs).replace("Gen.Body.", NS + ".")
    head = ["/- GENERATED by tools/extract.py (plugin tools/extract_plugins/diff2.py, translator tools/rust2lean_diff2.py, family `diff2`) from the function bodies of palette/src -- do not edit",
            "",
            "  colour difference, second part (C09): relative_contrast.rs (deprecated `RelativeContrast`: `contrast_ratio`, the five default predicates, every",
            "  `impl RelativeContrast for <Ty>` found in the sources), the deprecated `ColorDifference::get_color_difference` of lab.rs / lch.rs, and the",
            "  invocations of `impl_euclidean_distance!` / `impl_hyab!` that family `diff` (Gen/BodiesDiff.lean) does not instantiate.",
            "  Each definition is the translation of the *current* text of one Rust function / macro body (named in its doc comment) into a Lean term over",
            "  `class Scalar`; conventions in the headers of tools/rust2lean.py and tools/rust2lean_diff2.py, readings in PaletteModel/BodyPrim*.lean and",
            "  PaletteModel/BodyPrimDiff2.lean.  `PaletteProofs/Tie_Diff2.lean` proves for every `[Scalar α]` (and every value of the dictionary parameters):",
            ] + ["    " + ", ".join(f"{s['name']} ~ {s['model']}" for s in tied[i:i + 3]) for i in range(0, len(tied), 3)] + [
            "  Helpers translated and unfolded inside those proofs (no tie of their own; the same texts are tied in Tie_Diff): "
            + (", ".join(s["name"] for s in bs if not s["model"]) or "none"),
            "",
            "  NOT translated in this family:"] + ["    " + u for u in UNTRANSLATED] + ["-/",
            "import PaletteModel.BodyPrim", "import PaletteModel.BodyPrimExt", "import PaletteModel.BodyPrimGlue", "import PaletteModel.BodyPrimDiff2", "import PaletteModel.Diff",
            "", "set_option linter.unusedVariables false", "",
            f"namespace {NS}", "",
            "/-- names of the translated bodies of family `diff2` that have a `tie_` theorem, with the model function they are tied to -/",
            "def tiedDiff2 : List (String × String) := [\n" + ",\n".join("  " + ", ".join(f'("{s["name"]}", "{s["model"]}")' for s in tied[i:i + 3])
                                                                  for i in range(0, len(tied), 3)) + "]", ""]
    return "\n".join(head) + "\n" + body + f"\nend {NS}\n"

def list_files(repo):
    root = os.path.join(repo, "palette", "src")
    out = []
    for d, _, fs in os.walk(root):
        for f in fs:
            if f.endswith(".rs"): out.append(os.path.relpath(os.path.join(d, f), root))
    return sorted(out)

if __name__ == "__main__":
    repo = os.environ.get("PALETTE_REPO", "/repo")
    def read_src(rel): return R.strip_comments(open(os.path.join(repo, "palette", "src", rel)).read())
    root = os.path.dirname(os.path.dirname(os.path.abspath(__file__)))
    tie = os.path.join(root, "lean", "PaletteProofs", "Tie_Diff2.lean")
    files = list_files(repo)
    try:
        if "--no-tie" in sys.argv or not os.path.exists(tie):
            # scaffold mode: every tie is taken to exist
            _, bs = translate_family(read_src, files, "".join(f"theorem tie_{n} : {NS}.{n} Diff.relativeContrast Diff.hasMinContrastText Diff.hasMinContrastLargeText "
                                                              f"Diff.hasEnhancedContrastText Diff.hasEnhancedContrastLargeText Diff.hasMinContrastGraphics Diff.ciede2000 Diff.distSq3 "
                                                              f"Diff.distSq1 Diff.hyab := " for n in re.findall(r"\w+", " ".join(
                                                                  ["contrastRatio", "depHasMinContrastText", "depHasMinContrastLargeText", "depHasEnhancedContrastText",
                                                                   "depHasEnhancedContrastLargeText", "depHasMinContrastGraphics", "lumaGetContrastRatio", "labGetColorDifference",
                                                                   "lchGetColorDifference"] + [lower1(t) + s for t in list(COLOUR_FILES) + ["Luma"] for s in ("GetContrastRatio", "DistanceSquared", "Hyab")]))), check_stale=False)
            tie_text = "".join(f"theorem tie_{s['name']} : {NS}.{s['name']} {s['model']} := " for s in bs if s["model"])
            sys.stdout.write(generate(read_src, files, tie_text))
        else:
            sys.stdout.write(generate(read_src, files, open(tie).read()))
    except Untranslatable as e:
        sys.stderr.write(f"rust2lean_diff2: {e}\n"); sys.exit(1)
