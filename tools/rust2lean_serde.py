#!/usr/bin/env python3
"""
rust2lean_serde -- translate palette's serde support (C20) into Lean: `serde.rs`, `serde/alpha_serializer.rs`, `serde/alpha_deserializer.rs`,
`Serialize` / `Deserialize` of `Alpha` (alpha/alpha.rs) and `PreAlpha` (blend/pre_alpha.rs).  Family `serde`:
`lean/PaletteModel/Gen/BodiesSerde.lean` (namespace `Gen.BodySerde`) <-> `lean/PaletteProofs/Tie_Serde.lean`.

Same tokenizer / Pratt parser / `find_fn` as tools/rust2lean.py (imported, not modified), extended *here* by subclassing with what this code
uses and the other families do not: string / byte-string literals, the `?` operator, `if let`, `loop`, nested `match` patterns (`Ok(Some(
AlphaField::Alpha(seed)))`), `&mut e` kept apart from `&e`, `unimplemented!(..)`.  The lowering is *dictionary passing* like tools/rust2lean_glue.py
(serde's traits are the parameters: every call on the inner serializer / deserializer / visitor / map access / seed is a parameter of the translated
definition, listed in the body's registration under its Rust spelling; a call that is not registered leaves the subset), plus:

  * everything returns `Result`: the translated body is a term of `Except ε _` with explicit `match .. with | .ok x => .. | .error err => .error err`
    for each `?` (evaluation order = source order; `?` inside arguments is hoisted in that order).  `Ok(x)` / `Err(e)` / `return ..` are the exits.
    Error values are built by the registered constructors (`serde::de::Error::duplicate_field` -> parameter `errDuplicateField : String → ε`).
  * `unimplemented!(msg)` (a panic) is the abrupt exit `.error (panic msg)` with `panic : String → ε` a parameter: none of these bodies inspects an
    `Err`, they only propagate, so a panic and an `Err` travel the same way up to the caller of the outermost body (reading, BodyPrimSerde.lean).
  * mutable state is passed: a `&mut self` method returning `Result<(), E>` is `Self → .. → Except ε Self`; returning `Result<X, E>` it is
    `Except ε (X × Self)`.  A dictionary entry flagged "mut" is such a method of the receiver place (`self.inner.serialize_element(v)`,
    `seq.next_element()`): the place is rebound to the returned state.  An argument `&mut place` makes the callee return the final state of
    that place after its value (`self.inner.visit_seq(&mut seq)` : `Except ε (β × Q)`).
  * the alpha cell `alpha: &'a mut Option<A>` of the deserializer structs is the *current content* of the cell (`Option A`); `*self.alpha = e`
    rebinds it; a body registered `result="v,cell"` returns `(value, self_.alpha)`.  `Struct { alpha: &mut local, .. }` passed to a callee: the callee
    returns `(value, final content)` and `local` is rebound.  A struct holding the cell that is passed *by value* to a callee flagged "keeps"
    (`self.inner.visit_map(MapWrapper { .. })`, the derived `visit_map` is generic over the map access and threads it): the callee returns
    `(value, final state of that argument)` and the cell is the `alpha` field of that state.
  * a tail call that mutates state, in a body that returns state, is read as `Ok(call?)` (same value; `From::from` on `Self::Error` is the identity).
  * `loop { .. }` as the whole body: the body of the loop becomes the step function `<name>Step : state → Except ε (Prim.Flow state result)`
    (`return x` -> `.done`, falling off the end -> `.next`), and `<name> fuel = Prim.loopFuel fuel step` (a total reading of `loop`: `none` when
    the fuel runs out).
  * `x.map(|v| e)` on `Option` -> `Option.map`; `is_some` / `is_none`; `ok_or_else(|| e)` -> `Prim.okOrElse`; `unwrap_or_else(f)` -> `Prim.unwrapOrElse`;
    `xs.len()` -> `List.length`; `usize`, `u64`, `u32` are `Nat` and `as` between them is the identity (no value of these bodies exceeds 2^32);
    `"lit"` -> a `String` literal, `b"lit"` -> `Prim.bstr "lit"` (its UTF-8 bytes); `a == b` -> `a == b` (`BEq`); `&e`, `*e`, `.clone()` identity.
  * structs / enums of the serde modules are the structures of PaletteModel/BodyPrimSerde.lean; their field / variant lists are re-read from the
    definitions on every run (`PhantomData` fields dropped), the associated-type lines that decide which impl a method call resolves to are pinned.
Anything else raises `Untranslatable` (plugin: `die`, i.e. `broken[extraction]`); a translated body without its `tie_` theorem does too.
"""
import re, os, sys
sys.path.insert(0, os.path.dirname(os.path.abspath(__file__)))
import rust2lean as R
from rust2lean import Untranslatable, fail, find_fn, strip_comments, struct_fields, enum_variants, split_top, lname, match_brace
from rust2lean_glue import param_names

# ------------------------------------------------------------------------------------------------ tokens
STR = re.compile(r'b?"(?:[^"\\]|\\.)*"')

def tokenize(src):
    out, i = [], 0
    while i < len(src):
        if src[i] == '"' or (src.startswith('b"', i) and (i == 0 or not (src[i - 1].isalnum() or src[i - 1] == "_"))):
            m = STR.match(src, i)
            if not m: fail(f"unterminated string literal at {src[i:i+30]!r}")
            out.append(("str", m.group(0))); i = m.end(); continue
        m = R.TOK.match(src, i)
        if not m: fail(f"cannot tokenize at {src[i:i+30]!r}")
        i = m.end()
        if m.lastgroup != "ws": out.append((m.lastgroup, m.group(0)))
    return out

# ------------------------------------------------------------------------------------------------ parser
class Parser(R.Parser):
    def prefix(self, no_struct):
        k, v = self.peek()
        if k == "op" and v == "&" and self.peek(1) == ("id", "mut"):
            self.i += 2
            return ("unary", "&mut", self.expr(R.UNARY_BP, no_struct))
        return super().prefix(no_struct)

    def atom(self, no_struct):
        k, v = self.peek()
        if k == "str":
            self.i += 1
            return ("str", v)
        if k == "id" and v == "loop":
            self.i += 1
            return ("loop", self.block())
        if k == "id" and v == "unimplemented" and self.peek(1)[1] == "!":
            self.i += 2
            toks = self.balanced()
            if len(toks) != 1 or toks[0][0] != "str": fail("unimplemented!: expected one string literal")
            return ("panic", toks[0][1])
        return super().atom(no_struct)

    def match_pattern(self):
        k, v = self.peek()
        if k == "id" and v == "_":
            self.i += 1; return ("pwild",)
        self.eat("&")
        segs = [self.next()[1]]
        while self.at("::"):
            self.i += 1
            if self.at("<"): self.skip_angles()
            else: segs.append(self.next()[1])
        subs = None
        if self.eat("("):
            subs = []
            while not self.at(")"):
                subs.append(self.match_pattern())
                if not self.eat(","): break
            self.expect(")")
        if subs is None and len(segs) == 1 and segs[0][:1].islower(): return ("pid", segs[0], False)
        return ("penum", segs, subs)

    def if_expr(self):
        self.expect("if")
        if self.at("let"):
            self.i += 1
            pat = self.match_pattern()
            self.expect("=")
            e = self.expr(0, True)
            th = self.block()
            if not self.eat("else"): fail("`if let` without `else`")
            el = self.if_expr() if self.at("if") else self.block()
            return ("iflet", pat, e, th, el)
        c = self.expr(0, True)
        th = self.block()
        el = None
        if self.eat("else"):
            el = self.if_expr() if self.at("if") else self.block()
        return ("if", c, th, el)

    def postfix(self, e, no_struct):
        while True:
            if self.at("("):
                self.i += 1
                args = []
                while not self.at(")"):
                    args.append(self.expr())
                    if not self.eat(","): break
                self.expect(")")
                e = ("call", e, args)
            elif self.at("."):
                k, v = self.peek(1)
                if k == "num":
                    self.i += 2
                    e = ("index", e, int(v))
                elif k == "id":
                    self.i += 2
                    gens = []
                    if self.at("::"):
                        self.i += 1; gens.append(self.skip_angles())
                    if self.at("("):
                        self.i += 1
                        args = []
                        while not self.at(")"):
                            args.append(self.expr())
                            if not self.eat(","): break
                        self.expect(")")
                        e = ("mcall", e, v, args, gens)
                    else:
                        e = ("field", e, v)
                else: break
            elif self.at("?"):
                self.i += 1
                e = ("try", e)
            else: break
        return e

    def block(self):
        """as rust2lean's, but a statement that starts with `if` / `match` / `loop` ends with its block (`if c { return e; } *x = y;`)"""
        self.expect("{")
        stmts, tail = [], None
        while not self.at("}"):
            if self.eat(";"): continue
            if self.at("let"):
                self.i += 1
                p = self.pattern()
                ty = None
                if self.eat(":"): ty = self.skip_type(("=", ";"))
                init = None
                if self.eat("="): init = self.expr()
                self.expect(";")
                stmts.append(("let", p, ty, init))
                continue
            if self.at("use") or self.at("#"): fail("`use` / attributes inside a body")
            if self.peek()[0] == "id" and self.peek()[1] in ("if", "match", "loop"):
                e = self.atom(False)
                if self.at("}"):
                    tail = e; break
                self.eat(";")
                stmts.append(("expr", e)); continue
            e = self.expr()
            k, v = self.peek()
            if k != "num" and v == "=":
                self.i += 1
                rhs = self.expr()
                self.expect(";")
                stmts.append(("assign", e, rhs))
                continue
            if self.eat(";"):
                stmts.append(("expr", e)); continue
            if self.at("}"):
                tail = e; break
            fail(f"statement: unexpected {self.peek()[1]!r} after expression")
        self.expect("}")
        return ("block", stmts, tail)

def parse_body(text):
    p = Parser(tokenize(text))
    b = p.block()
    if p.peek()[0] != "eof": fail("trailing tokens after the body")
    return b

# ------------------------------------------------------------------------------------------------ lowering
IDENTITY = {"clone", "borrow", "to_owned", "into"}
NATS = {"u64", "usize", "u32", "u8", "u16"}

def IND(s, n): return s.replace("\n", "\n" + " " * n)

_BIND = [0]
def bind(call, pat, rest):
    """the `?` operator: `Prim.tryE call (fun value => rest)`; a tuple of (value, returned states) is taken apart by projections"""
    if not pat.startswith("("):
        return f"(Prim.tryE {call} fun {pat} =>\n  {IND(rest, 2)})"
    parts = [x.strip() for x in pat[1:-1].split(",")]
    _BIND[0] += 1
    r = f"r_{_BIND[0]}"
    n = len(parts)
    proj = lambda i: r + ".2" * i + (".1" if i < n - 1 else "")
    lets = "".join(f"let {x} := {proj(i)}\n" for i, x in enumerate(parts))
    return f"(Prim.tryE {call} fun {r} =>\n  {IND(lets + rest, 2)})"

def recv_name(e):
    if e[0] == "path" and len(e[1]) == 1: return e[1][0]
    if e[0] == "field": return e[2]
    if e[0] == "unary": return recv_name(e[2])
    if e[0] == "try": return "?"
    return None

def arg_hint(args):
    out = []
    for a in args:
        if a[0] == "str": out.append("str")
        else: out.append(recv_name(a) or "_")
    return ",".join(out)

def walk(e):
    """all tuple nodes of an AST"""
    if isinstance(e, tuple):
        yield e
        for x in e: yield from walk(x)
    elif isinstance(e, list):
        for x in e: yield from walk(x)

def root_of(place):
    while place[0] in ("unary", "field"):
        place = place[2] if place[0] == "unary" else place[1]
    return place[1][0] if place[0] == "path" and len(place[1]) == 1 else None

class Lower:
    def __init__(self, spec, registry):
        self.spec, self.registry = spec, registry
        self.dict = {}
        for (k, n, t, *fl) in spec.get("dict", []): self.dict[k] = dict(name=n, ty=t, flags=set(fl))
        self.structs = spec.get("structs", {})
        self.enums = spec.get("enums", {})
        self.calls = spec.get("calls", {})
        self.result = spec.get("result", "v")
        self.loop = None          # in loop mode: [lean names of the state variables]
        self.n = 0
        self.effects = 0

    def fresh(self, base):
        self.n += 1
        return f"{base}_{self.n}"

    # ---- exits
    def finish(self, c):
        r = {"v": c, "self": "self_", "v,self": f"({c}, self_)", "v,cell": f"({c}, self_.alpha)"}[self.result]
        return f"(Except.ok (Prim.Flow.done {r}))" if self.loop else f"(Except.ok {r})"

    # ---- pure sub-expressions
    def pure(self, e, env):
        before = self.effects
        box = []
        self.ex(e, env, lambda c, v: box.append(c) or "")
        if self.effects != before or len(box) != 1: fail("an expression with `?` or a state update where a pure one is required")
        return box[0]

    def strlit(self, s):
        if s.startswith("b"): return f"(Prim.bstr {s[1:]})"
        return s

    def field_names(self):
        return {f for (_, fs) in self.structs.values() for f in fs}

    def path(self, e, env):
        segs = e[1]
        if len(segs) == 1:
            n = segs[0]
            if n in env: return env[n]
            if n == "None": return "none"
            if n in ("true", "false"): return n
        key = "::".join(segs)
        for kk in (key, "::".join(segs[-2:])):
            if kk in self.dict:
                d = self.dict[kk]
                return f"(fun _ => {d['name']})" if "const" in d["flags"] else d["name"]
            if kk in self.enums: return self.enums[kk]
        fail(f"path {key!r} is neither a local nor a registered callee")

    # ---- expressions (CPS: `k(code, env)` is the code of everything that follows)
    def ex(self, e, env, k):
        t = e[0]
        if t == "path": return k(self.path(e, env), env)
        if t == "num": return k(re.sub(r"_?(usize|u8|u16|u32|u64|u128|i32)$", "", e[1]), env)
        if t == "str": return k(self.strlit(e[1]), env)
        if t == "unary":
            if e[1] in ("&", "*", "&mut"): return self.ex(e[2], env, k)
            if e[1] == "!": return self.ex(e[2], env, lambda c, v: k(f"(!{c})", v))
            fail(f"unary {e[1]!r}")
        if t == "cast":
            if e[2] not in NATS: fail(f"`as {e[2]}`")
            return self.ex(e[1], env, k)
        if t == "binary":
            op = e[1]
            if op not in ("+", "=="): fail(f"operator {op!r} is outside the serde subset")
            return self.ex(e[2], env, lambda a, v1: self.ex(e[3], v1, lambda b, v2: k(f"({a} {op} {b})", v2)))
        if t == "field":
            if e[2] not in self.field_names(): fail(f"field .{e[2]} of an unregistered struct")
            return self.ex(e[1], env, lambda c, v: k(f"{c}.{e[2]}", v))
        if t == "tuple" and not e[1]: return k("()", env)
        if t == "closure":
            names, inner = [], dict(env)
            for (p, ty) in e[1]:
                if p[0] != "pid": fail("closure parameter pattern")
                inner[p[1]] = lname(p[1]); names.append(lname(p[1]))
            body = self.pure(e[2], inner)
            return k(f"(fun {' '.join(names) or '_'} => {body})", env)
        if t == "struct": return self.struct_lit(e, env, k)
        if t in ("call", "mcall"):
            def after(code, info, v):
                if info["outs"] or info["keeps"]: fail("a call that updates state is used where its result is not consumed by `?` / a tail position")
                return k(code, v)
            return self.call_info(e, env, after)
        if t == "try": return self.try_(e[1], env, k)
        if t == "if":
            if e[3] is None: fail("`if` without `else` in value position")
            if self.effectful(e): return self.if_join(e, env, k)
            c = self.pure(e[1], env)
            return k(f"(if {c} then {self.pure(e[2], env)} else {self.pure(e[3], env)})", env)
        if t == "block": return self.block(e, env, k)
        fail(f"expression kind {t!r} is outside the serde subset")

    def effectful(self, e):
        for n in walk(e):
            if n and n[0] == "try": return True
        return bool(self.mutated(e))

    def mutated(self, e):
        out = set()
        for n in walk(e):
            if not n: continue
            if n[0] == "unary" and n[1] == "&mut": out.add(root_of(n[2]))
            elif n[0] == "assign": out.add(root_of(n[1]))
            elif n[0] == "mcall":
                key = self.mkey(n[1], n[2], n[3])
                if key and key[0] == "dict" and "mut" in self.dict[key[1]]["flags"]: out.add(root_of(n[1]))
                if key and key[0] == "reg" and self.registry[key[1]]["selfmode"] != "value": out.add(root_of(n[1]))
        out.discard(None)
        return out

    def struct_lit(self, e, env, k):
        name = e[1][1][-1]
        if name == "Self": name = self.spec.get("self_struct") or fail("`Self { .. }` in a body without `self_struct`")
        if name not in self.structs: fail(f"struct literal of the unregistered struct {name}")
        if e[3] is not None: fail("struct update syntax")
        mk, fields = self.structs[name]
        got = dict(e[2])
        for f in self.spec.get("phantoms", []):
            if f in got:
                if got[f] != ("path", ["PhantomData"], []): fail(f"field {f} is registered as PhantomData")
                del got[f]
        if sorted(got) != sorted(fields): fail(f"struct literal {name}: fields {sorted(got)}, registered {sorted(fields)}")
        order = [f for f, _ in e[2] if f in got]          # evaluation order = source order
        vals = {}
        def go(i, v):
            if i == len(order): return k("(" + " ".join([mk] + [vals[f] for f in fields]) + ")", v)
            return self.ex(got[order[i]], v, lambda c, v2: (vals.__setitem__(order[i], c), go(i + 1, v2))[1])
        return go(0, env)

    # ---- calls
    def mkey(self, recv, m, args):
        rn = recv_name(recv)
        if rn and f"{rn}.{m}" in self.calls: return ("reg", self.calls[f"{rn}.{m}"])
        for key in ([f"{rn}.{m}({arg_hint(args)})", f"{rn}.{m}"] if rn else []) + ["." + m]:
            if key in self.dict: return ("dict", key)
        return None

    def seq(self, es, env, k):
        vals = []
        def go(i, v):
            if i == len(es): return k(vals, v)
            return self.ex(es[i], v, lambda c, v2: (vals.append(c), go(i + 1, v2))[1])
        return go(0, env)

    def reg_call(self, name, args, what):
        rec = self.registry[name]
        extra = []
        for kk in rec["dict"]:
            if kk not in self.dict: fail(f"{what}: the callee {rec['lean']} needs the dictionary entry {kk!r}, which this body does not register")
            extra.append(self.dict[kk]["name"])
        return "(" + " ".join([rec["lean"]] + extra + args) + ")"

    def call_info(self, e, env, k):
        """k(code, info, env); info: outs = places whose final state the callee returns after its value, unit, keeps, pure"""
        info = dict(outs=[], unit=False, keeps=False, pure=False)
        if e[0] == "mcall":
            recv, m, args = e[1], e[2], e[3]
            if m in IDENTITY and not args: return self.ex(recv, env, lambda c, v: k(c, dict(info, pure=True), v))
            simple = {"is_some": "{0}.isSome", "is_none": "{0}.isNone", "len": "{0}.length"}
            if m in simple and not args: return self.ex(recv, env, lambda c, v: k(simple[m].format(c), dict(info, pure=True), v))
            opt = {"map": "(Option.map {1} {0})", "ok_or_else": "(Prim.okOrElse {0} {1})", "unwrap_or_else": "(Prim.unwrapOrElse {0} {1})"}
            if m in opt and len(args) == 1 and self.mkey(recv, m, args) is None:
                return self.ex(recv, env, lambda c, v: self.ex(args[0], v, lambda f, v2: k(opt[m].format(c, f), dict(info, pure=(m != "ok_or_else")), v2)))
            key = self.mkey(recv, m, args)
            if key is None: fail(f"method .{m}({arg_hint(args)}) on `{recv_name(recv)}`: not a registered callee of this body")
            allargs = [recv] + args
            if key[0] == "reg":
                rec = self.registry[key[1]]
                if rec["selfmode"] != "value": info["outs"].append(recv)
                info["unit"] = rec["selfmode"] == "mut-unit"
                mk = lambda cs: self.reg_call(key[1], cs, m)
            else:
                d = self.dict[key[1]]
                if "mut" in d["flags"]: info["outs"].append(recv)
                info["unit"] = "unit" in d["flags"]; info["keeps"] = "keeps" in d["flags"]; info["pure"] = "pure" in d["flags"]
                mk = lambda cs: "(" + " ".join([d["name"]] + cs) + ")"
        else:
            f, args = e[1], e[2]
            if f[0] != "path": fail("call of a computed function")
            segs = f[1]
            key = "::".join(segs)
            if key == "Some" and len(args) == 1: return self.ex(args[0], env, lambda c, v: k(f"(some {c})", dict(info, pure=True), v))
            if key in ("Ok", "Err"): fail(f"`{key}(..)` outside a tail / return position")
            allargs = args
            cands = [key, "::".join(segs[-2:])]
            hit = next((c for c in cands if c in self.enums), None)
            if hit:
                mk = lambda cs: "(" + " ".join([self.enums[hit]] + cs) + ")"
                info["pure"] = True
            elif any(c in self.registry for c in cands) and not any(c in self.dict for c in cands):
                hit = next(c for c in cands if c in self.registry)
                rec = self.registry[hit]
                info["pure"] = rec.get("pure", False)
                mk = lambda cs: self.reg_call(hit, cs, key)
            else:
                hit = next((c for c in cands if c in self.dict), None)
                if hit is None: fail(f"call of {key!r}: not a registered callee of this body")
                d = self.dict[hit]
                info["unit"] = "unit" in d["flags"]; info["keeps"] = "keeps" in d["flags"]; info["pure"] = "pure" in d["flags"] or "const" in d["flags"]
                if "const" in d["flags"]:
                    if args: fail(f"{key} is registered as a constant")
                    return k(d["name"], info, env)
                mk = lambda cs: "(" + " ".join([d["name"]] + cs) + ")"
        for a in allargs[(1 if e[0] == "mcall" else 0):]:
            if a[0] == "unary" and a[1] == "&mut": info["outs"].append(a[2])
            if a[0] == "struct":
                for (fname, fe) in a[2]:
                    if fe[0] == "unary" and fe[1] == "&mut": info["outs"].append(fe[2])
        return self.seq(allargs, env, lambda cs, v: k(mk(cs), info, v))

    def rebind(self, place, new, env):
        while place[0] == "unary": place = place[2]
        if place[0] == "path" and len(place[1]) == 1 and place[1][0] in env:
            x = env[place[1][0]]
            return [] if x == new else [f"let {x} := {new}"]
        if place[0] == "field" and place[1][0] == "path" and len(place[1][1]) == 1 and place[1][1][0] in env:
            x = env[place[1][1][0]]
            if place[2] not in self.field_names(): fail(f"assignment to the field .{place[2]} of an unregistered struct")
            return [f"let {x} := {{ {x} with {place[2]} := {new} }}"]
        fail("update of a place that is neither a local nor a field of a local")

    def out_var(self, place, env):
        p = place
        while p[0] == "unary": p = p[2]
        if p[0] == "path" and len(p[1]) == 1 and p[1][0] in env: return env[p[1][0]]
        return self.fresh(recv_name(p) or "st")

    def consume(self, code, info, env, k):
        """the call under `?`: bind its value, rebind the places it updates, continue with the value"""
        if info["pure"]: fail("`?` on a value that is not a `Result`")
        self.effects += 1
        names = [self.out_var(p, env) for p in info["outs"]]
        lets = [l for p, n in zip(info["outs"], names) for l in self.rebind(p, n, env)]
        keep = None
        if info["keeps"]:
            keep = self.fresh("kept")
            if "alpha" not in self.field_names(): fail("`keeps` without an alpha cell")
            lets.append(f"let self_ := {{ self_ with alpha := {keep}.alpha }}")
        v = "()" if info["unit"] else self.fresh("x")
        parts = ([] if info["unit"] else [v]) + names + ([keep] if keep else [])
        pat = parts[0] if len(parts) == 1 else "(" + ", ".join(parts) + ")"
        if not parts: pat = "_"
        return bind(code, pat, "\n".join(lets + [k(v, env)]))

    def try_(self, inner, env, k):
        if inner[0] in ("call", "mcall"):
            return self.call_info(inner, env, lambda code, info, v: self.consume(code, info, v, k))
        def after(c, v):
            self.effects += 1
            x = self.fresh("x")
            return bind(c, x, k(x, v))
        return self.ex(inner, env, after)

    def if_join(self, e, env, k):
        muts = sorted(self.mutated(e[2]) | self.mutated(e[3]))
        for m in muts:
            if m not in env: fail(f"`if` branches update `{m}`, which is not a local")
        c = self.pure(e[1], env)
        def br(b):
            blk = b if b[0] == "block" else ("block", [], b)
            return self.block(blk, dict(env), lambda cc, v: "(Except.ok " + ("(" + ", ".join([cc] + [env[m] for m in muts]) + ")" if muts else cc) + ")")
        th, el = br(e[2]), br(e[3])
        self.effects += 1
        x = self.fresh("x")
        pat = "(" + ", ".join([x] + [env[m] for m in muts]) + ")" if muts else x
        return bind(f"(if {c} then\n  {IND(th, 2)}\nelse\n  {IND(el, 2)})", pat, k(x, env))

    # ---- patterns
    def pat(self, p, env):
        if p[0] == "pwild": return "_"
        if p[0] == "pid":
            env[p[1]] = lname(p[1]); return lname(p[1])
        if p[0] == "penum":
            segs, subs = p[1], p[2] or []
            key = "::".join(segs[-2:])
            ss = [self.pat(s, env) for s in subs]
            if key == "Ok" and len(ss) == 1: return f".ok {ss[0]}"
            if key == "Err" and len(ss) == 1: return f".error {ss[0]}"
            if key == "Some" and len(ss) == 1: return f"(some {ss[0]})"
            if key == "None" and not ss: return "none"
            if key in self.enums: return "(" + " ".join([self.enums[key]] + ss) + ")" if ss else self.enums[key]
            fail(f"pattern {key}: not a registered enum variant")
        fail(f"pattern kind {p[0]}")

    # ---- statements and tails
    def block(self, b, env, k):
        """a block in value position"""
        def kend(te, v):
            if te is None: fail("a block in value position needs a tail expression")
            return self.ex(te, v, k)
        return self.stmts(b[1], b[2], dict(env), kend)

    def is_return_block(self, b):
        last = b[2] if b[2] is not None else (b[1][-1][1] if b[1] and b[1][-1][0] == "expr" else None)
        return last is not None and last[0] == "return"

    def stmts(self, ss, tail_e, env, kend):
        if not ss: return kend(tail_e, env)
        s, more = ss[0], ss[1:]
        rest = lambda v: self.stmts(more, tail_e, v, kend)
        if s[0] == "let":
            p, init = s[1], s[3]
            if init is None: fail("`let` without initialiser")
            if p[0] == "pwild": return self.ex(init, env, lambda c, v: rest(v))
            if p[0] != "pid": fail("let: only `let [mut] x = e;`")
            x = lname(p[1])
            def after(c, v):
                v = dict(v); v[p[1]] = x
                return (f"let {x} := {c}\n" if c != x else "") + rest(v)
            return self.ex(init, env, after)
        if s[0] == "assign":
            place, rhs = s[1], s[2]
            def after(c, v):
                return "\n".join(self.rebind(place, c, v) + [rest(v)])
            if rhs[0] == "match": return self.match_cps(rhs, env, after)
            return self.ex(rhs, env, after)
        if s[0] == "expr":
            e = s[1]
            if e[0] == "if" and e[3] is None:
                if not self.is_return_block(e[2]): fail("`if` without `else` whose block does not return")
                c = self.pure(e[1], env)
                return f"(if {c} then\n  {IND(self.tail(e[2], dict(env)), 2)}\nelse\n  {IND(rest(env), 2)})"
            if e[0] == "return": return self.tail(e, env)
            return self.ex(e, env, lambda c, v: rest(v))
        fail(f"statement {s[0]!r}")

    def arm(self, body, env, k):
        if body[0] == "return": return self.tail(body, env)
        if body[0] == "block": return self.stmts(body[1], body[2], dict(env), lambda te, v: self.tail(("return", None), v) if te is None else (self.tail(te, v) if te[0] == "return" else self.ex(te, v, k)))
        return self.ex(body, env, k)

    def match_cps(self, e, env, k):
        """`match <call returning Result, not under ?> { Ok(p) => .., Err(p) => .. }` whose arms return or yield a value"""
        scrut, arms = e[1], e[2]
        if scrut[0] not in ("call", "mcall"): fail("match in value position: the scrutinee must be a call")
        def after(code, info, v):
            if info["pure"] or info["keeps"]: fail("match on a call that is not a plain `Result`")
            self.effects += 1
            names = [self.out_var(p, v) for p in info["outs"]]
            out = []
            for (pats, body) in arms:
                if len(pats) != 1: fail("or-patterns")
                p = pats[0]
                if p[0] != "penum" or p[1][-1] not in ("Ok", "Err") or len(p[2] or []) != 1: fail("match on a `Result`: arms must be `Ok(..)` / `Err(..)`")
                av = dict(v)
                inner = self.pat(p[2][0], av)
                if p[1][-1] == "Ok":
                    parts = ([] if info["unit"] else [inner]) + names
                    lp = ".ok " + (parts[0] if len(parts) == 1 else "(" + ", ".join(parts) + ")")
                    lets = [l for pl, n in zip(info["outs"], names) for l in self.rebind(pl, n, av)]
                else:
                    lp, lets = ".error " + inner, []
                out.append(f"  | {lp} =>\n    " + IND("\n".join(lets + [self.arm(body, av, k)]), 4))
            return f"(match {code} with\n" + "\n".join(out) + ")"
        return self.call_info(scrut, env, after)

    def tail(self, e, env):
        """code of the function's result for an expression in tail / `return` position"""
        if self.spec.get("pure"): return self.pure(e, env)
        t = e[0]
        if t == "return":
            if e[1] is None: fail("`return;`")
            return self.tail(e[1], env)
        if t == "block": return self.stmts(e[1], e[2], dict(env), lambda te, v: self.fall(v) if te is None else self.tail(te, v))
        if t == "loop": fail("`loop` is only translated as the whole body of a function registered with loop=[state]")
        if t == "if":
            if e[3] is None: fail("`if` without `else` in tail position")
            c = self.pure(e[1], env)
            return f"(if {c} then\n  {IND(self.tail(e[2], dict(env)), 2)}\nelse\n  {IND(self.tail(e[3], dict(env)), 2)})"
        if t == "iflet":
            c = self.pure(e[2], env)
            av = dict(env)
            p = self.pat(e[1], av)
            return f"(match {c} with\n  | {p} =>\n    {IND(self.tail(e[3], av), 4)}\n  | _ =>\n    {IND(self.tail(e[4], dict(env)), 4)})"
        if t == "match":
            c = self.pure(e[1], env)
            out = []
            for (pats, body) in e[2]:
                if len(pats) != 1: fail("or-patterns")
                av = dict(env)
                p = self.pat(pats[0], av)
                out.append(f"  | {p} =>\n    {IND(self.tail(body, av), 4)}")
            return f"(match {c} with\n" + "\n".join(out) + ")"
        if t == "panic":
            if "panic" not in self.dict: fail("unimplemented!: the body does not register `panic`")
            return f"(Except.error ({self.dict['panic']['name']} {e[1]}))"
        if t == "call" and e[1][0] == "path" and e[1][1] in (["Ok"], ["Err"]) and len(e[2]) == 1:
            if e[1][1] == ["Ok"]: return self.ex(e[2][0], env, lambda c, v: self.finish(c))
            return self.ex(e[2][0], env, lambda c, v: f"(Except.error {c})")
        if t in ("call", "mcall"):
            def after(code, info, v):
                if info["pure"]: fail("a tail expression that is not a `Result`")
                if not info["outs"] and not info["keeps"] and self.result == "v" and not self.loop: return code        # a tail call
                return self.consume(code, info, v, lambda x, v2: self.finish(x))                                          # read as `Ok(call?)`
            return self.call_info(e, env, after)
        fail(f"tail expression of kind {t!r}")

    def fall(self, env):
        if self.loop: return "(Except.ok (Prim.Flow.next (" + ", ".join(self.loop) + ")))"
        fail("a body that ends without a value")

def translate(spec, read_src, registry):
    src = read_src(spec["file"])
    where, label = spec["where"] if spec["where"] else (None, "file scope")
    params, ret, body = find_fn(src, where, spec["fn"], spec.get("nth", 0))
    names = param_names(params)
    if len(names) != len(spec["params"]): fail(f"parameters {names}, registered types {spec['params']}")
    lo = Lower(spec, registry)
    _BIND[0] = 0
    blk = parse_body(body)
    env = {n: ("self_" if n == "self" else lname(n)) for n in names}
    dictb = [f"({n} : {t})" for (_, n, t, *_f) in spec.get("dict", [])]
    bm = re.fullmatch(r"\{([^:]*):\s*Type\}", spec.get("binders", "") or "{: Type}")
    if not bm: fail("binders")
    used = " ".join([t for (_, _, t, *_f) in spec.get("dict", [])] + list(spec["params"]) + [spec["ret"]])
    tv = [v for v in bm.group(1).split() if re.search(r"(?<![\w.])" + re.escape(v) + r"(?![\w.])", used)]     # only the type variables that occur (an unused implicit cannot be inferred)
    spec = dict(spec, binders="{" + " ".join(tv) + " : Type}" if tv else "")
    parb = [f"({env[n]} : {t})" for n, t in zip(names, spec["params"])]
    doc = f"/-- `{spec['file']}`: `fn {spec['fn']}` of `{label}` -/\n"
    dkeys = [k for (k, *_r) in spec.get("dict", [])]
    rec = dict(lean="Gen.BodySerde." + spec["name"], dict=dkeys, selfmode=spec.get("selfmode", "value"), pure=bool(spec.get("pure")))
    if spec.get("loop"):
        st = spec["loop"]
        if blk[1] or blk[2] is None or blk[2][0] != "loop": fail("registered as a `loop` body: the body must be exactly one `loop { .. }`")
        lo.loop = [env[s] for s in st]
        code = lo.tail(blk[2][1], env)
        sty = " × ".join(t for n, t in zip(names, spec["params"]) if n in st)
        head = doc[:-1].replace(" -/", " (one turn of its `loop`) -/") + f"\ndef {spec['name']}Step " + " ".join([spec.get("binders", "")] + dictb + parb) + \
            f" : Except ε (Prim.Flow ({sty}) ({spec['ret']})) :=\n"
        text = head + "  " + IND(code, 2) + "\n\n"
        dn = " ".join(n for (_, n, *_r) in spec.get("dict", []))
        others = [env[n] for n in names if n not in st]
        lam = "fun st"
        text += doc[:-1].replace(" -/", " (`loop` = `Prim.loopFuel`) -/") + f"\ndef {spec['name']} " + " ".join([spec.get("binders", "")] + dictb + ["(fuel : Nat)"] + parb) + \
            f" : Option (Except ε ({spec['ret']})) :=\n  Prim.loopFuel fuel ({lam} => {spec['name']}Step {dn} " + " ".join((f"st.{lo.loop.index(env[n]) + 1}" if env[n] in lo.loop else env[n]) for n in names) + ") (" + ", ".join(lo.loop) + ")\n"
        return text, rec
    code = lo.tail(blk, env)
    text = doc + f"def {spec['name']} " + " ".join(b for b in [spec.get("binders", "")] + dictb + parb if b) + f" : {spec['ret']} :=\n  " + IND(code, 2) + "\n"
    return text, rec

# ------------------------------------------------------------------------------------------------ registrations (family `serde`)
def B(name, file, where, fn, model, **kw):
    d = dict(name=name, file=file, where=where, fn=fn, model=model)
    d.update(kw)
    return d

def impl_of(head, label=None): return R.impl_of(head, label)
def camel(s): return "".join(w[:1].upper() + w[1:] for w in s.split("_"))

SER, DE, SD, AL, PA = "serde/alpha_serializer.rs", "serde/alpha_deserializer.rs", "serde.rs", "alpha/alpha.rs", "blend/pre_alpha.rs"
AS, AD, ASV, AMV, MW = "Prim.AlphaSerializer", "Prim.AlphaDeserializer", "Prim.AlphaSeqVisitor", "Prim.AlphaMapVisitor", "Prim.MapWrapper"
AFS, AFV, SFD = "Prim.AlphaFieldDeserializerSeed", "Prim.AlphaFieldVisitor", "Prim.StructFieldDeserializer"
# Rust struct -> (Lean constructor, fields without PhantomData, file of the definition): checked against the `struct` item on every run
STRUCT_DEFS = {
    "AlphaSerializer": (AS + ".mk", ["inner", "alpha"], SER),
    "AlphaDeserializer": (AD + ".mk", ["inner", "alpha"], DE),
    "AlphaSeqVisitor": (ASV + ".mk", ["inner", "alpha"], DE),
    "AlphaMapVisitor": (AMV + ".mk", ["inner", "alpha", "field_count"], DE),
    "MapWrapper": (MW + ".mk", ["inner", "alpha", "field_count"], DE),
    "AlphaFieldDeserializerSeed": (AFS + ".mk", ["inner", "field_count"], DE),
    "AlphaFieldVisitor": (AFV + ".mk", ["inner", "field_count"], DE),
    "StructFieldDeserializer": (SFD + ".mk", ["struct_field"], DE),
    "Alpha": ("Prim.AlphaOf.mk", ["color", "alpha"], AL),
    "PreAlpha": ("Prim.PreAlphaOf.mk", ["color", "alpha"], PA),
}
STRUCTS = {k: (mk, fs) for k, (mk, fs, _) in STRUCT_DEFS.items()}
ENUM_DEFS = {"AlphaField": ([("Alpha", 1), ("Other", 1)], DE), "StructField": ([("Unsigned", 1), ("Str", 1), ("Bytes", 1)], DE)}
ENUMS = {"AlphaField::Alpha": "Prim.AlphaField.alpha", "AlphaField::Other": "Prim.AlphaField.other",
         "StructField::Unsigned": "Prim.StructField.unsigned", "StructField::Str": "Prim.StructField.str", "StructField::Bytes": "Prim.StructField.bytes",
         "Unexpected::Unsigned": "Prim.Unexpected.unsigned"}
# lines that decide which impl a method call on a value of an associated type resolves to (`serializer.serialize_field(..)` in `serialize_newtype_struct`)
PINNED_LINES = [
    (SER, r"type\s+SerializeTupleStruct\s*=\s*AlphaSerializer\s*<\s*'a\s*,\s*S::SerializeTupleStruct\s*,\s*A\s*>\s*;"),
    (SER, r"type\s+SerializeTuple\s*=\s*AlphaSerializer\s*<\s*'a\s*,\s*S::SerializeTuple\s*,\s*A\s*>\s*;"),
    (SER, r"type\s+SerializeSeq\s*=\s*AlphaSerializer\s*<\s*'a\s*,\s*S::SerializeSeq\s*,\s*A\s*>\s*;"),
    (SER, r"type\s+SerializeMap\s*=\s*AlphaSerializer\s*<\s*'a\s*,\s*S::SerializeMap\s*,\s*A\s*>\s*;"),
    (SER, r"type\s+SerializeStruct\s*=\s*AlphaSerializer\s*<\s*'a\s*,\s*S::SerializeStruct\s*,\s*A\s*>\s*;"),
    (SER, r"type\s+Ok\s*=\s*S::Ok\s*;"), (SER, r"type\s+Error\s*=\s*S::Error\s*;"), (DE, r"type\s+Error\s*=\s*D::Error\s*;"),
    (DE, r"type\s+Value\s*=\s*AlphaField\s*<\s*T\s*,\s*T::Value\s*>\s*;"),
    (SD, r"pub\s+mod\s+as_array\s*\{\s*pub\s+use\s+super::deserialize_as_array\s+as\s+deserialize\s*;\s*pub\s+use\s+super::serialize_as_array\s+as\s+serialize\s*;\s*\}"),
    (SD, r"pub\s+mod\s+as_uint\s*\{\s*pub\s+use\s+super::deserialize_as_uint\s+as\s+deserialize\s*;\s*pub\s+use\s+super::serialize_as_uint\s+as\s+serialize\s*;\s*\}"),
]

SER_IMPL = impl_of("Serializer for AlphaSerializer<'a, S, A>")
DE_IMPL = impl_of("Deserializer<'de> for AlphaDeserializer<'_, D, A>")
SFD_IMPL = impl_of("Deserializer<'de> for StructFieldDeserializer<'_, E>")
PANIC = ("panic", "panic", "String → ε")
ST1 = {"AlphaSerializer": STRUCTS["AlphaSerializer"]}

def opener(name, fn, innerty, params):
    return B(name, SER, SER_IMPL, fn, "Serde.Proto." + name, binders="{S Q A ε : Type}", structs=ST1,
             dict=[("inner." + fn, "inner" + camel(fn), innerty)], params=[f"{AS} S A"] + params, ret=f"Except ε ({AS} Q A)")

def compound(prefix, trait, put, end_hint, keyty=None):
    """`impl Serialize<X> for AlphaSerializer`: the forwarding method(s) and `end`"""
    w = impl_of(f"{trait} for AlphaSerializer<'_, S, A>")
    out = []
    for (fn, ty, ps) in put:
        out.append(B(prefix + camel(fn), SER, w, fn, "Serde.Proto.forward" + str(len(ps)), binders="{Q A K V ε : Type}", structs=ST1, selfmode="mut-unit", result="self",
                     dict=[("inner." + fn, "inner" + camel(fn), ty, "mut", "unit")], params=[f"{AS} Q A"] + ps, ret=f"Except ε ({AS} Q A)"))
    (efn, hint, ety) = end_hint
    out.append(B(prefix + "End", SER, w, "end", "Serde.Proto." + prefix + "End", binders="{Q A β ε : Type}", structs=ST1,
                 dict=[(f"inner.{efn}({hint})", "innerPutAlpha", ety, "mut", "unit"), ("inner.end", "innerEnd", "Q → Except ε β")], params=[f"{AS} Q A"], ret="Except ε β"))
    return out

QV = "Q → V → Except ε Q"
BODIES_FIXED = [
    B("alphaSerializerError", SER, None, "alpha_serializer_error", "Serde.Proto.serUnsupported", binders="{ε β : Type}", dict=[PANIC], params=[], ret="Except ε β",
      as_fn=["alpha_serializer_error"]),
    opener("serSerializeSeq", "serialize_seq", "S → Option Nat → Except ε Q", ["Option Nat"]),
    opener("serSerializeTuple", "serialize_tuple", "S → Nat → Except ε Q", ["Nat"]),
    opener("serSerializeTupleStruct", "serialize_tuple_struct", "S → String → Nat → Except ε Q", ["String", "Nat"]),
    opener("serSerializeMap", "serialize_map", "S → Option Nat → Except ε Q", ["Option Nat"]),
    opener("serSerializeStruct", "serialize_struct", "S → String → Nat → Except ε Q", ["String", "Nat"]),
] + compound("seq", "SerializeSeq", [("serialize_element", QV, ["V"])], ("serialize_element", "alpha", "Q → A → Except ε Q")) \
  + compound("tuple", "SerializeTuple", [("serialize_element", QV, ["V"])], ("serialize_element", "alpha", "Q → A → Except ε Q")) \
  + compound("tupleStruct", "SerializeTupleStruct", [("serialize_field", QV, ["V"])], ("serialize_field", "alpha", "Q → A → Except ε Q")) \
  + compound("tupleVariant", "SerializeTupleVariant", [("serialize_field", QV, ["V"])], ("serialize_field", "alpha", "Q → A → Except ε Q")) \
  + compound("map", "SerializeMap", [("serialize_key", "Q → K → Except ε Q", ["K"]), ("serialize_value", QV, ["V"]), ("serialize_entry", "Q → K → V → Except ε Q", ["K", "V"])],
             ("serialize_entry", "str,alpha", "Q → String → A → Except ε Q")) \
  + compound("struct", "SerializeStruct", [("serialize_field", "Q → String → V → Except ε Q", ["String", "V"]), ("skip_field", "Q → String → Except ε Q", ["String"])],
             ("serialize_field", "str,alpha", "Q → String → A → Except ε Q")) \
  + compound("structVariant", "SerializeStructVariant", [("serialize_field", "Q → String → V → Except ε Q", ["String", "V"]), ("skip_field", "Q → String → Except ε Q", ["String"])],
             ("serialize_field", "str,alpha", "Q → String → A → Except ε Q")) + [
    B("serSerializeNewtypeStruct", SER, SER_IMPL, "serialize_newtype_struct", "Serde.Proto.serSerializeNewtypeStruct", binders="{S Q A V β ε : Type}", structs=ST1,
      dict=[("inner.serialize_tuple_struct", "innerSerializeTupleStruct", "S → String → Nat → Except ε Q"), ("inner.serialize_field", "innerSerializeField", QV, "mut", "unit"),
            ("inner.serialize_field(alpha)", "innerPutAlpha", "Q → A → Except ε Q", "mut", "unit"), ("inner.end", "innerEnd", "Q → Except ε β")],
      calls={"self.serialize_tuple_struct": "serSerializeTupleStruct", "serializer.serialize_field": "tupleStructSerializeField", "serializer.end": "tupleStructEnd"},
      params=[f"{AS} S A", "String", "V"], ret="Except ε β"),
    B("serSerializeUnitStruct", SER, SER_IMPL, "serialize_unit_struct", "Serde.Proto.serSerializeUnitStruct", binders="{S A β ε : Type}", structs=ST1,
      dict=[("inner.serialize_newtype_struct", "innerSerializeNewtypeStruct", "S → String → A → Except ε β")], params=[f"{AS} S A", "String"], ret="Except ε β"),
    B("serSerializeUnit", SER, SER_IMPL, "serialize_unit", "Serde.Proto.serSerializeUnit", binders="{S Q A β ε : Type}", structs=ST1,
      dict=[("inner.serialize_tuple", "innerSerializeTuple", "S → Nat → Except ε Q"), ("inner.serialize_element(alpha)", "innerPutAlpha", "Q → A → Except ε Q", "mut", "unit"),
            ("inner.end", "innerEnd", "Q → Except ε β")],
      calls={"self.serialize_tuple": "serSerializeTuple", "?.end": "tupleEnd"}, params=[f"{AS} S A"], ret="Except ε β"),
    B("serIsHumanReadable", SER, SER_IMPL, "is_human_readable", "Serde.Proto.serIsHumanReadable", binders="{S A : Type}", structs=ST1, pure=True,
      dict=[("inner.is_human_readable", "innerIsHumanReadable", "S → Bool", "pure")], params=[f"{AS} S A"], ret="Bool"),
    # ---- Serialize for Alpha / PreAlpha, the helpers of serde.rs
    B("alphaSerialize", AL, impl_of("serde::Serialize for Alpha<C, T>"), "serialize", "Serde.Proto.alphaSerialize", binders="{γ τ S β ε : Type}",
      structs={"Alpha": STRUCTS["Alpha"], **ST1}, dict=[("color.serialize", "serializeColor", f"γ → {AS} S τ → Except ε β")], params=["Prim.AlphaOf γ τ", "S"], ret="Except ε β"),
    B("preAlphaSerialize", PA, impl_of("serde::Serialize for PreAlpha<C>"), "serialize", "Serde.Proto.alphaSerialize", binders="{γ τ S β ε : Type}",
      structs={"PreAlpha": STRUCTS["PreAlpha"], **ST1}, dict=[("color.serialize", "serializeColor", f"γ → {AS} S τ → Except ε β")], params=["Prim.PreAlphaOf γ τ", "S"], ret="Except ε β"),
    B("serializeAsArray", SD, None, "serialize_as_array", "Serde.Proto.serializeVia", binders="{σ ρ S β ε : Type}",
      dict=[("cast::into_array_ref", "intoArrayRef", "σ → ρ", "pure"), (".serialize", "serializeArray", "ρ → S → Except ε β")], params=["σ", "S"], ret="Except ε β"),
    B("serializeAsUint", SD, None, "serialize_as_uint", "Serde.Proto.serializeVia", binders="{σ ρ S β ε : Type}",
      dict=[("cast::into_uint_ref", "intoUintRef", "σ → ρ", "pure"), (".serialize", "serializeUint", "ρ → S → Except ε β")], params=["σ", "S"], ret="Except ε β"),
    B("deserializeAsArray", SD, None, "deserialize_as_array", "Serde.Proto.deserializeVia", binders="{σ ρ D ε : Type}",
      dict=[("cast::from_array", "fromArray", "ρ → σ", "pure"), ("Array::deserialize", "deserializeArray", "D → Except ε ρ")], params=["D"], ret="Except ε σ"),
    B("deserializeAsUint", SD, None, "deserialize_as_uint", "Serde.Proto.deserializeVia", binders="{σ ρ D ε : Type}",
      dict=[("cast::from_uint", "fromUint", "ρ → σ", "pure"), ("Uint::deserialize", "deserializeUint", "D → Except ε ρ")], params=["D"], ret="Except ε σ"),
    B("alphaDeserialize", AL, impl_of("serde::Deserialize<'de> for Alpha<C, T>"), "deserialize", "Serde.Proto.alphaDeserialize", binders="{γ τ D ε : Type}", self_struct="Alpha",
      structs={"Alpha": STRUCTS["Alpha"], "AlphaDeserializer": STRUCTS["AlphaDeserializer"]},
      dict=[("C::deserialize", "deserializeColor", f"{AD} D τ → Except ε (γ × Option τ)"), ("Error::missing_field", "errMissingField", "String → ε")],
      params=["D"], ret="Except ε (Prim.AlphaOf γ τ)"),
    B("preAlphaDeserialize", PA, impl_of("serde::Deserialize<'de> for PreAlpha<C>"), "deserialize", "Serde.Proto.alphaDeserialize", binders="{γ τ D ε : Type}", self_struct="PreAlpha",
      structs={"PreAlpha": STRUCTS["PreAlpha"], "AlphaDeserializer": STRUCTS["AlphaDeserializer"]},
      dict=[("C::deserialize", "deserializeColor", f"{AD} D τ → Except ε (γ × Option τ)"), ("Error::missing_field", "errMissingField", "String → ε")],
      params=["D"], ret="Except ε (Prim.PreAlphaOf γ τ)"),
    B("deserializeWithOptionalAlpha", SD, None, "deserialize_with_optional_alpha", "Serde.Proto.optionalAlpha", binders="{γ τ D ε : Type}",
      structs={"Alpha": STRUCTS["Alpha"], "AlphaDeserializer": STRUCTS["AlphaDeserializer"]},
      dict=[("T::deserialize", "deserializeColor", f"{AD} D τ → Except ε (γ × Option τ)"), ("A::max_intensity", "maxIntensity", "τ", "const"),
            ("A::min_intensity", "minIntensity", "τ", "const")], params=["D"], ret="Except ε (Prim.AlphaOf γ τ)"),
    B("deserializeWithOptionalPreAlpha", SD, None, "deserialize_with_optional_pre_alpha", "Serde.Proto.optionalAlpha", binders="{γ τ D ε : Type}",
      structs={"PreAlpha": STRUCTS["PreAlpha"], "AlphaDeserializer": STRUCTS["AlphaDeserializer"]},
      dict=[("T::deserialize", "deserializeColor", f"{AD} D τ → Except ε (γ × Option τ)"), ("Scalar::max_intensity", "maxIntensity", "τ", "const"),
            ("Scalar::min_intensity", "minIntensity", "τ", "const")], params=["D"], ret="Except ε (Prim.PreAlphaOf γ τ)"),
]

def deser(name, fn, innerfn, vis, innerty, params, model=None, **kw):
    return B(name, DE, DE_IMPL, fn, model or "Serde.Proto." + name, binders="{D A W ρ ε : Type}",
             structs={k: STRUCTS[k] for k in ("AlphaDeserializer", "AlphaSeqVisitor", "AlphaMapVisitor")},
             dict=[("inner." + innerfn, "inner" + camel(innerfn), innerty)], params=[f"{AD} D A"] + params + ["W"], ret="Except ε ρ", **kw)

AMVW, ASVW = f"{AMV} W A", f"{ASV} W A"
VIS_STRUCTS = {k: STRUCTS[k] for k in ("AlphaSeqVisitor", "AlphaMapVisitor", "MapWrapper")}
FV = dict(binders="{K κ ε : Type}", structs={k: STRUCTS[k] for k in ("AlphaFieldVisitor", "StructFieldDeserializer")}, enums=ENUMS, phantoms=["error"],
          dict=[("inner.deserialize", "seedDeserialize", f"K → {SFD} → Except ε κ"), ("Error::invalid_type", "errInvalidType", "Prim.Unexpected → String → ε")],
          ret="Except ε (Prim.AlphaField K κ)")
BODIES_FIXED += [
    B("alphaDeserializerError", DE, None, "alpha_deserializer_error", "Serde.Proto.deUnsupported", binders="{ε β : Type}", dict=[PANIC], params=[], ret="Except ε β",
      as_fn=["alpha_deserializer_error"]),
    B("structFieldDeserializerError", DE, None, "struct_field_deserializer_error", "Serde.Proto.sfdUnsupported", binders="{ε β : Type}", dict=[PANIC], params=[], ret="Except ε β",
      as_fn=["struct_field_deserializer_error"]),
    deser("deDeserializeSeq", "deserialize_seq", "deserialize_seq", "seq", f"D → {ASVW} → Except ε ρ", []),
    deser("deDeserializeTuple", "deserialize_tuple", "deserialize_tuple", "map", f"D → Nat → {AMVW} → Except ε ρ", ["Nat"]),
    deser("deDeserializeTupleStruct", "deserialize_tuple_struct", "deserialize_tuple_struct", "map", f"D → String → Nat → {AMVW} → Except ε ρ", ["String", "Nat"]),
    deser("deDeserializeMap", "deserialize_map", "deserialize_map", "map", f"D → {AMVW} → Except ε ρ", []),
    deser("deDeserializeStruct", "deserialize_struct", "deserialize_struct", "map", f"D → String → List String → {AMVW} → Except ε ρ", ["String", "List String"]),
    deser("deDeserializeIgnoredAny", "deserialize_ignored_any", "deserialize_ignored_any", "seq", f"D → {ASVW} → Except ε ρ", []),
    deser("deDeserializeUnit", "deserialize_unit", "deserialize_tuple", "map", f"D → Nat → {AMVW} → Except ε ρ", []),
    deser("deDeserializeUnitStruct", "deserialize_unit_struct", "deserialize_newtype_struct", "map", f"D → String → {AMVW} → Except ε ρ", ["String"]),
    deser("deDeserializeNewtypeStruct", "deserialize_newtype_struct", "deserialize_tuple_struct", "map", f"D → String → Nat → {AMVW} → Except ε ρ", ["String"],
          calls={"self.deserialize_tuple_struct": "deDeserializeTupleStruct"}),
    B("seqVisitorVisitSeq", DE, impl_of("Visitor<'de> for AlphaSeqVisitor<'_, D, A>"), "visit_seq", "Serde.Proto.seqVisitorVisitSeq", binders="{W A Q β ε : Type}", structs=VIS_STRUCTS,
      result="v,cell", dict=[("inner.visit_seq", "innerVisitSeq", "W → Q → Except ε (β × Q)"), ("seq.next_element", "nextElement", "Q → Except ε (Option A × Q)", "mut")],
      params=[ASVW, "Q"], ret="Except ε (β × Option A)"),
    B("mapVisitorVisitSeq", DE, impl_of("Visitor<'de> for AlphaMapVisitor<'_, D, A>"), "visit_seq", "Serde.Proto.mapVisitorVisitSeq", binders="{W A Q β ε : Type}", structs=VIS_STRUCTS,
      result="v,cell", dict=[("inner.visit_unit", "innerVisitUnit", "W → Except ε β"), ("inner.visit_seq", "innerVisitSeq", "W → Q → Except ε (β × Q)"),
                             ("seq.next_element", "nextElement", "Q → Except ε (Option A × Q)", "mut")],
      params=[AMVW, "Q"], ret="Except ε (β × Option A)"),
    B("mapVisitorVisitMap", DE, impl_of("Visitor<'de> for AlphaMapVisitor<'_, D, A>"), "visit_map", "Serde.Proto.mapVisitorVisitMap", binders="{W A M β ε : Type}", structs=VIS_STRUCTS,
      result="v,cell", dict=[("inner.visit_map", "innerVisitMap", f"W → {MW} M A → Except ε (β × {MW} M A)", "keeps")], params=[AMVW, "M"], ret="Except ε (β × Option A)"),
    B("mapVisitorVisitNewtypeStruct", DE, impl_of("Visitor<'de> for AlphaMapVisitor<'_, D, A>"), "visit_newtype_struct", "Serde.Proto.mapVisitorVisitNewtypeStruct",
      binders="{W A T β ε : Type}", structs=VIS_STRUCTS, result="v,cell",
      dict=[("A::deserialize", "deserializeAlpha", "T → Except ε A"), ("inner.visit_unit", "innerVisitUnit", "W → Except ε β")], params=[AMVW, "T"], ret="Except ε (β × Option A)"),
    B("mapWrapperNextKeySeed", DE, impl_of("MapAccess<'de> for MapWrapper<'_, T, A>"), "next_key_seed", "Serde.Proto.nextKeySeed", binders="{M A K κ ε : Type}", loop=["self", "seed"],
      structs={k: STRUCTS[k] for k in ("MapWrapper", "AlphaFieldDeserializerSeed")}, enums=ENUMS, result="v,self", selfmode="mut-v",
      dict=[("inner.next_key_seed", "innerNextKeySeed", f"M → {AFS} K → Except ε (Option (Prim.AlphaField K κ) × M)", "mut"),
            ("inner.next_value", "innerNextValue", "M → Except ε (A × M)", "mut"), ("Error::duplicate_field", "errDuplicateField", "String → ε")],
      params=[f"{MW} M A", "K"], ret=f"Option κ × {MW} M A", step_model="Serde.Proto.nextKeySeedStep"),
    B("mapWrapperNextValueSeed", DE, impl_of("MapAccess<'de> for MapWrapper<'_, T, A>"), "next_value_seed", "Serde.Proto.nextValueSeed", binders="{M A Sd υ ε : Type}",
      structs={"MapWrapper": STRUCTS["MapWrapper"]}, result="v,self", selfmode="mut-v",
      dict=[("inner.next_value_seed", "innerNextValueSeed", "M → Sd → Except ε (υ × M)", "mut")], params=[f"{MW} M A", "Sd"], ret=f"Except ε (υ × {MW} M A)"),
    B("seedDeserialize", DE, impl_of("DeserializeSeed<'de> for AlphaFieldDeserializerSeed<T>"), "deserialize", "Serde.Proto.seedDeserialize", binders="{K Dk ρ ε : Type}",
      structs={k: STRUCTS[k] for k in ("AlphaFieldDeserializerSeed", "AlphaFieldVisitor")},
      dict=[("deserializer.deserialize_identifier", "deserializeIdentifier", f"Dk → {AFV} K → Except ε ρ")], params=[f"{AFS} K", "Dk"], ret="Except ε ρ"),
    B("fieldVisitorVisitU64", DE, impl_of("Visitor<'de> for AlphaFieldVisitor<T>"), "visit_u64", "Serde.Proto.fieldVisitU64", params=[f"{AFV} K", "Nat"], **FV),
    B("fieldVisitorVisitStr", DE, impl_of("Visitor<'de> for AlphaFieldVisitor<T>"), "visit_str", "Serde.Proto.fieldVisitStr", params=[f"{AFV} K", "String"], **FV),
    B("fieldVisitorVisitBytes", DE, impl_of("Visitor<'de> for AlphaFieldVisitor<T>"), "visit_bytes", "Serde.Proto.fieldVisitBytes", params=[f"{AFV} K", "List UInt8"], **FV),
    B("sfdDeserializeIdentifier", DE, SFD_IMPL, "deserialize_identifier", "Serde.Proto.sfdDeserializeIdentifier", binders="{W ρ ε : Type}",
      structs={"StructFieldDeserializer": STRUCTS["StructFieldDeserializer"]}, enums=ENUMS,
      dict=[("visitor.visit_u64", "visitU64", "W → Nat → Except ε ρ"), ("visitor.visit_str", "visitStr", "W → String → Except ε ρ"),
            ("visitor.visit_bytes", "visitBytes", "W → List UInt8 → Except ε ρ")], params=[SFD, "W"], ret="Except ε ρ"),
] + [B(n, DE, SFD_IMPL, fn, "Serde.Proto.sfdDeserializeIdentifier", binders="{W ρ ε : Type}", structs={"StructFieldDeserializer": STRUCTS["StructFieldDeserializer"]}, enums=ENUMS,
       dict=[("visitor.visit_u64", "visitU64", "W → Nat → Except ε ρ"), ("visitor.visit_str", "visitStr", "W → String → Except ε ρ"),
             ("visitor.visit_bytes", "visitBytes", "W → List UInt8 → Except ε ρ")], calls={"self.deserialize_identifier": "sfdDeserializeIdentifier"}, params=[SFD, "W"], ret="Except ε ρ")
     for (n, fn) in (("sfdDeserializeIgnoredAny", "deserialize_ignored_any"), ("sfdDeserializeAny", "deserialize_any"))]

RUST_TY = [(r"bool", "Bool"), (r"[iu](8|16|32|64|128)|usize", "Nat"), (r"f32", "Float32"), (r"f64", "Float"), (r"char", "Char"), (r"&\s*(?:'static\s+)?str", "String"),
           (r"&\s*\[\s*u8\s*\]", "List UInt8"), (r"&\s*'static\s*\[\s*&\s*'static\s+str\s*\]", "List String"), (r"&\s*T", "V"), (r"V", "W")]

def auto_types(params_text, self_ty):
    out = []
    for p in split_top(params_text):
        p = p.strip()
        if not p: continue
        if re.fullmatch(r"(?:&\s*)?(?:mut\s+)?self", p): out.append(self_ty); continue
        ty = p.split(":", 1)[1].strip()
        for rx, lean in RUST_TY:
            if re.fullmatch(rx, ty): out.append(lean); break
        else: fail(f"parameter type {ty!r} of an unsupported-method body")
    return out

def fn_names(src, where):
    m = re.search(where, src)
    if not m: fail(f"item /{where}/ not found")
    i = src.index("{", m.end() - 1)
    scope = src[i:match_brace(src, i)]
    return re.findall(r"\bfn\s+(\w+)", scope)

def bodies(read_src):
    """the fixed registrations plus one body per *other* method of the three `Serializer` / `Deserializer` impls (the set is re-read from the source:
    each must still be the `unimplemented!` forwarder, which its tie states)"""
    out = list(BODIES_FIXED)
    fixed = {(b["file"], b["where"][1] if b["where"] else None, b["fn"]) for b in BODIES_FIXED}
    for (file, impl, prefix, strip, self_ty, binders, model, callee) in (
            (SER, SER_IMPL, "ser", "", f"{AS} S A", "{S A V β ε : Type}", "Serde.Proto.serUnsupported", "alpha_serializer_error"),
            (DE, DE_IMPL, "de", "", f"{AD} D A", "{D A W β ε : Type}", "Serde.Proto.deUnsupported", "alpha_deserializer_error"),
            (DE, SFD_IMPL, "sfd", "", SFD, "{W β ε : Type}", "Serde.Proto.sfdUnsupported", "struct_field_deserializer_error")):
        src = read_src(file)
        for fn in fn_names(src, impl[0]):
            if (file, impl[1], fn) in fixed: continue
            params, ret, body = find_fn(src, impl[0], fn)
            out.append(B(prefix + camel(fn), file, impl, fn, model, binders=binders, dict=[PANIC], params=auto_types(params, self_ty), ret="Except ε β", unsupported=callee))
    return out

UNTRANSLATED = [
    "`Visitor::expecting` of the three visitors (`write!` into a formatter: text of an error message only)",
    "serde's derive output for the colour structs and hue newtypes (`#[derive(Serialize, Deserialize)]`: modelled by `Serde.serColor` / `Serde.deColor` over the field",
    "  tables of Gen/Serde.lean; trusted, compared with the running crates on every line of every run), serde_json / ron (`Serde.json` / `Serde.ron`)",
    "`cast::into_array_ref`, `from_array`, `into_uint_ref`, `from_uint` (parameters here; C04's casts), `Stimulus::max_intensity` (parameter `maxIntensity`)",
    "the `as_array` / `as_uint` modules are `pub use` re-exports, no body: their text is pinned (PINNED_LINES), as are the associated-type lines of `AlphaSerializer`",
    "  that decide which `Serialize*` impl the calls inside `serialize_newtype_struct` / `serialize_unit` resolve to",
]

# ------------------------------------------------------------------------------------------------ generation
GEN_FILE, TIE_FILE = "BodiesSerde.lean", "Tie_Serde.lean"

def verify_decls(read_src):
    for name, (mk, fields, file) in STRUCT_DEFS.items():
        got = [f for f, _ in struct_fields(read_src(file), name)]
        if got != fields: fail(f"struct {name} ({file}): fields {got}, registered {fields}")
    for name, (variants, file) in ENUM_DEFS.items():
        got = enum_variants(read_src(file), name)
        if got != variants: fail(f"enum {name} ({file}): variants {got}, registered {variants}")
    for (file, rx) in PINNED_LINES:
        if not re.search(rx, read_src(file)): fail(f"{file}: the line /{rx}/ (it decides what a call in a translated body resolves to) is not there any more")

def check_tie(tie_text, name, model):
    m = re.search(r"\btheorem\s+tie_" + name + r"\b(.*?):=", tie_text, re.S)
    if not m: fail(f"body {name} is translated but lean/PaletteProofs/{TIE_FILE} has no theorem tie_{name}")
    if not (re.search(r"Gen\.BodySerde\." + name + r"\b", m.group(1)) and re.search(re.escape(model) + r"(?![\w.])", m.group(1))):
        fail(f"theorem tie_{name} does not state Gen.BodySerde.{name} = {model}")

def generate(read_src, tie_text):
    try:
        verify_decls(read_src)
        specs = bodies(read_src)
    except Untranslatable as e:
        raise Untranslatable(f"family serde: {e}")
    registry, defs = {}, []
    for spec in specs:
        try:
            text, rec = translate(spec, read_src, registry)
            registry[spec["name"]] = rec
            for k in spec.get("as_fn", []): registry[k] = rec
            check_tie(tie_text, spec["name"], spec["model"])
            if spec.get("loop"): check_tie(tie_text, spec["name"] + "Step", spec["step_model"])
        except Untranslatable as e:
            raise Untranslatable(f"body {spec['name']} ({spec['file']}: fn {spec['fn']}): {e}")
        defs.append(text)
    pairs = [(s["name"], s["model"]) for s in specs] + [(s["name"] + "Step", s["step_model"]) for s in specs if s.get("loop")]
    head = ["/- GENERATED by tools/extract.py (plugin tools/extract_plugins/serde.py, translator tools/rust2lean_serde.py, family `serde`) from the function bodies of",
            "   palette/src/serde.rs, serde/alpha_serializer.rs, serde/alpha_deserializer.rs, alpha/alpha.rs, blend/pre_alpha.rs -- do not edit",
            "",
            "  palette's serde support (C20).  Each definition is the translation of the *current* text of one Rust function (named in its doc comment).",
            "  serde's traits are the parameters: every call on the inner serializer / deserializer / visitor / map access / seed is a parameter of the",
            "  definition; `Result` is `Except ε`, `?` is an explicit `match`, `&mut` state is passed and returned (conventions in the header of",
            "  tools/rust2lean_serde.py, readings in PaletteModel/BodyPrimSerde.lean).  `PaletteProofs/Tie_Serde.lean` proves, for every value of the parameters:",
            ] + ["    " + ", ".join(f"{n} = {m}" for n, m in pairs[i:i + 3]) for i in range(0, len(pairs), 3)] + [
            "  and composes them over the tree-recording serializer of PaletteModel/SerdeProto.lean into `Serde.alphaSer` (every tree shape), and into",
            "  `Serde.isAlphaKey`, `Serde.deAlpha`, `Serde.deAlphaOpt`, `Serde.serAsArray` / `serAsUint` / `deAsArray` / `deAsUint`.",
            "",
            "  NOT translated in this family:"] + ["    " + u for u in UNTRANSLATED] + ["-/",
            "import PaletteModel.BodyPrimGlue", "import PaletteModel.BodyPrimSerde", "",
            "set_option linter.unusedVariables false   -- every registered dictionary entry stays a parameter, used or not", "",
            "namespace Gen.BodySerde", "",
            "/-- names of the translated bodies that have a `tie_` theorem, with the model function they are proved equal to -/",
            "def tiedSerde : List (String × String) := [\n" + ",\n".join("  " + ", ".join(f'("{n}", "{m}")' for n, m in pairs[i:i + 3]) for i in range(0, len(pairs), 3)) + "]", ""]
    return "\n".join(head) + "\n" + "\n".join(defs) + "\nend Gen.BodySerde\n"

if __name__ == "__main__":
    repo = os.environ.get("PALETTE_REPO", "/repo")
    def read_src(rel): return strip_comments(open(os.path.join(repo, "palette", "src", rel)).read())
    root = os.path.dirname(os.path.dirname(os.path.abspath(__file__)))
    tie = os.path.join(root, "lean", "PaletteProofs", TIE_FILE)
    try:
        if "--no-tie" in sys.argv or not os.path.exists(tie):
            specs = bodies(read_src)
            tt = "".join(f"theorem tie_{s['name']} : Gen.BodySerde.{s['name']} = {s['model']} := " + (f"theorem tie_{s['name']}Step : Gen.BodySerde.{s['name']}Step = {s['step_model']} := " if s.get("loop") else "") for s in specs)
        else: tt = open(tie).read()
        sys.stdout.write(generate(read_src, tt))
    except Untranslatable as e:
        print("FAILED:", e); sys.exit(1)
