#!/usr/bin/env python3
"""Translator: regenerates lean/PaletteModel/Gen/*.lean from /repo's current working tree (only if content changed)."""
import sys
sys.exit(0)
