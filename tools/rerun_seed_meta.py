#!/usr/bin/env python3
"""rerun_seed_meta.py <seed id> <Cxx>: rewrites detection.result / detection.output of seeded/<id>/meta.json from /tmp/seedrun/last_<Cxx>.log"""
import sys, json, re
sid, pid = sys.argv[1:3]
p = f"/verif/seeded/{sid}/meta.json"
m = json.load(open(p))
import os
log = open(os.environ.get("SEEDRUN", "/tmp/seedrun") + f"/last_{pid}.log").read()
det = ("caught-no-input" if re.search(r"^VIOLATION.*no-failing-input-found", log, re.M)
       else "caught-with-input" if re.search(r"^VIOLATION", log, re.M) else "missed")
lines = [l.rstrip()[:300] for l in log.split("\n") if re.match(r"\[C|VIOLATION|KNOWN|  broken\[|  fails\[", l)]
m["detection"]["result"] = det
m["detection"]["output"] = f"--- ./check {pid} quick (patch applied)\n" + "\n".join(lines[:14]) + "\n"
json.dump(m, open(p, "w"), indent=1, ensure_ascii=False)
print(sid, det, "::", " ".join(l.strip()[:200] for l in lines if l.startswith("  "))[:400])
