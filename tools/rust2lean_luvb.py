#!/usr/bin/env python3
"""
rust2lean_luvb -- family `luvb`: palette/src/luv_bounds.rs (the HSLuv gamut polygon) and the two HSLuv edges that call it
(hsluv.rs `FromColorUnclamped<Lchuv> for Hsluv`, lchuv.rs `FromColorUnclamped<Hsluv> for Lchuv`), translated from their *current text*
into `lean/PaletteModel/Gen/BodiesLuvBounds.lean` (namespace `Gen.BodyLuvBounds`); `lean/PaletteProofs/Tie_LuvBounds.lean` proves every
translated body equal to the hand-written model function (Color/Cie.lean, Color/LuvBoundsMore.lean) for every component type.
Called by tools/extract_plugins/luvb.py on every run.

Tokenizer, Pratt parser, `find_fn`, `struct_fields`, colour-struct layout (`make_ctx`) are those of tools/rust2lean.py; this file adds
  * `Parser2`: `if let PAT = e { .. } [else { .. }]` and index expressions `a[i]` (both outside the subset of the base parser);
  * `LuvbLower`: a *two-sorted* lowering.  luv_bounds.rs is not generic float code: it computes in `f64` for every component type `T`.
    Rust types are tracked per expression and mapped to   f64 -> `β` ([Scalar β]),  T -> `α`,  LuvHue<T> -> `α` (the stored degrees),
    usize -> `Nat`,  Option<X> -> `Option X`,  [f64; 3] -> `V3 β`,  [[f64; 3]; 3] -> `M3 β` (row major),  [S; N] -> `List S`,
    BoundaryLine -> `Cie.BoundaryLine β`,  LuvBounds -> `Prim.LuvB.LuvBounds β`,  Lchuv / Hsluv -> `V3 α` in struct field order.
Conventions (those of the hand model, AGENT_GUIDE item 1, plus the readings of PaletteModel/BodyPrimLuvb.lean):
  * a float literal is an `f64` in Rust whatever surrounds it -> the scientific literal at `β`, text unchanged (`1.0e-6`, `284517.0`)
  * `const X: f64 = lit;` -> `def constX : K := lit`, used as `Scalar.const constX` at `β`;  `const M: [[f64; 3]; 3] = [[..]; 3]` -> `def constM : List K`,
    used as `M3.ofK constM` at `β` (literals only; the tie proves them equal to the independently extracted `Gen.Mat.hsluv*` the model uses)
  * `x.into()` on a `T` -> `ViaF64.up x` (`T: Into<f64>` is the only `Into` these signatures have);  `T::from_f64(e)` with `e` an `f64`
    *value* -> `ViaF64.down e`;  `T::from_f64(<one literal>)` -> the literal at `α` (as the CIE model writes it);  `f64::MAX` -> `Prim.LuvB.f64Max`
  * comparisons are `Prop`s in the orientation of `<` / `≤` (`a > b` -> `b < a`), `&&` / `||` / `!` -> `∧` / `∨` / `¬`
  * `Trigonometry::sin_cos(x)` / `x.sin_cos()` -> `(Scalar.sin x, Scalar.cos x)`, `Abs::abs` / `.abs()`, `Sqrt::sqrt` / `.sqrt()` -> `Scalar.*`,
    `x.powi(2|3)` -> `Prim.powi2/3`, `.clone()`, `&e`, `*e` -> identity, `hue.into_raw_radians()` -> the translated `Gen.Body.hueIntoRawRadians`
  * `let` / `let mut` + assignment -> (shadowing) `let`; tuple patterns by projection; a closure bound by `let` -> a Lean `fun`; a `usize`
    closure parameter must receive an integer literal at every call, and every literal must be in range for every index it is used in
  * `m[i]` -> `Prim.LuvB.row m i` / `Prim.LuvB.at3 m i` (index: literal `< 3`, or such a closure parameter)
  * statements that only assign outer `let mut` variables `s`:  `for x in &xs { .. }` -> `let s := Prim.LuvB.forIn xs s (fun x s => ..)`,
    `if c { .. } [else { .. }]` -> `let s := if c then .. else ..`,  `if let Some(t) = e { .. }` -> `let s := match e with | some t => .. | none => s`
  * `Some(e)` / `None` -> `some e` / `none`; struct literals -> the structure's constructor, fields matched by name against the `struct` as declared now
Everything else (`return`, `while`, `loop`, `break`, `?`, `match`, other methods, other paths) raises `Untranslatable` -> `broken[extraction]`.
"""
import re, os, sys
sys.path.insert(0, os.path.dirname(os.path.abspath(__file__)))
import rust2lean as R
from rust2lean import Untranslatable, fail, Val, tokenize, find_fn, split_top, struct_fields, lname, indent, reflow, CMP_OPS

NS = "Gen.BodyLuvBounds"
LUVB = "luv_bounds.rs"

# ------------------------------------------------------------------------------------------------ parser extension
class Parser2(R.Parser):
    def if_expr(self):
        self.expect("if")
        if self.at("let"):
            self.i += 1
            pat = self.match_pattern()
            self.expect("=")
            scrut = self.expr(0, True)
            th = self.block()
            el = None
            if self.eat("else"):
                el = self.if_expr() if self.at("if") else self.block()
            return ("iflet", pat, scrut, th, el)
        c = self.expr(0, True)
        th = self.block()
        el = None
        if self.eat("else"):
            el = self.if_expr() if self.at("if") else self.block()
        return ("if", c, th, el)

    def postfix(self, e, no_struct):
        while True:
            e = R.Parser.postfix(self, e, no_struct)
            if self.at("["):
                self.i += 1
                ix = self.expr()
                self.expect("]")
                e = ("idx", e, ix)
                continue
            return e

def parse_block(src):
    p = Parser2(tokenize(src))
    b = p.block()
    if p.peek()[0] != "eof": fail("trailing tokens after block")
    return b

def parse_expr(src):
    p = Parser2(tokenize(src))
    e = p.expr()
    if p.peek()[0] != "eof": fail(f"trailing tokens after expression: {p.peek()[1]!r}")
    return e

# ------------------------------------------------------------------------------------------------ types
STRUCTS = {   # Rust struct of luv_bounds.rs -> Lean structure, [(field, type)] as registered (checked against the `struct` declared now)
    "BoundaryLine": dict(lean="Cie.BoundaryLine β", mk="Cie.BoundaryLine.mk", fields=[("slope", "f64"), ("intercept", "f64")]),
    "LuvBounds": dict(lean="Prim.LuvB.LuvBounds β", mk="Prim.LuvB.LuvBounds.mk", fields=[("bounds", ("list", ("S", "BoundaryLine"), 6))]),
}
COLOURS = ("Lchuv", "Hsluv")

def lean_ty(t):
    if t == "f64": return "β"
    if t in ("T", "H"): return "α"
    if t == "usize": return "Nat"
    if t == "P": return "Prop"
    if t == "V3f": return "V3 β"
    if t == "M3f": return "M3 β"
    if t[0] == "opt": return f"Option {paren(lean_ty(t[1]))}"
    if t[0] == "S": return STRUCTS[t[1]]["lean"]
    if t[0] == "list": return f"List {paren(lean_ty(t[1]))}"
    if t[0] == "V3": return "V3 α"
    if t[0] == "tup": return "(" + " × ".join(lean_ty(x) for x in t[1]) + ")"
    if t[0] == "fn": return " → ".join(paren(lean_ty(x)) for x in t[1] + [t[2]])
    fail(f"no Lean type for {t!r}")

def paren(s): return s if re.fullmatch(r"[\w.α-ω]+", s) or s.startswith("(") else f"({s})"

def rust_ty(text):
    """Rust type text -> type of this lowering"""
    t = re.sub(r"\s+", "", text)
    t = re.sub(r"^&(mut)?", "", t)
    if t == "f64": return "f64"
    if t == "T": return "T"
    if t == "usize": return "usize"
    if t == "[f64;3]": return "V3f"
    if t == "[[f64;3];3]": return "M3f"
    if t == "LuvHue<T>": return "H"
    m = re.fullmatch(r"Option<(.+)>", t)
    if m: return ("opt", rust_ty(m.group(1)))
    m = re.fullmatch(r"\[(\w+);(\d+)\]", t)
    if m and m.group(1) in STRUCTS: return ("list", ("S", m.group(1)), int(m.group(2)))
    if t in STRUCTS: return ("S", t)
    m = re.fullmatch(r"(\w+)<Wp,T>", t)
    if m and m.group(1) in COLOURS: return ("V3", m.group(1))
    fail(f"type {text!r} is outside the translated subset")

def same(a, b):
    """unify two types (None = unknown element type of `None` / an empty context)"""
    if a is None: return b
    if b is None: return a
    if a == b: return a
    if isinstance(a, tuple) and isinstance(b, tuple) and a[0] == b[0] == "opt": return ("opt", same(a[1], b[1]))
    if isinstance(a, tuple) and isinstance(b, tuple) and a[0] == b[0] == "list" and (len(a) == 2 or len(b) == 2 or a[2] == b[2]):
        return ("list", same(a[1], b[1])) + ((a[2],) if len(a) == 3 else (b[2],) if len(b) == 3 else ())
    fail(f"types differ: {a!r} / {b!r}")

def module_consts(src):
    """module-level `const NAME: TYPE = VALUE;` of luv_bounds.rs -> {name: (type, Lean term at β, generated `def const<NAME>` over `K`)}; only literal values"""
    out = {}
    def klit(e):
        if e[0] == "num": return f"({sci(e[1])} : K)"
        if e[0] == "unary" and e[1] == "-" and e[2][0] == "num": return f"(-({sci(e[2][1])} : K))"
        fail("constant: only (negated) float literals")
    for m in re.finditer(r"^\s*(?:pub(?:\([^)]*\))?\s+)?const\s+(\w+)\s*:\s*([^=]+?)\s*=\s*(.*?);\s*$", src, re.S | re.M):
        name, ty, val = m.group(1), rust_ty(m.group(2)), parse_expr(m.group(3))
        if ty == "f64":
            out[name] = ("f64", f"(Scalar.const {NS}.const{name} : β)", f"/-- `luv_bounds.rs`: `const {name}: f64` -/\ndef const{name} : K := {klit(val)}\n")
        elif ty == "M3f":
            if val[0] != "array" or len(val[1]) != 3 or any(r[0] != "array" or len(r[1]) != 3 for r in val[1]): fail(f"const {name}: a 3x3 array literal expected")
            out[name] = ("M3f", f"(M3.ofK {NS}.const{name} : M3 β)", f"/-- `luv_bounds.rs`: `const {name}: [[f64; 3]; 3]`, row major -/\ndef const{name} : List K := [" + ", ".join(klit(x) for r in val[1] for x in r[1]) + "]\n")
        else: fail(f"const {name}: type {m.group(2)!r}")
    return out

def sci(lit):
    lit = re.sub(r"_?(f32|f64)$", "", lit).replace("_", "")
    if not re.fullmatch(r"\d+\.\d+(?:[eE][-+]?\d+)?", lit): fail(f"float literal {lit!r}: only `d.d` / `d.dE±d` (an integer literal is not an f64 in Rust)")
    return lit

def int_lit(e):
    if e[0] == "num" and re.fullmatch(r"\d+(?:usize)?", e[1]): return int(re.sub(r"usize$", "", e[1]))
    return None

# ------------------------------------------------------------------------------------------------ lowering
class LuvbLower:
    def __init__(self, ctx, consts, registry, self_ty):
        self.ctx, self.consts, self.reg, self.self_ty = ctx, consts, registry, self_ty
        self.closures = {}     # closure variable -> dict(params=[(name, ty)], ret, calls=[[int literal | None per param]], uses=[(param, bound)])
        self.cur_closure = None
        self.fresh = 0
        self.needs = set()     # instance binders the term needs: "scalarA" ([Scalar α]), "angle" ([Angle α]), "via" ([ViaF64 α β])

    def tmp(self):
        self.fresh += 1
        return f"_d{self.fresh}"

    # ---- expressions
    def expr(self, e, env, expect=None):
        k = e[0]
        if k == "num":
            n = int_lit(e)
            if n is not None:
                if expect != "usize": fail(f"integer literal {e[1]} where no usize is expected")
                return Val(str(n), "usize")
            return Val(f"({sci(e[1])} : β)", "f64")
        if k == "path": return self.path(e, env, expect)
        if k == "unary":
            op = e[1]
            if op in ("&", "*"): return self.expr(e[2], env, expect)
            v = self.expr(e[2], env, expect)
            if op == "-" and v.ty in ("f64", "T"): return Val(f"(-{v.code})", v.ty)
            if op == "!" and v.ty == "P": return Val(f"(¬ {v.code})", "P")
            fail(f"unary {op} on {v.ty!r}")
        if k == "binary": return self.binary(e, env)
        if k == "call": return self.call(e, env, expect)
        if k == "mcall": return self.mcall(e, env, expect)
        if k == "field": return self.field(e, env)
        if k == "idx": return self.index(e, env)
        if k == "struct": return self.struct_lit(e, env)
        if k == "array":
            et = expect[1] if isinstance(expect, tuple) and expect[0] == "list" else None
            xs = [self.expr(x, env, et) for x in e[1]]
            for x in xs: et = same(et, x.ty)
            if et is None: fail("empty array literal")
            if isinstance(expect, tuple) and expect[0] == "list" and len(expect) == 3 and expect[2] != len(xs):
                fail(f"array literal with {len(xs)} elements where [_; {expect[2]}] is declared")
            return Val("[" + ",\n ".join(x.code for x in xs) + "]", ("list", et, len(xs)))
        if k == "if":
            if e[3] is None: fail("`if` without `else` used as a value")
            c = self.cond(e[1], env)
            a, b = self.block(e[2], env, expect), self.block(e[3], env, expect)
            return Val(f"(if {c} then {a.code} else {b.code})", same(a.ty, b.ty))
        if k == "block": return self.block(e, env, expect)
        if k == "tuple":
            xs = [self.expr(x, env) for x in e[1]]
            return Val("(" + ", ".join(x.code for x in xs) + ")", ("tup", [x.ty for x in xs]))
        fail(f"expression kind `{k}` is outside the translated subset")

    def cond(self, e, env):
        v = self.expr(e, env)
        if v.ty != "P": fail(f"condition expected, found {v.ty!r}")
        return v.code

    def path(self, e, env, expect):
        segs = e[1]
        if len(segs) == 1:
            n = segs[0]
            if n in env: return env[n]
            if n in self.consts: return Val(self.consts[n][1], self.consts[n][0])
            if n == "None": return Val("none", same(("opt", None), expect if isinstance(expect, tuple) and expect[0] == "opt" else None))
            fail(f"unbound name {n!r}")
        if segs == ["f64", "MAX"]: return Val("Prim.LuvB.f64Max", "f64")
        fail(f"path {'::'.join(segs)} is outside the translated subset")

    def binary(self, e, env):
        op = e[1]
        a, b = self.expr(e[2], env), self.expr(e[3], env)
        if op in "+-*/" and len(op) == 1:
            if a.ty != b.ty or a.ty not in ("f64", "T"): fail(f"`{op}` on {a.ty!r} and {b.ty!r}")
            return Val(f"({a.code} {op} {b.code})", a.ty)
        if op in CMP_OPS:
            if a.ty != b.ty or a.ty not in ("f64", "T"): fail(f"`{op}` on {a.ty!r} and {b.ty!r}")
            rel, flip = CMP_OPS[op]
            if a.ty == "T": self.needs.add("scalarA")
            return Val(f"({b.code} {rel} {a.code})" if flip else f"({a.code} {rel} {b.code})", "P")
        if op in ("&&", "||"):
            if a.ty != "P" or b.ty != "P": fail(f"`{op}` on {a.ty!r} and {b.ty!r}")
            return Val(f"({a.code} {'∧' if op == '&&' else '∨'} {b.code})", "P")
        fail(f"binary `{op}` is outside the translated subset")

    def field(self, e, env):
        r = self.expr(e[1], env)
        if isinstance(r.ty, tuple) and r.ty[0] == "S":
            for f, t in STRUCTS[r.ty[1]]["fields"]:
                if f == e[2]: return Val(f"{atomc(r.code)}.{f}", t)
            fail(f"{r.ty[1]} has no field {e[2]!r}")
        if isinstance(r.ty, tuple) and r.ty[0] == "V3":
            fs = self.ctx.fields(r.ty[1])
            if e[2] not in fs: fail(f"{r.ty[1]} has no field {e[2]!r}")
            return Val(f"{atomc(r.code)}.c{fs.index(e[2])}", "H" if e[2] == "hue" else "T")
        fail(f"field .{e[2]} of {r.ty!r}")

    def index(self, e, env):
        r = self.expr(e[1], env)
        if r.ty not in ("M3f", "V3f"): fail(f"indexing a {r.ty!r}")
        n = int_lit(e[2])
        if n is not None:
            if n >= 3: fail(f"index {n} is out of range for an array of 3 (the Rust code would panic)")
            ix = str(n)
        else:
            v = self.expr(e[2], env)
            if v.ty != "usize" or self.cur_closure is None or not any(p == v.code for p, t in self.closures[self.cur_closure]["params"]):
                fail("index: only an integer literal or a `usize` parameter of the enclosing closure")
            self.closures[self.cur_closure]["uses"].append((v.code, 3))
            ix = v.code
        return Val(f"(Prim.LuvB.row {r.code} {ix})", "V3f") if r.ty == "M3f" else Val(f"(Prim.LuvB.at3 {r.code} {ix})", "f64")

    def struct_lit(self, e, env):
        name = e[1][1][-1]
        if name == "Self":
            if not (isinstance(self.self_ty, tuple) and self.self_ty[0] == "S"): fail("`Self { .. }` outside an impl of a registered struct")
            name = self.self_ty[1]
        if name not in STRUCTS or e[3] is not None: fail(f"struct literal {name} {{..}}")
        S = STRUCTS[name]
        given = dict(e[2])
        if len(given) != len(e[2]) or sorted(given) != sorted(f for f, _ in S["fields"]): fail(f"{name} {{..}}: fields {[f for f, _ in e[2]]}")
        args = []
        for f, t in S["fields"]:
            v = self.expr(given[f], env, t)
            same(t, v.ty)
            args.append(v.code)
        return Val("(" + S["mk"] + " " + " ".join(atomc(a) for a in args) + ")", ("S", name))

    def call(self, e, env, expect):
        f, xs = e[1], e[2]
        if f[0] != "path": fail("call of a computed value")
        segs = f[1]; key = "::".join(segs)
        if len(segs) == 1 and segs[0] in env and isinstance(env[segs[0]].ty, tuple) and env[segs[0]].ty[0] == "fn":
            clo = self.closures[segs[0]]
            if len(xs) != len(clo["params"]): fail(f"{key}: {len(xs)} arguments")
            args, lits = [], []
            for x, (p, t) in zip(xs, clo["params"]):
                if t == "usize":
                    n = int_lit(x)
                    if n is None: fail(f"{key}: the `usize` argument `{p}` must be an integer literal")
                    lits.append(n); args.append(str(n))
                else:
                    v = self.expr(x, env, t); same(t, v.ty)
                    lits.append(None); args.append(v.code)
            clo["calls"].append(lits)
            return Val("(" + " ".join([lname(segs[0])] + args) + ")", clo["ret"])
        if key == "Some" and len(xs) == 1:
            v = self.expr(xs[0], env, expect[1] if isinstance(expect, tuple) and expect[0] == "opt" else None)
            return Val(f"(some {v.code})", ("opt", v.ty))
        if key in ("T::from_f64", "Real::from_f64") and len(xs) == 1:
            x = xs[0]
            if x[0] == "num" and int_lit(x) is None: self.needs.add("scalarA"); return Val(f"({sci(x[1])} : α)", "T")
            if x[0] == "unary" and x[1] == "-" and x[2][0] == "num" and int_lit(x[2]) is None: self.needs.add("scalarA"); return Val(f"(-({sci(x[2][1])} : α))", "T")
            v = self.expr(x, env)
            if v.ty != "f64": fail(f"T::from_f64 of a {v.ty!r}")
            self.needs.add("via")
            return Val(f"(ViaF64.down {v.code})", "T")
        if key in ("Trigonometry::sin_cos", "f64::sin_cos") and len(xs) == 1:
            v = self.num(xs[0], env)
            return Val(f"(Scalar.sin {v.code}, Scalar.cos {v.code})", ("tup", [v.ty, v.ty]))
        UN = {"Abs::abs": "abs", "f64::abs": "abs", "Sqrt::sqrt": "sqrt", "f64::sqrt": "sqrt", "Trigonometry::sin": "sin", "Trigonometry::cos": "cos"}
        if key in UN and len(xs) == 1:
            v = self.num(xs[0], env)
            return Val(f"(Scalar.{UN[key]} {v.code})", v.ty)
        if len(segs) == 2 and segs[1] == "new" and segs[0] in COLOURS:
            ps = self.ctx.new_params(segs[0])
            if len(xs) != len(ps): fail(f"{key}: {len(xs)} arguments")
            by = {}
            for p, x in zip(ps, xs):
                v = self.expr(x, env)
                if v.ty != ("H" if p == "hue" else "T"): fail(f"{key}: argument `{p}` is a {v.ty!r}")
                by[p] = v.code
            return Val("(V3.mk " + " ".join(atomc(by[f]) for f in self.ctx.fields(segs[0])) + ")", ("V3", segs[0]))
        if key in self.reg:
            return self.apply(self.reg[key], [self.expr(x, env) for x in xs], key)
        fail(f"call of {key} is outside the translated subset")

    def num(self, x, env):
        v = self.expr(x, env)
        if v.ty not in ("f64", "T"): fail(f"a float expected, found {v.ty!r}")
        if v.ty == "T": self.needs.add("scalarA")
        return v

    def apply(self, rec, args, what):
        if len(args) != len(rec["params"]): fail(f"{what}: {len(args)} arguments, {len(rec['params'])} expected")
        for a, t in zip(args, rec["params"]):
            same(t, a.ty)
        self.needs |= rec["needs"]
        return Val("(" + " ".join([rec["lean"]] + [atomc(a.code) for a in args]) + ")", rec["ret"])

    def mcall(self, e, env, expect):
        recv, name, xs = e[1], e[2], e[3]
        r = self.expr(recv, env)
        if name == "clone" and not xs: return r
        if r.ty in ("f64", "T"):
            if r.ty == "T" and name != "into": self.needs.add("scalarA")
            if name in ("abs", "sqrt", "sin", "cos") and not xs: return Val(f"(Scalar.{name} {r.code})", r.ty)
            if name == "sin_cos" and not xs: return Val(f"(Scalar.sin {r.code}, Scalar.cos {r.code})", ("tup", [r.ty, r.ty]))
            if name == "powi" and len(xs) == 1 and xs[0][0] == "num" and xs[0][1] in ("2", "3"): return Val(f"(Prim.powi{xs[0][1]} {r.code})", r.ty)
            if name == "into" and not xs and r.ty == "T":
                if expect not in (None, "f64"): fail(f"`.into()` of a T into {expect!r}")
                self.needs.add("via")
                return Val(f"(ViaF64.up {r.code})", "f64")
            fail(f"float method .{name}() is outside the translated subset")
        if r.ty == "H":
            if name == "into_raw_radians" and not xs: self.needs |= {"scalarA", "angle"}; return Val(f"(Gen.Body.hueIntoRawRadians {r.code})", "T")
            fail(f"hue method .{name}() is outside the translated subset")
        if isinstance(r.ty, tuple) and r.ty[0] == "S":
            key = f"{r.ty[1]}.{name}"
            if key in self.reg: return self.apply(self.reg[key], [r] + [self.expr(x, env) for x in xs], key)
            fail(f"method {key} is not a translated body (register callees first)")
        fail(f"method .{name}() on {r.ty!r}")

    # ---- blocks and statements
    def block(self, b, env, expect=None):
        if b[0] != "block": return self.expr(b, env, expect)
        env = dict(env); lines = []
        self.stmts(b[1], env, lines)
        if b[2] is None: fail("block without a value")
        v = self.expr(b[2], env, expect)
        if not lines: return v
        return Val("(" + "\n".join(lines + [v.code]) + ")", v.ty)

    def assigned(self, b, acc, declared):
        """outer variables assigned anywhere inside block `b`, in order of first assignment"""
        declared = set(declared)
        ss = list(b[1]) + ([("expr", b[2])] if b[2] is not None and b[2][0] in ("if", "iflet", "for", "block") else [])
        for s in ss:
            if s[0] == "let": self.pat_names(s[1], declared)
            elif s[0] == "assign":
                if s[1][0] != "path" or len(s[1][1]) != 1: fail("assignment to a place other than a local variable")
                n = s[1][1][0]
                if n not in declared and n not in acc: acc.append(n)
            elif s[0] == "expr":
                x = s[1]
                if x[0] == "if":
                    self.assigned(x[2], acc, declared)
                    if x[3] is not None: self.assigned(x[3] if x[3][0] == "block" else ("block", [("expr", x[3])], None), acc, declared)
                elif x[0] == "iflet":
                    d2 = set(declared); [self.pat_names(p, d2) for p in (x[1][2] or [])]
                    self.assigned(x[3], acc, d2)
                    if x[4] is not None: self.assigned(x[4] if x[4][0] == "block" else ("block", [("expr", x[4])], None), acc, declared)
                elif x[0] == "for":
                    d2 = set(declared); self.pat_names(x[1], d2)
                    self.assigned(x[3], acc, d2)
                elif x[0] == "block": self.assigned(x, acc, declared)
        return acc

    def pat_names(self, p, out):
        if p[0] == "pid": out.add(p[1])
        elif p[0] in ("ptuple", "parray"): [self.pat_names(q, out) for q in p[1]]

    def state(self, names, env):
        for n in names:
            if n not in env or n not in self.muts: fail(f"assignment to `{n}`, which is not a `let mut` variable in scope")
        if not names: fail("a statement without effect on any `let mut` variable (and without value)")
        if len(names) == 1: return env[names[0]].code, lean_ty(env[names[0]].ty)
        return "(" + ", ".join(env[n].code for n in names) + ")", "(" + " × ".join(lean_ty(env[n].ty) for n in names) + ")"

    def rebind(self, names, code, env, lines):
        """`let <names> := code` (tuple state: through a temporary)"""
        if len(names) == 1:
            n = names[0]
            lines.append(f"let {lname(n)} : {lean_ty(env[n].ty)} := {code};")
            env[n] = Val(lname(n), env[n].ty)
            return
        t = self.tmp()
        lines.append(f"let {t} := {code};")
        for i, n in enumerate(names):
            lines.append(f"let {lname(n)} : {lean_ty(env[n].ty)} := {R.tup_proj(t, i, len(names))};")
            env[n] = Val(lname(n), env[n].ty)

    def effect(self, b, names, env):
        """block `b` (statements only) as the new value of the state `names`"""
        if b[0] != "block": b = ("block", [("expr", b)], None)
        if b[2] is not None:
            if b[2][0] in ("if", "iflet", "for", "block"): b = ("block", b[1] + [("expr", b[2])], None)
            else: fail("a value at the end of a block that is executed for its assignments")
        env2 = dict(env); lines = []
        self.stmts(b[1], env2, lines)
        out, _ = self.state(names, env2)
        return "(" + "\n".join(lines + [out]) + ")" if lines else out

    def stmts(self, ss, env, lines):
        for s in ss:
            if s[0] == "let":
                pat, ty, init = s[1], s[2], s[3]
                if init is None: fail("`let` without initialiser")
                want = rust_ty(ty) if ty else None
                if init[0] == "closure":
                    if pat[0] != "pid": fail("closure bound to a pattern")
                    self.closure(pat[1], init, env, lines)
                    continue
                v = self.expr(init, env, want)
                t = same(want, v.ty)
                if pat[0] == "pid":
                    n = pat[1]
                    lines.append(f"let {lname(n)} : {lean_ty(t)} := {v.code};")
                    env[n] = Val(lname(n), t)
                    if pat[2]: self.muts.add(n)
                    else: self.muts.discard(n)
                elif pat[0] == "ptuple" and isinstance(t, tuple) and t[0] == "tup" and len(t[1]) == len(pat[1]) and all(q[0] == "pid" for q in pat[1]):
                    d = self.tmp()
                    lines.append(f"let {d} : {lean_ty(t)} := {v.code};")
                    for i, q in enumerate(pat[1]):
                        lines.append(f"let {lname(q[1])} : {lean_ty(t[1][i])} := {R.tup_proj(d, i, len(t[1]))};")
                        env[q[1]] = Val(lname(q[1]), t[1][i])
                        if q[2]: self.muts.add(q[1])
                        else: self.muts.discard(q[1])
                else: fail("`let` pattern outside the translated subset")
            elif s[0] == "assign":
                if s[1][0] != "path" or len(s[1][1]) != 1: fail("assignment to a place other than a local variable")
                n = s[1][1][0]
                if n not in env or n not in self.muts: fail(f"assignment to `{n}`, which is not a `let mut` variable in scope")
                v = self.expr(s[2], env, env[n].ty)
                same(env[n].ty, v.ty)
                lines.append(f"let {lname(n)} : {lean_ty(env[n].ty)} := {v.code};")
                env[n] = Val(lname(n), env[n].ty)
            elif s[0] == "expr":
                x = s[1]
                if x[0] == "if":
                    names = self.assigned(("block", [s], None), [], set())
                    c = self.cond(x[1], env)
                    cur, _ = self.state(names, env)
                    a = self.effect(x[2], names, env)
                    b = self.effect(x[3], names, env) if x[3] is not None else cur
                    self.rebind(names, f"(if {c} then {a} else {b})", env, lines)
                elif x[0] == "iflet":
                    names = self.assigned(("block", [s], None), [], set())
                    pat = x[1]
                    if pat[0] != "penum" or pat[1] != ["Some"] or not pat[2] or len(pat[2]) != 1 or pat[2][0][0] != "pid":
                        fail("`if let`: only `Some(x)`")
                    sc = self.expr(x[2], env)
                    if not (isinstance(sc.ty, tuple) and sc.ty[0] == "opt" and sc.ty[1] is not None): fail(f"`if let Some(..)` on a {sc.ty!r}")
                    cur, _ = self.state(names, env)
                    v = pat[2][0][1]
                    env2 = dict(env); env2[v] = Val(lname(v), sc.ty[1])
                    was = v in self.muts; self.muts.discard(v)
                    a = self.effect(x[3], names, env2)
                    if was: self.muts.add(v)
                    b = self.effect(x[4], names, env) if x[4] is not None else cur
                    self.rebind(names, f"(match {sc.code} with\n| some {lname(v)} => {a}\n| none => {b})", env, lines)
                elif x[0] == "for":
                    names = self.assigned(("block", [s], None), [], set())
                    if x[1][0] != "pid": fail("`for` pattern")
                    it = self.expr(x[2], env)
                    if not (isinstance(it.ty, tuple) and it.ty[0] == "list"): fail(f"`for` over a {it.ty!r}")
                    cur, sty = self.state(names, env)
                    v = x[1][1]
                    env2 = dict(env); env2[v] = Val(lname(v), it.ty[1])
                    self.muts.discard(v)
                    if len(names) == 1:
                        body = self.effect(x[3], names, env2)
                        self.rebind(names, f"(Prim.LuvB.forIn {atomc(it.code)} {cur}\n(fun ({lname(v)} : {lean_ty(it.ty[1])}) ({lname(names[0])} : {sty}) =>\n{body}))", env, lines)
                    else:
                        st = self.tmp(); l2 = []
                        for i, n in enumerate(names):
                            l2.append(f"let {lname(n)} : {lean_ty(env[n].ty)} := {R.tup_proj(st, i, len(names))};")
                        body = self.effect(x[3], names, env2)
                        self.rebind(names, f"(Prim.LuvB.forIn {atomc(it.code)} {cur}\n(fun ({lname(v)} : {lean_ty(it.ty[1])}) ({st} : {sty}) =>\n" + "\n".join(l2) + f"\n{body}))", env, lines)
                else:
                    fail(f"statement `{x[0]}` is outside the translated subset")
            else: fail(f"statement {s[0]!r}")

    def closure(self, name, clo, env, lines):
        params = []
        for p, ty in clo[1]:
            if p[0] != "pid" or ty is None: fail("closure parameters must be `name: type`")
            params.append((p[1], rust_ty(ty)))
        rec = dict(params=[(lname(p), t) for p, t in params], ret=None, calls=[], uses=[])
        self.closures[name] = rec
        outer = self.cur_closure
        if outer is not None: fail("nested closures")
        self.cur_closure = name
        env2 = dict(env)
        for p, t in params:
            env2[p] = Val(lname(p), t); self.muts.discard(p)
        v = self.block(clo[2], env2)
        self.cur_closure = outer
        rec["ret"] = v.ty
        fty = ("fn", [t for _, t in params], v.ty)
        lines.append(f"let {lname(name)} : {lean_ty(fty)} := fun " + " ".join(f"({lname(p)} : {lean_ty(t)})" for p, t in params) + f" =>\n{v.code};")
        env[name] = Val(lname(name), fty)

    def finish(self):
        """every `usize` parameter used as an index received only in-range literals"""
        for name, rec in self.closures.items():
            for p, bound in rec["uses"]:
                i = [q for q, _ in rec["params"]].index(p)
                for lits in rec["calls"]:
                    if lits[i] is None or lits[i] >= bound:
                        fail(f"closure `{name}`: parameter `{p}` indexes an array of {bound} and is called with {lits[i]} (the Rust code would panic)")

    muts = None

def atomc(code):
    return code if re.fullmatch(r"[\w.']+", code) or (code.startswith("(") and code.endswith(")")) or (code.startswith("[") and code.endswith("]")) else f"({code})"

# ------------------------------------------------------------------------------------------------ registrations
def conv(src_ty, dst_ty): return R.conv(src_ty, dst_ty)

BODIES = [
    # name, file, item regex + label, fn, self type, registered as callee, model function, tie theorem
    dict(name="intersectLengthAtAngle", file=LUVB, where=(r"\bimpl\s+BoundaryLine\b", "impl BoundaryLine"), fn="intersect_length_at_angle",
         self_ty=("S", "BoundaryLine"), key="BoundaryLine.intersect_length_at_angle", model="Cie.intersectLengthAtAngle"),
    dict(name="distanceToOrigin", file=LUVB, where=(r"\bimpl\s+BoundaryLine\b", "impl BoundaryLine"), fn="distance_to_origin",
         self_ty=("S", "BoundaryLine"), key="BoundaryLine.distance_to_origin", model="Cie.distanceToOrigin"),
    dict(name="fromLightness", file=LUVB, where=(r"\bimpl\s+LuvBounds\b", "impl LuvBounds"), fn="from_lightness",
         self_ty=("S", "LuvBounds"), key="LuvBounds::from_lightness", model="Cie.luvBoundsOf"),
    dict(name="maxChromaAtHue", file=LUVB, where=(r"\bimpl\s+LuvBounds\b", "impl LuvBounds"), fn="max_chroma_at_hue",
         self_ty=("S", "LuvBounds"), key="LuvBounds.max_chroma_at_hue", model="Cie.maxChromaOfBounds"),
    dict(name="maxSafeChroma", file=LUVB, where=(r"\bimpl\s+LuvBounds\b", "impl LuvBounds"), fn="max_safe_chroma",
         self_ty=("S", "LuvBounds"), key="LuvBounds.max_safe_chroma", model="Cie.maxSafeChromaOfBounds"),
    dict(name="lchuvToHsluv", file="hsluv.rs", where=conv("Lchuv<Wp, T>", "Hsluv<Wp, T>"), fn="from_color_unclamped",
         self_ty=("V3", "Hsluv"), key=None, model="Cie.lchuvToHsluv", tie="tie_lchuvToHsluv_full"),
    dict(name="hsluvToLchuv", file="lchuv.rs", where=conv("Hsluv<Wp, T>", "Lchuv<Wp, T>"), fn="from_color_unclamped",
         self_ty=("V3", "Lchuv"), key=None, model="Cie.hsluvToLchuv", tie="tie_hsluvToLchuv_full"),
]

UNTRANSLATED = [
    "the per-type primitives `f64::sin_cos`, `abs`, `sqrt`, `powi` (fields of `class Scalar` / PaletteModel/BodyPrim.lean), `Into<f64>` / `T::from_f64` on a",
    "  value (`class ViaF64`: identity at f64, widening / rounding `as` casts at f32), `degrees_to_radians` (`class Angle`): per-type, compared by the correspondence run",
    "`for x in &array`, array indexing, `f64::MAX`, the `[BoundaryLine; 6]` array: read as PaletteModel/BodyPrimLuvb.lean says (each with the reference it follows)",
    "the `#[cfg(test)] mod tests` of luv_bounds.rs (not code of the crate)",
]

def mentions(ast, kinds):
    """does the AST contain a node of one of `kinds` (`return`), or a bare path `break` / `continue`"""
    if isinstance(ast, tuple):
        if ast and ast[0] in kinds: return ast[0]
        if len(ast) >= 2 and ast[0] == "path" and ast[1] in (["break"], ["continue"]): return ast[1][0]
    if isinstance(ast, (tuple, list)):
        for x in ast:
            r = mentions(x, kinds)
            if r: return r
    return None

def translate(ctx, consts, registry, spec, read_src):
    src = read_src(spec["file"])
    params, ret, body = find_fn(src, spec["where"][0], spec["fn"])
    bad = mentions(parse_block(body), ("return",))
    if bad: fail(f"`{bad}` (early exit) is outside the translated subset")
    lo = LuvbLower(ctx, consts, registry, spec["self_ty"])
    lo.muts = set()
    env, binders, ptys = {}, [], []
    for p in [x.strip() for x in split_top(params) if x.strip()]:
        if re.fullmatch(r"&?\s*(mut\s+)?self", p):
            if p.replace(" ", "") != "&self": fail(f"receiver `{p}`")
            env["self"] = Val("self_", spec["self_ty"]); binders.append(f"(self_ : {lean_ty(spec['self_ty'])})"); ptys.append(spec["self_ty"])
            continue
        m = re.fullmatch(r"(mut\s+)?(\w+)\s*:\s*(.+)", p, re.S)
        if not m: fail(f"parameter {p!r}")
        t = rust_ty(m.group(3))
        env[m.group(2)] = Val(lname(m.group(2)), t); binders.append(f"({lname(m.group(2))} : {lean_ty(t)})"); ptys.append(t)
        if m.group(1): lo.muts.add(m.group(2))
    rty = spec["self_ty"] if re.sub(r"\s+", "", ret) == "Self" else rust_ty(ret)
    v = lo.block(parse_block(body), env, rty)
    same(rty, v.ty)
    lo.finish()
    code = v.code[1:-1] if v.code.startswith("(let ") else v.code
    sig = " ".join(binders) + " : " + lean_ty(rty)
    inst = []
    if "α" in sig + code or lo.needs: inst.append("{α : Type}")
    if "scalarA" in lo.needs: inst.append("[Scalar α]")
    if "angle" in lo.needs: inst.append("[Angle α]")
    inst.append("{β : Type} [Scalar β]")
    if "via" in lo.needs: inst.append("[ViaF64 α β]")
    doc = f"/-- `{spec['file']}`: `fn {spec['fn']}` of `{spec['where'][1]}` -/"
    text = f"{doc}\ndef {spec['name']} {' '.join(inst)} {' '.join(binders)} : {lean_ty(rty)} :=\n{indent(reflow(code), 2)}\n"
    rec = dict(lean=f"{NS}.{spec['name']}", params=ptys, ret=rty, needs=set(lo.needs))
    return text, rec

def check_structs(read_src):
    src = read_src(LUVB)
    for n, S in STRUCTS.items():
        got = [(f, rust_ty(t)) for f, t in struct_fields(src, n)]
        if got != S["fields"]: fail(f"struct {n} (luv_bounds.rs): fields {got}, registered {S['fields']}")

def tie_name(spec): return spec.get("tie") or "tie_" + spec["name"]

def generate(read_src, tie_text):
    """-> text of Gen/BodiesLuvBounds.lean.  Raises Untranslatable when a registered body is not found / leaves the subset, when the structs
    changed shape, or when a translated body has no tie theorem stating it against its model function."""
    ctx = R.make_ctx(read_src)
    check_structs(read_src)
    src = read_src(LUVB)
    consts = module_consts(src)
    # every fn of the two impls must be registered (a new method without translation is a hole in the tie)
    for item in ("BoundaryLine", "LuvBounds"):
        m = re.search(r"\bimpl\s+" + item + r"\b[^{]*\{", src)
        if not m: fail(f"impl {item} not found in luv_bounds.rs")
        scope = src[m.end() - 1:R.match_brace(src, m.end() - 1)]
        fns = re.findall(r"\bfn\s+(\w+)", scope)
        reg = [s["fn"] for s in BODIES if s["file"] == LUVB and s["where"][1] == "impl " + item]
        if sorted(fns) != sorted(reg): fail(f"impl {item} has the functions {fns}, registered for translation: {reg}")
    registry, defs = {}, []
    for spec in BODIES:
        try:
            text, rec = translate(ctx, consts, registry, spec, read_src)
        except Untranslatable as e:
            raise Untranslatable(f"body {spec['name']} ({spec['file']}: fn {spec['fn']}): {e}")
        defs.append(text)
        if spec["key"]: registry[spec["key"]] = rec
        m = re.search(r"\btheorem\s+" + tie_name(spec) + r"\b(.*?):=", tie_text, re.S)
        if not m: raise Untranslatable(f"body {spec['name']} is translated but lean/PaletteProofs/Tie_LuvBounds.lean has no theorem {tie_name(spec)}")
        if not (re.search(re.escape(NS + "." + spec["name"]) + r"\b", m.group(1)) and re.search(re.escape(spec["model"]) + r"(?![\w.])", m.group(1))):
            raise Untranslatable(f"theorem {tie_name(spec)} does not state {NS}.{spec['name']} = {spec['model']}")
    head = ["/- GENERATED by tools/extract.py (plugin tools/extract_plugins/luvb.py -> tools/rust2lean_luvb.py, family `luvb`) from palette/src -- do not edit",
            "",
            "  palette/src/luv_bounds.rs completely (the HSLuv gamut polygon: `BoundaryLine::intersect_length_at_angle`, `distance_to_origin`,",
            "  `LuvBounds::from_lightness` with its closure `line` and the constants `M`, `KAPPA`, `EPSILON` as written now, `max_chroma_at_hue`,",
            "  `max_safe_chroma`) and the two HSLuv edges of hsluv.rs / lchuv.rs with the call of `LuvBounds` translated (in Gen/Bodies.lean that call is the",
            "  model function `Cie.maxChroma`).  Each definition is the translation of the *current* text of one Rust function into a Lean term over",
            "  `β` = f64 and `α` = T; conventions in the header of tools/rust2lean_luvb.py, readings in PaletteModel/BodyPrimLuvb.lean.",
            "  `PaletteProofs/Tie_LuvBounds.lean` proves, for every `α`, `β`:",
            ] + [f"    {tie_name(s)} : {s['name']} = {s['model']}" for s in BODIES] + [
            "",
            "  NOT translated (still tied to the source by the correspondence run only):"] + ["    " + u for u in UNTRANSLATED] + ["-/",
            "import PaletteModel.BodyPrim", "import PaletteModel.BodyPrimLuvb", "import PaletteModel.Color.LuvBoundsMore", "import PaletteModel.Gen.Bodies", "",
            "set_option linter.unusedVariables false", "",
            f"namespace {NS}", "",
            "/-- names of the translated bodies of family `luvb`, the model function each is proved equal to, and the theorem that does it -/",
            "def tied : List (String × String × String) := [\n" + ",\n".join(f'  ("{s["name"]}", "{s["model"]}", "{tie_name(s)}")' for s in BODIES) + "]", ""]
    return "\n".join(head) + "\n" + "\n".join([c[2] for c in consts.values()] + defs) + f"\nend {NS}\n"

if __name__ == "__main__":
    repo = os.environ.get("PALETTE_REPO", "/repo")
    def read_src(rel): return R.strip_comments(open(os.path.join(repo, "palette", "src", rel)).read())
    root = os.path.dirname(os.path.dirname(os.path.abspath(__file__)))
    tie = os.path.join(root, "lean", "PaletteProofs", "Tie_LuvBounds.lean")
    try:
        sys.stdout.write(generate(read_src, open(tie).read() if os.path.exists(tie) and "--no-tie" not in sys.argv else
                                  "".join(f"theorem {tie_name(s)} : {NS}.{s['name']} = {s['model']} := " for s in BODIES)))
    except Untranslatable as e:
        print("FAILED:", e); sys.exit(1)
