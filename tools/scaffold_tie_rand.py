#!/usr/bin/env python3
"""
scaffold_tie_rand -- ONE-TIME scaffolding of the per-type statement list in lean/PaletteProofs/Tie_Rand.lean (section "macros/random.rs").

NOT part of the check and never run by it: the tie theorems are hand-maintained proof obligations whose *statements pin* which model branch a
type goes through (`.Lch`), how many primitive draws it makes, and IN WHICH ORDER which sampler field is drawn from (`[s.l, s.chroma, s.hue.hue]`).
Regenerating them from the sources on every run would make them follow the sources and prove nothing.  This script only saved typing the ~200
formulaic statements; rerun it by hand (`python3 tools/scaffold_tie_rand.py`) when a new colour type gains an `impl_rand_traits_*!` invocation,
review the output, and paste the reviewed block.
"""
import os, sys, re
sys.path.insert(0, os.path.dirname(os.path.abspath(__file__)))
import rust2lean as R, rust2lean_rand as X

repo = os.environ.get("PALETTE_REPO", "/repo")
srcdir = os.path.join(repo, "palette", "src")
def read_src(rel): return R.strip_comments(open(os.path.join(srcdir, rel)).read())
files = sorted(os.path.relpath(os.path.join(dp, f), srcdir) for dp, dn, fn in os.walk(srcdir) for f in fn if f.endswith(".rs"))
text, S = X.generate(read_src, files, None)
# role names from the invocations as gen_sampling reads them (Gen/Sampling.lean `comps`): protocol order
gs = open(os.path.join(os.path.dirname(os.path.dirname(os.path.abspath(__file__))), "lean", "PaletteModel", "Gen", "Sampling.lean")).read()
comps = {m.group(1): re.findall(r'"(\w+)"', m.group(2)) for m in re.finditer(r"\| \.(\w+) => \[((?:\"\w+\"(?:, )?)+)\]", gs)}
out = []
for ty, fam, uni, f in sorted(S["types"]):
    b = X.lower_first(ty)
    n = len(comps[ty])
    view = "V3.toList" if n == 3 else "C1.toList"
    V = "V3 α" if n == 3 else "C1 α"
    if fam == "cartesian": fl = [f"s.{X.lname(c)}" for c in comps[ty]]
    elif fam == "cylinder": fl = [f"s.{comps[ty][0]}", f"s.{comps[ty][1]}", "s.hue.hue"]
    elif fam in ("hsv_cone", "hsl_bicone"): fl = ["s.hue.hue", "s.u1", "s.u2"]
    else: fl = ["s.sampler.hue.hue", "s.sampler.u1", "s.sampler.u2"]
    fields = "[" + ", ".join(fl) + "]"
    wp = " wx wy wz" if ty == "Xyz" else ""
    out.append(f"/-! #### `{ty}` ({f}: `impl_rand_traits_{fam}!`) -/")
    out.append(f"/-- the fields of `{uni}` in the order in which `sample` draws from them -/")
    out.append(f"def order{ty} (s : Gen.BodyRand.{uni} α) : List (Uniform α) := {fields}")
    out.append(f"theorem tie_{b}Standard (wx wy wz : α) (rng : Rng α) :\n    Prod.map {view} id (Gen.BodyRand.{b}Standard{wp} rng) = (Sampling.standard .{ty} wx wy wz (Sampling.gens rng {n}), rng.skip {n}) := rfl")
    if fam == "hwb_cone":
        for fn, incl in (("New", "false"), ("NewInclusive", "true")):
            out.append(f"theorem tie_{b}{fn}_code (lo hi : {V}) :\n    order{ty} (Gen.BodyRand.{b}{fn} lo hi) = Sampling.ofIvs {incl} (Sampling.uniformEndsCode .{ty} lo.toList hi.toList) := rfl")
            out.append(f"theorem tie_{b}{fn} (hmm : ∀ a b : α, Sampling.minMaxCode a b = Sampling.minMax a b) (lo hi : {V}) :\n    order{ty} (Gen.BodyRand.{b}{fn} lo hi) = Sampling.ofIvs {incl} (Sampling.uniformEnds .{ty} lo.toList hi.toList) := by\n  rw [tie_{b}{fn}_code, uniformEndsCode_hwb hmm .{ty} rfl]")
    else:
        for fn, incl in (("New", "false"), ("NewInclusive", "true")):
            out.append(f"theorem tie_{b}{fn} (lo hi : {V}) :\n    order{ty} (Gen.BodyRand.{b}{fn} lo hi) = Sampling.ofIvs {incl} (Sampling.uniformEnds .{ty} lo.toList hi.toList) := rfl")
    out.append(f"theorem tie_{b}Sample (s : Gen.BodyRand.{uni} α) (rng : Rng α) :\n    Prod.map {view} id (Gen.BodyRand.{b}Sample s rng) = (Sampling.uniformSample .{ty} (Sampling.draws rng (order{ty} s)), rng.skip {n}) := rfl")
    ends = "uniformEndsCode" if fam == "hwb_cone" else "uniformEnds"
    for fn, incl, nm in (("New", "false", "uniform"), ("NewInclusive", "true", "uniformInclusive")):
        out.append(f"theorem {b}_{nm} (lo hi : {V}) (rng : Rng α) :\n    Prod.map {view} id (Gen.BodyRand.{b}Sample (Gen.BodyRand.{b}{fn} lo hi) rng)\n      = (Sampling.uniformSample .{ty} (Sampling.draws rng (Sampling.ofIvs {incl} (Sampling.{ends} .{ty} lo.toList hi.toList))), rng.skip {n}) := rfl")
    out.append("")
print("\n".join(out))
print("-- hue samplers")
for u, h in re.findall(r'\("(\w+)", "(\w+)"\)', re.search(r"def hueSamplers.*", text).group(0)):
    b = X.lower_first(u)
    print(f"/-! #### `{u}` (`impl_uniform!({u}, {h})`) -/")
    print(f"theorem tie_{b}New (lo hi : α) :\n    (Gen.BodyRand.{b}New lo hi).hue = Uniform.new (Sampling.hueEnds lo hi).lo (Sampling.hueEnds lo hi).hi := rfl")
    print(f"theorem tie_{b}NewInclusive (lo hi : α) :\n    (Gen.BodyRand.{b}NewInclusive lo hi).hue = Uniform.newInclusive (Sampling.hueEnds lo hi).lo (Sampling.hueEnds lo hi).hi := rfl")
    print(f"theorem tie_{b}Sample (s : Gen.BodyRand.{u} α) (rng : Rng α) :\n    Gen.BodyRand.{b}Sample s rng = (Sampling.hueSample (rng.draw s.hue rng.pos), rng.skip 1) := rfl")
for h in S["hues"]:
    b = X.lower_first(h)
    print(f"theorem tie_{b}Standard (rng : Rng α) : Gen.BodyRand.{b}Standard rng = (Sampling.hueStandard (rng.gen rng.pos), rng.skip 1) := rfl")
