#!/usr/bin/env python3
"""one-off scaffold: writes lean/PaletteProofs/Tie_Soa*.lean from per-kind templates (the proofs are the same script per body kind, instantiated at
the prefix and the column count of each registered shape).  The output is a normal, checked-in source file; rerun only when a shape is added."""
import sys, os, re
sys.path.insert(0, os.path.dirname(os.path.abspath(__file__)))
import rust2lean_soa as S

def forms(): return [f for f, _, _ in S.into_iter_forms()]

def ties(p, k):
    G = "Gen.BodySoa." + p
    names = " ".join("abc"[:k]) if k == 3 else "a"
    obt = lambda v, pre="": f"obtain ⟨{', '.join(pre + x for x in names.split())}, rfl⟩ := vec{k}_cases {v}"
    K = f"allSome{k}, ofFn{k}, map{k}, firstLen{k}, drainPanicState{k}, emptyCols{k}"
    cs = lambda f: " <;> ".join(f"cases {f(x)}" for x in names.split())
    out = []
    A = out.append
    A(f"/-! ## `{p}`: {k} column{'s' if k > 1 else ''} -/\n")
    for f in forms():
        A(f"theorem tie_{p}IntoIter{f} (c : Cols α {k}) : toZip ({G}IntoIter{f} c) = Soa.Zip.ofCols c := by\n  {obt('c')}\n  simp [{G}IntoIter{f}, toZip, Zip.ofCols, colIntoIter]\n")
    A(f"theorem tie_{p}Iter (c : Cols α {k}) : toZip ({G}Iter c) = Soa.Zip.ofCols c := tie_{p}IntoIterRefVec c\n")
    A(f"theorem tie_{p}IterMut (c : Cols α {k}) : toZip ({G}IterMut c) = Soa.Zip.ofCols c := tie_{p}IntoIterMutVec c\n")
    A(f"""theorem tie_{p}IterNext (it : Vector (ColIter α) {k}) :
    (toZip ({G}IterNext it).1, ({G}IterNext it).2) = Soa.Zip.next (toZip it) none := by
  {obt('it')}
  simp [{G}IterNext, Zip.next, toZip, ColIter.next, {K}]
  repeat' constructor
  all_goals rfl
""")
    A(f"""theorem tie_{p}IterNextBack (it : Vector (ColIter α) {k}) :
    (toZip ({G}IterNextBack it).1, ({G}IterNextBack it).2) = Soa.Zip.nextBack (toZip it) none := by
  {obt('it')}
  simp [{G}IterNextBack, Zip.nextBack, toZip, ColIter.nextBack, {K}]
  repeat' constructor
  all_goals rfl
""")
    for fn, mf in (("Len", "len"), ("SizeHint", "sizeHint"), ("Count", "count")):
        A(f"theorem tie_{p}Iter{fn} (it : Vector (ColIter α) {k}) : {G}Iter{fn} it = Soa.Zip.{mf} (toZip it) := by\n  {obt('it')}\n  simp [{G}Iter{fn}, Zip.{mf}, toZip, ColIter.{mf}, {K}]\n")
    for nm, prim, colf, csf in (("Get", "sliceGet", "(·[i]?)", lambda x: f"{x}[i]?"), ("GetMut", "sliceGetMut", "(·[i]?)", lambda x: f"{x}[i]?"),
                               ("GetRange", "sliceGetRange", "(sliceCol i)", lambda x: f"sliceCol i {x}"), ("GetMutRange", "sliceGetMutRange", "(splitCol i)", lambda x: f"splitCol i {x}")):
        ity = "Nat" if nm in ("Get", "GetMut") else "Rng"
        A(f"/-- the same index / range goes to every column, in column order, and the result exists iff every column has one -/\ntheorem {p}{nm}_eq (s : Cols α {k}) (i : {ity}) : {G}{nm} s i = allSome (s.map {colf}) := by\n  {obt('s')}\n  simp [{G}{nm}, {prim}, {K}]\n  all_goals ({cs(csf)} <;> rfl)\n")
    A(f"theorem tie_{p}Get (s : Cols α {k}) (i : Nat) : (s, Obs.item ({G}Get s i)) = Soa.step s (.get i) := by\n  rw [{p}Get_eq]; rfl\n")
    A(f"theorem tie_{p}GetRange (s : Cols α {k}) (r : Rng) (script : List (Step α {k})) :\n    obsSlice s ({G}GetRange s r) script = Soa.step s (.getRange r script) := by\n  rw [{p}GetRange_eq]\n  simp only [Soa.step, obsSlice]\n  cases allSome (s.map (sliceCol r)) <;> rfl\n")
    A(f"theorem tie_{p}GetMut (s : Cols α {k}) (i : Nat) (w : Row α {k}) :\n    obsGetMut s ({G}GetMut s i) i w = Soa.step s (.getMut i w) := by\n  rw [{p}GetMut_eq]\n  simp only [Soa.step, obsGetMut]\n  cases allSome (s.map (·[i]?)) <;> rfl\n")
    A(f"theorem tie_{p}GetMutRange (s : Cols α {k}) (r : Rng) (script : List (Step α {k})) :\n    obsSplit s ({G}GetMutRange s r) script = Soa.step s (.getMutRange r script) := by\n  rw [{p}GetMutRange_eq]\n  simp only [Soa.step, obsSplit]\n  cases allSome (s.map (splitCol r)) <;> rfl\n")
    A(f"theorem tie_{p}WithCapacity (n : Nat) (s : Cols α {k}) : {G}WithCapacity n = (Soa.step s .withCapacity).1 := by\n  simp [{G}WithCapacity, Soa.step, emptyCols{k}, vecWithCapacity]\n")
    A(f"theorem tie_{p}Push (s : Cols α {k}) (r : Row α {k}) : {G}Push s r = (Soa.step s (.push r)).1 := by\n  {obt('s')}\n  {obt('r', 'r')}\n  simp [{G}Push, Soa.step, pushRow, vecPush]\n")
    A(f"theorem tie_{p}Pop (s : Cols α {k}) : obsItem ({G}Pop s) = Soa.step s .pop := by\n  {obt('s')}\n  simp [{G}Pop, Soa.step, obsItem, vecPop, {K}]\n  all_goals ({cs(lambda x: f'{x}.getLast?')} <;> first | rfl | simp)\n")
    A(f"theorem tie_{p}Clear (s : Cols α {k}) : {G}Clear s = (Soa.step s .clear).1 := by\n  {obt('s')}\n  simp [{G}Clear, Soa.step, vecClear]\n")
    A(f"""/-- the translated `drain`, as one case split: all columns resolve the range (every column loses it, the iterator holds what was removed), or the
    receiver is left as the model's `drainPanicState` (statement order: the columns before the first failing one are already drained) -/
theorem {p}Drain_eq (s : Cols α {k}) (r : Rng) :
    {G}Drain s r = (match allSome (s.map (drainCol r)) with
      | some v => .ok (v.map (·.1)) (v.map fun p => colIntoIter p.2)
      | none => .panic (drainPanicState s (s.map (drainCol r)))) := by
  {obt('s')}
  simp only [{G}Drain, vecDrain, {K}]
  {cs(lambda x: f'h{x} : drainCol r {x}')} <;> simp [{', '.join('h' + x for x in names.split())}]
""")
    A(f"""theorem tie_{p}Drain (s : Cols α {k}) (r : Rng) (script : List (Step α {k})) :
    obsDrain ({G}Drain s r) script = Soa.step s (.drain r script) := by
  rw [{p}Drain_eq]
  simp only [Soa.step]
  cases allSome (s.map (drainCol r)) with
  | none => rfl
  | some v =>
    {obt('v', 'v')}
    simp [obsDrain, runRead, toZip, Zip.ofCols, colIntoIter]
""")
    A(f"""theorem tie_{p}Extend (s : Cols α {k}) (rs : List (Row α {k})) : {G}Extend s rs = (Soa.step s (.extend rs)).1 := by
  simp only [{G}Extend, Soa.step, extendRows, SoaPrim.forIn]
  congr 1
  funext s r
  {obt('s')}
  {obt('r', 'r')}
  simp [pushRow, vecExtendOnce]
""")
    A(f"theorem tie_{p}FromIter (s : Cols α {k}) (rs : List (Row α {k})) : {G}FromIter rs = (Soa.step s (.collect rs)).1 := by\n  simp only [{G}FromIter, tie_{p}Extend, Soa.step]\n  simp [emptyCols{k}, vecDefault]\n")
    # ---- Alpha
    A(f"/-! ### `Alpha<{p}<..>, ..>` -/\n")
    for f in forms():
        inner = re.sub(r"^(Ref|Mut)", "", f)
        A(f"theorem tie_{p}aIntoIter{f} (n : Nest α {k}) : toNZip ({G}aIntoIter{f} n) = Soa.NZip.ofParts n.color n.alpha := by\n  simp only [{G}aIntoIter{f}, toNZip, nzipOf, NZip.ofParts, colIntoIter]\n  congr 1\n  first | exact tie_{p}IntoIter{f} _ | exact tie_{p}IntoIter{inner} _ | exact tie_{p}IntoIterRef{inner} _ | exact tie_{p}IntoIterMut{inner} _\n")
    A(f"theorem tie_{p}aWithCapacity (c : Nat) (n : Nest α {k}) : {G}aWithCapacity c = (Soa.nstep n .withCapacity).1 := by\n  simp only [{G}aWithCapacity, Soa.nstep, tie_{p}WithCapacity c n.color]\n  rfl\n")
    A(f"theorem tie_{p}aPush (n : Nest α {k}) (r : Row α ({k} + 1)) : {G}aPush n r = (Soa.nstep n (.push r)).1 := by\n  simp only [{G}aPush, Soa.nstep, tie_{p}Push]\n  rfl\n")
    A(f"""theorem tie_{p}aPop (n : Nest α {k}) : obsItemN ({G}aPop n) = Soa.nstep n .pop := by
  have h := tie_{p}Pop n.color
  simp only [obsItem] at h
  simp only [{G}aPop, Soa.nstep, obsItemN, vecPop, ← h, itemOf]
  cases ({G}Pop n.color).2 <;> cases n.alpha.getLast? <;> rfl
""")
    A(f"theorem tie_{p}aClear (n : Nest α {k}) : {G}aClear n = (Soa.nstep n .clear).1 := by\n  simp only [{G}aClear, Soa.nstep, tie_{p}Clear]\n  rfl\n")
    A(f"""theorem tie_{p}aDrain (n : Nest α {k}) (r : Rng) (script : List (Step α ({k} + 1))) :
    obsDrainN ({G}aDrain n r) script = Soa.nstep n (.drain r script) := by
  simp only [{G}aDrain, Soa.nstep, Soa.step, {p}Drain_eq, vecDrain]
  cases allSome (n.color.map (drainCol r)) with
  | none => rfl
  | some v =>
    cases drainCol r n.alpha with
    | none => rfl
    | some pa =>
      {obt('v', 'v')}
      simp [obsDrainN, nrunRead, toNZip, nzipOf, NZip.ofParts, toZip, Zip.ofCols, colIntoIter]
""")
    A(f"""theorem tie_{p}aGet (n : Nest α {k}) (i : Nat) : (n, Obs.item ({G}aGet n i)) = Soa.nstep n (.get i) := by
  simp only [{G}aGet, Soa.nstep, Soa.step, sliceGet, {p}Get_eq, itemOf]
  cases allSome (n.color.map (·[i]?)) <;> cases n.alpha[i]? <;> rfl
""")
    A(f"""theorem tie_{p}aGetRange (n : Nest α {k}) (r : Rng) (script : List (Step α ({k} + 1))) :
    obsSliceN n ({G}aGetRange n r) script = Soa.nstep n (.getRange r script) := by
  simp only [{G}aGetRange, Soa.nstep, sliceGetRange, {p}GetRange_eq]
  cases allSome (n.color.map (sliceCol r)) <;> cases sliceCol r n.alpha <;> rfl
""")
    A(f"""theorem tie_{p}aGetMut (n : Nest α {k}) (i : Nat) (w : Row α ({k} + 1)) :
    obsGetMutN n ({G}aGetMut n i) i w = Soa.nstep n (.getMut i w) := by
  simp only [{G}aGetMut, Soa.nstep, Soa.step, sliceGetMut, {p}GetMut_eq, itemOf]
  cases h : allSome (n.color.map (·[i]?)) <;> cases n.alpha[i]? <;> first | rfl | simp [obsGetMutN, h]
""")
    A(f"""theorem tie_{p}aGetMutRange (n : Nest α {k}) (r : Rng) (script : List (Step α ({k} + 1))) :
    obsSplitN n ({G}aGetMutRange n r) script = Soa.nstep n (.getMutRange r script) := by
  simp only [{G}aGetMutRange, Soa.nstep, sliceGetMutRange, {p}GetMutRange_eq]
  cases allSome (n.color.map (splitCol r)) <;> cases splitCol r n.alpha <;> rfl
""")
    return "\n".join(out)

HEAD = '''/-
  Source-text tie of the struct-of-arrays collections (C18), part {part}: `{what}`.

  `Gen/BodiesSoa.lean` is regenerated on every run from the *current* text of `palette/src/macros/struct_of_arrays.rs` (the four
  macros, expanded at the actual invocations of one type per shape) and of `alpha::Iter` / `Extend` / `FromIterator` in
  `alpha/alpha.rs` (tools/rust2lean_soa.py).  Each theorem `tie_<name>` states that the translated body, *for every component type
  and every state*, is the model function the driver executes and the C18 theorems are about: one operation of `Soa.step`
  (PaletteModel/Soa.lean) resp. `Soa.nstep` (SoaNested.lean), or one step of the model iterators `Soa.Zip` / `Soa.NZip`.
  The translated term keeps the statement order of the Rust body (state passing), so the ties say in particular: the columns are
  walked in the order (hue, elements.., alpha); the same index / range goes to every column; `next()` of every column is taken
  before the all-`Some` test; a panic of `Vec::drain` in column `j` leaves the columns before `j` drained and the others untouched
  (`Soa.drainPanicState`), and in `Alpha` the colour's drain comes first.  Proofs: case split on the literal column vector,
  unfolding, `simp` with the literal-vector lemmas of `Lemmas/SoaTie.lean`.
-/
import PaletteModel.Gen.BodiesSoa
import PaletteProofs.Lemmas.SoaTie

namespace Tie
open Soa SoaPrim SoaTie

variable {{α : Type}}

set_option linter.unusedSimpArgs false

'''

if __name__ == "__main__":
    root = os.path.dirname(os.path.dirname(os.path.abspath(__file__)))
    which = sys.argv[1:]
    for part, fname, shapes in (("1", "Tie_SoaRgb", [("rgb", 3)]), ("2", "Tie_SoaHsv", [("hsv", 3)]), ("3", "Tie_SoaLuma", [("luma", 1)]), ("4", "Tie_SoaCam16Jch", [("cam16Jch", 3)])):
        if which and fname not in which: continue
        text = HEAD.format(part=part, what=", ".join(p for p, _ in shapes)) + "\n".join(ties(p, k) for p, k in shapes) + "\nend Tie\n"
        open(os.path.join(root, "lean", "PaletteProofs", fname + ".lean"), "w").write(text)
        print("wrote", fname)
