#!/usr/bin/env python3
"""
rust2lean_glue -- translate the trait-generic *glue* of palette (conversion traits, `Alpha` / `[T]` forwarding, `into_format`) into Lean.

tools/rust2lean.py translates float formulas and macro-generated operator bodies at concrete colour types.  What it lists as "not
translated" is the code that is generic over *types* and does nothing but dispatch through trait bounds:

    impl<T, U> FromColor<T> for U where U: FromColorUnclamped<T> + Clamp { fn from_color(t: T) -> Self { Self::from_color_unclamped(t).clamp() } }
    impl<C, T> Clamp for Alpha<C, T> where C: Clamp, T: Stimulus + num::Clamp { fn clamp(self) -> Self { Alpha { color: self.color.clamp(), alpha: clamp(self.alpha, ..) } } }

This module re-reads those bodies from /repo on every run (same tokenizer / Pratt parser / `find_fn` as rust2lean.py) and lowers them with a
second, *dictionary-passing* lowering: the translated definition is generic over Lean types (`{σ τ : Type}`), and **every trait-dispatched
callee is a parameter** of it (`Self::from_color_unclamped` -> `(unclamped : σ → τ)`, `.clamp()` -> `(clamp : τ → τ)`); which callees a body may
use, under which Rust spelling, is its registration (`dict`) - a call that is not registered is outside the subset and stops the run.
`PaletteProofs/Tie_Convert.lean`, `Tie_Alpha.lean`, `Tie_Format.lean` prove each translated body equal to the model function for *every*
value of those parameters, and instantiate them at the model's clamp / within / operator functions.

Conventions (beyond those of rust2lean.py):
  * parameters: `self` / `&self` / `&mut self` / `mut self` -> `self_`; Lean types of the Rust parameters and of the result are registered (`params`, `ret`)
  * `dict=[(key, lean name, lean type)]`: keys are `Path::to::fn` (a call or a function reference `U::from_color`), `<recv>.<method>` with `<recv>` the
    variable or last field name of the receiver (`color.clamp`, `this.is_within_bounds`), `.method` (any receiver), `color+color` / `color+`
    (an operator whose left operand is a `.color` field: trait-dispatched on the generic colour; right operand a colour / anything else).
    All registered entries are parameters of the definition, used or not, in registration order (so a body that stops using one changes
    the *term*, not the signature, and the tie fails as a proof).  A registration may list more callees than the body uses now - the other trait
    methods plausibly in scope (`U::from_color_unclamped` beside `U::from_color`, `.clamp()` in `try_from_color`, `T::one()` beside
    `T::max_intensity()`): using one of them instead is then a *wrong term* (`broken[proof] tie_..`), not a body outside the subset.  `mut` entries are `&mut self` methods: as a statement they rebind the receiver place.
  * `inout="self"`: a `&mut self` method is the function returning the final `self_`; `self.f = e` -> `let self_ := { self_ with f := e }`;
    `self.color += e` on the generic colour is `AddAssign::add_assign(&mut self.color, e)` (desugared textually *before* parsing, because the
    parser shared with rust2lean.py reads `a += b` as `a = a + b`, which is right for the scalar components only); `a &= b` -> `a = a & b`
  * struct literals / field reads of the registered structs (`structs`: Lean constructor + field list, checked against the `struct` definition);
    `Ok(e)` / `Err(e)` -> `Except.ok` / `Except.error`; `&`, `&mut`, `*`, `.clone()`, `.iter()`, `.iter_mut()`, `.into_iter()` -> identity
  * `x.gt_eq(&y)` / `x.lt_eq(&y)` -> `decide (y ≤ x)` / `decide (x ≤ y)`; `a & b` (masks) -> `a && b`; `m.is_false()` -> `!m`; `Mask::from_bool(b)` -> `b`
  * `clamp(v, lo, hi)` / `clamp_assign(&mut place, lo, hi);` (lib.rs wrappers, pinned by digest) -> the profile's reading (`Clamp.clampV` order-only,
    `Scalar.clamp` for the operator model); `T::zero()` / `T::one()` / `T::max_intensity()`: `0.0` / `1.0` / `1.0` in the `scalar` profile, else dict keys
  * `cast::map_vec_in_place(v, f)` / `cast::map_slice_box_in_place(v, f)` (unsafe, pinned by digest) -> `Prim.mapInPlace f v`
  * `for x in self { <statements updating x> }` -> `Prim.forEachMut (fun x => ..) self_`; `self.iter_mut().for_each(f)` -> `Prim.forEachMut f self_`;
    `for x in self { s = ..; if c { break; } }` (one state variable) -> `Prim.forBreak (fun s x => ..) (fun s => c) s self_`
Anything else raises `Untranslatable` (extract.py: `die`, i.e. `broken[extraction]`); a translated body without its `tie_` theorem does too.
"""
import re, hashlib, os, sys
sys.path.insert(0, os.path.dirname(os.path.abspath(__file__)))
import rust2lean as R
from rust2lean import Untranslatable, fail, tokenize, Parser, find_fn, strip_comments, struct_fields, split_top, lname

IDENTITY = {"clone", "iter", "iter_mut", "into_iter", "borrow", "to_owned"}
CMP = {"gt_eq": ("≤", True), "lt_eq": ("≤", False), "gt": ("<", True), "lt": ("<", False)}
PROFILE = {"order": {"clamp": "(Clamp.clampV {0} {1} {2})"}, "scalar": {"clamp": "(Scalar.clamp {0} {1} {2})"}}
SCALAR_CONSTS = {"zero": "0.0", "one": "1.0", "max_intensity": "1.0"}
MAPS = {"cast::map_vec_in_place", "cast::map_slice_box_in_place"}

def impl_of(head, label=None): return R.impl_of(head, label)

def desugar(body):
    """compound assignment on the generic colour field is a trait call of its own (`AddAssign`); `&=` is not a token of the shared tokenizer"""
    names = {"+": "add_assign", "-": "sub_assign", "*": "mul_assign", "/": "div_assign"}
    body = re.sub(r"\b(self\s*\.\s*color)\s*([-+*/])=\s*([^;]*);", lambda m: f"{m.group(1)}.{names[m.group(2)]}({m.group(3)});", body)
    return re.sub(r"\b(\w+)\s*&=\s*", lambda m: f"{m.group(1)} = {m.group(1)} & ", body)

def recv_name(e):
    if e[0] == "path" and len(e[1]) == 1: return e[1][0]
    if e[0] == "field": return e[2]
    if e[0] == "unary" and e[1] in "&*": return recv_name(e[2])
    return None

class Glue:
    def __init__(self, spec, registry):
        self.spec, self.registry = spec, registry
        self.dict = {k: (n, t, False) for (k, n, t, *m) in spec.get("dict", []) for _ in [0]}
        for (k, n, t, *m) in spec.get("dict", []):
            self.dict[k] = (n, t, bool(m and m[0] == "mut"))
        self.structs = spec.get("structs", {})
        self.profile = spec.get("prims", "order")
        self.n = 0

    # ---- dictionary
    def d(self, key):
        return self.dict[key][0] if key in self.dict else None

    def callee(self, key, args, what):
        """a call of `key` with lowered `args`: translated callee (registry), or dictionary parameter"""
        if key in self.registry:
            rec = self.registry[key]
            extra = []
            for k in rec["dict"]:
                if k not in self.dict: fail(f"{what}: the callee {rec['lean']} needs the dictionary entry {k!r}, which this body does not register")
                extra.append(self.dict[k][0])
            return "(" + " ".join([rec["lean"]] + extra + args) + ")"
        if key in self.dict:
            return "(" + " ".join([self.dict[key][0]] + args) + ")" if args else self.dict[key][0]
        return None

    # ---- expressions
    def expr(self, e, env):
        k = e[0]
        if k == "path": return self.path(e, env)
        if k == "unary":
            x = self.expr(e[2], env)
            if e[1] in ("&", "*"): return x
            if e[1] == "-": return f"(-{x})"
            if e[1] == "!": return f"(!{x})"
        if k == "binary": return self.binary(e, env)
        if k == "field":
            base = self.expr(e[1], env)
            if e[2] not in self.field_names(): fail(f"field .{e[2]} of an unregistered struct")
            return f"{base}.{e[2]}"
        if k == "tuple":
            return "(" + ", ".join(self.expr(x, env) for x in e[1]) + ")" if e[1] else "()"
        if k == "call": return self.call(e, env)
        if k == "mcall": return self.mcall(e, env)
        if k == "struct": return self.struct_lit(e, env)
        if k == "if":
            if e[3] is None: fail("`if` without `else` in value position")
            return f"(if {self.expr(e[1], env)} then {self.block_value(e[2], env)} else {self.block_value(e[3], env) if e[3][0] == 'block' else self.expr(e[3], env)})"
        if k == "block": return self.block_value(e, env)
        fail(f"expression kind {k!r} is outside the glue subset")

    def field_names(self):
        return {f for (_, fs) in self.structs.values() for f in fs}

    def path(self, e, env):
        segs = e[1]
        if len(segs) == 1:
            n = segs[0]
            if n in env: return env[n]
            if n in ("true", "false"): return n
        key = "::".join(segs)
        r = self.callee(key, [], key)       # a function reference (`U::from_color`, `T::clamp_assign`)
        if r is not None: return r
        fail(f"path {key!r} is neither a local nor a registered callee")

    def binary(self, e, env):
        op, a, b = e[1], e[2], e[3]
        if op in "+-*/" and a[0] == "field" and a[2] == "color":
            key = f"color{op}color" if (b[0] == "field" and b[2] == "color") else f"color{op}"
            r = self.callee(key, [self.expr(a, env), self.expr(b, env)], key)
            if r is None: fail(f"operator `{op}` on the generic colour: no dictionary entry {key!r}")
            return r
        x, y = self.expr(a, env), self.expr(b, env)
        if op in "+-*/": return f"({x} {op} {y})"
        if op in ("&", "&&"): return f"({x} && {y})"
        if op in ("|", "||"): return f"({x} || {y})"
        fail(f"operator {op!r} is outside the glue subset")

    def const(self, segs):
        """`T::zero()`, `C::Scalar::one()`, `T::max_intensity()`"""
        if segs[-1] in SCALAR_CONSTS and segs[0] in ("T", "C", "A"):
            if self.profile == "scalar": return SCALAR_CONSTS[segs[-1]]
            key = "T::" + segs[-1]
            if key in self.dict: return self.dict[key][0]
        return None

    def call(self, e, env):
        f, args = e[1], e[2]
        if f[0] != "path": fail("call of a computed function")
        segs = f[1]
        key = "::".join(segs)
        if not args:
            c = self.const(segs)
            if c is not None: return c
        if key in ("Ok", "Err") and len(args) == 1:
            return f"(Except.{'ok' if key == 'Ok' else 'error'} {self.expr(args[0], env)})"
        if segs[-1] == "from_bool" and len(args) == 1 and "Mask" in segs: return self.expr(args[0], env)
        if key in ("clamp", "crate::clamp") and len(args) == 3:
            return PROFILE[self.profile]["clamp"].format(*[self.expr(x, env) for x in args])
        if key in MAPS and len(args) == 2:
            return f"(Prim.mapInPlace {self.expr(args[1], env)} {self.expr(args[0], env)})"
        r = self.callee(key, [self.expr(x, env) for x in args], key)
        if r is not None: return r
        fail(f"call of {key!r}: not a registered callee of this body")

    def mkey(self, recv, m):
        rn = recv_name(recv)
        for key in ([f"{rn}.{m}"] if rn else []) + ["." + m]:
            if key in self.dict or key in self.registry: return key
        return None

    def mcall(self, e, env):
        recv, m, args = e[1], e[2], e[3]
        if m in IDENTITY and not args: return self.expr(recv, env)
        if m in CMP and len(args) == 1:
            rel, flip = CMP[m]
            x, y = self.expr(recv, env), self.expr(args[0], env)
            return f"decide ({y} {rel} {x})" if flip else f"decide ({x} {rel} {y})"
        if m == "is_false" and not args: return f"(!{self.expr(recv, env)})"
        key = self.mkey(recv, m)
        if key is None: fail(f"method .{m}() on `{recv_name(recv)}`: not a registered callee of this body")
        if key in self.dict and self.dict[key][2]: fail(f".{m}() is registered as a `&mut self` method but is used as a value")
        return self.callee(key, [self.expr(recv, env)] + [self.expr(x, env) for x in args], key)

    def struct_lit(self, e, env):
        name = e[1][1][-1]
        if name == "Self": name = self.spec.get("self_struct") or fail("`Self { .. }` in a body without `self_struct`")
        if name not in self.structs: fail(f"struct literal of the unregistered struct {name}")
        if e[3] is not None: fail("struct update syntax is outside the glue subset")
        mk, fields = self.structs[name]
        got = dict(e[2])
        if sorted(got) != sorted(fields): fail(f"struct literal {name}: fields {sorted(got)}, registered {sorted(fields)}")
        return "(" + " ".join([mk] + [self.expr(got[f], env) for f in fields]) + ")"

    # ---- statements
    def block_value(self, b, env):
        lines, tail = self.block(b, dict(env))
        if tail is None: fail("a block in value position needs a tail expression")
        return tail if not lines else "(" + "; ".join(lines) + "; " + tail + ")"

    def set_place(self, place, code, env, lines):
        while place[0] == "unary" and place[1] in "&*": place = place[2]
        if place[0] == "path" and len(place[1]) == 1 and place[1][0] in env:
            v = env[place[1][0]]
            lines.append(f"let {v} := {code}"); return
        if place[0] == "field" and place[1][0] == "path" and len(place[1][1]) == 1 and place[1][1][0] in env:
            v = env[place[1][1][0]]
            if place[2] not in self.field_names(): fail(f"assignment to the field .{place[2]} of an unregistered struct")
            lines.append(f"let {v} := {{ {v} with {place[2]} := {code} }}"); return
        fail("assignment to a place that is neither a local nor a field of a local")

    def stmt_expr(self, e, env, lines):
        """an expression statement: only calls that update a place are in the subset"""
        if e[0] == "mcall":
            recv, m, args = e[1], e[2], e[3]
            if m == "for_each" and len(args) == 1 and recv[0] == "mcall" and recv[2] == "iter_mut" and not recv[3]:
                self.set_place(recv[1], f"(Prim.forEachMut {self.expr(args[0], env)} {self.expr(recv[1], env)})", env, lines); return
            key = self.mkey(recv, m)
            if key is not None and ((key in self.dict and self.dict[key][2]) or (key in self.registry and self.registry[key].get("mut"))):
                self.set_place(recv, self.callee(key, [self.expr(recv, env)] + [self.expr(x, env) for x in args], key), env, lines); return
            fail(f"statement `.{m}(..);`: not a registered `&mut self` callee of this body")
        if e[0] == "call" and e[1][0] == "path" and "::".join(e[1][1]) in ("clamp_assign", "crate::clamp_assign") and len(e[2]) == 3:
            place = e[2][0]
            if not (place[0] == "unary" and place[1] == "&"): fail("clamp_assign: first argument must be `&mut place`")
            self.set_place(place, PROFILE[self.profile]["clamp"].format(*[self.expr(x, env) for x in e[2]]), env, lines); return
        if e[0] == "for": return self.for_loop(e, env, lines)
        fail(f"statement of kind {e[0]!r} is outside the glue subset")

    def for_loop(self, e, env, lines):
        pat, it, body = e[1], e[2], e[3]
        if pat[0] != "pid": fail("for: the loop pattern must be one variable")
        x = lname(pat[1])
        stmts, tail = list(body[1]), body[2]
        if tail is not None and tail[0] == "if" and tail[3] is None: stmts, tail = stmts + [("expr", tail)], None      # `if c { break; }` in tail position
        if tail is not None: fail("for: loop body with a value")
        last = stmts[-1] if stmts else None
        is_break = (last is not None and last[0] == "expr" and last[1][0] == "if" and last[1][3] is None
                    and last[1][2][1] == [("expr", ("path", ["break"], []))] and last[1][2][2] is None)
        if is_break:
            # `for x in xs { s = ..; if c { break; } }`: one state variable, assigned by plain assignments
            inner = dict(env); inner[pat[1]] = x
            ls = []
            state = None
            for s in stmts[:-1]:
                if s[0] != "assign" or s[1][0] != "path" or len(s[1][1]) != 1 or s[1][1][0] not in env: fail("for .. break: only assignments to one outer variable")
                if state not in (None, s[1][1][0]): fail("for .. break: more than one state variable")
                state = s[1][1][0]
                self.set_place(s[1], self.expr(s[2], inner), inner, ls)
            if state is None: fail("for .. break: no state variable")
            sv = env[state]
            step = "(" + "; ".join(ls + [sv]) + ")"
            stop = self.expr(last[1][1], inner)
            lines.append(f"let {sv} := (Prim.forBreak (fun {sv} {x} => {step}) (fun {sv} => {stop}) {sv} {self.expr(it, env)})")
            return
        # `for x in place { <statements updating x> }`
        inner = dict(env); inner[pat[1]] = x
        ls, t = self.block(("block", stmts, None), inner)
        if not ls: fail("for: empty loop body")
        for l in ls:
            if not l.startswith(f"let {x} :="): fail("for: the loop body may only update the loop variable")
        self.set_place(it, f"(Prim.forEachMut (fun {x} => ({'; '.join(ls + [x])})) {self.expr(it, env)})", env, lines)

    def block(self, b, env):
        lines = []
        for s in b[1]:
            if s[0] == "let":
                pat, init = s[1], s[3]
                if pat[0] != "pid" or init is None: fail("let: only `let [mut] x = e;`")
                code = self.expr(init, env)
                v = lname(pat[1])
                env[pat[1]] = v
                lines.append(f"let {v} := {code}")
            elif s[0] == "assign":
                self.set_place(s[1], self.expr(s[2], env), env, lines)
            elif s[0] == "expr":
                self.stmt_expr(s[1], env, lines)
            else: fail(f"statement {s[0]!r}")
        if b[2] is not None and b[2][0] == "for":        # a loop as the last statement of a `()` block
            self.stmt_expr(b[2], env, lines)
            return lines, None
        tail = self.expr(b[2], env) if b[2] is not None else None
        return lines, tail

def param_names(text):
    out = []
    for p in split_top(text):
        p = p.strip()
        if not p: continue
        if re.fullmatch(r"(?:&\s*(?:'\w+\s+)?)?(?:mut\s+)?self", p): out.append("self"); continue
        m = re.match(r"(?:mut\s+)?(\w+)\s*:", p)
        if not m: fail(f"parameter {p!r}")
        out.append(m.group(1))
    return out

def translate(spec, read_src, registry):
    src = read_src(spec["file"])
    where, label = spec["where"] if spec["where"] else (None, "file scope")
    params, ret, body = find_fn(src, where, spec["fn"], spec.get("nth", 0))
    for f in spec.get("phantoms", []):
        # `field: PhantomData` entries of struct literals are dropped (as rust2lean.py drops the PhantomData fields of the colour structs)
        body = re.sub(r"\b" + f + r"\s*:\s*PhantomData\s*,?", "", body)
    names = param_names(params)
    if len(names) != len(spec["params"]): fail(f"parameters {names}, registered types {spec['params']}")
    for (sname, (mk, fields)) in spec.get("structs", {}).items():
        sfile = spec.get("struct_files", {}).get(sname, spec["file"])
        got = [f for f, _ in struct_fields(read_src(sfile), sname)]
        if got != fields: fail(f"struct {sname} ({sfile}): fields {got}, registered {fields}")
    g = Glue(spec, registry)
    p = Parser(tokenize(desugar(body)))
    blk = p.block()
    if p.peek()[0] != "eof": fail("trailing tokens after the body")
    env = {n: ("self_" if n == "self" else lname(n)) for n in names}
    lines, tail = g.block(blk, env)
    if spec.get("inout") == "self":
        if tail is not None: fail("a `&mut self` method with a value")
        tail = "self_"
    if tail is None: fail("the body has no value")
    binders = [spec.get("binders", "")] + [f"({n} : {t})" for (_, n, t, *_m) in spec.get("dict", [])] + \
              [f"({env[n]} : {t})" for n, t in zip(names, spec["params"])]
    head = f"/-- `{spec['file']}`: `fn {spec['fn']}` of `{label}` -/\ndef {spec['name']} " + " ".join(b for b in binders if b) + f" : {spec['ret']} :=\n"
    text = head + "".join(f"  {l}\n" for l in lines) + f"  {tail}\n"
    rec = dict(lean="Gen.Body." + spec["name"], dict=[k for (k, *_r) in spec.get("dict", [])], mut=spec.get("inout") == "self")
    return text, rec

def B(name, file, where, fn, model, **kw):
    d = dict(name=name, file=file, where=where, fn=fn, model=model)
    d.update(kw)
    return d

# ------------------------------------------------------------------------------------------------ family `convert` (C03): convert/*.rs
ST = "{σ τ : Type}"
OOB = {"OutOfBounds": ("Prim.OutOfBounds.mk", ["color"])}
FIC, TFC, FCU = "convert/from_into_color.rs", "convert/try_from_into_color.rs", "convert/from_into_color_unclamped.rs"
UNCL = ("Self::from_color_unclamped", "unclamped", "σ → τ")
BODIES_CONVERT = [
    B("fromColor", FIC, impl_of("FromColor<T> for U"), "from_color", "Clamp.fromColorOf", binders=ST, params=["σ"], ret="τ",
      dict=[UNCL, (".clamp", "clamp", "τ → τ")]),
    B("fromColorVec", FIC, impl_of("FromColor<alloc::vec::Vec<T>> for alloc::vec::Vec<U>"), "from_color", "Clamp.fromColorList", binders=ST,
      params=["List σ"], ret="List τ", dict=[("U::from_color", "fromColor", "σ → τ"), ("U::from_color_unclamped", "unclamped", "σ → τ")]),
    B("fromColorBox", FIC, impl_of("FromColor<alloc::boxed::Box<[T]>> for alloc::boxed::Box<[U]>"), "from_color", "Clamp.fromColorList", binders=ST,
      params=["List σ"], ret="List τ", dict=[("U::from_color", "fromColor", "σ → τ"), ("U::from_color_unclamped", "unclamped", "σ → τ")]),
    B("intoColor", FIC, impl_of("IntoColor<U> for T"), "into_color", "Clamp.fromColorOf", binders=ST, params=["σ"], ret="τ",
      dict=[("U::from_color", "fromColor", "σ → τ")]),
    B("fromColorUnclampedVec", FCU, impl_of("FromColorUnclamped<alloc::vec::Vec<T>> for alloc::vec::Vec<U>"), "from_color_unclamped", "Clamp.unclampedList",
      binders=ST, params=["List σ"], ret="List τ", dict=[("U::from_color_unclamped", "unclamped", "σ → τ")]),
    B("fromColorUnclampedBox", FCU, impl_of("FromColorUnclamped<alloc::boxed::Box<[T]>> for alloc::boxed::Box<[U]>"), "from_color_unclamped", "Clamp.unclampedList",
      binders=ST, params=["List σ"], ret="List τ", dict=[("U::from_color_unclamped", "unclamped", "σ → τ")]),
    B("intoColorUnclamped", FCU, impl_of("IntoColorUnclamped<U> for T"), "into_color_unclamped", "Clamp.intoUnclampedOf", binders=ST, params=["σ"], ret="τ",
      dict=[("U::from_color_unclamped", "unclamped", "σ → τ")]),
    B("outOfBoundsNew", TFC, impl_of("OutOfBounds<T>"), "new", None, binders="{τ : Type}", params=["τ"], ret="Prim.OutOfBounds τ", structs=OOB,
      as_fn=["OutOfBounds::new"]),
    B("outOfBoundsColor", TFC, impl_of("OutOfBounds<T>"), "color", None, binders="{τ : Type}", params=["Prim.OutOfBounds τ"], ret="τ", structs=OOB),
    B("tryFromColor", TFC, impl_of("TryFromColor<T> for U"), "try_from_color", "Clamp.tryFromOf", binders=ST, params=["σ"], ret="Except (Prim.OutOfBounds τ) τ",
      dict=[UNCL, (".is_within_bounds", "within", "τ → Bool"), (".clamp", "clamp", "τ → τ")]),
    B("tryIntoColor", TFC, impl_of("TryIntoColor<U> for T"), "try_into_color", "Clamp.tryFromOf", binders=ST, params=["σ"], ret="Except (Prim.OutOfBounds τ) τ",
      dict=[("U::try_from_color", "tryFromColor", "σ → Except (Prim.OutOfBounds τ) τ")]),
]
UNTRANSLATED_CONVERT = [
    "`FromColorUnclamped` itself (the per-type conversion bodies: families of tools/rust2lean.py; the derive-generated routing: Gen/Graph.lean, C01_Route)",
    "`convert/from_into_color_mut.rs`, `from_into_color_unclamped_mut.rs` (in-place guards: C13's model), `convert/matrix3.rs`",
    "`cast::map_vec_in_place` / `map_slice_box_in_place` (unsafe; *read* as `Prim.mapInPlace`, text pinned by digest; their memory behaviour is C13 / C04)",
    "`impl Display / Error for OutOfBounds` (text only)",
]

# ------------------------------------------------------------------------------------------------ family `alpha` (C03 + C10): alpha/alpha.rs, lib.rs `[T]`
AL = "alpha/alpha.rs"
GT = "{γ τ : Type} [LT τ] [LE τ] [DecidableRel (α := τ) (· < ·)] [DecidableRel (α := τ) (· ≤ ·)]"
AOF = {"Alpha": ("Prim.AlphaOf.mk", ["color", "alpha"])}
AOPS = {"Alpha": ("Ops.Alpha.mk", ["color", "alpha"])}
ZERO, MAXI, ONE = ("T::zero", "zero", "τ"), ("T::max_intensity", "maxIntensity", "τ"), ("T::one", "one", "τ")
SA = "{α : Type} [Scalar α]"
C1, C2, C3 = "List α → List α", "List α → α → List α", "List α → List α → List α"
OA = "Ops.Alpha α"

def fwd1(name, trait, fn, key, pname, model, assign=False):
    """`Lighten` / `Saturate` / hue operators: one scalar (or hue) argument forwarded to the colour"""
    return B(name, AL, impl_of(trait), fn, model, binders=SA, params=[OA, "α"], ret=OA, structs=AOPS, prims="scalar",
             dict=[(key, pname, C2) + (("mut",) if assign else ())], **({"inout": "self"} if assign else {}))

def arith(fn, Tr, op):
    sat = fn.startswith("saturating")
    cam = R.camel(fn)
    out = []
    if sat:
        dc = [(f"color.{fn}", "opC", C3), (f"alpha.{fn}", "opT", "α → α → α")]
        ds = [(f"color.{fn}", "opS", C2), (f"alpha.{fn}", "opT", "α → α → α")]
    else:
        dc, ds = [(f"color{op}color", "opC", C3)], [(f"color{op}", "opS", C2)]
    out.append(B(f"alpha{cam}", AL, impl_of(f"{Tr} for Alpha<C, T>"), fn, "Ops.Alpha.binC", binders=SA, params=[OA, OA], ret=OA, structs=AOPS, prims="scalar", dict=dc))
    out.append(B(f"alpha{cam}S", AL, impl_of(f"{Tr}<T> for Alpha<C, T>"), fn, "Ops.Alpha.binS", binders=SA, params=[OA, "α"], ret=OA, structs=AOPS, prims="scalar", dict=ds))
    if not sat:
        out.append(B(f"alpha{cam}Assign", AL, impl_of(f"{Tr}Assign for Alpha<C, T>"), fn + "_assign", "Ops.Alpha.binAssignC", binders=SA, params=[OA, OA], ret=OA,
                     structs=AOPS, prims="scalar", inout="self", dict=[(f"color.{fn}_assign", "opAssignC", C3, "mut")]))
        out.append(B(f"alpha{cam}AssignS", AL, impl_of(f"{Tr}Assign<T> for Alpha<C, T>"), fn + "_assign", "Ops.Alpha.binAssignS", binders=SA, params=[OA, "α"], ret=OA,
                     structs=AOPS, prims="scalar", inout="self", dict=[(f"color.{fn}_assign", "opAssignS", C2, "mut")]))
    return out

BODIES_ALPHA = [
    # ---- bounds (C03): generic colour `γ`, generic alpha type `τ` with an order
    B("alphaMinAlpha", AL, impl_of("Alpha<C, T>", "impl<C, T: Stimulus> Alpha<C, T>"), "min_alpha", None, binders="{τ : Type}", params=[], ret="τ", dict=[ZERO],
      as_fn=["Self::min_alpha"]),
    B("alphaMaxAlpha", AL, impl_of("Alpha<C, T>", "impl<C, T: Stimulus> Alpha<C, T>"), "max_alpha", None, binders="{τ : Type}", params=[], ret="τ", dict=[MAXI],
      as_fn=["Self::max_alpha"]),
    B("alphaWithin", AL, impl_of("IsWithinBounds for Alpha<C, T>"), "is_within_bounds", "Clamp.alphaWithin", binders=GT, params=["Prim.AlphaOf γ τ"], ret="Bool",
      structs=AOF, dict=[ZERO, MAXI, ONE, ("color.is_within_bounds", "withinC", "γ → Bool")]),
    B("alphaClamp", AL, impl_of("Clamp for Alpha<C, T>"), "clamp", "Clamp.alphaClamp", binders=GT, params=["Prim.AlphaOf γ τ"], ret="Prim.AlphaOf γ τ",
      structs=AOF, dict=[ZERO, MAXI, ONE, ("color.clamp", "clampC", "γ → γ")]),
    B("alphaClampAssign", AL, impl_of("ClampAssign for Alpha<C, T>"), "clamp_assign", "Clamp.alphaClamp", binders=GT, params=["Prim.AlphaOf γ τ"], ret="Prim.AlphaOf γ τ",
      structs=AOF, inout="self", dict=[ZERO, MAXI, ONE, ("color.clamp_assign", "clampAssignC", "γ → γ", "mut")]),
    # ---- `[T]` (lib.rs)
    B("sliceClampAssign", "lib.rs", impl_of("ClampAssign for [T]"), "clamp_assign", "Clamp.sliceClamp", binders="{σ : Type}", params=["List σ"], ret="List σ",
      inout="self", dict=[("T::clamp_assign", "clampAssign", "σ → σ")]),
    B("sliceWithin", "lib.rs", impl_of("IsWithinBounds for [T]"), "is_within_bounds", "Clamp.sliceWithin", binders="{σ : Type}", params=["List σ"], ret="Bool",
      dict=[("item.is_within_bounds", "within", "σ → Bool")]),
    # ---- operators (C10): the model's `Ops.Alpha α` (colour = list of components, alpha of the component type)
    B("alphaMix", AL, impl_of("Mix for Alpha<C, C::Scalar>"), "mix", "Ops.Alpha.mix", binders=SA, params=[OA, OA, "α"], ret=OA, structs=AOPS, prims="scalar",
      dict=[("color.mix", "mixC", "List α → List α → α → List α")]),
    B("alphaMixAssign", AL, impl_of("MixAssign for Alpha<C, C::Scalar>"), "mix_assign", "Ops.Alpha.mixAssign", binders=SA, params=[OA, OA, "α"], ret=OA, structs=AOPS,
      prims="scalar", inout="self", dict=[("color.mix_assign", "mixAssignC", "List α → List α → α → List α", "mut")]),
    fwd1("alphaLighten", "Lighten for Alpha<C, C::Scalar>", "lighten", "color.lighten", "op", "Ops.Alpha.map1"),
    fwd1("alphaLightenFixed", "Lighten for Alpha<C, C::Scalar>", "lighten_fixed", "color.lighten_fixed", "op", "Ops.Alpha.map1"),
    fwd1("alphaLightenAssign", "LightenAssign for Alpha<C, C::Scalar>", "lighten_assign", "color.lighten_assign", "opAssign", "Ops.Alpha.assign1", True),
    fwd1("alphaLightenFixedAssign", "LightenAssign for Alpha<C, C::Scalar>", "lighten_fixed_assign", "color.lighten_fixed_assign", "opAssign", "Ops.Alpha.assign1", True),
    fwd1("alphaSaturate", "Saturate for Alpha<C, C::Scalar>", "saturate", "color.saturate", "op", "Ops.Alpha.map1"),
    fwd1("alphaSaturateFixed", "Saturate for Alpha<C, C::Scalar>", "saturate_fixed", "color.saturate_fixed", "op", "Ops.Alpha.map1"),
    fwd1("alphaSaturateAssign", "SaturateAssign for Alpha<C, C::Scalar>", "saturate_assign", "color.saturate_assign", "opAssign", "Ops.Alpha.assign1", True),
    fwd1("alphaSaturateFixedAssign", "SaturateAssign for Alpha<C, C::Scalar>", "saturate_fixed_assign", "color.saturate_fixed_assign", "opAssign", "Ops.Alpha.assign1", True),
    fwd1("alphaWithHue", "WithHue<H> for Alpha<C, T>", "with_hue", "color.with_hue", "op", "Ops.Alpha.map1"),
    fwd1("alphaSetHue", "SetHue<H> for Alpha<C, T>", "set_hue", "color.set_hue", "opAssign", "Ops.Alpha.assign1", True),
    fwd1("alphaShiftHue", "ShiftHue for Alpha<C, T>", "shift_hue", "color.shift_hue", "op", "Ops.Alpha.map1"),
    fwd1("alphaShiftHueAssign", "ShiftHueAssign for Alpha<C, T>", "shift_hue_assign", "color.shift_hue_assign", "opAssign", "Ops.Alpha.assign1", True),
    B("alphaGetHue", AL, impl_of("GetHue for Alpha<C, T>"), "get_hue", "Ops.getHue", binders="{α η : Type} [Scalar α]", params=[OA], ret="η", structs=AOPS, prims="scalar",
      dict=[("color.get_hue", "getHueC", "List α → η")]),
] + [b for (fn, Tr, op) in (("add", "Add", "+"), ("sub", "Sub", "-"), ("mul", "Mul", "*"), ("div", "Div", "/"),
                             ("saturating_add", "SaturatingAdd", None), ("saturating_sub", "SaturatingSub", None)) for b in arith(fn, Tr, op)] + [
    # ---- `[T]` operator impls (lib.rs): `for color in self { color.op_assign(x.clone()); }`
    B("sliceLightenAssign", "lib.rs", impl_of("LightenAssign for [T]"), "lighten_assign", "Ops.sliceAssign", binders=SA, params=["List (List α)", "α"], ret="List (List α)",
      inout="self", dict=[("color.lighten_assign", "opAssign", C2, "mut")]),
    B("sliceLightenFixedAssign", "lib.rs", impl_of("LightenAssign for [T]"), "lighten_fixed_assign", "Ops.sliceAssign", binders=SA, params=["List (List α)", "α"],
      ret="List (List α)", inout="self", dict=[("color.lighten_fixed_assign", "opAssign", C2, "mut")]),
    B("sliceSaturateAssign", "lib.rs", impl_of("SaturateAssign for [T]"), "saturate_assign", "Ops.sliceAssign", binders=SA, params=["List (List α)", "α"], ret="List (List α)",
      inout="self", dict=[("color.saturate_assign", "opAssign", C2, "mut")]),
    B("sliceSaturateFixedAssign", "lib.rs", impl_of("SaturateAssign for [T]"), "saturate_fixed_assign", "Ops.sliceAssign", binders=SA, params=["List (List α)", "α"],
      ret="List (List α)", inout="self", dict=[("color.saturate_fixed_assign", "opAssign", C2, "mut")]),
    B("sliceSetHue", "lib.rs", impl_of("SetHue<H> for [T]"), "set_hue", "Ops.sliceAssign", binders=SA, params=["List (List α)", "α"], ret="List (List α)",
      inout="self", dict=[("color.set_hue", "opAssign", C2, "mut")]),
    B("sliceShiftHueAssign", "lib.rs", impl_of("ShiftHueAssign for [T]"), "shift_hue_assign", "Ops.sliceAssign", binders=SA, params=["List (List α)", "α"], ret="List (List α)",
      inout="self", dict=[("color.shift_hue_assign", "opAssign", C2, "mut")]),
]
UNTRANSLATED_ALPHA = [
    "`FromColorUnclamped<C1> for Alpha<C2, T>` (`other.split()`, `WithAlpha` dispatch: the conversion-with-alpha statement is C01's law-free theorem), `WithAlpha`,",
    "  `Deref`, `PartialEq`, `Default`, `From<C>`, approx / serde / rand / hex impls, `ArrayCast` (C04), iterators",
    "`PreAlpha<C>` (blend/pre_alpha.rs): its `Mix` / arithmetic forwarding has the same text shape and the same model functions (`Ops.Alpha.*`); law-free theorems + oracle",
    "the colour's own operators / `clamp` / `is_within_bounds` (parameters here): Tie_Clamp.lean, Tie_Ops.lean at every colour type",
    "lib.rs wrappers `clamp`, `clamp_assign` (pinned by digest in the family `clamp`), `num::Clamp for f32/f64/uN`: read as `Clamp.clampV` (bounds) / `Scalar.clamp` (`Mix`)",
    "`T::zero()`, `T::max_intensity()` (`Stimulus`): parameters `zero`, `maxIntensity` of the bounds bodies (every component type); `0.0`, `1.0` in the `Mix` body (f32/f64)",
]

# ------------------------------------------------------------------------------------------------ family `format` (C06): `into_format` = `FromStimulus` per component
FST = "{σ τ : Type}"
FS = ("U::from_stimulus", "conv", "σ → τ")
FAT = "{γ γ' σ τ : Type}"
BODIES_FORMAT = [
    B("fromStimulus", "stimulus.rs", impl_of("FromStimulus<U> for T"), "from_stimulus", "Stim.fromStimulus", binders=FST, params=["σ"], ret="τ",
      dict=[("other.into_stimulus", "intoStimulus", "σ → τ")]),
    B("rgbIntoFormat", "rgb/rgb.rs", impl_of("Rgb<S, T>"), "into_format", "Stim.intoFormat", binders=FST, params=["Prim.Rgb3 σ"], ret="Prim.Rgb3 τ",
      structs={"Rgb": ("Prim.Rgb3.mk", ["red", "green", "blue"])}, phantoms=["standard"], dict=[FS]),
    B("rgbFromFormat", "rgb/rgb.rs", impl_of("Rgb<S, T>"), "from_format", "Stim.intoFormat", binders=FST, params=["Prim.Rgb3 σ"], ret="Prim.Rgb3 τ",
      dict=[("color.into_format", "intoFormat", "Prim.Rgb3 σ → Prim.Rgb3 τ")]),
    B("lumaIntoFormat", "luma/luma.rs", impl_of("Luma<S, T>"), "into_format", "Stim.intoFormat", binders=FST, params=["Prim.Luma1 σ"], ret="Prim.Luma1 τ",
      structs={"Luma": ("Prim.Luma1.mk", ["luma"])}, phantoms=["standard"], dict=[FS]),
    B("lumaFromFormat", "luma/luma.rs", impl_of("Luma<S, T>"), "from_format", "Stim.intoFormat", binders=FST, params=["Prim.Luma1 σ"], ret="Prim.Luma1 τ",
      dict=[("color.into_format", "intoFormat", "Prim.Luma1 σ → Prim.Luma1 τ")]),
    B("rgbaIntoFormat", "rgb/rgb.rs", impl_of("Alpha<Rgb<S, T>, A>"), "into_format", "Stim.intoFormatAlpha", binders=FAT, params=["Prim.AlphaOf γ σ"],
      ret="Prim.AlphaOf γ' τ", structs=AOF, struct_files={"Alpha": AL}, dict=[("color.into_format", "colorFmt", "γ → γ'"), ("B::from_stimulus", "convA", "σ → τ")]),
    B("lumaaIntoFormat", "luma/luma.rs", impl_of("Alpha<Luma<S, T>, A>"), "into_format", "Stim.intoFormatAlpha", binders=FAT, params=["Prim.AlphaOf γ σ"],
      ret="Prim.AlphaOf γ' τ", structs=AOF, struct_files={"Alpha": AL}, dict=[("color.into_format", "colorFmt", "γ → γ'"), ("B::from_stimulus", "convA", "σ → τ")]),
]
UNTRANSLATED_FORMAT = [
    "`Alpha<..>::from_format` (= `color.into_format()`, the translated form read backwards); the cross-precision hue `From` impls (hues.rs: Tie_Hue `huesIntoF32/F64`);",
    "  `into_format` of the other colour types does not exist (only `Rgb`, `Luma` and their `Alpha` forms change component format); `into_linear` / `into_encoding` (C05)",
    "`IntoStimulus<target> for source`: all 42 arms are translated and tied in the family `stim` (Tie_Stimulus.lean); `Tie_Format.lean` instantiates `conv` with them",
]

FAMILIES = {
    "convert": dict(file="BodiesConvert.lean", tie="Tie_Convert.lean", imports=["PaletteModel.ClampForms"], bodies=BODIES_CONVERT, untranslated=UNTRANSLATED_CONVERT,
                    what="conversion-trait glue (C03): convert/from_into_color.rs, convert/try_from_into_color.rs, convert/from_into_color_unclamped.rs",
                    pins=[("cast/array.rs", "map_vec_in_place", "`Prim.mapInPlace map values` (every item, in order, replaced by `map item`)", "173e5dc2dfa30f0c"),
                          ("cast/array.rs", "map_slice_box_in_place", "`Prim.mapInPlace map values`", "9a1fbcd073316410")]),
    "alpha": dict(file="BodiesAlpha.lean", tie="Tie_Alpha.lean", imports=["PaletteModel.ClampForms", "PaletteModel.Ops"], bodies=BODIES_ALPHA, untranslated=UNTRANSLATED_ALPHA,
                  what="`Alpha<C, T>` forwarding impls (alpha/alpha.rs) and the `[T]` impls of lib.rs: bounds (C03) and operators (C10)",
                  pins=[("lib.rs", "clamp", "`value.clamp(min, max)` (num::Clamp)", "c71da6ceae62a98c"),
                        ("lib.rs", "clamp_assign", "`value.clamp_assign(min, max)` (num::ClampAssign: `*value = clamp(*value, min, max)`)", "81bc1cb33b9d96a1")]),
    "format": dict(file="BodiesFormat.lean", tie="Tie_Format.lean", imports=["PaletteModel.StimulusForms"], bodies=BODIES_FORMAT, untranslated=UNTRANSLATED_FORMAT,
                   what="number-format conversion of whole colours (C06): `into_format` of rgb/rgb.rs and luma/luma.rs, the blanket `FromStimulus` of stimulus.rs", pins=[]),
}

def digest_of(read_src, file, fn):
    params, ret, body = find_fn(read_src(file), None, fn)
    return hashlib.sha256(re.sub(r"\s+", "", params + "->" + ret + body).encode()).hexdigest()[:16]

def generate_family(read_src, tie_text, fam):
    F = FAMILIES[fam]
    for (file, fn, reading, digest) in F["pins"]:
        got = digest_of(read_src, file, fn)
        if got != digest:
            raise Untranslatable(f"family {fam}: `{fn}` ({file}) is read as {reading}, registered for the text with digest {digest}; the text now has digest {got} "
                                 f"(re-read the function, adapt the reading in PaletteModel/BodyPrimGlue.lean if needed, then update the digest)")
    registry, defs = {}, []
    for spec in F["bodies"]:
        try:
            text, rec = translate_spec(spec, read_src, registry)
        except Untranslatable as e:
            raise Untranslatable(f"body {spec['name']} ({spec['file']}: fn {spec['fn']}): {e}")
        defs.append(text)
        for k in spec.get("as_fn", []): registry[k] = rec
        if spec["model"] is not None:
            m = re.search(r"\btheorem\s+tie_" + spec["name"] + r"\b(.*?):=", tie_text, re.S)
            if not m:
                raise Untranslatable(f"body {spec['name']} is translated but lean/PaletteProofs/{F['tie']} has no theorem tie_{spec['name']}")
            if not (re.search(r"Gen\.Body\." + spec["name"] + r"\b", m.group(1)) and re.search(re.escape(spec["model"]) + r"(?![\w.])", m.group(1))):
                raise Untranslatable(f"theorem tie_{spec['name']} does not state Gen.Body.{spec['name']} = {spec['model']}")
    tied = [s for s in F["bodies"] if s["model"]]
    head = [f"/- GENERATED by tools/extract.py (tools/rust2lean_glue.py, family `{fam}`) from the function bodies of palette/src -- do not edit",
            "",
            f"  {F['what']}",
            "  Each definition is the translation of the *current* text of one Rust function (named in its doc comment).  The code is generic over",
            "  types and dispatches through trait bounds: the translation is generic over Lean types and takes every trait-dispatched callee as a",
            "  parameter (conventions in the header of tools/rust2lean_glue.py, readings in PaletteModel/BodyPrimGlue.lean).",
            f"  `PaletteProofs/{F['tie']}` proves, for every value of those parameters:",
            ] + ["    " + ", ".join(f"{s['name']} = {s['model']}" for s in tied[i:i + 3]) for i in range(0, len(tied), 3)] + [
            "  Helpers translated and unfolded inside those proofs (no model function of their own): "
            + (", ".join(s["name"] for s in F["bodies"] if not s["model"]) or "none"),
            "",
            "  NOT translated in this family:"] + ["    " + u for u in F["untranslated"]] + ["-/",
            "import PaletteModel.BodyPrimGlue"] + [f"import {m}" for m in F["imports"]] + [
            "", "set_option linter.unusedVariables false   -- every registered dictionary entry stays a parameter, used or not", "",
            "namespace Gen.Body", "",
            f"/-- names of the translated bodies of family `{fam}` that have a `tie_` theorem, with the model function they are proved equal to -/",
            f"def tied{fam.capitalize()} : List (String × String) := [\n" + ",\n".join("  " + ", ".join(f'("{s["name"]}", "{s["model"]}")' for s in tied[i:i + 3])
                                                                  for i in range(0, len(tied), 3)) + "]", ""]
    return "\n".join(head) + "\n" + "\n".join(defs) + "\nend Gen.Body\n"

def translate_spec(spec, read_src, registry):
    return translate(spec, read_src, registry)

if __name__ == "__main__":
    repo = os.environ.get("PALETTE_REPO", "/repo")
    def read_src(rel): return strip_comments(open(os.path.join(repo, "palette", "src", rel)).read())
    root = os.path.dirname(os.path.dirname(os.path.abspath(__file__)))
    fam = sys.argv[1] if len(sys.argv) > 1 else "convert"
    if fam == "--digests":
        for f, fn in (("cast/array.rs", "map_vec_in_place"), ("cast/array.rs", "map_slice_box_in_place"), ("lib.rs", "clamp"), ("lib.rs", "clamp_assign")):
            print(fn, digest_of(read_src, f, fn))
        sys.exit(0)
    F = FAMILIES[fam]
    tie = os.path.join(root, "lean", "PaletteProofs", F["tie"])
    try:
        sys.stdout.write(generate_family(read_src, open(tie).read() if os.path.exists(tie) and "--no-tie" not in sys.argv else
                                         "".join(f"theorem tie_{s['name']} : Gen.Body.{s['name']} = {s['model']} := " for s in F["bodies"]), fam))
    except Untranslatable as e:
        print("FAILED:", e); sys.exit(1)
