#!/usr/bin/env python3
"""
rust2lean -- translate the straight-line generic-float function bodies of palette into Lean 4 terms over `class Scalar`.

Used by tools/extract.py (`gen_bodies`): on every run the *formula bodies* of the colour conversions are re-read from
/repo, parsed (a real tokenizer + Pratt parser for the expression/statement subset of Rust those bodies use) and
lowered to `def Gen.Body.<name> [Scalar α] ...` in lean/PaletteModel/Gen/Bodies.lean.  lean/PaletteProofs/Tie_Bodies.lean
proves each of them equal to the hand-written model function the driver executes, so that a changed coefficient,
operand or comparison in the Rust source breaks a proof obligation (`tie_<name>`), not only the sampled correspondence.

Translation conventions (the same the hand-written model follows, AGENT_GUIDE.md item 1):
  * `T::from_f64(<one numeric literal>)`  -> the scientific literal at `α` (`116.0`), `T::from_f64(-4.0)` -> `-4.0`
    `T::from_f64(<anything else>)`        -> `Scalar.const (<K expression>)`, module-level `const X: f64 = lit;` inlined
    (bodies registered with `k='const'` -- the Ok family -- use `Scalar.const` for every `from_f64`, as Ok.lean does)
  * `T::zero()` / `T::one()` -> `0.0` / `1.0`;   `.clone()`, `&x`, `*x`, `.into()` between a hue and its float: identity
  * `lazy_select! { if c => a, .. else => b }`, `if c {a} else {b}`, `m.select(a, b)`, `m.lazy_select(|| a, || b)` -> `if c then a else b`
  * comparisons are `Prop`s in the orientation of `<`/`≤` (`a.gt(&b)`, `a > b` -> `b < a`), `==`/`.eq` -> `Scalar.eqv`;
    a mask that is stored in a variable or combined with `|`/`&`/`||`/`&&`/`!` is a `Bool` (`decide (..)`, `||`, `&&`, `!`)
  * `x.powi(2)` / `x.powi(3)` -> `Prim.powi2 x` / `Prim.powi3 x` (= `x * x`, `x * x * x`), `x.recip()` -> `Prim.recip x` (= `1.0 / x`)
  * colour structs are `V3 α` in struct field order (PhantomData fields dropped; order re-read from the struct definition),
    `[T; 3]` is `V3 α`, tuples are Lean tuples, destructuring is projection
  * `let mut` + assignment: shadowing `let`; an `if` statement that assigns outer variables rebinds them from a tuple-valued `if`;
    `if c { return a; }` -> `if c then a else <rest of the block>`; `for _ in 0..N { .. }` -> `Prim.iterate N (fun v => ..) v`
  * `TypeId::of::<A>() == TypeId::of::<B>()` is resolved by the registration of the body (one translation per monomorphic branch)
Anything outside this subset raises `Untranslatable` (extract.py turns that into `die`, i.e. `broken[extraction]`).

Families (CAM16, colour difference, blending: `FAMILIES` below) are emitted into their own generated files
`Gen/Bodies<Family>.lean` (same namespace `Gen.Body`) and tied in `PaletteProofs/Tie_<Family>.lean`.  Additional conventions there:
  * `match e { Enum::A => .., Enum::B(x) => .. }` over a registered enum (`ENUMS`: variants re-read from the `enum` definition) -> Lean `match`;
    every variant exactly once, no wildcard; arms that are masks become `Bool` (`decide`)
  * registered non-colour structs (`STRUCTS`: field list re-read from the `struct` definition) map to the structure of the hand model; a nested
    Rust struct the model flattens (`DependentParameters.adapt: Adapt`) is rebuilt on access (`Prim.Adapt.mk p.adaptFL`) and projected on construction
  * `prims=<profile>`: the per-type primitives `radians_to_degrees`, `degrees_to_radians`, `hypot`, `signum`, `min_max`, `core::f64::consts::PI`
    take the reading of the model the family is compared with (`PROFILES`), e.g. `Cam16.toDegrees`, `x * Scalar.const Diff.R2D`
  * `mask='prop'`: masks are `Prop`s also when bound to a variable or combined (`&`/`|` -> `∧`/`∨`), as the Diff/Cam16/Blend models write them
  * `T::from_scalar(x)`, `V::from_scalar(x)` -> `x` (`FromScalar for f32/f64` is the identity); `clamp(v, lo, hi)` / `v.clamp(lo, hi)` -> `Scalar.clamp`
  * `holes={"<rust expr>": name}`: a trait-dispatched sub-expression of a generic default method (`self.relative_luminance().luma`) becomes the
    parameter `name`; the tie theorem composes it with the body that fills it
  * `macro_args={..}`: a `macro_rules!` body is instantiated at the registered invocation (`$(..$component..)+` repetitions expanded) before parsing
  * `colours=["C"]`: a type parameter standing for a colour (`C: ArrayCast<Array = [T; N]>`) is the list of its components (`List α`, as in Blend.lean);
    `for (src, dst) in zip_colors(x, &mut y) { *dst = e; }` -> `y := Prim.zipWith (fun src dst => e) x y`, the loop of `blend_separable` over
    `zip_input(..)` -> `Prim.zip4With` (the text of `zip_colors` / `zip_input` is pinned by digest: `pins` of the family); `x.f = e` on a local struct
    variable rebinds `x` with the other fields unchanged; `structs={..}` renames a Rust struct to a registered one for one body (`PreAlpha` at a `V3` colour)
  * `ptypes={name: type}`: parameters whose type is a bare type parameter bounded in the `where` clause (`F: FnMut(T, T) -> T`)

Families for the macro-generated operator code (clamp / bounds C03, colour operators C10, hues C11, number formats C06: `clamp`, `ops`, `hue`, `stim`;
Gen/BodiesClamp.lean, BodiesOps.lean, BodiesHue.lean, BodiesStim.lean; PaletteProofs/Tie_Clamp.lean, Tie_Ops.lean, Tie_Hue.lean, Tie_Stimulus.lean):
  * `expand=(file, macro, first token)`: the body is read from the *expansion of an actual invocation* (tools/rust_macros.py: a `macro_rules!` engine that
    matches the invocation against the arms as written now, nested repetitions and recursion included); `bodies=<function of read_src>`: the registrations
    of a family are derived from the invocations found (every three-component colour type), a body without `tie_` theorem still stops the run;
    `expr_macros=[..]`: helper macros in expression position (`_clamp_value!`) are expanded by the same engine from inside the expression parser
  * `inout="self"`: a `&mut self` method is the function returning the final state of the receiver; `self.f = e`, `self.f += e`, `*self += e`, `self.0 = e`
    rebind it (a colour: `V3.mk` with the other components unchanged), `crate::clamp_assign(&mut self.f, lo, hi);` / `clamp_min_assign` / `clamp_max_assign`
    assign the clamped value, a call statement of a translated `&mut self` method (`self.lighten_assign(-f);`) rebinds the receiver to its result
  * `crate::clamp` / `clamp_min` / `num::Clamp::clamp_max` (and the assigning forms) are per-type primitives with a per-family reading (`PROFILES`:
    `Clamp.clampV/clampMinV/clampMaxV` for the order-only C03 model; `Scalar.clamp/max/min` otherwise); the lib.rs wrappers are pinned by digest
  * `Option::from(E).map_or(D, |v| F)` is resolved at translation time (`E = None` -> D, else F[v := E]); `BoolMask::from_bool(b)` -> `b`; a `PhantomData`
    field read (`standard: self.standard`) is dropped; `use ..;` inside a body is skipped; `Self::Output` of the arithmetic impls is `Self`
  * `e as T` is an operator between unary and `*`; `<<` / `>>`; hex literals; `nth=k`: the k-th `fn <name>` of the item; `inst="[C α]"`: extra instance binders;
    `consts_from=[file]`: constants of another module used qualified; `invocation_rx`: the registered instantiation must occur in the source
  * the 8-bit hue: `u8` is `Nat`, `x as f32` / `x as u8` and `to_radians` / `to_degrees` / `T::from_f64(PI)` read through the profile (`Hue.AngleConsts`)
  * `mono=(src, dst)` (family `stim`): typed monomorphic lowering `MonoLower` onto core `Float32` / `Float` / `UIntN` (`u128`: `Nat`) for the bit-level arms of
    stimulus.rs; the readings of the language primitives are listed above `class MonoLower`
"""
import re, hashlib, os, sys
sys.path.insert(0, os.path.dirname(os.path.abspath(__file__)))
import rust_macros

class Untranslatable(Exception):
    pass

def fail(msg):
    raise Untranslatable(msg)

# ------------------------------------------------------------------------------------------------ tokens
TOK = re.compile(r"""
  (?P<ws>\s+)
 |(?P<num>0x[0-9a-fA-F_]+(?:u8|u16|u32|u64|u128|usize)?|\d[\d_]*(?:\.\d[\d_]*)?(?:[eE][+-]?\d+)?(?:_?(?:f32|f64|usize|u8|u16|u32|u64|u128|i32))?)
 |(?P<id>[A-Za-z_][A-Za-z0-9_]*)
 |(?P<life>'[A-Za-z_][A-Za-z0-9_]*)
 |(?P<op>::|->|=>|==|!=|<=|>=|&&|\|\||\.\.=|\.\.|\+=|-=|\*=|/=|[-+*/%=<>!&|.,;:(){}\[\]\#?$@^])
""", re.X)

def strip_comments(src):
    src = re.sub(r"/\*.*?\*/", "", src, flags=re.S)
    return re.sub(r"//[^\n]*", "", src)

def tokenize(src):
    out, i = [], 0
    while i < len(src):
        m = TOK.match(src, i)
        if not m: fail(f"cannot tokenize at {src[i:i+30]!r}")
        i = m.end()
        k = m.lastgroup
        if k == "ws": continue
        out.append((k, m.group(0)))
    return out

# ------------------------------------------------------------------------------------------------ parser
BINOPS = {  # operator -> (left binding power, right binding power)
    "*": (70, 71), "/": (70, 71), "%": (70, 71),
    "+": (60, 61), "-": (60, 61),
    "&": (50, 51), "^": (45, 46), "|": (40, 41),
    "==": (30, 31), "!=": (30, 31), "<": (30, 31), ">": (30, 31), "<=": (30, 31), ">=": (30, 31),
    "&&": (20, 21), "||": (15, 16),
    "..": (10, 11),
}
UNARY_BP = 80
CAST_BP = 75       # `e as T`: tighter than `*`, looser than the unary operators (`-x as T` = `(-x) as T`)
SHIFT_BP = (55, 56)

# expression-position macros other than `lazy_select!` / `strip_plus!` / `matches!`: set by the family being translated to
# `lambda name, toks: token list of the expansion | None` (tools/rust_macros.py expands `_clamp_value!` from its `macro_rules!` text)
EXPR_MACRO_HOOK = None

class Parser:
    def __init__(self, toks):
        self.t, self.i = toks, 0

    def peek(self, k=0):
        j = self.i + k
        return self.t[j] if j < len(self.t) else ("eof", "")

    def at(self, v, k=0): return self.peek(k)[1] == v and self.peek(k)[0] != "num"
    def next(self):
        x = self.peek(); self.i += 1; return x
    def eat(self, v):
        if self.at(v): self.i += 1; return True
        return False
    def expect(self, v):
        if not self.eat(v): fail(f"expected {v!r}, found {self.peek()[1]!r} (token {self.i}: ...{' '.join(x[1] for x in self.t[max(0, self.i-8):self.i+4])})")

    # ---- helpers that skip what the translation does not look at
    def skip_angles(self):
        """at `<`: skip the balanced generic argument list, return its text"""
        self.expect("<"); depth, txt = 1, []
        while depth:
            k, v = self.next()
            if k == "eof": fail("unbalanced <>")
            if v == "<": depth += 1
            elif v == ">": depth -= 1
            if depth: txt.append(v)
        return " ".join(txt)

    def skip_type(self, stops):
        """skip a type up to (not including) one of `stops` at bracket depth 0; returns its text"""
        depth, txt = 0, []
        while True:
            k, v = self.peek()
            if k == "eof": fail("unterminated type")
            if depth == 0 and v in stops and k != "num": break
            if v in "<([": depth += 1
            elif v in ">)]": depth -= 1
            txt.append(v); self.i += 1
        return " ".join(txt)

    def balanced(self):
        """at an opening bracket: the token list strictly inside the balanced pair"""
        open_ = self.next()[1]
        close = {"(": ")", "{": "}", "[": "]"}[open_]
        depth, start = 1, self.i
        while depth:
            k, v = self.next()
            if k == "eof": fail("unbalanced " + open_)
            if k != "num" and v in "({[": depth += 1
            elif k != "num" and v in ")}]": depth -= 1
        return self.t[start:self.i - 1]

    # ---- patterns
    def pattern(self):
        if self.eat("("):
            ps = []
            while not self.at(")"):
                ps.append(self.pattern())
                if not self.eat(","): break
            self.expect(")")
            return ("ptuple", ps)
        if self.eat("["):
            ps = []
            while not self.at("]"):
                ps.append(self.pattern())
                if not self.eat(","): break
            self.expect("]")
            return ("parray", ps)
        self.eat("&")
        mut = self.eat("mut")
        k, v = self.next()
        if k != "id": fail(f"pattern: unexpected {v!r}")
        if v == "_": return ("pwild",)
        name = v
        while self.at("::"):
            self.i += 1
            if self.at("<"): self.skip_angles()
            else: name = self.next()[1]
        if self.at("{"):
            self.i += 1
            fields, rest = [], False
            while not self.at("}"):
                if self.eat(".."): rest = True; break
                f = self.next()[1]
                p = self.pattern() if self.eat(":") else ("pid", f, False)
                fields.append((f, p))
                if not self.eat(","): break
            self.expect("}")
            return ("pstruct", name, fields, rest)
        return ("pid", name, mut)

    # ---- expressions
    def expr(self, bp=0, no_struct=False):
        lhs = self.prefix(no_struct)
        while True:
            k, v = self.peek()
            if k == "id" and v == "as":
                if CAST_BP < bp: break
                self.i += 1
                ty = [self.next()[1]]
                while self.at("::"):
                    self.i += 1; ty.append(self.next()[1])
                if self.at("<"): fail("`as` cast to a generic type is outside the translated subset")
                lhs = ("cast", lhs, "::".join(ty)); continue
            if k != "num" and v in ("<", ">") and self.peek(1)[0] != "num" and self.peek(1)[1] == v:      # `<<` / `>>` (`a < < b` is not an expression)
                if SHIFT_BP[0] < bp: break
                self.i += 2
                rhs = self.expr(SHIFT_BP[1], no_struct)
                lhs = ("binary", v + v, lhs, rhs); continue
            if k == "num" or v not in BINOPS: break
            l, r = BINOPS[v]
            if l < bp: break
            self.i += 1
            if v == ".." and (self.at(")") or self.at("]") or self.at("}") or self.at(",") or self.at(";")):
                lhs = ("range", lhs, None); continue
            rhs = self.expr(r, no_struct)
            lhs = ("range", lhs, rhs) if v == ".." else ("binary", v, lhs, rhs)
        return lhs

    def prefix(self, no_struct):
        k, v = self.peek()
        if k != "num" and v in ("-", "!", "&", "*"):
            self.i += 1
            if v == "&": self.eat("mut")
            e = self.expr(UNARY_BP, no_struct)
            return ("unary", v, e)
        if k != "num" and v == "||":       # closure without parameters
            self.i += 1
            return ("closure", [], self.expr(0, no_struct))
        if k != "num" and v == "|":
            self.i += 1
            params = []
            while not self.at("|"):
                p = self.pattern()
                ty = None
                if self.eat(":"): ty = self.skip_type(("|", ","))
                params.append((p, ty))
                if not self.eat(","): break
            self.expect("|")
            if self.at("->"):
                self.i += 1; self.skip_type(("{",))
                return ("closure", params, self.block())
            return ("closure", params, self.expr(0, no_struct))
        if k == "id" and v == "return":
            self.i += 1
            if self.at(";") or self.at("}"): return ("return", None)
            return ("return", self.expr(0, no_struct))
        return self.postfix(self.atom(no_struct), no_struct)

    def path(self):
        """ident (:: ident | :: <..>)*  ->  ("path", [segments], [generic argument texts])"""
        segs, gens = [], []
        if self.at("<"):   # qualified path `<A as B>::c`
            gens.append(self.skip_angles()); segs.append("<qualified>")
        else:
            segs.append(self.next()[1])
        while self.at("::"):
            self.i += 1
            if self.at("<"): gens.append(self.skip_angles())
            else: segs.append(self.next()[1])
        return ("path", segs, gens)

    def atom(self, no_struct):
        k, v = self.peek()
        if k == "num":
            self.i += 1
            return ("num", v)
        if v == "(":
            self.i += 1
            if self.eat(")"): return ("tuple", [])
            e = self.expr()
            if self.eat(")"): return e
            items = [e]
            while self.eat(","):
                if self.at(")"): break
                items.append(self.expr())
            self.expect(")")
            return ("tuple", items)
        if v == "[":
            self.i += 1
            items = []
            while not self.at("]"):
                items.append(self.expr())
                if not self.eat(","): break
            self.expect("]")
            return ("array", items)
        if v == "{":
            return self.block()
        if k == "id" and v == "if":
            return self.if_expr()
        if k == "id" and v == "for":
            self.i += 1
            p = self.pattern()
            if self.next()[1] != "in": fail("for: expected `in`")
            it = self.expr(0, True)
            return ("for", p, it, self.block())
        if k == "id" and v == "match":
            return self.match_expr()
        if k == "id" and v in ("while", "loop", "unsafe"):
            fail(f"`{v}` is outside the translated subset")
        if k == "id" or v == "<":
            p = self.path()
            if self.at("!") and self.peek(1)[1] in ("(", "{", "["):
                self.i += 1
                toks = self.balanced()
                name = p[1][-1]
                if name == "lazy_select": return self.lazy_select(toks)
                if name == "strip_plus":          # `strip_plus!(+ a + b + c)` = `a + b + c` (macros/mod.rs)
                    if not toks or toks[0][1] != "+": fail("strip_plus!: expected a leading `+`")
                    q = Parser(toks[1:]); e = q.expr()
                    if q.peek()[0] != "eof": fail("strip_plus!: trailing tokens")
                    return e
                if name == "matches":             # `matches!(e, A::X | A::Y)`
                    q = Parser(toks); e = q.expr(); q.expect(","); alts = [q.match_pattern()]
                    while q.eat("|"): alts.append(q.match_pattern())
                    if q.peek()[0] != "eof": fail("matches!: trailing tokens")
                    return ("matches", e, alts)
                if EXPR_MACRO_HOOK is not None:
                    ex = EXPR_MACRO_HOOK(name, toks)
                    if ex is not None:
                        q = Parser(ex); e = q.expr()
                        if q.peek()[0] != "eof": fail(f"{name}!: the expansion is not one expression")
                        return e
                fail(f"macro {name}! is outside the translated subset")
            last = p[1][-1]
            if self.at("{") and not no_struct and (last[:1].isupper() or last == "Self"):
                self.i += 1
                fields, base = [], None
                while not self.at("}"):
                    if self.eat(".."):
                        base = self.expr(); break
                    f = self.next()[1]
                    e = self.expr() if self.eat(":") else ("path", [f], [])
                    fields.append((f, e))
                    if not self.eat(","): break
                self.expect("}")
                return ("struct", p, fields, base)
            return p
        fail(f"unexpected token {v!r}")

    def lazy_select(self, toks):
        q = Parser(toks)
        arms, other = [], None
        while q.peek()[0] != "eof":
            if q.eat("if"):
                c = q.expr()
                q.expect("=>")
                e = q.expr()
                arms.append((c, e))
            elif q.eat("else"):
                q.expect("=>")
                other = q.expr()
            else: fail(f"lazy_select!: unexpected {q.peek()[1]!r}")
            q.eat(",")
        if not arms or other is None: fail("lazy_select!: needs `if` arms and an `else` arm")
        return ("lazy_select", arms, other)

    def match_pattern(self):
        """`A::B`, `A::B(x, y)`, `_` or a plain binding -> ("penum", [segments], [sub-patterns] | None)"""
        if self.peek()[0] == "id" and self.peek()[1] == "_":
            self.i += 1; return ("pwild",)
        self.eat("&")
        segs = [self.next()[1]]
        while self.at("::"):
            self.i += 1
            if self.at("<"): self.skip_angles()
            else: segs.append(self.next()[1])
        subs = None
        if self.eat("("):
            subs = []
            while not self.at(")"):
                subs.append(self.pattern())
                if not self.eat(","): break
            self.expect(")")
        return ("penum", segs, subs)

    def match_expr(self):
        self.expect("match")
        scrut = self.expr(0, True)
        self.expect("{")
        arms = []
        while not self.at("}"):
            pats = [self.match_pattern()]
            while self.eat("|"): pats.append(self.match_pattern())
            if self.at("if"): fail("match guards are outside the translated subset")
            self.expect("=>")
            body = self.expr()
            arms.append((pats, body))
            if not self.eat(",") and not self.at("}") and body[0] != "block": fail("match: expected `,` between arms")
        self.expect("}")
        return ("match", scrut, arms)

    def if_expr(self):
        self.expect("if")
        if self.at("let"): fail("`if let` is outside the translated subset")
        c = self.expr(0, True)
        th = self.block()
        el = None
        if self.eat("else"):
            el = self.if_expr() if self.at("if") else self.block()
        return ("if", c, th, el)

    def postfix(self, e, no_struct):
        while True:
            if self.at("("):
                self.i += 1
                args = []
                while not self.at(")"):
                    args.append(self.expr())
                    if not self.eat(","): break
                self.expect(")")
                e = ("call", e, args)
            elif self.at("."):
                k, v = self.peek(1)
                if k == "num":
                    self.i += 2
                    if not re.fullmatch(r"\d+", v): fail(f"tuple index {v!r}")
                    e = ("index", e, int(v))
                elif k == "id":
                    self.i += 2
                    gens = []
                    if self.at("::"):
                        self.i += 1; gens.append(self.skip_angles())
                    if self.at("("):
                        self.i += 1
                        args = []
                        while not self.at(")"):
                            args.append(self.expr())
                            if not self.eat(","): break
                        self.expect(")")
                        e = ("mcall", e, v, args, gens)
                    else:
                        e = ("field", e, v)
                else: break
            elif self.at("?"):
                fail("`?` is outside the translated subset")
            else: break
        return e

    def block(self):
        self.expect("{")
        stmts, tail = [], None
        while not self.at("}"):
            if self.eat(";"): continue
            if self.at("let"):
                self.i += 1
                p = self.pattern()
                ty = None
                if self.eat(":"): ty = self.skip_type(("=", ";"))
                init = None
                if self.eat("="): init = self.expr()
                self.expect(";")
                stmts.append(("let", p, ty, init))
                continue
            if self.at("use") and self.peek()[0] == "id":       # `use crate::color_theory::Complementary;` inside a body: brings a trait into scope, no effect on the value
                while not self.at(";"):
                    if self.peek()[0] == "eof": fail("unterminated `use`")
                    self.i += 1
                self.i += 1; continue
            if self.at("#"):       # attribute on a statement
                self.i += 1; self.balanced(); continue
            e = self.expr()
            k, v = self.peek()
            if k != "num" and v in ("=", "+=", "-=", "*=", "/="):
                self.i += 1
                rhs = self.expr()
                self.expect(";")
                if v != "=": rhs = ("binary", v[0], e, rhs)
                stmts.append(("assign", e, rhs))
                continue
            if self.eat(";"):
                stmts.append(("expr", e)); continue
            if self.at("}"):
                tail = e; break
            if e[0] in ("if", "for", "block"):
                stmts.append(("expr", e)); continue
            fail(f"statement: unexpected {self.peek()[1]!r} after expression")
        self.expect("}")
        return ("block", stmts, tail)

def parse_block(src):
    """`{ ... }` source text -> block AST"""
    p = Parser(tokenize(strip_comments(src)))
    b = p.block()
    if p.peek()[0] != "eof": fail("trailing tokens after block")
    return b

def parse_expr(src):
    p = Parser(tokenize(strip_comments(src)))
    e = p.expr()
    if p.peek()[0] != "eof": fail(f"trailing tokens after expression: {p.peek()[1]!r}")
    return e

# ------------------------------------------------------------------------------------------------ source lookup
def match_brace(src, i):
    depth = 0
    for j in range(i, len(src)):
        if src[j] == "{": depth += 1
        elif src[j] == "}":
            depth -= 1
            if depth == 0: return j + 1
    fail("unbalanced braces")

def find_fn(src, where, fn, nth=0):
    """(parameter text, return type text, body text incl. braces) of the `nth` `fn <fn>` (with a body) inside the first item whose header
    matches the regex `where` (None: whole file).  `src` has comments stripped."""
    if where is not None:
        m = re.search(where, src)
        if not m: fail(f"item /{where}/ not found")
        i = src.index("{", m.end() - 1)
        scope = src[i:match_brace(src, i)]
    else:
        scope = src
    for m in re.finditer(r"\bfn\s+" + re.escape(fn) + r"\b\s*", scope):
        i = m.end()
        if i < len(scope) and scope[i] == "<":       # generic parameters (`->` inside them does not occur in the crate's signatures)
            depth = 0
            while True:
                if scope[i] == "<": depth += 1
                elif scope[i] == ">" and scope[i - 1] != "-": depth -= 1
                i += 1
                if depth == 0: break
            while scope[i].isspace(): i += 1
        if scope[i] != "(": continue
        start, depth = i + 1, 1
        i += 1
        while depth:
            if scope[i] == "(": depth += 1
            elif scope[i] == ")": depth -= 1
            i += 1
        params = scope[start:i - 1]
        j = scope.find("{", i)
        k, dep = -1, 0                              # first `;` outside brackets (`-> [U; 3]` is not the end of a declaration)
        for q in range(i, j if j >= 0 else len(scope)):
            if scope[q] in "[(": dep += 1
            elif scope[q] in "])": dep -= 1
            elif scope[q] == ";" and dep == 0: k = q; break
        if j < 0 or 0 <= k < j: continue            # a declaration without body (trait method)
        if nth > 0:
            nth -= 1; continue
        head = scope[i:j]
        rm = re.match(r"\s*->\s*(.*?)\s*(?:\bwhere\b.*)?$", head, re.S)
        ret = rm.group(1).strip() if rm else ""
        return params, ret, scope[j:match_brace(scope, j)]
    fail(f"fn {fn} not found" + (f" in /{where}/" if where else ""))

def split_top(s, sep=","):
    out, depth, cur = [], 0, ""
    for ch in s:
        if ch in "([{<": depth += 1
        elif ch in ")]}>": depth -= 1
        if ch == sep and depth == 0: out.append(cur); cur = ""
        else: cur += ch
    if cur.strip(): out.append(cur)
    return out

def struct_fields(src, name):
    """[(field, type text)] of `pub struct <name><..> { .. }` without PhantomData fields, in declaration order"""
    m = re.search(r"\bstruct\s+" + name + r"\b[^{;(]*\{", src)
    if not m: fail(f"struct {name} not found")
    body = src[m.end() - 1:match_brace(src, m.end() - 1)][1:-1]
    body = re.sub(r"#\[[^\]]*\]", "", body)
    out = []
    for part in split_top(body):
        mm = re.match(r"\s*(?:pub(?:\([^)]*\))?\s+)?(\w+)\s*:\s*(.+?)\s*$", part, re.S)
        if not mm: fail(f"struct {name}: field {part!r}")
        if mm.group(2).startswith("PhantomData"): continue
        out.append((mm.group(1), mm.group(2)))
    return out

def struct_phantoms(src, name):
    """names of the `PhantomData` fields of `struct <name>`"""
    m = re.search(r"\bstruct\s+" + name + r"\b[^{;(]*\{", src)
    if not m: fail(f"struct {name} not found")
    body = src[m.end() - 1:match_brace(src, m.end() - 1)][1:-1]
    body = re.sub(r"#\[[^\]]*\]", "", body)
    out = []
    for part in split_top(body):
        mm = re.match(r"\s*(?:pub(?:\([^)]*\))?\s+)?(\w+)\s*:\s*(.+?)\s*$", part, re.S)
        if mm and mm.group(2).startswith("PhantomData"): out.append(mm.group(1))
    return out

# ------------------------------------------------------------------------------------------------ lowering
class Val:
    """a lowered expression: Lean source text and the (coarse) type used for dispatch
       types: 'T' scalar (also hues) | 'N' Nat (`u8` of the 8-bit hue) | 'B' Bool | 'P' Prop | ('V3', name|None) | ('S', name) | ('tup', [..]) | 'M3' | ('fn', [..], ret)
              | ('typeid', text) | 'unit'"""
    __slots__ = ("code", "ty")
    def __init__(self, code, ty): self.code, self.ty = code, ty

def lean_ty(ty):
    if ty == "T": return "α"
    if ty == "B": return "Bool"
    if ty == "N": return "Nat"
    if ty == "P": return "Prop"
    if ty == "M3": return "M3 α"
    if ty == "unit": return "Unit"
    if ty[0] == "V3": return "V3 α"
    if ty[0] == "S": return struct_info(ty[1])["lean"] + (" α" if struct_info(ty[1]).get("param", True) else "")
    if ty[0] == "iter": fail("an iterator value cannot be bound")
    if ty[0] == "E": return ENUMS[ty[1]]["lean"] + (" α" if ENUMS[ty[1]].get("param", True) else "")
    if ty == "C": return "List α"
    if ty[0] == "tup": return "(" + " × ".join(lean_ty(t) for t in ty[1]) + ")"
    if ty[0] == "fn": return "(" + " → ".join(lean_ty(t) for t in ty[1] + [ty[2]]) + ")"
    fail(f"no Lean type for {ty!r}")

def tup_proj(code, i, n):
    """projection i of an n-tuple (right-nested pairs)"""
    s = code
    for _ in range(i): s += ".2"
    if i < n - 1: s += ".1"
    return s

LEAN_RESERVED = {"at", "from", "fun", "then", "do", "in", "open", "show", "have", "end", "by", "let", "if", "else", "match", "with",
                 "where", "instance", "class", "def", "theorem", "variable", "universe", "namespace", "section", "import", "export",
                 "mutual", "local", "private", "protected", "macro", "syntax", "notation", "prefix", "infix", "postfix", "using",
                 "calc", "exists", "forall", "Type", "Prop", "Sort", "deriving", "extends", "structure", "inductive", "abbrev",
                 "example", "axiom", "opaque", "partial", "unsafe", "noncomputable", "nomatch", "nofun", "return", "for", "try",
                 "catch", "finally", "unless", "mut", "break", "continue", "true", "false", "suffices", "obtain", "set", "this"}

def lname(n):
    return n + "_r" if n in LEAN_RESERVED else n

# non-colour structs of ok_utils.rs: Rust name -> (Lean structure of the model, [(rust field, lean field)])
STRUCTS = {
    "LC": ("Ok.LC", [("lightness", "lightness"), ("chroma", "chroma")]),
    "ST": ("Ok.ST", [("s", "s"), ("t", "t")]),
    "ChromaValues": ("Ok.Cs", [("zero", "zero"), ("mid", "mid"), ("max", "max")]),
}

# Structs of the new families.  fields: (rust field, type, Lean term of the field given the struct value `{}`); mk: Lean term building the
# model's structure from the (lowered) Rust fields; file: where the `struct` definition is re-read from (field names must be these).
V3N = ("V3", None)
STRUCTS2 = {
    # cam16/math.rs: the model `Cam16.Dep` flattens `adapt: Adapt { f_l }` and `unadapt: Unadapt { constant, exponent }`
    "DependentParameters": dict(lean="Cam16.Dep", file="cam16/math.rs", fields=[
        ("d_rgb", V3N, "{}.dRgb"), ("d_rgb_inv", V3N, "{}.dRgbInv"), ("n", "T", "{}.n"), ("n_bb", "T", "{}.nBb"), ("n_c", "T", "{}.nC"),
        ("n_cb", "T", "{}.nCb"), ("a_w", "T", "{}.aW"), ("c", "T", "{}.c"), ("z", "T", "{}.z"), ("f_l_4", "T", "{}.fL4"),
        ("adapt", ("S", "Adapt"), "(Prim.Adapt.mk {}.adaptFL)"), ("unadapt", ("S", "Unadapt"), "(Prim.Unadapt.mk {}.unadaptConstant {}.unadaptExponent)")],
        mk="(Cam16.Dep.mk {d_rgb} {d_rgb_inv} {n} {n_bb} {n_c} {n_cb} {a_w} {c} {z} {f_l_4} {adapt}.fL {unadapt}.constant {unadapt}.exponent)"),
    "Adapt": dict(lean="Prim.Adapt", file="cam16/math.rs", fields=[("f_l", "T", "{}.fL")], mk="(Prim.Adapt.mk {f_l})"),
    "Unadapt": dict(lean="Prim.Unadapt", file="cam16/math.rs", fields=[("constant", "T", "{}.constant"), ("exponent", "T", "{}.exponent")],
                    mk="(Prim.Unadapt.mk {constant} {exponent})"),
    # cam16/parameters.rs `Parameters<WpParam, T>` at `WpParam = Xyz<Any, T>` (what `prepare_parameters` receives)
    "Parameters": dict(lean="Cam16.Parameters", file="cam16/parameters.rs", fields=[
        ("white_point", ("V3", "Xyz"), "{}.whitePoint"), ("adapting_luminance", "T", "{}.adaptingLuminance"),
        ("background_luminance", "T", "{}.backgroundLuminance"), ("surround", ("E", "Surround"), "{}.surround"),
        ("discounting", ("E", "Discounting"), "{}.discounting")],
        mk="(Cam16.Parameters.mk {white_point} {adapting_luminance} {background_luminance} {surround} {discounting})"),
    # cam16/full.rs `Cam16<T>`
    "Cam16": dict(lean="Cam16.Full", file="cam16/full.rs", fields=[
        ("lightness", "T", "{}.lightness"), ("chroma", "T", "{}.chroma"), ("hue", "T", "{}.hue"), ("brightness", "T", "{}.brightness"),
        ("colorfulness", "T", "{}.colorfulness"), ("saturation", "T", "{}.saturation")],
        mk="(Cam16.Full.mk {lightness} {chroma} {hue} {brightness} {colorfulness} {saturation})"),
    # color_difference.rs
    "LabColorDiff": dict(lean="Diff.LabColorDiff", file="color_difference.rs", fields=[
        ("l", "T", "{}.l"), ("a", "T", "{}.a"), ("b", "T", "{}.b"), ("chroma", "T", "{}.chroma")],
        mk="(Diff.LabColorDiff.mk {l} {a} {b} {chroma})"),
    # blend/blend.rs `BlendInput<C>`, blend/pre_alpha.rs `PreAlpha<C>`, alpha/alpha.rs `Alpha<C, T>`: a generic colour `C` is the list of
    # its components ('C'), `PreAlpha`/`Alpha` are `Blend.WithAlpha` = (components, alpha)
    "BlendInput": dict(lean="Blend.BlendInput", file="blend/blend.rs", fields=[
        ("color", "C", "{}.color"), ("color_pre", "C", "{}.colorPre"), ("alpha", "T", "{}.alpha")],
        mk="(Blend.BlendInput.mk {color} {color_pre} {alpha})"),
    "PreAlpha": dict(lean="Blend.WithAlpha", file="blend/pre_alpha.rs", fields=[("color", "C", "{}.1"), ("alpha", "T", "{}.2")],
                     mk="(({color}, {alpha}) : Blend.WithAlpha α)"),
    "Alpha": dict(lean="Blend.WithAlpha", file="alpha/alpha.rs", fields=[("color", "C", "{}.1"), ("alpha", "T", "{}.2")],
                  mk="(({color}, {alpha}) : Blend.WithAlpha α)"),
}
STRUCTS2.update({
    # blend/equations.rs: `Equations { color_equation, alpha_equation, color_parameters: Parameters, alpha_parameters: Parameters }`; the model
    # `Blend.Equations` stores the four parameters flat
    "Equations": dict(lean="Blend.Equations", param=False, file="blend/equations.rs", fields=[
        ("color_equation", ("E", "Equation"), "{}.colorEquation"), ("alpha_equation", ("E", "Equation"), "{}.alphaEquation"),
        ("color_parameters", ("S", "EqParameters"), "(Prim.ParamPair.mk {}.colorSource {}.colorDestination)"),
        ("alpha_parameters", ("S", "EqParameters"), "(Prim.ParamPair.mk {}.alphaSource {}.alphaDestination)")],
        mk="(Blend.Equations.mk {color_equation} {alpha_equation} {color_parameters}.source {color_parameters}.destination {alpha_parameters}.source {alpha_parameters}.destination)"),
    "EqParameters": dict(lean="Prim.ParamPair Blend.Parameter", param=False, rust="Parameters", file="blend/equations.rs", fields=[
        ("source", ("E", "Parameter"), "{}.source"), ("destination", ("E", "Parameter"), "{}.destination")],
        mk="(Prim.ParamPair.mk {source} {destination})"),
    # `PreAlpha<Self>` inside `impl_premultiply!` instantiated at a three-component colour: (colour, alpha)
    "PreAlpha3": dict(lean="Prim.PreAlpha3", rust="PreAlpha", file="blend/pre_alpha.rs", fields=[("color", V3N, "{}.1"), ("alpha", "T", "{}.2")],
                      mk="(({color}, {alpha}) : Prim.PreAlpha3 α)"),
})
STRUCT_ALIASES = {"BakedParameters": "DependentParameters"}     # `BakedParameters { inner: DependentParameters, .. }`: `.inner` is read as the identity

def struct_info(name):
    if name in STRUCTS2: return STRUCTS2[name]
    lean, fs = STRUCTS[name]
    return dict(lean=lean, fields=[(rf, "T", "{}." + lf) for rf, lf in fs], mk="(" + lean + ".mk " + " ".join("{" + rf + "}" for rf, _ in fs) + ")")

def is_struct(name): return name in STRUCTS or name in STRUCTS2

# Enums: Rust enum -> Lean inductive of the model; variants: rust name -> (lean constructor, [argument types]); re-read from the `enum` definition
ENUMS = {
    "Surround": dict(lean="Cam16.Surround", file="cam16/parameters.rs",
                     variants={"Dark": ("dark", []), "Dim": ("dim", []), "Average": ("average", []), "Percent": ("percent", ["T"])}),
    "Discounting": dict(lean="Cam16.Discounting", file="cam16/parameters.rs", variants={"Auto": ("auto", []), "Custom": ("custom", ["T"])}),
    "LuminanceType": dict(lean="Cam16.Lum", file="cam16/math/luminance.rs", variants={"Lightness": ("lightness", ["T"]), "Brightness": ("brightness", ["T"])}),
    "ChromaticityType": dict(lean="Cam16.Chr", file="cam16/math/chromaticity.rs",
                             variants={"Chroma": ("chroma", ["T"]), "Colorfulness": ("colorfulness", ["T"]), "Saturation": ("saturation", ["T"])}),
    "Equation": dict(lean="Blend.Equation", file="blend/equations.rs", param=False,
                     variants={"Add": ("add", []), "Subtract": ("subtract", []), "ReverseSubtract": ("reverseSubtract", []), "Min": ("min", []), "Max": ("max", [])}),
    "Parameter": dict(lean="Blend.Parameter", file="blend/equations.rs", param=False,
                      variants={"One": ("one", []), "Zero": ("zero", []), "SourceColor": ("sourceColor", []), "OneMinusSourceColor": ("oneMinusSourceColor", []),
                                "DestinationColor": ("destinationColor", []), "OneMinusDestinationColor": ("oneMinusDestinationColor", []),
                                "SourceAlpha": ("sourceAlpha", []), "OneMinusSourceAlpha": ("oneMinusSourceAlpha", []),
                                "DestinationAlpha": ("destinationAlpha", []), "OneMinusDestinationAlpha": ("oneMinusDestinationAlpha", [])}),
    "ParamOut": dict(lean="Blend.ParamOut", file="blend/equations.rs",
                     variants={"Color": ("color", [("S", "PreAlpha")]), "Constant": ("constant", ["T"])}),
}

def enum_variants(src, name):
    """[(variant, arity)] of `enum <name><..> { .. }` in declaration order"""
    m = re.search(r"\benum\s+" + name + r"\b[^{;(]*\{", src)
    if not m: fail(f"enum {name} not found")
    body = src[m.end() - 1:match_brace(src, m.end() - 1)][1:-1]
    body = re.sub(r"#\[[^\]]*\]", "", body)
    out = []
    for part in split_top(body):
        part = part.strip()
        if not part: continue
        mm = re.fullmatch(r"(\w+)\s*(?:\((.*)\))?", part, re.S)
        if not mm: fail(f"enum {name}: variant {part!r}")
        out.append((mm.group(1), len(split_top(mm.group(2))) if mm.group(2) else 0))
    return out

# Readings of the per-type primitives that differ between the models (see the headers of Color/Cam16.lean and Diff.lean: neither uses
# `class Angle`).  A value is the Lean function name, or a template over `{0}`, `{1}`.
PROFILES = {
    None: {},
    "cam16": {"radians_to_degrees": "(Cam16.toDegrees {0})", "degrees_to_radians": "(Cam16.toRadians {0})", "hypot": "(Cam16.hypot {0} {1})",
              "signum": "(Cam16.signum {0})", "kPI": "Cam16.PI"},
    "diff": {"radians_to_degrees": "({0} * (Scalar.const Diff.R2D : α))", "degrees_to_radians": "({0} * (Scalar.const Diff.D2R : α))",
             "hypot": "(Diff.hypot {0} {1})", "min_max": "(Diff.minMax {0} {1})", "kPI": "Diff.PI"},
}

# scalar primitives: trait methods of `num.rs`/`angle.rs` implemented for f32/f64 by the standard library (class fields of Scalar / Angle)
PRIM1 = {"sqrt": "Scalar.sqrt", "cbrt": "Scalar.cbrt", "abs": "Scalar.abs", "sin": "Scalar.sin", "cos": "Scalar.cos", "floor": "Scalar.floor",
         "ceil": "Scalar.ceil", "round": "Scalar.round", "exp": "Scalar.exp", "ln": "Scalar.ln", "recip": "Prim.recip",
         "degrees_to_radians": "Angle.degToRad", "radians_to_degrees": "Angle.radToDeg", "is_valid_divisor": "Scalar.isValidDivisor"}
PRIM2 = {"max": "Scalar.max", "min": "Scalar.min", "powf": "Scalar.powf", "atan2": "Scalar.atan2", "hypot": "Angle.hypot"}
PRIM3 = {"mul_add": "Scalar.mulAdd", "mul_sub": "Scalar.mulSub", "clamp": "Scalar.clamp"}
ANGLE_PRIMS = {"Angle.degToRad", "Angle.radToDeg", "Angle.hypot", "Angle.pi"}
IDENTITY_METHODS = {"clone", "with_white_point", "is_true", "into_inner", "into_raw_degrees", "reinterpret_as", "borrow", "to_owned"}
CMP_METHODS = {"gt": ("<", True), "lt": ("<", False), "gt_eq": ("≤", True), "lt_eq": ("≤", False)}
CMP_OPS = {">": ("<", True), "<": ("<", False), ">=": ("≤", True), "<=": ("≤", False)}
# lib.rs `clamp`, `clamp_min`, `clamp_assign`, `clamp_min_assign` (thin wrappers, pinned by digest in the families that read them) and the
# `num::Clamp` / `num::ClampAssign` trait methods they forward to: name -> number of arguments
CLAMP_FNS = {"clamp": 3, "clamp_min": 2, "clamp_max": 2}
CLAMP_ASSIGN_FNS = {"clamp_assign": "clamp", "clamp_min_assign": "clamp_min", "clamp_max_assign": "clamp_max"}
CLAMP_PREFIXES = ([], ["crate"], ["crate", "num", "Clamp"], ["crate", "num", "ClampAssign"])

class Ctx:
    """what a translation unit knows about the crate: struct layouts, registered callees, constants"""
    def __init__(self, read_src):
        self.read_src = read_src          # rel path under palette/src -> comment-stripped text
        self.type_files = {}              # colour struct -> [files]
        self.aliases = {}                 # type alias -> struct
        self.fns = {}                     # rust callee key -> dict(lean=.., params=[ty], ret=ty, extra=[codes], angle=bool)
        self.methods = {}                 # (struct name, method) -> same kind of dict, receiver is the first parameter
        self._fields = {}
        self.macro_structs = {}           # colour struct defined by a macro invocation -> (file, macro, invocation regex with groups = its fields)
        self.engine = None                # tools/rust_macros.py Engine of the family (bodies read from macro expansions)

    def resolve(self, name):
        return self.aliases.get(name, name)

    def fields(self, name):
        name = self.resolve(name)
        if name not in self._fields and name in self.macro_structs:
            f, rx, order, guard = self.macro_structs[name]
            m = re.search(rx, self.read_src(f))
            if not m: fail(f"macro-defined struct {name}: invocation /{rx}/ not found in {f}")
            if not re.search(guard, self.read_src(f)): fail(f"macro-defined struct {name}: the struct definition inside the macro changed shape (/{guard}/)")
            self._fields[name] = [m.group(g) if isinstance(g, int) else g for g in order]
        if name not in self._fields:
            if name not in self.type_files: fail(f"unknown colour struct {name}")
            self._fields[name] = [f for f, _ in struct_fields(self.read_src(self.type_files[name][0]), name)]
            if len(self._fields[name]) != 3: fail(f"struct {name}: {len(self._fields[name])} non-phantom fields, V3 expects 3")
        return self._fields[name]

    def phantoms(self, name):
        name = self.resolve(name)
        if name in self.macro_structs or name not in self.type_files: return []
        return struct_phantoms(self.read_src(self.type_files[name][0]), name)

    def new_params(self, name):
        """parameter names of `<name>::new`, checked to be exactly the struct's fields (mapped by name)"""
        name = self.resolve(name)
        src = self.read_src(self.type_files[name][0])
        params, _, _ = find_fn(src, None, "new")
        ps = [re.match(r"\s*(?:mut\s+)?(\w+)\s*:", p).group(1) for p in split_top(params)]
        if sorted(ps) != sorted(self.fields(name)): fail(f"{name}::new parameters {ps} are not the fields {self.fields(name)}")
        return ps

class Lower:
    def __init__(self, ctx, self_ty=None, kmode="sci", consts=None, typeid=None, wp=None, subst=None, prims=None, mask="bool", holes=None,
                 scalars=()):
        self.ctx = ctx
        self.prof = PROFILES[prims]       # readings of the per-type primitives (PROFILES)
        self.mask = mask                  # 'bool': a stored/combined mask is a Bool (C01/C02 models) | 'prop': it stays a Prop
        self.holes = holes or []          # [(AST of a Rust expression, Val it is replaced with)]
        self.scalar_names = {"T", "Self::Scalar", "C::Scalar", "T::Scalar"} | set(scalars)   # type paths whose `::from_f64`, `::zero`.. are the scalar's
        self.self_ty = self_ty            # name the path `Self` denotes
        self.kmode = kmode                # 'sci' | 'const'
        self.consts = consts or {}        # module-level numeric constants: name -> literal text
        self.typeid = typeid or {}        # "A == B" -> bool
        self.wp = wp                      # Lean name of the white point parameter (`Wp::get_xyz()`), if any
        self.subst = subst or {}          # associated constants of type parameters fixed by the registration, e.g. {"N::VALUE": "2.2"}
        self.uses_angle = False
        self.uses_viaf64 = False          # `luv_bounds.rs` computes in f64 whatever `T` is (class ViaF64 of Cie.lean)
        self.fresh = 0
        self.typeids_seen = []
        self.hint = None                  # type annotation of the `let` whose initialiser is being lowered

    # ---- small helpers
    def tmp(self, base="d"):
        self.fresh += 1
        return f"_{base}{self.fresh}"

    def sci(self, lit):
        lit = re.sub(r"_?(f32|f64)$", "", lit).replace("_", "")
        if re.fullmatch(r"\d+", lit): lit += ".0"
        if not re.fullmatch(r"\d+\.\d+|\d+(\.\d+)?[eE][-+]?\d+", lit): fail(f"numeric literal {lit!r}")
        return lit

    def as_bool(self, v):
        if v.ty == "B": return v.code
        if v.ty == "P": return f"decide ({v.code})"
        fail(f"mask expected, found {v.ty!r}: {v.code}")

    def as_cond(self, v):
        if v.ty in ("B", "P"): return v.code
        fail(f"condition expected, found {v.ty!r}: {v.code}")

    def scalar(self, v, what=""):
        if v.ty != "T": fail(f"scalar expected{what}, found {v.ty!r}: {v.code}")
        return v.code

    # ---- constants
    def k_expr(self, e):
        """f64 constant expression -> Lean `K` term"""
        if e[0] == "num": return f"({self.sci(e[1])} : K)"
        if e[0] == "unary" and e[1] == "-": return f"(-{self.k_expr(e[2])})"
        if e[0] == "binary" and e[1] in "+-*/": return f"({self.k_expr(e[2])} {e[1]} {self.k_expr(e[3])})"
        if e[0] == "path":
            key = "::".join(e[1])
            if key == "core::f64::consts::PI" and self.prof.get("kPI"): return self.prof["kPI"]
            if key in self.subst: return f"({self.sci(self.subst[key])} : K)"
            if len(e[1]) == 1 and e[1][0] in self.consts: return f"({self.sci(self.consts[e[1][0]])} : K)"
            if key in self.consts: return f"({self.sci(self.consts[key])} : K)"      # `ok_utils::MAX_..` (constants of another module: `consts_from`)
        fail(f"not a constant expression: {e!r}")

    def from_f64(self, e):
        if e[0] == "path" and "::".join(e[1]) in self.subst:
            e = ("num", self.subst["::".join(e[1])])
        if e[0] == "path" and e[1] == ["core", "f64", "consts", "PI"] and self.prof.get("pi"): return Val(self.prof["pi"], "T")
        if e[0] == "path" and e[1] == ["core", "f64", "consts", "PI"] and not self.prof.get("kPI"):
            self.uses_angle = True
            return Val("Angle.pi", "T")
        if self.kmode == "sci":
            if e[0] == "num": return Val(f"({self.sci(e[1])} : α)", "T")
            if e[0] == "unary" and e[1] == "-" and e[2][0] == "num": return Val(f"(-({self.sci(e[2][1])} : α))", "T")
        return Val(f"(Scalar.const {self.k_expr(e)} : α)", "T")

    # ---- expressions
    def expr(self, e, env):
        k = e[0]
        for h, v in self.holes:
            if e == h: return v
        if k == "match": return self.match_value(e, env)
        if k == "matches": return self.matches_value(e, env)
        if k == "num":
            return Val(f"({self.sci(e[1])} : α)", "T")      # a bare float literal (macro bodies instantiated at f32/f64)
        if k == "path": return self.path(e, env)
        if k == "unary": return self.unary(e, env)
        if k == "binary": return self.binary(e, env)
        if k == "field": return self.field(e, env)
        if k == "index":
            r = self.expr(e[1], env)
            if r.ty == "T" and e[2] == 0: return r            # `self.0` of a hue newtype
            if r.ty[0] == "tup": return Val(tup_proj(r.code, e[2], len(r.ty[1])), r.ty[1][e[2]])
            fail(f"tuple index on {r.ty!r}")
        if k == "call": return self.call(e, env)
        if k == "mcall": return self.mcall(e, env)
        if k == "if": return self.if_value(e, env)
        if k == "lazy_select":
            other = self.expr(e[2], env)
            code = other.code
            for c, a in reversed(e[1]):
                cv, av = self.expr(c, env), self.expr(a, env)
                if av.ty != other.ty: fail(f"lazy_select!: arm types differ ({av.ty!r} / {other.ty!r})")
                code = f"(if {self.as_cond(cv)} then {av.code} else {code})"
            return Val(code, other.ty)
        if k == "block": return self.block(e, env)
        if k == "tuple":
            vs = [self.expr(x, env) for x in e[1]]
            if not vs: return Val("()", "unit")
            return Val("(" + ", ".join(v.code for v in vs) + ")", ("tup", [v.ty for v in vs]))
        if k == "array":
            vs = [self.expr(x, env) for x in e[1]]
            if len(vs) not in (3, 9) or any(v.ty != "T" for v in vs): fail("only [T; 3] and [T; 9] arrays are translated")
            if len(vs) == 9: return Val("(M3.mk " + " ".join(v.code for v in vs) + ")", "M3")
            return Val("(V3.mk " + " ".join(v.code for v in vs) + ")", ("V3", None))
        if k == "struct": return self.struct_lit(e, env)
        if k == "closure": return self.closure(e, env)
        if k == "cast": return self.cast(e, env)
        if k == "return": fail("`return` in a position the translation cannot express (only `if c { ..; return x; }` statements are)")
        fail(f"expression kind {k!r} is outside the translated subset")

    def path(self, e, env):
        segs = e[1]
        if len(segs) == 1:
            n = segs[0]
            if n in env: return env[n]
            if n == "PhantomData": return Val("_", "phantom")
            if n in ("true", "false"): return Val(n, "B")
            if n in self.consts: fail(f"module constant {n} used outside T::from_f64")
            if n in self.ctx.fns and "extra" in self.ctx.fns[n] and not self.ctx.fns[n]["extra"]:      # a translated fn passed as a value
                d = self.ctx.fns[n]
                return Val(d["lean"], ("fn", list(d["params"]), d["ret"]))
            fail(f"unbound name {n!r}")
        if segs[-1] == "PhantomData": return Val("_", "phantom")
        if len(segs) == 2 and segs[1] == "from_scalar" and segs[0] in self.scalar_names:
            return Val("(fun (x : α) => x)", ("fn", ["T"], "T"))       # `FromScalar::from_scalar` for f32/f64: identity
        if segs[0] == "MinMax" and len(segs) == 2 and segs[1] in ("min", "max"):
            return Val(PRIM2[segs[1]], ("fn", ["T", "T"], "T"))
        fail(f"path {'::'.join(segs)} used as a value")

    def cast(self, e, env):
        """`e as ty`: only the two casts of the 8-bit hue (`u8 as f32/f64`, `f32/f64 as u8`), read through the profile of the family"""
        v = self.expr(e[1], env)
        if v.ty == "N" and e[2] in self.scalar_names and self.prof.get("cast_u8_T"): return Val(self.prof["cast_u8_T"].format(v.code), "T")
        if v.ty == "T" and e[2] == "u8" and self.prof.get("cast_T_u8"): return Val(self.prof["cast_T_u8"].format(v.code), "N")
        fail(f"`as {e[2]}` on {v.ty!r} is outside the translated subset")

    def unary(self, e, env):
        op = e[1]
        v = self.expr(e[2], env)
        if op in ("&", "*"): return v
        if op == "-": return Val(f"(-{self.scalar(v, ' under unary -')})", "T")
        if op == "!":
            if v.ty == "B": return Val(f"(!{v.code})", "B")
            if v.ty == "P": return Val(f"(¬ {v.code})", "P")
            fail(f"`!` on {v.ty!r}")
        fail(f"unary {op}")

    def binary(self, e, env):
        op = e[1]
        a, b = self.expr(e[2], env), self.expr(e[3], env)
        if a.ty != "T" and a.ty[0] == "typeid":
            if op != "==" or b.ty[0] != "typeid": fail("TypeId used outside `==`")
            key = f"{a.ty[1]} == {b.ty[1]}"
            self.typeids_seen.append(key)
            if key not in self.typeid: fail(f"TypeId comparison `{key}` is not resolved by the registration of this body")
            return Val("True" if self.typeid[key] else "False", ("static", self.typeid[key]))
        if op in "+-*/":
            if a.ty == "T" and b.ty == "T": return Val(f"({a.code} {op} {b.code})", "T")
            if a.ty[0] == "V3" and b.ty[0] == "V3":      # impl_color_{add,sub,mul,div}!: component-wise
                return Val(f"(Prim.v3{ {'+':'Add','-':'Sub','*':'Mul','/':'Div'}[op] } {a.code} {b.code})", a.ty)
            if a.ty[0] == "V3" and b.ty == "T":          # colour (op) scalar: every component with the same scalar
                return Val(f"(Prim.v3{ {'+':'Add','-':'Sub','*':'Mul','/':'Div'}[op] }S {a.code} {b.code})", a.ty)
            if a.ty == "C" and b.ty == "C" and op == "*":     # generic colour `C: Mul<Output = C>` (impl_color_mul!): component-wise
                return Val(f"(Blend.mulLists {a.code} {b.code})", "C")
            if a.ty == "C" and b.ty == "T" and op == "*":     # `C: Mul<T, Output = C>`: every component with the same scalar
                return Val(f"(List.map (fun x => x * {b.code}) {a.code})", "C")
            fail(f"`{op}` on {a.ty!r} and {b.ty!r}")
        if op in CMP_OPS:
            rel, flip = CMP_OPS[op]
            x, y = self.scalar(a), self.scalar(b)
            return Val(f"({y} {rel} {x})" if flip else f"({x} {rel} {y})", "P")
        if op == "==": return Val(f"(Scalar.eqv {self.scalar(a)} {self.scalar(b)})", "P")
        if op == "!=": return Val(f"(¬ Scalar.eqv {self.scalar(a)} {self.scalar(b)})", "P")
        if self.mask == "prop" and a.ty == "P" and b.ty == "P" and op in ("|", "||", "&", "&&"):
            return Val(f"({a.code} {'∨' if op[0] == '|' else '∧'} {b.code})", "P")
        if op in ("|", "||"): return Val(f"({self.as_bool(a)} || {self.as_bool(b)})", "B")
        if op in ("&", "&&"): return Val(f"({self.as_bool(a)} && {self.as_bool(b)})", "B")
        fail(f"binary {op}")

    def field(self, e, env):
        r = self.expr(e[1], env)
        f = e[2]
        if r.ty != "T" and r.ty[0] == "V3":
            if r.ty[1] is None: fail("field of an anonymous [T; 3]")
            fs = self.ctx.fields(r.ty[1])
            if f not in fs:
                if f in self.ctx.phantoms(r.ty[1]): return Val("_", "phantom")      # `standard: self.standard` (a `PhantomData` field)
                fail(f"{r.ty[1]} has no field {f}")
            return Val(f"{r.code}.c{fs.index(f)}", "T")
        if r.ty != "T" and r.ty[0] == "S":
            if f == "inner" and r.ty[1] == "DependentParameters": return r      # `BakedParameters.inner`
            for rf, fty, tmpl in struct_info(r.ty[1])["fields"]:
                if rf == f:
                    if tmpl.count("{}") > 1 and not re.fullmatch(r"[\w.']+", r.code): fail(f"field .{f} of a computed {r.ty[1]}")
                    return Val(tmpl.replace("{}", r.code), fty)
            fail(f"{r.ty[1]} has no field {f}")
        fail(f"field .{f} of {r.ty!r}")

    def struct_lit(self, e, env):
        name = e[1][1][-1]
        if name == "Self": name = self.self_ty
        name = STRUCT_RENAME.get(name, name)
        if e[3] is not None: fail("struct update syntax `..base` is outside the translated subset")
        given = {f: self.expr(x, env) for f, x in e[2]}
        if is_struct(name):
            info = struct_info(name)
            if sorted(given) != sorted(rf for rf, _, _ in info["fields"]): fail(f"{name} literal: fields {sorted(given)}")
            args = {}
            for rf, fty, _ in info["fields"]:
                g = given[rf]
                ok = g.ty == fty or (g.ty != "T" and fty != "T" and g.ty[0] == "V3" and fty[0] == "V3")
                if not ok: fail(f"{name} literal: field {rf} has type {g.ty!r}, expected {fty!r}")
                args[rf] = g.code
            return Val(info["mk"].format(**args), ("S", name))
        name = self.ctx.resolve(name)
        fs = self.ctx.fields(name)
        extra = [f for f in given if f not in fs]
        for f in extra:
            if given[f].ty != "phantom": fail(f"{name} literal: unexpected field {f}")
        if any(f not in given for f in fs): fail(f"{name} literal: missing fields")
        return Val("(V3.mk " + " ".join(self.scalar(given[f], f" for {name}.{f}") for f in fs) + ")", ("V3", name))

    def closure(self, e, env):
        params, body = e[1], e[2]
        env2 = dict(env)
        names, tys = [], []
        for p, ty in params:
            if p[0] != "pid": fail("closure parameter pattern")
            if ty is not None and ty.replace("&", "").strip() != "T": fail(f"closure parameter type {ty!r}")
            n = lname(p[1])
            env2[p[1]] = Val(n, "T"); names.append(n); tys.append("T")
        b = self.expr(body, env2)
        if not names: return Val(b.code, ("thunk", b.ty))
        return Val("(fun " + " ".join(f"({n} : α)" for n in names) + f" => {b.code})", ("fn", tys, b.ty))

    # ---- calls
    def args(self, xs, env): return [self.expr(x, env) for x in xs]

    def construct(self, name, args):
        name = self.ctx.resolve(name)
        ps = self.ctx.new_params(name)
        if len(args) != len(ps): fail(f"{name}::new: {len(args)} arguments")
        by = dict(zip(ps, args))
        return Val("(V3.mk " + " ".join(self.scalar(by[f], f" for {name}.{f}") for f in self.ctx.fields(name)) + ")", ("V3", name))

    def apply_fn(self, d, args, what):
        if "hint" in d and not (self.hint and re.search(d["hint"], self.hint)):
            fail(f"{what}: trait-dispatched call whose target type is not the registered one (/{d['hint']}/, annotation {self.hint!r})")
        if len(args) != len(d["params"]): fail(f"{what}: {len(args)} arguments, {len(d['params'])} expected")
        for a, t in zip(args, d["params"]):
            ok = a.ty == t or (a.ty not in ("T", "B", "P", "C") and t not in ("T", "B", "P", "C") and a.ty[0] == "V3" and t[0] == "V3") \
                 or (a.ty == "P" and t == "B")
            if not ok: fail(f"{what}: argument type {a.ty!r}, expected {t!r}")
        if d.get("angle"): self.uses_angle = True
        if d.get("viaf64"): self.uses_viaf64 = True
        return Val("(" + " ".join([d["lean"]] + d.get("extra", []) + [(self.as_bool(a) if t == "B" else a.code) for a, t in zip(args, d["params"])]) + ")", d["ret"])

    def call(self, e, env):
        f, xs = e[1], e[2]
        if f[0] != "path":
            fv = self.expr(f, env)
            fail(f"call of a computed value {fv.code}")
        segs, gens = f[1], f[2]
        key = "::".join(segs)
        # local closure
        if len(segs) == 1 and segs[0] in env:
            fv = env[segs[0]]
            if fv.ty == "T" or fv.ty[0] != "fn": fail(f"{segs[0]} is not callable")
            a = self.args(xs, env)
            if [x.ty for x in a] != fv.ty[1]: fail(f"closure {segs[0]}: argument types")
            return Val("(" + " ".join([fv.code] + [x.code for x in a]) + ")", fv.ty[2])
        sprefix = "::".join(segs[:-1])
        if sprefix in self.scalar_names and segs[-1] == "from_f64":
            if len(xs) != 1: fail("T::from_f64 arity")
            return self.from_f64(xs[0])
        if sprefix in self.scalar_names and segs[-1] in ("zero", "min_intensity") and not xs: return Val("(0.0 : α)", "T")
        if sprefix in self.scalar_names and segs[-1] in ("one", "max_intensity") and not xs: return Val("(1.0 : α)", "T")
        if sprefix in self.scalar_names and segs[-1] == "from_scalar" and len(xs) == 1:      # `FromScalar for f32/f64`: identity
            return Val(self.scalar(self.expr(xs[0], env), " in from_scalar"), "T")
        if key == "clamp" and len(xs) == 3 and "clamp" not in self.ctx.fns:                  # crate-level `clamp(v, lo, hi)` = `v.clamp(lo, hi)`
            return self.prim("clamp", self.args(xs, env))
        if segs[-1] in CLAMP_FNS and segs[:-1] in CLAMP_PREFIXES and len(xs) == CLAMP_FNS[segs[-1]] and key not in self.ctx.fns:
            return self.clamp_prim(segs[-1], self.args(xs, env))                               # `crate::clamp_min(v, lo)`, `crate::num::Clamp::clamp_max(v, hi)`
        if len(segs) >= 2 and segs[-2:] == ["BoolMask", "from_bool"] and len(xs) == 1 and xs[0] in (("path", ["true"], []), ("path", ["false"], [])):
            return Val(xs[0][1][0], "B")                                                       # `BoolMask for bool`: the identity
        if sprefix in self.scalar_names and ("T::" + segs[-1]) in self.ctx.fns:                # `T::Scalar::half_rotation()`, `f32::full_rotation()`
            return self.apply_fn(self.ctx.fns["T::" + segs[-1]], self.args(xs, env), "T::" + segs[-1])
        if key == "TypeId::of" and not xs:
            return Val("_", ("typeid", re.sub(r"\s+", "", gens[-1]) if gens else "?"))
        if key == "Wp::get_xyz" and not xs:
            if self.wp is None: fail("Wp::get_xyz() in a body registered without a white point parameter")
            return Val(self.wp, ("V3", "Xyz"))
        if key == "PhantomData": return Val("_", "phantom")
        # UFCS forms of the scalar primitives: `T::max(a, b)`, `Round::floor(x)`, `T::cbrt(x)`
        if len(segs) == 2 and (segs[0] in ("T", "Round", "Self", "Exp", "Sqrt", "MinMax") or segs[0] in self.scalar_names) \
                and (segs[1] in PRIM1 or segs[1] in PRIM2 or segs[1] in PRIM3 or segs[1] in self.prof) \
                and not (segs[0] == "Self" and key in self.ctx.fns) and key not in self.ctx.fns:
            a = self.args(xs, env)
            return self.prim(segs[1], a)
        # registered callees (other translated bodies, generated tables)
        cands = [key]
        if segs[0] == "Self" and self.self_ty: cands.append("::".join([self.self_ty] + segs[1:]))
        if len(segs) > 1: cands.append("::".join(segs[-2:])); cands.append(segs[-1])
        for c in cands:
            if c in self.ctx.fns:
                return self.apply_fn(self.ctx.fns[c], self.args(xs, env), c)
        # constructors
        if len(segs) == 2 and segs[1] in ("new", "new_const"):
            name = self.self_ty if segs[0] == "Self" else segs[0]
            if self.ctx.resolve(name) in self.ctx.type_files: return self.construct(name, self.args(xs, env))
        if len(segs) == 1 and (segs[0] == "Self" or segs[0].endswith("Hue")) and len(xs) == 1:      # `Self(x)` / `RgbHue(x)` of a hue newtype
            return self.expr(xs[0], env)
        if len(segs) == 2 and segs[1] in ("from_degrees", "new") and segs[0].endswith("Hue") and len(xs) == 1:
            return self.expr(xs[0], env)
        fail(f"call of {key} is outside the translated subset (not a primitive, constructor or registered body)")

    def prim(self, name, a):
        n = len(a)
        if name in self.prof and name != "kPI":
            tmpl = self.prof[name]
            want = 3 if "{2}" in tmpl else 2 if "{1}" in tmpl else 1
            if n != want: fail(f"primitive {name} with {n} arguments")
            return Val(tmpl.format(*[self.scalar(x) for x in a]), ("tup", ["T", "T"]) if name == "min_max" else "T")
        if name in PRIM1 and n == 1:
            lean = PRIM1[name]
            if lean in ANGLE_PRIMS: self.uses_angle = True
            return Val(f"({lean} {self.scalar(a[0])})", "B" if name == "is_valid_divisor" else "T")
        if name in PRIM2 and n == 2:
            lean = PRIM2[name]
            if lean in ANGLE_PRIMS: self.uses_angle = True
            return Val(f"({lean} {self.scalar(a[0])} {self.scalar(a[1])})", "T")
        if name in PRIM3 and n == 3:
            return Val(f"({PRIM3[name]} {self.scalar(a[0])} {self.scalar(a[1])} {self.scalar(a[2])})", "T")
        fail(f"primitive {name} with {n} arguments")

    def clamp_prim(self, name, a):
        """`clamp` / `clamp_min` / `clamp_max` (num.rs `Clamp`: `f32::clamp`, `f32::max`, `f32::min`; `Ord::..` for integers) in the reading of the family"""
        if name in self.prof: return self.prim(name, a)
        if name == "clamp": return self.prim("clamp", a)
        return Val(f"({'Scalar.max' if name == 'clamp_min' else 'Scalar.min'} {self.scalar(a[0])} {self.scalar(a[1])})", "T")

    def mcall(self, e, env):
        recv, name, xs = e[1], e[2], e[3]
        # `Option::from(E).map_or(D, |v| F)` (impl_is_within_bounds!): `E = None` -> D, otherwise F with `v := E` (`Option::from(x) = Some(x)`)
        if name == "map_or" and len(xs) == 2 and recv[0] == "call" and recv[1][0] == "path" and recv[1][1] == ["Option", "from"] and len(recv[2]) == 1:
            if recv[2][0] == ("path", ["None"], []): return self.expr(xs[0], env)
            clo = xs[1]
            if clo[0] != "closure" or len(clo[1]) != 1 or clo[1][0][0][0] != "pid": fail("map_or: a closure `|v| ..` expected")
            env2 = dict(env); env2[clo[1][0][0][1]] = self.expr(recv[2][0], env)
            return self.expr(clo[2], env2)
        # `LuvBounds::from_lightness(l).max_chroma_at_hue(h)` and similar two-step helpers registered as one callee
        if recv[0] == "call" and recv[1][0] == "path":
            key = "::".join(recv[1][1]) + "()." + name
            if key in self.ctx.fns:
                return self.apply_fn(self.ctx.fns[key], self.args(recv[2], env) + self.args(xs, env), key)
        r = self.expr(recv, env)
        if name in IDENTITY_METHODS and not xs: return r
        if r.ty not in ("T", "B", "P", "C") and r.ty[0] == "fn" and name == "apply_to":      # `F: BlendFunction<C>` (closures: `self(source, destination)`)
            a = self.args(xs, env)
            if [x.ty for x in a] != r.ty[1]: fail("apply_to: argument types")
            return Val("(" + " ".join([r.code] + [x.code for x in a]) + ")", r.ty[2])
        if r.ty == "T":
            if name == "into" and not xs: return r                    # T -> hue newtype (`From<T> for Hue`: `$name(degrees)`)
            if name == "powi":
                if len(xs) != 1 or xs[0][0] != "num" or xs[0][1] not in ("2", "3", "7"): fail("powi with an exponent other than the literals 2, 3, 7")
                return Val(f"(Prim.powi{xs[0][1]} {r.code})", "T")
            if name == "sin_cos" and not xs:
                return Val(f"(Scalar.sin {r.code}, Scalar.cos {r.code})", ("tup", ["T", "T"]))
            if name in CMP_METHODS and len(xs) == 1:
                rel, flip = CMP_METHODS[name]
                y = self.scalar(self.expr(xs[0], env))
                return Val(f"({y} {rel} {r.code})" if flip else f"({r.code} {rel} {y})", "P")
            if name == "eq" and len(xs) == 1: return Val(f"(Scalar.eqv {r.code} {self.scalar(self.expr(xs[0], env))})", "P")
            if name == "neq" and len(xs) == 1: return Val(f"(¬ Scalar.eqv {r.code} {self.scalar(self.expr(xs[0], env))})", "P")
            if name in PRIM1 or name in PRIM2 or name in PRIM3 or (name in self.prof and name != "kPI"):
                return self.prim(name, [r] + self.args(xs, env))
            if name in ("clamp_min", "clamp_max") and len(xs) == 1: return self.clamp_prim(name, [r] + self.args(xs, env))
            if ("T", name) in self.ctx.methods:                        # hue / angle helpers translated from their macro bodies
                return self.apply_fn(self.ctx.methods[("T", name)], [r] + self.args(xs, env), name)
            fail(f"scalar method .{name}() is outside the translated subset")
        if r.ty in ("B", "P"):
            if name == "select" and len(xs) == 2:
                a, b = self.args(xs, env)
                if a.ty != b.ty: fail("select: branch types differ")
                return Val(f"(if {self.as_cond(r)} then {a.code} else {b.code})", a.ty)
            if name == "lazy_select" and len(xs) == 2:
                a, b = self.args(xs, env)
                if a.ty[0] != "thunk" or b.ty[0] != "thunk" or a.ty[1] != b.ty[1]: fail("lazy_select: expects two `||` closures of one type")
                return Val(f"(if {self.as_cond(r)} then {a.code} else {b.code})", a.ty[1])
            fail(f"mask method .{name}()")
        if r.ty[0] == "V3":
            key = (self.ctx.resolve(r.ty[1]) if r.ty[1] else None, name)
            if key in self.ctx.methods:
                return self.apply_fn(self.ctx.methods[key], [r] + self.args(xs, env), f"{key[0]}::{name}")
            if name == "into" and not xs: return Val(r.code, ("V3", None))       # colour -> [T; 3] (impl_array_casts!)
            fail(f"method .{name}() of {r.ty[1]} is outside the translated subset")
        if r.ty[0] in ("S", "E"):
            key = (r.ty[1], name)
            if key in self.ctx.methods:
                return self.apply_fn(self.ctx.methods[key], [r] + self.args(xs, env), f"{key[0]}::{name}")
            fail(f"method .{name}() of {r.ty[1]}")
        if r.ty == "C":
            if ("C", name) in self.ctx.methods:
                return self.apply_fn(self.ctx.methods[("C", name)], [r] + self.args(xs, env), f"C::{name}")
            fail(f"method .{name}() of a generic colour")
        fail(f"method .{name}() on {r.ty!r}")

    # ---- enums
    def enum_pat(self, pat, en_name):
        """(rust variant, lean constructor, argument types, sub-patterns) of an enum pattern of the registered enum `en_name`"""
        if pat[0] != "penum": fail("match: wildcard / binding patterns are outside the translated subset (every variant must be named)")
        segs, subs = pat[1], pat[2]
        if len(segs) < 2 or segs[-2] != en_name: fail(f"match: pattern {'::'.join(segs)} is not a variant of {en_name}")
        vs = ENUMS[en_name]["variants"]
        if segs[-1] not in vs: fail(f"match: {en_name} has no registered variant {segs[-1]}")
        lean, argtys = vs[segs[-1]]
        subs = subs or []
        if len(subs) != len(argtys): fail(f"match: {en_name}::{segs[-1]} takes {len(argtys)} fields")
        return segs[-1], lean, argtys, subs

    def match_value(self, e, env):
        scrut = self.expr(e[1], env)
        if scrut.ty in ("T", "B", "P", "C") or scrut.ty[0] != "E": fail(f"match on {scrut.ty!r} (only registered enums)")
        en = scrut.ty[1]
        seen, arms = [], []
        for pats, body in e[2]:
            if len(pats) != 1: fail("match: `|` patterns are outside the translated subset")
            variant, lean, argtys, subs = self.enum_pat(pats[0], en)
            if variant in seen: fail(f"match: variant {variant} twice")
            seen.append(variant)
            env2, names = dict(env), []
            for sp, ty in zip(subs, argtys):
                if sp[0] == "pwild": names.append("_"); continue
                if sp[0] != "pid": fail("match: nested patterns")
                n = lname(sp[1]); names.append(n); env2[sp[1]] = Val(n, ty)
            arms.append((lean, names, self.wrap(self.expr(body, env2))))
        missing = [v for v in ENUMS[en]["variants"] if v not in seen]
        if missing: fail(f"match on {en}: variants {missing} not covered")
        tys = [v.ty for _, _, v in arms]
        if any(t == "P" for t in tys):          # a mask computed per variant: Bool (a `Prop`-valued match has no Decidable instance)
            arms = [(l, n, Val(self.as_bool(v), "B")) for l, n, v in arms]; tys = ["B"] * len(arms)
        for t in tys[1:]:
            if t != tys[0] and not (t not in ("T", "B", "P", "C") and tys[0] not in ("T", "B", "P", "C") and t[0] == "V3" and tys[0][0] == "V3"):
                fail(f"match: arm types differ ({tys[0]!r} / {t!r})")
        code = f"(match {scrut.code} with\n" + "\n".join(f"| .{l}" + "".join(" " + n for n in ns) + f" => {v.code}" for l, ns, v in arms) + ")"
        return Val(code, tys[0])

    def matches_value(self, e, env):
        scrut = self.expr(e[1], env)
        if scrut.ty in ("T", "B", "P", "C") or scrut.ty[0] != "E": fail(f"matches! on {scrut.ty!r}")
        en = scrut.ty[1]
        hit = []
        for p in e[2]:
            variant, lean, argtys, subs = self.enum_pat(p, en)
            if argtys: fail("matches!: variants with fields")
            hit.append(variant)
        code = f"(match {scrut.code} with\n" + "\n".join(f"| .{ENUMS[en]['variants'][v][0]} => {'true' if v in hit else 'false'}" for v in ENUMS[en]["variants"]) + ")"
        return Val(code, "B")

    # ---- control flow
    def static_cond(self, c, env):
        """value of a condition that the registration resolves statically (TypeId comparisons), else None"""
        v = self.expr(c, env)
        if v.ty != "T" and v.ty[0] == "static": return v.ty[1], v
        return None, v

    def if_value(self, e, env):
        st, cv = self.static_cond(e[1], env)
        if st is not None:
            br = e[2] if st else e[3]
            if br is None: fail("statically false `if` without else used as a value")
            return self.expr(br, env)
        if e[3] is None: fail("`if` without `else` used as a value")
        a = self.expr(e[2], env)
        b = self.expr(e[3], env)
        def intlit(x):       # `{ 0 }`: an integer literal block next to a `u8`-valued branch
            return x[0] == "block" and not x[1] and x[2] is not None and x[2][0] == "num" and re.fullmatch(r"\d+", x[2][1])
        if a.ty == "T" and b.ty == "N" and intlit(e[2]): a = Val(f"({e[2][2][1]} : Nat)", "N")
        if b.ty == "T" and a.ty == "N" and intlit(e[3]): b = Val(f"({e[3][2][1]} : Nat)", "N")
        if a.ty != b.ty and not (a.ty != "T" and b.ty != "T" and a.ty[0] == "V3" and b.ty[0] == "V3"):
            fail(f"if: branch types differ ({a.ty!r} / {b.ty!r})")
        return Val(f"(if {self.as_cond(cv)} then {a.code} else {b.code})", a.ty)

    @staticmethod
    def wrap(v):
        c = v.code
        if "\n" in c or c.startswith("let ") or c.startswith("if "): return Val("(" + c + ")", v.ty)
        return v

    def block(self, e, env):
        return self.wrap(self.stmts(e[1], 0, e[2], dict(env)))

    def bind(self, pat, v, env, lines):
        """bind pattern to value: appends `let` lines, updates env"""
        k = pat[0]
        if k == "pwild": return
        if k == "pid":
            n = "self_" if pat[1] == "self" else lname(pat[1])
            if v.ty != "T" and v.ty[0] in ("typeid", "static", "phantom"):
                env[pat[1]] = v; return
            if v.ty == "P" and self.mask != "prop": v = Val(self.as_bool(v), "B")
            if v.ty != "T" and v.ty[0] == "thunk": fail("binding a parameterless closure")
            lines.append(f"let {n} : {lean_ty(v.ty)} := {v.code};")
            env[pat[1]] = Val(n, v.ty)
            return
        # destructuring: bind the value once, then project
        if k in ("ptuple", "pstruct", "parray"):
            if re.fullmatch(r"[\w.']+", v.code): t = v.code
            else:
                t = self.tmp()
                lines.append(f"let {t} : {lean_ty(v.ty)} := {v.code};")
            if k == "ptuple":
                if v.ty == "T" or v.ty[0] != "tup" or len(v.ty[1]) != len(pat[1]): fail(f"tuple pattern against {v.ty!r}")
                for i, p in enumerate(pat[1]):
                    self.bind(p, Val(tup_proj(t, i, len(pat[1])), v.ty[1][i]), env, lines)
            elif k == "parray":
                if v.ty == "M3" and len(pat[1]) == 9:
                    for i, p in enumerate(pat[1]):
                        self.bind(p, Val(f"{t}.m{i}", "T"), env, lines)
                    return
                if v.ty == "T" or v.ty[0] != "V3" or len(pat[1]) != 3: fail(f"array pattern against {v.ty!r}")
                for i, p in enumerate(pat[1]):
                    self.bind(p, Val(f"{t}.c{i}", "T"), env, lines)
            elif v.ty not in ("T", "B", "P", "C") and v.ty[0] == "S":
                name = self.self_ty if pat[1] == "Self" else pat[1]
                name = STRUCT_RENAME.get(name, name)
                if name != v.ty[1]: fail(f"struct pattern {name} against a {v.ty[1]}")
                info = {rf: (fty, tmpl) for rf, fty, tmpl in struct_info(name)["fields"]}
                if not pat[3] and sorted(f for f, _ in pat[2]) != sorted(info): fail(f"struct pattern {name}: fields without `..`")
                for f, p in pat[2]:
                    if f not in info: fail(f"pattern field {f} of {name}")
                    self.bind(p, Val(info[f][1].replace("{}", t), info[f][0]), env, lines)
            else:
                name = self.self_ty if pat[1] == "Self" else pat[1]
                if v.ty == "T" or v.ty[0] != "V3" or (v.ty[1] is None and not STRUCT_RENAME): fail(f"struct pattern {name} against {v.ty!r}")
                if v.ty[1] is not None and self.ctx.resolve(name) != self.ctx.resolve(v.ty[1]): fail(f"struct pattern {name} against a {v.ty[1]}")
                fs = self.ctx.fields(name)
                for f, p in pat[2]:
                    if f not in fs: fail(f"pattern field {f} of {name}")
                    self.bind(p, Val(f"{t}.c{fs.index(f)}", "T"), env, lines)
            return
        fail(f"pattern {k}")

    @staticmethod
    def ends_in_return(b):
        """(stmts, returned expr) if the block's last action is `return e`"""
        if b[0] != "block": return None
        if b[2] is not None and b[2][0] == "return": return b[1], b[2][1]
        if b[2] is None and b[1] and b[1][-1][0] == "expr" and b[1][-1][1][0] == "return": return b[1][:-1], b[1][-1][1][1]
        return None

    @staticmethod
    def assigned(b, declared=None):
        """names assigned (not declared) in a block, in order of first assignment; nested blocks included"""
        out = []
        declared = set(declared or ())
        def walk_block(blk, decl):
            decl = set(decl)
            for s in blk[1]:
                if s[0] == "let":
                    def names(p):
                        if p[0] == "pid": decl.add(p[1])
                        elif p[0] in ("ptuple", "parray"): [names(q) for q in p[1]]
                        elif p[0] == "pstruct": [names(q) for _, q in p[2]]
                    names(s[1])
                elif s[0] == "assign":
                    if s[1][0] != "path" or len(s[1][1]) != 1: fail("assignment to something other than a local variable")
                    n = s[1][1][0]
                    if n not in decl and n not in out: out.append(n)
                elif s[0] == "expr" and s[1][0] == "if":
                    walk_if(s[1], decl)
                elif s[0] == "expr" and s[1][0] == "block":
                    walk_block(s[1], decl)
                elif s[0] == "expr" and s[1][0] == "for":
                    walk_block(s[1][3], decl)
        def walk_if(i, decl):
            walk_block(i[2], decl)
            if i[3] is not None:
                if i[3][0] == "if": walk_if(i[3], decl)
                else: walk_block(i[3], decl)
        walk_block(b, declared)
        return out

    def stmts(self, ss, i, tail, env):
        """lower statements ss[i:] followed by the tail expression, as one Lean term"""
        if i == len(ss):
            if tail is None: return Val("()", "unit")
            if tail[0] == "return":
                if tail[1] is None: fail("bare return")
                return self.expr(tail[1], env)
            if tail[0] == "if" and self.has_return(tail):
                return self.if_return_chain(tail, ss, i, None, env)
            return self.expr(tail, env)
        s = ss[i]
        if s[0] == "let":
            if s[3] is None: fail("`let` without initialiser")
            if s[3][0] == "call" and s[3][1][0] == "path" and s[3][1][1] == ["zip_input"] and s[1][0] == "pid":
                env[s[1][1]] = Val("_", ("iter", "zip_input", s[3][2]))      # consumed by the `for` over it (zip_loop)
                return self.stmts(ss, i + 1, tail, env)
            self.hint = s[2]
            v = self.expr(s[3], env)
            self.hint = None
            lines = []
            self.bind(s[1], v, env, lines)
            rest = self.stmts(ss, i + 1, tail, env)
            return Val("\n".join(lines + [rest.code]), rest.ty)
        if s[0] == "assign" and s[1][0] in ("field", "index", "unary"):
            lines = []
            self.assign_place(s[1], self.expr(s[2], env), env, lines)
            rest = self.stmts(ss, i + 1, tail, env)
            return Val("\n".join(lines + [rest.code]), rest.ty)
        if s[0] == "assign":
            if s[1][0] != "path" or len(s[1][1]) != 1: fail("assignment to something other than a local variable")
            n = s[1][1][0]
            if n not in env: fail(f"assignment to unbound {n}")
            v = self.expr(s[2], env)
            if v.ty != env[n].ty: fail(f"assignment changes the type of {n}")
            lines = []
            self.bind(("pid", n, True), v, env, lines)
            rest = self.stmts(ss, i + 1, tail, env)
            return Val("\n".join(lines + [rest.code]), rest.ty)
        if s[0] == "expr":
            e = s[1]
            if e[0] == "return":
                if e[1] is None: fail("bare return")
                return self.expr(e[1], env)
            if e[0] == "if":
                if self.has_return(e):
                    return self.if_return_chain(e, ss, i + 1, tail, env)
                return self.if_assign(e, ss, i, tail, env)
            if e[0] == "for":
                return self.for_loop(e, ss, i, tail, env)
            if e[0] == "block" and i == len(ss) - 1 and tail is None:
                return self.block(e, env)
            if e[0] == "mcall" and e[1][0] == "path" and len(e[1][1]) == 1 and e[1][1][0] in env:
                # `self.lighten_assign(x);` where the callee is a translated `&mut self` method: the receiver is rebound to its result
                rv = env[e[1][1][0]]
                key = (self.ctx.resolve(rv.ty[1]) if rv.ty not in ("T", "B", "P", "C", "N") and rv.ty[0] == "V3" and rv.ty[1] else None, e[2])
                d = self.ctx.methods.get(key)
                if d is not None and d.get("mutates"):
                    lines = []
                    self.assign_place(e[1], self.apply_fn(d, [rv] + self.args(e[3], env), f"{key[0]}::{key[1]}"), env, lines)
                    rest = self.stmts(ss, i + 1, tail, env)
                    return Val("\n".join(lines + [rest.code]), rest.ty)
            if e[0] == "call" and e[1][0] == "path" and e[1][1][-1] in CLAMP_ASSIGN_FNS and e[1][1][:-1] in CLAMP_PREFIXES:
                # `crate::clamp_assign(&mut place, lo, hi);` (lib.rs / num.rs `ClampAssign`: `*place = clamp(*place, lo, hi)`)
                name = CLAMP_ASSIGN_FNS[e[1][1][-1]]
                if len(e[2]) != CLAMP_FNS[name] or e[2][0][0] != "unary" or e[2][0][1] != "&": fail(f"{e[1][1][-1]}: `&mut place` and {CLAMP_FNS[name] - 1} bound(s) expected")
                place = e[2][0][2]
                lines = []
                self.assign_place(place, self.clamp_prim(name, [self.expr(place, env)] + self.args(e[2][1:], env)), env, lines)
                rest = self.stmts(ss, i + 1, tail, env)
                return Val("\n".join(lines + [rest.code]), rest.ty)
            fail(f"expression statement of kind {e[0]!r} has no effect the translation can express")
        fail(f"statement {s[0]!r}")

    def has_return(self, e):
        def blk(b):
            if b is None: return False
            if b[0] == "if": return self.has_return(b)
            return self.ends_in_return(b) is not None
        return blk(e[2]) or blk(e[3])

    def if_return_chain(self, e, ss, nxt, tail, env):
        """`if c { ..; return a; } [else if d { ..; return b; }]` followed by the rest of the block:
           `if c then a else if d then b else <rest>`; a branch that does not return falls through to the rest"""
        st, cv = self.static_cond(e[1], env)
        def branch(b):
            r = self.ends_in_return(b)
            if r is None:
                # falls through: its statements followed by the rest of the enclosing block
                if self.assigned(b) or b[2] is not None: fail("branch that neither returns nor is empty next to a returning branch")
                return self.stmts(ss, nxt, tail, dict(env))
            return self.stmts(r[0], 0, ("return", r[1]), dict(env))
        def rest():
            if e[3] is None: return self.stmts(ss, nxt, tail, dict(env))
            if e[3][0] == "if":
                if self.has_return(e[3]): return self.if_return_chain(e[3], ss, nxt, tail, env)
                fail("else-if without return next to a returning branch")
            return branch(e[3])
        if st is not None: return branch(e[2]) if st else rest()
        a = self.wrap(branch(e[2]))
        b = self.wrap(rest())
        if a.ty != b.ty and not (a.ty != "T" and b.ty != "T" and a.ty[0] == "V3" and b.ty[0] == "V3"):
            fail(f"early return of a {a.ty!r} from a block of type {b.ty!r}")
        return Val(f"if {self.as_cond(cv)} then\n{a.code}\nelse\n{b.code}", b.ty)

    def if_assign(self, e, ss, i, tail, env):
        """an `if` statement whose branches assign outer variables: rebind them from a (tuple-valued) `if`"""
        st, cv = self.static_cond(e[1], env)
        if st is not None:
            br = e[2] if st else e[3]
            if br is None: return self.stmts(ss, i + 1, tail, env)
            if br[0] == "if": return self.stmts([("expr", br)] + list(ss[i + 1:]), 0, tail, env)
            # splice the taken branch into the enclosing block (its `let`s stay visible only if it is the last statement, as in Rust
            # they would go out of scope; a spliced branch with a tail value must be the value of the enclosing block)
            if br[2] is not None:
                if i != len(ss) - 1 or tail is not None: fail("statically selected branch with a value in the middle of a block")
                return self.stmts(br[1], 0, br[2], env)
            names = self.assigned(br)
            return self.merge([(None, br)], names, ss, i, tail, env)
        branches, cur = [], e
        while True:
            branches.append((cur[1], cur[2]))
            if cur[3] is None: branches.append((None, None)); break
            if cur[3][0] == "if":
                cur = cur[3]; continue
            branches.append((None, cur[3])); break
        names = []
        for _, b in branches:
            if b is None: continue
            if b[2] is not None: fail("`if` statement whose branch has a value")
            for n in self.assigned(b):
                if n not in names: names.append(n)
        if not names: fail("`if` statement without effect")
        return self.merge(branches, names, ss, i, tail, env)

    def merge(self, branches, names, ss, i, tail, env):
        for n in names:
            if n not in env: fail(f"assignment to unbound {n}")
        tys = [env[n].ty for n in names]
        ty = tys[0] if len(names) == 1 else ("tup", tys)
        result = ("path", [names[0]], []) if len(names) == 1 else ("tuple", [("path", [n], []) for n in names])
        def val(b):
            if b is None: return self.expr(result, env)
            return self.wrap(self.stmts(b[1], 0, result, dict(env)))
        if len(branches) == 1 and branches[0][0] is None:
            code = val(branches[0][1]).code
        else:
            code = val(branches[-1][1]).code
            if branches[-1][0] is not None: fail("internal: last branch must be the else")
            for c, b in reversed(branches[:-1]):
                st, cv = self.static_cond(c, env)
                if st is not None: fail("static condition inside an else-if chain of assignments")
                code = f"(if {self.as_cond(cv)} then\n{val(b).code}\nelse\n{code})"
        lines = []
        if len(names) == 1:
            n = lname(names[0])
            lines.append(f"let {n} : {lean_ty(ty)} := {code};")
            env[names[0]] = Val(n, ty)
        else:
            t = self.tmp("m")
            lines.append(f"let {t} : {lean_ty(ty)} := {code};")
            for j, n in enumerate(names):
                lines.append(f"let {lname(n)} : {lean_ty(tys[j])} := {tup_proj(t, j, len(names))};")
                env[n] = Val(lname(n), tys[j])
        rest = self.stmts(ss, i + 1, tail, env)
        return Val("\n".join(lines + [rest.code]), rest.ty)

    def assign_place(self, place, v, env, lines):
        """`x = v` or `x.f = v` for a local (struct) variable `x`: rebinding; a field update rebuilds the struct with the other fields unchanged"""
        while place[0] == "unary" and place[1] in ("&", "*"): place = place[2]
        if place[0] == "path" and len(place[1]) == 1:
            n = place[1][0]
            if n not in env: fail(f"assignment to unbound {n}")
            if v.ty != env[n].ty: fail(f"assignment changes the type of {n}")
            self.bind(("pid", n, True), v, env, lines); return
        if place[0] == "field" and place[1][0] == "path" and len(place[1][1]) == 1:
            n, f = place[1][1][0], place[2]
            if n not in env: fail(f"assignment to a field of unbound {n}")
            sv = env[n]
            if sv.ty not in ("T", "B", "P", "C", "N") and sv.ty[0] == "V3" and sv.ty[1] is not None:      # `self.l = v` on a colour: the other components unchanged
                fs = self.ctx.fields(sv.ty[1])
                if f not in fs: fail(f"{sv.ty[1]} has no field {f}")
                if v.ty != "T": fail(f"assignment changes the type of {n}.{f}")
                comps = [v.code if g == f else f"{sv.code}.c{j}" for j, g in enumerate(fs)]
                self.bind(("pid", n, True), Val("(V3.mk " + " ".join(comps) + ")", sv.ty), env, lines); return
            if sv.ty in ("T", "B", "P", "C") or sv.ty[0] != "S": fail(f"field assignment on {sv.ty!r}")
            info = struct_info(sv.ty[1])
            args, hit = {}, False
            for rf, fty, tmpl in info["fields"]:
                if rf == f:
                    if v.ty != fty: fail(f"assignment changes the type of {n}.{f}")
                    args[rf] = v.code; hit = True
                else: args[rf] = tmpl.replace("{}", sv.code)
            if not hit: fail(f"{sv.ty[1]} has no field {f}")
            self.bind(("pid", n, True), Val(info["mk"].format(**args), sv.ty), env, lines); return
        if place[0] == "index" and place[2] == 0 and place[1][0] == "path" and len(place[1][1]) == 1:      # `self.0 = v` of a hue newtype
            n = place[1][1][0]
            if n not in env or env[n].ty != "T" or v.ty != "T": fail(f"assignment to {n}.0")
            self.bind(("pid", n, True), v, env, lines); return
        fail("assignment to something other than a local variable or a field of one")

    def zip_loop(self, e, ss, i, tail, env):
        """`for (src, dst) in zip_colors(X, &mut Y) { *dst = E; }`  ->  `Y := Prim.zipWith (fun src dst => E) X Y`   (blend.rs `zip_colors`: the
           components of X by value zipped with mutable references to those of Y);
           `for (s, sp, sa, d, dp, da) in <zip_input(S, D, &mut DP, DA)> { *dp = E; }`  ->  `DP := Prim.zip4With (fun s sp d dp => E) S.color S.color_pre D DP`
           with `sa = S.alpha`, `da = DA` (blend/blend.rs `zip_input`)"""
        pat, it, body = e[1], e[2], e[3]
        if it[0] == "path" and len(it[1]) == 1 and it[1][0] in env and env[it[1][0]].ty != "T" and env[it[1][0]].ty[0] == "iter":
            kind, args = env[it[1][0]].ty[1], env[it[1][0]].ty[2]
        elif it[0] == "call" and it[1][0] == "path" and it[1][1][-1] in ("zip_colors", "zip_input"):
            kind, args = it[1][1][-1], it[2]
        else: return None
        if body[2] is not None or len(body[1]) != 1 or body[1][0][0] != "assign": fail("for over a zip: the body must be the single statement `*dst = e;`")
        lhs, rhs = body[1][0][1], body[1][0][2]
        if pat[0] != "ptuple" or any(q[0] != "pid" for q in pat[1]): fail("for over a zip: tuple pattern of plain names expected")
        names = [q[1] for q in pat[1]]
        def place_of(a):
            if a[0] != "unary" or a[1] != "&": fail("for over a zip: the destination must be passed as `&mut place`")
            return a[2]
        lines = []
        env2 = dict(env)
        if kind == "zip_colors":
            if len(args) != 2 or len(names) != 2: fail("zip_colors: two arguments, pattern `(src, dst)`")
            place = place_of(args[1])
            lists = [self.expr(args[0], env), self.expr(place, env)]
            comp = names
        else:
            if len(args) != 4 or len(names) != 6: fail("zip_input: four arguments, pattern of six names")
            place = place_of(args[2])
            sv = self.expr(args[0], env)
            if sv.ty != ("S", "BlendInput"): fail("zip_input: first argument must be a BlendInput")
            fs = {rf: Val(tmpl.replace("{}", sv.code), fty) for rf, fty, tmpl in struct_info("BlendInput")["fields"]}
            lists = [fs["color"], fs["color_pre"], self.expr(args[1], env), self.expr(place, env)]
            comp = [names[0], names[1], names[3], names[4]]
            for nm, val in ((names[2], fs["alpha"]), (names[5], self.expr(args[3], env))):      # constant over the loop: bound outside the lambda
                t = self.tmp("z")
                lines.append(f"let {t} : α := {self.scalar(val)};")
                env2[nm] = Val(t, "T")
        if any(l.ty != "C" for l in lists): fail("for over a zip: generic colours (component lists) expected")
        if lhs != ("unary", "*", ("path", [comp[-1]], [])): fail(f"for over a zip: the body must assign `*{comp[-1]}`")
        for nm in comp: env2[nm] = Val(lname(nm), "T")
        ev = self.expr(rhs, env2)
        fn = "Prim.zipWith" if kind == "zip_colors" else "Prim.zip4With"
        new = Val(f"({fn} (fun " + " ".join(f"({lname(nm)} : α)" for nm in comp) + f" => {self.scalar(ev)}) " + " ".join(l.code for l in lists) + ")", "C")
        self.assign_place(place, new, env, lines)
        rest = self.stmts(ss, i + 1, tail, env)
        return Val("\n".join(lines + [rest.code]), rest.ty)

    def for_loop(self, e, ss, i, tail, env):
        z = self.zip_loop(e, ss, i, tail, env)
        if z is not None: return z
        pat, it, body = e[1], e[2], e[3]
        if pat[0] not in ("pwild", "pid") or (pat[0] == "pid" and not pat[1].startswith("_")): fail("for: the loop variable must be unused (`_`)")
        if it[0] != "range" or it[1] != ("num", "0") or it[2] is None: fail("for: only `0..N` ranges")
        hi = it[2]
        if hi[0] == "num": n = hi[1]
        elif hi[0] == "path" and len(hi[1]) == 1 and hi[1][0] in self.consts: n = self.consts[hi[1][0]]
        else: fail("for: the bound must be a literal or a module constant")
        if not re.fullmatch(r"\d+", n): fail(f"for: bound {n!r}")
        names = self.assigned(body)
        if len(names) != 1 or body[2] is not None: fail("for: the body must update exactly one outer variable")
        v = names[0]
        if v not in env: fail(f"for: {v} unbound")
        ty = env[v].ty
        env2 = dict(env)
        p = lname(v)
        env2[v] = Val(p, ty)
        b = self.wrap(self.stmts(body[1], 0, ("path", [v], []), env2))
        line = f"let {p} : {lean_ty(ty)} := Prim.iterate {n} (fun ({p} : {lean_ty(ty)}) =>\n{b.code}) {env[v].code};"
        env[v] = Val(p, ty)
        rest = self.stmts(ss, i + 1, tail, env)
        return Val(line + "\n" + rest.code, rest.ty)

def rust_expr_to_lean(src, env=None, ctx=None, **opts):
    """the reusable entry point: one Rust expression (source text) -> (Lean term text, coarse type).
    `env` maps the free Rust variables to `Val(lean name, type)` (default: none), `opts` are those of `Lower`
    (`kmode`, `consts`, `typeid`, `wp`, `subst`, `self_ty`); `ctx` supplies struct layouts and registered callees."""
    lo = Lower(ctx or Ctx(lambda rel: fail(f"no source reader for {rel}")), **opts)
    v = lo.expr(parse_expr(src), dict(env or {}))
    return v.code, v.ty

def indent(code, n):
    pad = " " * n
    return "\n".join(pad + l if l else l for l in code.split("\n"))

def reflow(code):
    """indent a lowered term by parenthesis depth (purely cosmetic)"""
    out, depth = [], 0
    for line in code.split("\n"):
        s = line.strip()
        lead = 0
        for ch in s:
            if ch in ")": lead += 1
            else: break
        out.append("  " * max(0, depth - lead + 1) + s)
        for ch in s:
            if ch == "(": depth += 1
            elif ch == ")": depth -= 1
    return "\n".join(out)

# ------------------------------------------------------------------------------------------------ registration of the bodies
COLOR_FILES = {   # colour struct -> files searched for its definition / inherent methods (first = definition)
    "Xyz": ["xyz.rs"], "Yxy": ["yxy.rs"], "Lab": ["lab.rs"], "Lch": ["lch.rs"], "Luv": ["luv.rs"], "Lchuv": ["lchuv.rs"],
    "Hsluv": ["hsluv.rs"], "Rgb": ["rgb/rgb.rs"], "Hsv": ["hsv.rs"], "Hsl": ["hsl.rs"], "Hwb": ["hwb.rs"],
    "Oklab": ["oklab.rs", "oklab/properties.rs"], "Oklch": ["oklch.rs"], "Okhsv": ["okhsv.rs"], "Okhsl": ["okhsl.rs"], "Okhwb": ["okhwb.rs"],
}

def conv(src_ty, dst_ty):
    """regex of the header `impl<..> FromColorUnclamped<SRC> for DST`"""
    def pat(t): return r"\s*".join(re.escape(x) for x in re.findall(r"\w+|[^\w\s]", t))
    return (r"impl\s*<[^{]*?>\s*FromColorUnclamped\s*<\s*" + pat(src_ty) + r"\s*>\s*for\s+" + pat(dst_ty) + r"(?![\w<])",
            f"impl FromColorUnclamped<{src_ty}> for {dst_ty}")

def B(name, file, where, fn, model=None, **kw):
    label = None
    if isinstance(where, tuple): where, label = where
    d = dict(name=name, file=file, where=where, fn=fn, model=model, label=label)
    d.update(kw)
    return d

def tf(trait, ty, gen="T"):
    def pat(t): return r"\s*".join(re.escape(x) for x in re.findall(r"\w+|[^\w\s]", t))
    return (r"impl\s*<\s*" + pat(gen) + r"\s*>\s*" + trait + r"\s*<\s*T\s*,\s*T\s*>\s*for\s+" + pat(ty) + r"(?![\w<])",
            f"impl {trait}<T, T> for {ty}")

# associated constant of the type parameter `N` of `GammaFn<N>`, fixed at `F2p2`: (file, regex whose group 1 is the literal)
F2P2 = {"N::VALUE": ("encoding/gamma.rs", r"impl\s+Number\s+for\s+F2p2\s*\{\s*const\s+VALUE\s*:\s*f64\s*=\s*([0-9][0-9_.]*)\s*;")}

SCALAR_MASK = {"T::Mask == bool": True}
SIMD_MASK = {"T::Mask == bool": False}
HUES = (r"macro_rules!\s+make_hues\b", "macro_rules! make_hues")

# Order = emission order (callees first).  Keys:
#   model    the hand-written model function `tie_<name>` proves it equal to (None: helper, unfolded in its callers' ties)
#   self_ty  what `Self` denotes; wp: the body reads `Wp::get_xyz()` (first Lean parameter `wp`); k: 'sci' | 'const'
#   typeid   resolution of the `TypeId::of` comparisons of the body; subst: associated constants fixed by the instantiation
#   as_fn / as_method   Rust spellings under which later bodies call this one
BODIES = [
    # ---- hues.rs (`make_hues!`), angle.rs (`impl_angle_float!`): the macro bodies, `self.0` = the stored degrees
    B("angleNormalizeUnsigned", "angle.rs", (r"macro_rules!\s+impl_angle_float\b", "macro_rules! impl_angle_float"), "normalize_unsigned_angle", "RgbFam.normalizeUnsigned",
      self_ty="T", as_method=[("T", "normalize_unsigned_angle")]),
    B("hueFromRadians", "hues.rs", HUES, "from_radians", None, self_ty="Hue", as_fn=["Hue::from_radians"]),
    B("hueIntoRawRadians", "hues.rs", HUES, "into_raw_radians", None, self_ty="Hue", as_method=[("T", "into_raw_radians")]),
    B("hueIntoPositiveDegrees", "hues.rs", HUES, "into_positive_degrees", "RgbFam.normalizeUnsigned", self_ty="Hue",
      as_method=[("T", "into_positive_degrees")]),
    B("hueFromCartesian", "hues.rs", HUES, "from_cartesian", "Cie.hueFromCartesian", self_ty="Hue", as_fn=["from_cartesian"]),
    B("hueIntoCartesian", "hues.rs", HUES, "into_cartesian", "Ok.hueIntoCartesian", self_ty="Hue", as_method=[("T", "into_cartesian")]),
    B("labGetHue", "lab.rs", (r"impl\s*<[^{]*?>\s*GetHue\s+for\s+Lab\b", "impl GetHue for Lab"), "get_hue", None, self_ty="Lab", as_method=[("Lab", "get_hue")]),
    B("luvGetHue", "luv.rs", (r"impl\s*<[^{]*?>\s*GetHue\s+for\s+Luv\b", "impl GetHue for Luv"), "get_hue", None, self_ty="Luv", as_method=[("Luv", "get_hue")]),
    # ---- CIE family
    B("xyzToYxy", "yxy.rs", conv("Xyz<Wp, T>", "Yxy<Wp, T>"), "from_color_unclamped", "Cie.xyzToYxy"),
    B("yxyToXyz", "xyz.rs", conv("Yxy<Wp, T>", "Xyz<Wp, T>"), "from_color_unclamped", "Cie.yxyToXyz"),
    B("xyzToLab", "lab.rs", conv("Xyz<Wp, T>", "Lab<Wp, T>"), "from_color_unclamped", "Cie.xyzToLab", wp=True),
    B("labToXyz", "xyz.rs", conv("Lab<Wp, T>", "Xyz<Wp, T>"), "from_color_unclamped", "Cie.labToXyz", wp=True),
    B("labToLch", "lch.rs", conv("Lab<Wp, T>", "Lch<Wp, T>"), "from_color_unclamped", "Cie.labToLch"),
    B("lchToLab", "lab.rs", conv("Lch<Wp, T>", "Lab<Wp, T>"), "from_color_unclamped", "Cie.lchToLab"),
    B("luvToLchuv", "lchuv.rs", conv("Luv<Wp, T>", "Lchuv<Wp, T>"), "from_color_unclamped", "Cie.luvToLchuv"),
    B("lchuvToLuv", "luv.rs", conv("Lchuv<Wp, T>", "Luv<Wp, T>"), "from_color_unclamped", "Cie.lchuvToLuv"),
    B("xyzToLuv", "luv.rs", conv("Xyz<Wp, T>", "Luv<Wp, T>"), "from_color_unclamped", "Cie.xyzToLuv", wp=True),
    B("luvToXyz", "xyz.rs", conv("Luv<Wp, T>", "Xyz<Wp, T>"), "from_color_unclamped", "Cie.luvToXyz", wp=True),
    # ---- RGB family (the `TypeId::of::<T::Mask>() == TypeId::of::<bool>()` branch and the mask-generic branch are two bodies)
    B("rgbToHsv", "hsv.rs", conv("Rgb<S, T>", "Hsv<S, T>"), "from_color_unclamped", "RgbFam.rgbToHsv", typeid=SCALAR_MASK),
    B("rgbToHsvMask", "hsv.rs", conv("Rgb<S, T>", "Hsv<S, T>"), "from_color_unclamped", "RgbFam.rgbToHsvMask", typeid=SIMD_MASK),
    B("rgbToHsl", "hsl.rs", conv("Rgb<S, T>", "Hsl<S, T>"), "from_color_unclamped", "RgbFam.rgbToHsl", typeid=SCALAR_MASK),
    B("rgbToHslMask", "hsl.rs", conv("Rgb<S, T>", "Hsl<S, T>"), "from_color_unclamped", "RgbFam.rgbToHslMask", typeid=SIMD_MASK),
    B("hsvToRgb", "rgb/rgb.rs", conv("Hsv<S, T>", "Rgb<S, T>"), "from_color_unclamped", "RgbFam.hsvToRgb"),
    B("hslToRgb", "rgb/rgb.rs", conv("Hsl<S, T>", "Rgb<S, T>"), "from_color_unclamped", "RgbFam.hslToRgb"),
    B("hslToHsv", "hsv.rs", conv("Hsl<S, T>", "Hsv<S, T>"), "from_color_unclamped", "RgbFam.hslToHsv"),
    B("hsvToHsl", "hsl.rs", conv("Hsv<S, T>", "Hsl<S, T>"), "from_color_unclamped", "RgbFam.hsvToHsl"),
    B("hsvToHwb", "hwb.rs", conv("Hsv<S, T>", "Hwb<S, T>"), "from_color_unclamped", "RgbFam.hsvToHwb"),
    B("hwbToHsv", "hsv.rs", conv("Hwb<S, T>", "Hsv<S, T>"), "from_color_unclamped", "RgbFam.hwbToHsv"),
    # ---- transfer functions (encoding/*.rs): the generic-float `IntoLinear<T, T>` / `FromLinear<T, T>` impls
    B("srgbIntoLinear", "encoding/srgb.rs", tf("IntoLinear", "Srgb"), "into_linear", "Transfer.srgbIntoLinear"),
    B("srgbFromLinear", "encoding/srgb.rs", tf("FromLinear", "Srgb"), "from_linear", "Transfer.srgbFromLinear"),
    B("recIntoLinear", "encoding/rec_standards.rs", tf("IntoLinear", "RecOetf"), "into_linear", "Transfer.recIntoLinear"),
    B("recFromLinear", "encoding/rec_standards.rs", tf("FromLinear", "RecOetf"), "from_linear", "Transfer.recFromLinear"),
    B("adobeIntoLinear", "encoding/adobe.rs", tf("IntoLinear", "AdobeRgb"), "into_linear", "Transfer.adobeIntoLinear"),
    B("adobeFromLinear", "encoding/adobe.rs", tf("FromLinear", "AdobeRgb"), "from_linear", "Transfer.adobeFromLinear"),
    B("p3IntoLinear", "encoding/p3.rs", tf("IntoLinear", "P3Gamma"), "into_linear", "Transfer.p3IntoLinear"),
    B("p3FromLinear", "encoding/p3.rs", tf("FromLinear", "P3Gamma"), "from_linear", "Transfer.p3FromLinear"),
    B("prophotoIntoLinear", "encoding/prophoto.rs", tf("IntoLinear", "ProPhotoRgb"), "into_linear", "Transfer.prophotoIntoLinear"),
    B("prophotoFromLinear", "encoding/prophoto.rs", tf("FromLinear", "ProPhotoRgb"), "from_linear", "Transfer.prophotoFromLinear"),
    # `GammaFn<N>` at `N = F2p2` (the only `Number` in the crate): `N::VALUE` is re-read from `impl Number for F2p2`
    B("gammaIntoLinear", "encoding/gamma.rs", tf("IntoLinear", "GammaFn<N>", "T, N"), "into_linear", "Transfer.gammaIntoLinear", subst=F2P2),
    B("gammaFromLinear", "encoding/gamma.rs", tf("FromLinear", "GammaFn<N>", "T, N"), "from_linear", "Transfer.gammaFromLinear", subst=F2P2),
    # ---- HSLuv edges (the chroma bound itself, luv_bounds.rs, is an intrinsic: `Cie.maxChroma`)
    B("lchuvToHsluv", "hsluv.rs", conv("Lchuv<Wp, T>", "Hsluv<Wp, T>"), "from_color_unclamped", "Cie.lchuvToHsluv"),
    B("hsluvToLchuv", "lchuv.rs", conv("Hsluv<Wp, T>", "Lchuv<Wp, T>"), "from_color_unclamped", "Cie.hsluvToLchuv"),
    # ---- matrix.rs, Oklab matrices
    B("matMulVec", "matrix.rs", None, "multiply_3x3_and_vec3", "M3.mulVec", as_fn=["multiply_3x3_and_vec3"]),
    B("oklabM1", "oklab.rs", None, "m1", "Ok.m1", k="const", as_fn=["m1"]),
    B("oklabM1Inv", "oklab.rs", None, "m1_inv", "Ok.m1Inv", k="const", as_fn=["m1_inv"]),
    B("oklabM2", "oklab.rs", None, "m2", "Ok.m2", k="const", as_fn=["m2"]),
    B("oklabM2Inv", "oklab.rs", None, "m2_inv", "Ok.m2Inv", k="const", as_fn=["m2_inv"]),
    # ---- Ok family (every `T::from_f64` is `Scalar.const`, as in Ok.lean)
    B("xyzToOklab", "oklab.rs", conv("Xyz<D65, T>", "Oklab<T>"), "from_color_unclamped", "Ok.xyzToOklab", k="const"),
    B("oklabToXyz", "xyz.rs", conv("Oklab<T>", "Xyz<D65, T>"), "from_color_unclamped", "Ok.oklabToXyz", k="const"),
    B("linSrgbToOklab", "oklab.rs", None, "linear_srgb_to_oklab", "Ok.linSrgbToOklab", k="const", as_fn=["linear_srgb_to_oklab"]),
    # `Oklab -> LinSrgb` through `IntoColorUnclamped` is `oklab_to_linear_srgb` (rgb/rgb.rs: `Space == Srgb` branch, then the identity
    # `Rgb<Linear<Srgb>> -> Rgb<Linear<Srgb>>`): trait dispatch, resolved here by the annotated target type
    B("oklabToLinSrgb", "oklab.rs", None, "oklab_to_linear_srgb", "Ok.oklabToLinSrgb", k="const", as_fn=["oklab_to_linear_srgb"],
      as_method=[("Oklab", "into_color_unclamped")], hint=r"^LinSrgb\b"),
    B("oklabGetHue", "oklab/properties.rs", (r"impl\s*<[^{]*?>\s*GetHue\s+for\s+Oklab\b", "impl GetHue for Oklab"), "get_hue", None, self_ty="Oklab", as_method=[("Oklab", "get_hue")]),
    B("oklabGetChroma", "oklab.rs", None, "get_chroma", "Ok.chromaOf", self_ty="Oklab", as_method=[("Oklab", "get_chroma")]),
    B("oklabToOklch", "oklch.rs", conv("Oklab<T>", "Oklch<T>"), "from_color_unclamped", "Ok.oklabToOklch", k="const"),
    B("oklchToOklab", "oklab.rs", conv("Oklch<T>", "Oklab<T>"), "from_color_unclamped", "Ok.oklchToOklab", k="const"),
    B("toe", "ok_utils.rs", None, "toe", "Ok.toe", k="const", as_fn=["toe"]),
    B("toeInv", "ok_utils.rs", None, "toe_inv", "Ok.toeInv", k="const", as_fn=["toe_inv"]),
    B("stOfLC", "ok_utils.rs", (r"impl\s*<T>\s*From\s*<\s*LC\s*<T>\s*>\s*for\s+ST\s*<T>", "impl From<LC<T>> for ST<T>"), "from", "Ok.stOfLC", k="const", self_ty="ST",
      as_fn=["ST::from"], as_method=[("LC", "into")]),
    B("stMid", "ok_utils.rs", (r"impl\s*<T>\s*ST\s*<T>", "impl ST<T>"), "mid", "Ok.stMid", k="const", self_ty="ST", as_fn=["ST::mid"]),
    B("maxSaturation", "ok_utils.rs", (r"impl\s*<T>\s*LC\s*<T>", "impl LC<T>"), "max_saturation", "Ok.maxSaturation", k="const", self_ty="LC",
      as_fn=["LC::max_saturation"]),
    B("findCusp", "ok_utils.rs", (r"impl\s*<T>\s*LC\s*<T>", "impl LC<T>"), "find_cusp", "Ok.findCusp", k="const", self_ty="LC", as_fn=["LC::find_cusp"]),
    B("findGamutIntersection", "ok_utils.rs", None, "find_gamut_intersection", "Ok.findGamutIntersection", k="const",
      as_fn=["find_gamut_intersection"]),
    B("fromNormalized", "ok_utils.rs", (r"impl\s*<T>\s*ChromaValues\s*<T>", "impl ChromaValues<T>"), "from_normalized", "Ok.fromNormalized", k="const",
      self_ty="ChromaValues", as_fn=["ChromaValues::from_normalized"]),
    B("okhslToOklab", "oklab.rs", conv("Okhsl<T>", "Oklab<T>"), "from_color_unclamped", "Ok.okhslToOklab", k="const"),
    B("oklabToOkhsl", "okhsl.rs", conv("Oklab<T>", "Okhsl<T>"), "from_color_unclamped", "Ok.oklabToOkhsl", k="const"),
    B("okhsvToOklab", "oklab.rs", conv("Okhsv<T>", "Oklab<T>"), "from_color_unclamped", "Ok.okhsvToOklab", k="const"),
    B("oklabToOkhsv", "okhsv.rs", conv("Oklab<T>", "Okhsv<T>"), "from_color_unclamped", "Ok.oklabToOkhsv", k="const"),
    B("okhsvToOkhwb", "okhwb.rs", conv("Okhsv<T>", "Okhwb<T>"), "from_color_unclamped", "Ok.okhsvToOkhwb", k="const"),
    B("okhwbToOkhsv", "okhsv.rs", conv("Okhwb<T>", "Okhsv<T>"), "from_color_unclamped", "Ok.okhwbToOkhsv", k="const"),
]

# callees that are NOT translated: given a Lean reading by naming the hand-written model function (listed in the generated header)
INTRINSICS = {
    # luv_bounds.rs runs in f64 for every `T` (`Into<f64>`, `T::from_f64`), with `for` loops over arrays and `Option`s
    "LuvBounds::from_lightness().max_chroma_at_hue": dict(lean="Cie.maxChroma", params=["T", "T"], ret="T", angle=True, viaf64=True),
}

# printed in the header of Gen/Bodies.lean (and summarised in the level_note of C01/C02)
UNTRANSLATED = [
    "Rgb<S> <-> Xyz (xyz.rs `impl FromColorUnclamped<Rgb<S, T>> for Xyz`, rgb/rgb.rs `.. <Xyz<..>> for Rgb<S, T>`): `matrix_from_rgb/_xyz`,",
    "  `convert_once`, `into_linear`/`from_linear` are dispatched over the `RgbStandard` traits (model: RgbFam.rgbToXyz/xyzToRgb, Ok.*Hard);",
    "  their parts are tied: the matrices are extracted data (Gen.Mat), `multiply_3x3_and_vec3` and every transfer curve are translated",
    "Rgb<S1> <- Rgb<S2>, Hsv/Hsl/Hwb<S1> <-> <S2>, Rgb <- Luma, Rgb <-> Oklab: `TypeId` dispatch over standards around trait-dispatched",
    "  `into_linear` / `into_color_unclamped` (model: RgbFam.rgbToRgb, hsvToHsv, hslToHsl, hwbToHwb, lumaToRgb, Ok.rgbToOklab, Ok.oklabToRgb)",
    "Luma edges (luma/luma.rs, xyz.rs, yxy.rs: `..Default::default()`, trait-dispatched transfer function) and Lms edges (lms/lms.rs, xyz.rs:",
    "  `matrix_from_lms().convert_once`, trait-dispatched; the cone matrices are extracted data)",
    "luv_bounds.rs (`LuvBounds::from_lightness`, `max_chroma_at_hue`): runs in f64 for every T, loops over arrays, `Option`; its constants are",
    "  extracted (Gen.Mat.hsluvM/Kappa/Epsilon); the translated HSLuv edges call it as the model function `Cie.maxChroma`",
    "the per-component-type primitives of num.rs / angle.rs (`max min sqrt cbrt powf powi recip abs floor sin cos atan2 hypot mul_add mul_sub",
    "  is_valid_divisor`, comparisons, `select`): fields of `class Scalar` / `class Angle` and PaletteModel/BodyPrim.lean",
    "`impl_color_add!/_sub!/_mul!/_div!` (macros/arithmetics.rs), read as `Prim.v3*`; `LinearFn` (identity); the SIMD mask types of `wide`",
    "cam16/*.rs, color_difference.rs, blend/*.rs: translated as the families `cam16`, `diff`, `blend` (Gen/BodiesCam16.lean, Gen/BodiesDiff.lean,",
    "  Gen/BodiesBlend.lean; ties in PaletteProofs/Tie_Cam16.lean, Tie_Diff.lean, Tie_Blend.lean)",
]

SCALAR_TYPES = {"T", "T::Scalar", "Self::Scalar", "C::Scalar"}    # extended per body by `scalars=[..]` (type parameters standing for the float)
STRUCT_RENAME = {}                                                 # Rust struct name -> registered struct, per body (`structs={..}`)
GENERIC_COLOURS = set()                                            # type parameters standing for a colour (`C`), set per body by `colours=[..]`

# ------------------------------------------------------------------------------------------------ families: CAM16, colour difference, blending
ATTRS = r"(?:\s*#\[[^\]]*\])*\s*"
def impl_of(head, label=None):
    """regex of an `impl<..> <head>` header, `head` given with single spaces"""
    def pat(t): return r"\s*".join(re.escape(x) for x in re.findall(r"\w+|[^\w\s]", t))
    return (r"impl\s*(?:<[^{]*?>)?\s*" + pat(head) + r"(?![\w<])", label or ("impl " + head))

CAM16_HUES = (r"macro_rules!\s+make_hues\b", "macro_rules! make_hues")
C16 = dict(k="const", prims="cam16", mask="prop")
BODIES_CAM16 = [
    # ---- angle.rs / hues.rs macro bodies in the reading of Color/Cam16.lean (`to_degrees`/`to_radians` of std as `Cam16.toDegrees/toRadians`)
    B("cam16NormalizeSigned", "angle.rs", (r"macro_rules!\s+impl_angle_float\b", "macro_rules! impl_angle_float"), "normalize_signed_angle", "Cam16.normalizeSigned",
      self_ty="T", as_method=[("T", "normalize_signed_angle")]),
    B("cam16HueFromRadians", "hues.rs", CAM16_HUES, "from_radians", "Cam16.hueFromRadians", self_ty="Hue", as_fn=["from_radians"], **C16),
    B("cam16HueIntoRadians", "hues.rs", CAM16_HUES, "into_radians", "Cam16.hueIntoRadians", self_ty="Hue", as_method=[("T", "into_radians")], **C16),
    B("cam16HueIntoRawRadians", "hues.rs", CAM16_HUES, "into_raw_radians", "Cam16.hueIntoRawRadians", self_ty="Hue", as_method=[("T", "into_raw_radians")], **C16),
    B("cam16HueFromCartesian", "hues.rs", CAM16_HUES, "from_cartesian", None, self_ty="Hue", as_fn=["from_cartesian"], **C16),
    B("cam16HueIntoCartesian", "hues.rs", CAM16_HUES, "into_cartesian", None, self_ty="Hue", as_method=[("T", "into_cartesian")], **C16),
    # ---- cam16/math.rs
    B("cam16Map3", "cam16/math.rs", None, "map3", "Cam16.map3", scalars=["U"], as_fn=["map3"], **C16),
    B("cam16Mul3", "cam16/math.rs", None, "mul3", "Cam16.mul3", as_fn=["mul3"], **C16),
    B("cam16Lerp", "cam16/math.rs", None, "lerp", "Cam16.lerp", as_fn=["lerp"], **C16),
    B("cam16M16", "cam16/math.rs", None, "m16", "Cam16.m16", as_fn=["m16"], **C16),
    B("cam16M16Inv", "cam16/math.rs", None, "m16_inv", "Cam16.m16Inv", as_fn=["m16_inv"], **C16),
    B("adaptRun", "cam16/math.rs", impl_of("Adapt<T>"), "run", "Cam16.adaptRun", self_ty="Adapt", scalars=["V"], as_method=[("Adapt", "run")], **C16),
    B("unadaptRun", "cam16/math.rs", impl_of("Unadapt<T>"), "run", "Cam16.unadaptRun", self_ty="Unadapt", scalars=["V"], as_method=[("Unadapt", "run")], **C16),
    B("surroundIntoPercent", "cam16/parameters.rs", impl_of("Surround<T>"), "into_percent", "Cam16.Surround.intoPercent", self_ty="Surround",
      as_method=[("Surround", "into_percent")], **C16),
    B("calculateLightness", "cam16/math.rs", None, "calculate_lightness", "Cam16.calculateLightness", as_fn=["calculate_lightness"], **C16),
    B("calculateBrightness", "cam16/math.rs", None, "calculate_brightness", "Cam16.calculateBrightness", as_fn=["calculate_brightness"], **C16),
    B("calculateChroma", "cam16/math.rs", None, "calculate_chroma", "Cam16.calculateChroma", as_fn=["calculate_chroma"], **C16),
    B("calculateColorfulness", "cam16/math.rs", None, "calculate_colorfulness", "Cam16.calculateColorfulness", as_fn=["calculate_colorfulness"], **C16),
    B("calculateSaturation", "cam16/math.rs", None, "calculate_saturation", "Cam16.calculateSaturation", as_fn=["calculate_saturation"], **C16),
    B("lightnessToJRoot", "cam16/math.rs", None, "lightness_to_j_root", "Cam16.lightnessToJRoot", as_fn=["lightness_to_j_root"], **C16),
    B("brightnessToJRoot", "cam16/math.rs", None, "brightness_to_j_root", "Cam16.brightnessToJRoot", as_fn=["brightness_to_j_root"], **C16),
    B("saturationToAlpha", "cam16/math.rs", None, "saturation_to_alpha", "Cam16.saturationToAlpha", as_fn=["saturation_to_alpha"], **C16),
    B("lightnessToBrightness", "cam16/math.rs", None, "lightness_to_brightness", "Cam16.lightnessToBrightness", as_fn=["lightness_to_brightness"], **C16),
    B("brightnessToLightness", "cam16/math.rs", None, "brightness_to_lightness", "Cam16.brightnessToLightness", as_fn=["brightness_to_lightness"], **C16),
    B("chromaToColorfulness", "cam16/math.rs", None, "chroma_to_colorfulness", "Cam16.chromaToColorfulness", as_fn=["chroma_to_colorfulness"], **C16),
    B("chromaToSaturation", "cam16/math.rs", None, "chroma_to_saturation", "Cam16.chromaToSaturation", as_fn=["chroma_to_saturation"], **C16),
    B("colorfulnessToChroma", "cam16/math.rs", None, "colorfulness_to_chroma", "Cam16.colorfulnessToChroma", as_fn=["colorfulness_to_chroma"], **C16),
    B("saturationToChroma", "cam16/math.rs", None, "saturation_to_chroma", "Cam16.saturationToChroma", as_fn=["saturation_to_chroma"], **C16),
    B("prepareParameters", "cam16/math.rs", None, "prepare_parameters", "Cam16.prepareParameters", **C16),
    B("xyzToCam16", "cam16/math.rs", None, "xyz_to_cam16", "Cam16.xyzToCam16", **C16),
    B("nonBlackCam16ToXyz", "cam16/math.rs", None, "non_black_cam16_to_xyz", "Cam16.nonBlackCam16ToXyz", as_fn=["non_black_cam16_to_xyz"], **C16),
    B("cam16ToXyz", "cam16/math.rs", None, "cam16_to_xyz", "Cam16.cam16ToXyz", **C16),
    # ---- cam16/math/luminance.rs, chromaticity.rs
    B("lumIntoCam16", "cam16/math/luminance.rs", impl_of("LuminanceType<T>"), "into_cam16", "Cam16.Lum.intoCam16", self_ty="LuminanceType", **C16),
    B("chrIntoCam16", "cam16/math/chromaticity.rs", impl_of("ChromaticityType<T>"), "into_cam16", "Cam16.Chr.intoCam16", self_ty="ChromaticityType", **C16),
    # ---- CAM16-UCS (ucs_jmh.rs, ucs_jab.rs, partial.rs)
    B("jmhToUcs", "cam16/ucs_jmh.rs", conv("Cam16Jmh<T>", "Cam16UcsJmh<T>"), "from_color_unclamped", "Cam16.jmhToUcs", **C16),
    B("ucsToJmh", "cam16/partial.rs", conv("Cam16UcsJmh<T>", "Cam16Jmh<T>"), "from_color_unclamped", "Cam16.ucsToJmh", **C16),
    B("ucsJmhToJab", "cam16/ucs_jab.rs", conv("Cam16UcsJmh<T>", "Cam16UcsJab<T>"), "from_color_unclamped", "Cam16.ucsJmhToJab", **C16),
    B("ucsJabToJmh", "cam16/ucs_jmh.rs", conv("Cam16UcsJab<T>", "Cam16UcsJmh<T>"), "from_color_unclamped", "Cam16.ucsJabToJmh", **C16),
]

UNTRANSLATED_CAM16 = [
    "cam16/partial.rs `make_partial_cam16!` (`from_full`, `into_dynamic`, `from_xyz`, `into_xyz`, `into_full`) and cam16/full.rs (`Cam16::from_xyz/into_xyz`):",
    "  field selection through macro metavariables (`full.$luminance`, `LuminanceType::$luminance_ty(..)`) and trait-dispatched wrappers",
    "  (`IntoCam16Unclamped`, `Cam16FromUnclamped`, `BakedParameters: Convert`) around the translated `xyz_to_cam16` / `cam16_to_xyz` /",
    "  `into_cam16` (model: Cam16.PKind.*, compared by the correspondence run; C16_Cam16 proves the law-free statements about them)",
    "cam16/parameters.rs `Parameters::bake`, `into_any_white_point`, `WhitePointParameter` (static vs dynamic white point: trait dispatch; the",
    "  driver passes the resolved white point), `BakedParameters` (a wrapper whose `inner` is the translated `DependentParameters`)",
    "std's `f32/f64::signum`, `to_degrees`, `to_radians`, `clamp` and `Hypot::hypot`: per-type primitives, read as `Cam16.signum`,",
    "  `Cam16.toDegrees`, `Cam16.toRadians`, `Scalar.clamp`, `Cam16.hypot` (transcribed by hand, compared on every run)",
    "NOTE: the model takes every `T::from_f64` constant of these functions from Gen/Cam16.lean (re-extracted on every run), so a changed",
    "  *coefficient* moves model and translation together (it breaks the C16 spec theorems, e.g. `xyzToCam16_eq_published`, not the tie);",
    "  the ties below pin the *structure*: operands, operators, association, comparisons, branch order, which parameter is used where",
]

# ---- colour difference (C09): readings of Diff.lean (`prims="diff"`: degree/radian factors as `Scalar.const Diff.R2D/D2R`, `Diff.hypot`)
DF = dict(prims="diff", mask="prop")
DIFF_HUES = (r"macro_rules!\s+make_hues\b", "macro_rules! make_hues")
EUCLID = (r"macro_rules!\s+impl_euclidean_distance\b", "macro_rules! impl_euclidean_distance")
HYAB = (r"macro_rules!\s+impl_hyab\b", "macro_rules! impl_hyab")
WCAG = (r"\btrait\s+Wcag21RelativeContrast\b", "trait Wcag21RelativeContrast")
EUCLID_TRAIT = (r"\btrait\s+EuclideanDistance\b", "trait EuclideanDistance")
LUMAS = {"self.relative_luminance().luma": "l1", "other.relative_luminance().luma": "l2"}
CONTRAST = {"self.relative_contrast(other)": "contrast"}
def wcag_pred(name, fn, model):
    return B(name, "color_difference.rs", WCAG, fn, model, holes=CONTRAST, skip_params=["self", "other"], **DF)

BODIES_DIFF = [
    # ---- hue helpers and the polar -> rectangular conversions the difference impls go through (lab.rs, cam16/ucs_jab.rs)
    B("diffHueIntoRawRadians", "hues.rs", DIFF_HUES, "into_raw_radians", None, self_ty="Hue", as_method=[("T", "into_raw_radians")], **DF),
    B("diffHueIntoCartesian", "hues.rs", DIFF_HUES, "into_cartesian", "Diff.hueCos", self_ty="Hue", as_method=[("T", "into_cartesian")], **DF),
    # trait dispatch resolved by the impls' where-clauses (`Lab<Wp, T>: FromColorUnclamped<Self>`, `Lch<Wp, T>: IntoColorUnclamped<Lab<Wp, T>>`)
    B("diffLchToLab", "lab.rs", conv("Lch<Wp, T>", "Lab<Wp, T>"), "from_color_unclamped", "Diff.polarToRect",
      as_fn=["Lab::from_color_unclamped"], as_method=[("Lch", "into_color_unclamped")], **DF),
    B("diffJmhToJab", "cam16/ucs_jab.rs", conv("Cam16UcsJmh<T>", "Cam16UcsJab<T>"), "from_color_unclamped", "Diff.polarToRect",
      as_fn=["Cam16UcsJab::from_color_unclamped"], as_method=[("Cam16UcsJmh", "into_color_unclamped")], **DF),
    # ---- CIEDE2000 (color_difference.rs, lab.rs, lch.rs)
    B("labColorDiffFromLab", "color_difference.rs", impl_of("From<Lab<Wp, T>> for LabColorDiff<T>"), "from", "Diff.fromLab", self_ty="LabColorDiff",
      as_method=[("Lab", "into")], **DF),
    B("labColorDiffFromLch", "color_difference.rs", impl_of("From<Lch<Wp, T>> for LabColorDiff<T>"), "from", "Diff.fromLch", self_ty="LabColorDiff",
      as_method=[("Lch", "into")], **DF),
    B("getCiede2000Difference", "color_difference.rs", None, "get_ciede2000_difference", "Diff.ciede2000", as_fn=["get_ciede2000_difference"], **DF),
    B("labCiede2000", "lab.rs", impl_of("Ciede2000 for Lab<Wp, T>"), "difference", "Diff.ciede2000", self_ty="Lab", **DF),
    B("lchCiede2000", "lch.rs", impl_of("Ciede2000 for Lch<Wp, T>"), "difference", "Diff.ciede2000", self_ty="Lch", **DF),
    B("improvedCiede2000", "color_difference.rs", impl_of("ImprovedCiede2000 for C"), "improved_difference", "Diff.improvedOfCiede",
      holes={"self.difference(other)": "difference"}, skip_params=["self", "other"], **DF),
    # ---- Euclidean distance, Delta E, improved Delta E, HyAB (macros/color_difference.rs instantiated at an actual invocation)
    B("labDistanceSquared", "macros/color_difference.rs", EUCLID, "distance_squared", "Diff.distSq3", self_ty="Lab",
      macro_args={"ty": "Lab", "ty_param": ["Wp"], "component": ["l", "a", "b"]}, invocation=("lab.rs", "impl_euclidean_distance", "Lab<Wp> {l, a, b}"),
      as_method=[("Lab", "distance_squared")], **DF),
    B("jabDistanceSquared", "macros/color_difference.rs", EUCLID, "distance_squared", "Diff.distSq3", self_ty="Cam16UcsJab",
      macro_args={"ty": "Cam16UcsJab", "ty_param": [], "component": ["lightness", "a", "b"]},
      invocation=("cam16/ucs_jab.rs", "impl_euclidean_distance", "Cam16UcsJab { lightness, a, b }"), as_method=[("Cam16UcsJab", "distance_squared")], **DF),
    B("labDistance", "color_difference.rs", EUCLID_TRAIT, "distance", "Diff.dist3", self_ty="Lab", as_method=[("Lab", "distance")], **DF),
    B("jabDistance", "color_difference.rs", EUCLID_TRAIT, "distance", "Diff.dist3", self_ty="Cam16UcsJab", as_method=[("Cam16UcsJab", "distance")], **DF),
    B("labDeltaE", "lab.rs", impl_of("DeltaE for Lab<Wp, T>"), "delta_e", "Diff.dist3", self_ty="Lab", as_method=[("Lab", "delta_e")], **DF),
    B("labImprovedDeltaE", "lab.rs", impl_of("ImprovedDeltaE for Lab<Wp, T>"), "improved_delta_e", "Diff.improvedDeltaELab", self_ty="Lab",
      as_method=[("Lab", "improved_delta_e")], **DF),
    B("jabDeltaE", "cam16/ucs_jab.rs", impl_of("DeltaE for Cam16UcsJab<T>"), "delta_e", "Diff.dist3", self_ty="Cam16UcsJab",
      as_method=[("Cam16UcsJab", "delta_e")], **DF),
    B("jabImprovedDeltaE", "cam16/ucs_jab.rs", impl_of("ImprovedDeltaE for Cam16UcsJab<T>"), "improved_delta_e", "Diff.improvedDeltaEJab", self_ty="Cam16UcsJab",
      as_method=[("Cam16UcsJab", "improved_delta_e")], **DF),
    B("lchDeltaE", "lch.rs", impl_of("DeltaE for Lch<Wp, T>"), "delta_e", "Diff.deltaEPolarWith", self_ty="Lch", **DF),
    B("lchImprovedDeltaE", "lch.rs", impl_of("ImprovedDeltaE for Lch<Wp, T>"), "improved_delta_e", "Diff.improvedDeltaELchWith", self_ty="Lch", **DF),
    B("jmhDeltaE", "cam16/ucs_jmh.rs", impl_of("DeltaE for Cam16UcsJmh<T>"), "delta_e", "Diff.deltaEPolarWith", self_ty="Cam16UcsJmh", **DF),
    B("jmhImprovedDeltaE", "cam16/ucs_jmh.rs", impl_of("ImprovedDeltaE for Cam16UcsJmh<T>"), "improved_delta_e", "Diff.improvedDeltaEJmhWith", self_ty="Cam16UcsJmh", **DF),
    B("labHyab", "macros/color_difference.rs", HYAB, "hybrid_distance", "Diff.hyab", self_ty="Lab",
      macro_args={"ty": "Lab", "ty_param": ["Wp"], "lightness": "l", "chroma1": "a", "chroma2": "b"},
      invocation=("lab.rs", "impl_hyab", "Lab<Wp> {lightness: l, chroma1: a, chroma2: b}"), **DF),
    # ---- WCAG 2.1 relative contrast: default methods of the trait; the trait-dispatched `relative_luminance` / `relative_contrast` are holes
    B("relativeContrast", "color_difference.rs", WCAG, "relative_contrast", "Diff.relativeContrast", holes=LUMAS, skip_params=["self", "other"], **DF),
    wcag_pred("hasMinContrastText", "has_min_contrast_text", "Diff.hasMinContrastText"),
    wcag_pred("hasMinContrastLargeText", "has_min_contrast_large_text", "Diff.hasMinContrastLargeText"),
    wcag_pred("hasEnhancedContrastText", "has_enhanced_contrast_text", "Diff.hasEnhancedContrastText"),
    wcag_pred("hasEnhancedContrastLargeText", "has_enhanced_contrast_large_text", "Diff.hasEnhancedContrastLargeText"),
    wcag_pred("hasMinContrastGraphics", "has_min_contrast_graphics", "Diff.hasMinContrastGraphics"),
]

UNTRANSLATED_DIFF = [
    "the other invocations of `impl_euclidean_distance!` / `impl_hyab!` (Luv, Oklab, Xyz, Yxy, Lms, Rgb, Luma; Luv, Oklab, Cam16UcsJab): the same",
    "  macro bodies, translated here at `Lab<Wp> {l, a, b}` and `Cam16UcsJab { lightness, a, b }`; the invocation tables (which components, in",
    "  which order) are extracted data pinned by the kernel-decided theorems of C09_Diff (Gen/Diff.lean); `Luma` (one component) is not a `V3`",
    "`Wcag21RelativeContrast::relative_luminance` for Rgb / Luma (`self.into_color()`: trait-dispatched conversion to `LinLuma<D65>`, C01/C03);",
    "  `relative_contrast` and the five predicates are translated with the luminances / the ratio as parameters",
    "the deprecated `ColorDifference::get_color_difference` (same expression as `Ciede2000::difference`) and `relative_contrast.rs` (deprecated)",
    "`Hypot::hypot`, `f32/f64::to_degrees/to_radians`, `MinMax::min_max`, `Powi::powi(7)`: per-type primitives, read as `Diff.hypot`, `· * const Diff.R2D`,",
    "  `· * const Diff.D2R`, `Diff.minMax`, `Prim.powi7` (= `Diff.powi7`)",
]

# ---- blending and compositing (C08): a generic colour `C` is the list of its components, `PreAlpha<C>` / `Alpha<C, T>` are `Blend.WithAlpha`
BL = dict(mask="prop", colours=["C"])
PA = ("S", "PreAlpha")
MODES = [("multiply", "multiply"), ("screen", "screen"), ("overlay", "overlay"), ("darken", "darken"), ("lighten", "lighten"), ("dodge", "dodge"),
         ("burn", "burn"), ("hard_light", "hardLight"), ("soft_light", "softLight"), ("difference", "difference"), ("exclusion", "exclusion")]
OPS = ["over", "inside", "outside", "atop", "xor", "plus"]
def cap(x): return x[0].upper() + x[1:]
PREMUL = (r"macro_rules!\s+impl_premultiply\b", "macro_rules! impl_premultiply")

BODIES_BLEND = [
    B("blendAlpha", "blend.rs", None, "blend_alpha", "Blend.blendAlpha", as_fn=["blend_alpha"], **BL),
    # ---- the eleven separable blend functions (blend/blend.rs); `overlay_blend` calls `hard_light_blend`
    B("multiplyBlend", "blend/blend.rs", None, "multiply_blend", "Blend.multiplyBlend", as_fn=["multiply_blend"], **BL),
    B("screenBlend", "blend/blend.rs", None, "screen_blend", "Blend.screenBlend", as_fn=["screen_blend"], **BL),
    B("hardLightBlend", "blend/blend.rs", None, "hard_light_blend", "Blend.hardLightBlend", as_fn=["hard_light_blend"], **BL),
    B("overlayBlend", "blend/blend.rs", None, "overlay_blend", "Blend.overlayBlend", as_fn=["overlay_blend"], **BL),
    B("darkenBlend", "blend/blend.rs", None, "darken_blend", "Blend.darkenBlend", as_fn=["darken_blend"], **BL),
    B("lightenBlend", "blend/blend.rs", None, "lighten_blend", "Blend.lightenBlend", as_fn=["lighten_blend"], **BL),
    B("dodgeBlend", "blend/blend.rs", None, "dodge_blend", "Blend.dodgeBlend", as_fn=["dodge_blend"], **BL),
    B("burnBlend", "blend/blend.rs", None, "burn_blend", "Blend.burnBlend", as_fn=["burn_blend"], **BL),
    B("softLightBlend", "blend/blend.rs", None, "soft_light_blend", "Blend.softLightBlend", as_fn=["soft_light_blend"], **BL),
    B("differenceBlend", "blend/blend.rs", None, "difference_blend", "Blend.differenceBlend", as_fn=["difference_blend"], **BL),
    B("exclusionBlend", "blend/blend.rs", None, "exclusion_blend", "Blend.exclusionBlend", as_fn=["exclusion_blend"], **BL),
    # ---- `impl_premultiply!` (macros/blend.rs) instantiated at two actual invocations (three-component colours)
    B("labPremultiply", "macros/blend.rs", PREMUL, "premultiply", "Blend.premultiply", self_ty="Lab", structs={"PreAlpha": "PreAlpha3"},
      macro_args={"ty": "Lab", "ty_param": ["Wp"], "component": ["l", "a", "b"], "phantom": "white_point"},
      invocation=("lab.rs", "impl_premultiply", "Lab<Wp> {l, a, b} phantom: white_point"), mask="prop"),
    B("labUnpremultiply", "macros/blend.rs", PREMUL, "unpremultiply", "Blend.unpremultiply", self_ty="Lab", structs={"PreAlpha": "PreAlpha3"},
      macro_args={"ty": "Lab", "ty_param": ["Wp"], "component": ["l", "a", "b"], "phantom": "white_point"},
      invocation=("lab.rs", "impl_premultiply", "Lab<Wp> {l, a, b} phantom: white_point"), mask="bool"),
    B("rgbPremultiply", "macros/blend.rs", PREMUL, "premultiply", "Blend.premultiply", self_ty="Rgb", structs={"PreAlpha": "PreAlpha3"},
      macro_args={"ty": "Rgb", "ty_param": ["S"], "component": ["red", "green", "blue"], "phantom": "standard"},
      invocation=("rgb/rgb.rs", "impl_premultiply", "Rgb<S> {red, green, blue} phantom: standard"), mask="prop"),
    B("rgbUnpremultiply", "macros/blend.rs", PREMUL, "unpremultiply", "Blend.unpremultiply", self_ty="Rgb", structs={"PreAlpha": "PreAlpha3"},
      macro_args={"ty": "Rgb", "ty_param": ["S"], "component": ["red", "green", "blue"], "phantom": "standard"},
      invocation=("rgb/rgb.rs", "impl_premultiply", "Rgb<S> {red, green, blue} phantom: standard"), mask="bool"),
    # ---- PreAlpha / Alpha helpers (blend/pre_alpha.rs, alpha/alpha.rs); `C::premultiply` / `C::unpremultiply` are the model functions (intrinsics)
    B("preAlphaNew", "blend/pre_alpha.rs", impl_of("PreAlpha<C>"), "new", "Blend.premultiply", self_ty="PreAlpha", as_fn=["PreAlpha::new"], **BL),
    B("preAlphaNewOpaque", "blend/pre_alpha.rs", impl_of("PreAlpha<C>"), "new_opaque", "Blend.newOpaque", self_ty="PreAlpha", as_fn=["PreAlpha::new_opaque"], **BL),
    B("preAlphaUnpremultiply", "blend/pre_alpha.rs", impl_of("PreAlpha<C>"), "unpremultiply", "Blend.unpremultiply", self_ty="PreAlpha", as_method=[("PreAlpha", "unpremultiply")], **BL),
    B("alphaPremultiply", "alpha/alpha.rs", impl_of("Alpha<C, C::Scalar>"), "premultiply", "Blend.premultiply", self_ty="Alpha", as_method=[("Alpha", "premultiply")], **BL),
    # ---- BlendInput and blend_separable (blend/blend.rs)
    B("blendInputNewOpaque", "blend/blend.rs", impl_of("BlendInput<C>"), "new_opaque", "Blend.BlendInput.newOpaque", self_ty="BlendInput", as_fn=["BlendInput::new_opaque"], **BL),
    B("blendInputFromAlpha", "blend/blend.rs", impl_of("From<Alpha<C, C::Scalar>> for BlendInput<C>"), "from", "Blend.BlendInput.ofAlpha", self_ty="BlendInput",
      as_method=[("Alpha", "into")], **BL),
    B("blendInputFromPre", "blend/blend.rs", impl_of("From<PreAlpha<C>> for BlendInput<C>"), "from", "Blend.BlendInput.ofPre", self_ty="BlendInput",
      as_method=[("PreAlpha", "into")], **BL),
    B("blendSeparable", "blend/blend.rs", None, "blend_separable", "Blend.blendSeparable", ptypes={"blend": ("fn", ["T", "T"], "T")},
      as_fn=["blend_separable"], **BL),
] + [
    # ---- `impl Blend for PreAlpha<C>` / `for C` / `for Alpha<C, T>`: which blend function each method hands to `blend_separable`
    B(f"blend{kind}{cap(lean)}", "blend/blend.rs", impl_of(f"Blend for {ty}"), rust, f"Blend.blend{kind}", **BL)
    for kind, ty in (("Pre", "PreAlpha<C>"), ("Opaque", "C"), ("Straight", "Alpha<C, T>")) for rust, lean in MODES
] + [
    # ---- Porter-Duff operators (blend/compose.rs) on premultiplied colours, then the `Alpha` and opaque wrappers
    B(f"composePre{cap(op)}", "blend/compose.rs", impl_of("Compose for PreAlpha<C>"), op, "Blend.composePre", as_method=[("PreAlpha", op)], **BL) for op in OPS
] + [
    B(f"composeStraight{cap(op)}", "blend/compose.rs", impl_of("Compose for Alpha<C, C::Scalar>"), op, "Blend.composeStraight", **BL) for op in OPS
] + [
    B(f"composeOpaque{cap(op)}", "blend/compose.rs", impl_of("Compose for C"), op, "Blend.composeOpaque", **BL) for op in OPS
] + [
    # ---- blend_with (blend/blend_with.rs): the blend function is a parameter (`F: BlendFunction<C>`, closures: `self(source, destination)`)
    B("blendWithPre", "blend/blend_with.rs", impl_of("BlendWith for PreAlpha<C>"), "blend_with", None, ptypes={"blend_function": ("fn", [PA, PA], PA)},
      as_method=[("PreAlpha", "blend_with")], **BL),
    B("blendWithStraight", "blend/blend_with.rs", impl_of("BlendWith for Alpha<C, C::Scalar>"), "blend_with", "Blend.viaStraight",
      ptypes={"blend_function": ("fn", [PA, PA], PA)}, **BL),
    B("blendWithOpaque", "blend/blend_with.rs", impl_of("BlendWith for C"), "blend_with", "Blend.viaOpaque", ptypes={"blend_function": ("fn", [PA, PA], PA)}, **BL),
    # ---- Equations (blend/equations.rs)
    B("paramOutMulConstant", "blend/equations.rs", impl_of("ParamOut<C>"), "mul_constant", "Blend.ParamOut.mulConstant", self_ty="ParamOut",
      as_method=[("ParamOut", "mul_constant")], **BL),
    B("paramOutMulColor", "blend/equations.rs", impl_of("ParamOut<C>"), "mul_color", "Blend.ParamOut.mulColor", self_ty="ParamOut",
      as_method=[("ParamOut", "mul_color")], **BL),
    B("equationsApplyTo", "blend/equations.rs", impl_of("BlendFunction<C> for Equations"), "apply_to", "Blend.Equations.applyTo", self_ty="Equations", **BL),
]

UNTRANSLATED_BLEND = [
    "blend/equations.rs `Parameter::apply_to`: the `OneMinus…Color` arms go through `<[T; N]>::from(source).map(..).into()` (array cast of the whole",
    "  `PreAlpha`, alpha included, a qualified-path call); it occurs in the translated `Equations::apply_to` as the model function",
    "  `Blend.Parameter.applyTo` on both sides.  `Equations::from_equations/from_parameters` (struct literals of enum constants)",
    "the iterator plumbing `zip_colors` (blend.rs) and `zip_input` (blend/blend.rs): `IntoIterator`/`zip`/`map` over `cast::into_array(..)`; read as",
    "  `Prim.zipWith` / `Prim.zip4With` over the component lists (PaletteModel/BodyPrimExt.lean); the loop *bodies* and everything around them are translated;",
    "  the text of the two functions is pinned by digest (`pins` of the family): a change stops extract.py until the reading is re-confirmed",
    "`impl_premultiply!` at the other colour types (Xyz, Yxy, Luv, Oklab, Lms, Luma, Cam16UcsJab): the same macro body, translated at `Lab` and `Rgb`;",
    "  `From<PreAlpha<Self>> for $ty` (`Self::unpremultiply(p).0`); `blend/pre_alpha.rs` arithmetic operator impls (not part of C08)",
    "the blanket `impl<C, F: FnOnce(PreAlpha<C>, PreAlpha<C>) -> PreAlpha<C>> BlendFunction<C> for F` (`self(source, destination)`): read as application",
    "`IsValidDivisor::is_valid_divisor`, `clamp`, `MinMax::{min,max}`, `Abs::abs`, `Sqrt::sqrt`: per-type primitives (`class Scalar`)",
]


# ------------------------------------------------------------------------------------------------ families: clamp / bounds (C03), operators (C10), hues (C11)
# The operator code is macro-generated: every body below is read from the *expansion of an actual invocation* (tools/rust_macros.py matches the
# invocation against the arms of the `macro_rules!` as written now and transcribes the selected arm), so the per-type bound expressions, the
# `increase` / `other` component lists, the optional upper bounds etc. flow from the invocation into the translated term.
MACRO_FILES = ["macros/clamp.rs", "macros/mix.rs", "macros/lighten_saturate.rs", "macros/hue.rs", "macros/arithmetics.rs", "macros/color_theory.rs",
               "stimulus.rs", "angle.rs"]

# three-component colour types: (definition file = where the struct and its `min_*`/`max_*` accessors live, file of the operator macro invocations)
TYPES3 = {
    "Lab": ("lab.rs", "lab.rs"), "Lch": ("lch.rs", "lch.rs"), "Luv": ("luv.rs", "luv.rs"), "Lchuv": ("lchuv.rs", "lchuv.rs"), "Hsluv": ("hsluv.rs", "hsluv.rs"),
    "Hsv": ("hsv.rs", "hsv.rs"), "Hsl": ("hsl.rs", "hsl.rs"), "Hwb": ("hwb.rs", "hwb.rs"), "Rgb": ("rgb/rgb.rs", "rgb/rgb.rs"), "Xyz": ("xyz.rs", "xyz.rs"),
    "Yxy": ("yxy.rs", "yxy.rs"), "Lms": ("lms/lms.rs", "lms/lms.rs"),
    "Oklab": ("oklab.rs", "oklab/properties.rs"), "Oklch": ("oklch.rs", "oklch/properties.rs"), "Okhsl": ("okhsl.rs", "okhsl/properties.rs"),
    "Okhsv": ("okhsv.rs", "okhsv/properties.rs"), "Okhwb": ("okhwb.rs", "okhwb/properties.rs"),
    "Cam16UcsJab": ("cam16/ucs_jab.rs", "cam16/ucs_jab.rs"), "Cam16UcsJmh": ("cam16/ucs_jmh.rs", "cam16/ucs_jmh.rs"),
}
TYPES3_FILES = {t: [d] for t, (d, _) in TYPES3.items()}

def camel(s): return "".join(w[:1].upper() + w[1:] for w in s.split("_"))

def has_invocation(read_src, file, macro, ty):
    return re.search(r"(?<![\w$])" + macro + r"\s*!\s*[({]\s*" + ty + r"\b", read_src(file)) is not None

def accessor_bodies(read_src, prefix, types, uses):
    """the `pub fn min_*/max_*() -> T` accessors of `types`, as helper bodies `<prefix><Ty><Fn>` (callable as `<Ty>::<fn>`); `uses(ty, fn)`: is it needed"""
    out = []
    for ty in types:
        src = read_src(TYPES3[ty][0])
        for m in re.finditer(r"\bpub\s+fn\s+((?:min|max)_\w+)\s*\(\s*\)\s*->\s*T\b", src):
            fn = m.group(1)
            if not uses(ty, fn): continue
            _, _, body = find_fn(src, None, fn)
            out.append(B(f"{prefix}{ty}{camel(fn)}", TYPES3[ty][0], None, fn, None, self_ty=ty, as_fn=[f"{ty}::{fn}"], wp="Wp::get_xyz" in body,
                         consts_from=["ok_utils.rs"] if "ok_utils::" in body else None))
    return out

def uses_wp(read_src, ty, text):
    """does `text` (an expansion) call an accessor of `ty` that reads the white point"""
    src = read_src(TYPES3[ty][0])
    for fn in set(re.findall(r"Self\s*::\s*((?:min|max)_\w+)", text)):
        try:
            if "Wp::get_xyz" in find_fn(src, None, fn)[2]: return True
        except Untranslatable:
            pass
    return False

def impl_in(trait, ty):
    """regex of `impl<..> <trait> for <ty>` in an expansion (tokens separated by single spaces)"""
    return (r"impl\s*<[^{]*?>\s*" + r"\s*::\s*".join(trait.split("::")) + r"(?:\s*<[^{]*?>)?\s+for\s+" + ty + r"\b", f"impl {trait} for {ty}")

def bodies_clamp(read_src):
    eng = rust_macros.Engine(read_src, tokenize, MACRO_FILES)
    plain = [t for t in TYPES3 if has_invocation(read_src, TYPES3[t][1], "impl_clamp", t)]
    hwb = [t for t in TYPES3 if has_invocation(read_src, TYPES3[t][1], "impl_clamp_hwb", t)]
    texts = {}
    for t in plain: texts[t] = eng.expand_invocation(TYPES3[t][1], "impl_clamp", t)[0] + eng.expand_invocation(TYPES3[t][1], "impl_is_within_bounds", t)[0]
    for t in hwb: texts[t] = eng.expand_invocation(TYPES3[t][1], "impl_clamp_hwb", t)[0] + eng.expand_invocation(TYPES3[t][1], "impl_is_within_bounds_hwb", t)[0]
    out = accessor_bodies(read_src, "bound", plain + hwb, lambda ty, fn: re.search(r"Self\s*::\s*" + fn + r"\b", texts[ty]) is not None)
    for t in plain:
        inv, wp = TYPES3[t][1], uses_wp(read_src, t, texts[t])
        cf = ["ok_utils.rs"] if "ok_utils" in texts[t] else None
        out.append(B(f"clamp{t}", inv, impl_in("crate::Clamp", t), "clamp", "Clamp.clampAll", self_ty=t, expand=(inv, "impl_clamp", t), wp=wp, consts_from=cf))
        out.append(B(f"clampAssign{t}", inv, impl_in("crate::ClampAssign", t), "clamp_assign", "Clamp.clampAll", self_ty=t, expand=(inv, "impl_clamp", t),
                     inout="self", wp=wp, consts_from=cf))
        out.append(B(f"within{t}", inv, impl_in("crate::IsWithinBounds", t), "is_within_bounds", "Clamp.withinAll", self_ty=t,
                     expand=(inv, "impl_is_within_bounds", t), wp=wp, consts_from=cf))
    for t in hwb:
        inv = TYPES3[t][1]
        out.append(B(f"clamp{t}", inv, impl_in("crate::Clamp", t), "clamp", "Clamp.hwbClamp", self_ty=t, expand=(inv, "impl_clamp_hwb", t)))
        out.append(B(f"clampAssign{t}", inv, impl_in("crate::ClampAssign", t), "clamp_assign", "Clamp.hwbClamp", self_ty=t, expand=(inv, "impl_clamp_hwb", t), inout="self"))
        out.append(B(f"within{t}", inv, impl_in("crate::IsWithinBounds", t), "is_within_bounds", "Clamp.hwbWithin", self_ty=t, expand=(inv, "impl_is_within_bounds_hwb", t)))
    for b in out: b.setdefault("prims", "clamp")
    return out

PROFILES["clamp"] = {"clamp": "(Clamp.clampV {0} {1} {2})", "clamp_min": "(Clamp.clampMinV {0} {1})", "clamp_max": "(Clamp.clampMaxV {0} {1})"}

# lib.rs wrappers read as the `num::Clamp` / `num::ClampAssign` methods they forward to (text pinned: a change stops the run until the reading is re-confirmed)
CLAMP_PINS = [("lib.rs", "clamp", "`value.clamp(min, max)` (num::Clamp)", "c71da6ceae62a98c"), ("lib.rs", "clamp_min", "`value.clamp_min(min)`", "1c6097fd60755292"),
              ("lib.rs", "clamp_assign", "`value.clamp_assign(min, max)` (num::ClampAssign: `*value = clamp(*value, min, max)`)", "81bc1cb33b9d96a1"),
              ("lib.rs", "clamp_min_assign", "`value.clamp_min_assign(min)`", "fe7a9ecd60fb3a2b")]

UNTRANSLATED_CLAMP = [
    "`impl_clamp!` / `impl_is_within_bounds!` at `Luma` (one component) and `Cam16` (six): the same macro bodies, translated here at every three-component invocation",
    "  (the lowering represents a colour struct as `V3 α`); their bound tables are extracted data (Gen/Bounds.lean, C03_Clamp).  The six partial CAM16 types (`$name` inside",
    "  `make_partial_cam16!`) are translated by tools/rust2lean_more.py (Gen/BodiesClampX.lean, Tie_ClampX.lean)",
    "`Alpha<C, T>` (`alpha/alpha.rs`), `[T]` slices (`lib.rs`), `FromColor` / `TryFromColor` (`convert/*.rs`): trait-generic glue, translated by tools/rust2lean_glue.py with",
    "  every trait-dispatched callee as a parameter (Gen/BodiesAlpha.lean, Gen/BodiesConvert.lean; Tie_Alpha.lean, Tie_Convert.lean)",
    "`num::Clamp` / `num::ClampAssign` for f32/f64/integers (`f32::clamp`, `f32::max`, `f32::min`, `Ord::..`) and the lib.rs wrappers `clamp`, `clamp_min`,",
    "  `clamp_assign`, `clamp_min_assign` (pinned by digest): per-type primitives, read as `Clamp.clampV`, `Clamp.clampMinV`, `Clamp.clampMaxV` (order-only model)",
    "`BoolMask::from_bool`, `Select::select` for `bool`: the identity / `if`",
]

FAMILIES = {
    "blend": dict(file="BodiesBlend.lean", tie="Tie_Blend.lean", imports=["PaletteModel.Blend"], bodies=BODIES_BLEND,
                  what="blending and compositing (C08): blend.rs, blend/blend.rs, blend/compose.rs, blend/blend_with.rs, blend/equations.rs, blend/pre_alpha.rs, alpha/alpha.rs, macros/blend.rs",
                  untranslated=UNTRANSLATED_BLEND,
                  intrinsics={("C", "premultiply"): dict(lean="Blend.premultiply", params=["C", "T"], ret=PA, extra=[]),
                              "C::unpremultiply": dict(lean="Blend.unpremultiply", params=[PA], ret=("tup", ["C", "T"]), extra=[]),
                              ("Parameter", "apply_to"): dict(lean="Blend.Parameter.applyTo", params=[("E", "Parameter"), PA, PA], ret=("E", "ParamOut"), extra=[])},
                  pins=[("blend.rs", "zip_colors", "`Prim.zipWith` (components of `src` by value zipped with `&mut` components of `dst`)", "cfddf925e1aad9b1"),
                        ("blend/blend.rs", "zip_input", "`Prim.zip4With` over (src.color, src.color_pre, dst, &mut dst_pre) with src.alpha, dst_alpha constant", "b08e87b087b62457")],
                  structs=["BlendInput", "PreAlpha", "Alpha", "Equations", "EqParameters"],
                  enums=["Equation", "Parameter", "ParamOut"]),
    "diff": dict(file="BodiesDiff.lean", tie="Tie_Diff.lean", imports=["PaletteModel.Diff"], bodies=BODIES_DIFF,
                 what="colour difference (C09): color_difference.rs, macros/color_difference.rs, the difference impls of lab.rs, lch.rs, cam16/ucs_jab.rs, cam16/ucs_jmh.rs",
                 untranslated=UNTRANSLATED_DIFF,
                 colour_files={"Cam16UcsJmh": ["cam16/ucs_jmh.rs"], "Cam16UcsJab": ["cam16/ucs_jab.rs"]},
                 structs=["LabColorDiff"], enums=[]),
    "cam16": dict(file="BodiesCam16.lean", tie="Tie_Cam16.lean", imports=["PaletteModel.Color.Cam16"], bodies=BODIES_CAM16,
                  what="CAM16 (C16): cam16/math.rs, math/luminance.rs, math/chromaticity.rs, parameters.rs (`into_percent`), ucs_jmh.rs, ucs_jab.rs, partial.rs (UCS edge)",
                  untranslated=UNTRANSLATED_CAM16,
                  colour_files={"Cam16UcsJmh": ["cam16/ucs_jmh.rs"], "Cam16UcsJab": ["cam16/ucs_jab.rs"]},
                  macro_structs={"Cam16Jmh": ("cam16/partial.rs",
                                              r"make_partial_cam16!\s*\{" + ATTRS + r"cam16_jmh\s*::\s*Cam16Jmh\s*\{" + ATTRS + r"(\w+)\s*:\s*\w+\s*," + ATTRS + r"(\w+)\s*:\s*\w+\s*\}",
                                              [1, 2, "hue"],
                                              r"pub\s+struct\s+\$name\s*<T>\s*\{" + r"(?:\s*\$\(#\[\$\w+\]\)\+)?\s*pub\s+\$luminance\s*:\s*T\s*,"
                                              + r"(?:\s*\$\(#\[\$\w+\]\)\+)?\s*pub\s+\$chromaticity\s*:\s*T\s*," + ATTRS + r"pub\s+hue\s*:")},
                  structs=["DependentParameters", "Adapt", "Unadapt", "Parameters", "Cam16"],
                  enums=["Surround", "Discounting", "LuminanceType", "ChromaticityType"]),
}

# ---- colour operators (C10)
ANGLE_FLOAT = (r"macro_rules!\s+impl_angle_float\b", "macro_rules! impl_angle_float")
ARITH = [("add", "Add", "+"), ("sub", "Sub", "-"), ("mul", "Mul", "*"), ("div", "Div", "/")]

def trait_in(trait, arg, ty):
    """`impl<..> <trait><arg> for <ty>` in an expansion"""
    return (r"impl\s*<[^{]*?>\s*" + r"\s*::\s*".join(trait.split("::")) + r"\s*<\s*" + arg + r"\s*>\s*for\s+" + ty + r"\b", f"impl {trait}<{arg}> for {ty}")

def bodies_ops(read_src):
    eng = rust_macros.Engine(read_src, tokenize, MACRO_FILES)
    def has(t, macro): return has_invocation(read_src, TYPES3[t][1], macro, t)
    def exp(t, macro): return eng.expand_invocation(TYPES3[t][1], macro, t)[0]
    texts = {t: "".join(exp(t, m) for m in ("impl_lighten", "impl_saturate", "impl_lighten_hwb") if has(t, m)) for t in TYPES3}
    out = [
        # angle.rs / hues.rs helpers the operator bodies go through (`(other.hue - self.hue).into_degrees()`, `T::Scalar::half_rotation()`)
        B("opsNormalizeSigned", "angle.rs", ANGLE_FLOAT, "normalize_signed_angle", "Ops.normSigned", self_ty="T", as_method=[("T", "normalize_signed_angle")]),
        B("opsHalfRotation", "angle.rs", ANGLE_FLOAT, "half_rotation", "Ops.halfRotation", self_ty="T", as_fn=["T::half_rotation"]),
        B("opsHueIntoDegrees", "hues.rs", HUES, "into_degrees", None, self_ty="Hue", as_method=[("T", "into_degrees")]),
    ]
    out += accessor_bodies(read_src, "lim", list(TYPES3), lambda ty, fn: re.search(r"Self\s*::\s*" + fn + r"\b", texts[ty]) is not None)
    for t in TYPES3:
        inv = TYPES3[t][1]
        # component arithmetic first (`impl_mix!` is written with it)
        for fn, tr, _ in ARITH:
            m = "impl_color_" + fn
            if not has(t, m): continue
            out.append(B(f"{fn}{t}", inv, trait_in("core::ops::" + tr, "Self", t), fn, f"Ops.{fn}C", self_ty=t, expand=(inv, m, t)))
            out.append(B(f"{fn}S{t}", inv, trait_in("core::ops::" + tr, "T", t), fn, f"Ops.{fn}S", self_ty=t, expand=(inv, m, t)))
            out.append(B(f"{fn}Assign{t}", inv, trait_in(f"core::ops::{tr}Assign", "Self", t), fn + "_assign", f"Ops.{fn}AssignC", self_ty=t, expand=(inv, m, t), inout="self"))
            out.append(B(f"{fn}AssignS{t}", inv, trait_in(f"core::ops::{tr}Assign", "T", t), fn + "_assign", f"Ops.{fn}AssignS", self_ty=t, expand=(inv, m, t), inout="self"))
        if has(t, "impl_mix"):
            out.append(B(f"mix{t}", inv, impl_in("crate::Mix", t), "mix", "Ops.mixLin", self_ty=t, expand=(inv, "impl_mix", t)))
            out.append(B(f"mixAssign{t}", inv, impl_in("crate::MixAssign", t), "mix_assign", "Ops.mixLinAssign", self_ty=t, expand=(inv, "impl_mix", t), inout="self"))
        if has(t, "impl_mix_hue"):
            out.append(B(f"mix{t}", inv, impl_in("crate::Mix", t), "mix", "Ops.mixHue", self_ty=t, expand=(inv, "impl_mix_hue", t)))
            out.append(B(f"mixAssign{t}", inv, impl_in("crate::MixAssign", t), "mix_assign", "Ops.mixHueAssign", self_ty=t, expand=(inv, "impl_mix_hue", t), inout="self"))
        for kind, Kind in (("lighten", "Lighten"), ("saturate", "Saturate")):
            m = "impl_" + kind
            if not has(t, m): continue
            wp = uses_wp(read_src, t, exp(t, m))
            out.append(B(f"{kind}{t}", inv, impl_in("crate::" + Kind, t), kind, "Ops.incValue", self_ty=t, expand=(inv, m, t), wp=wp, as_method=[(t, kind)]))
            out.append(B(f"{kind}Fixed{t}", inv, impl_in("crate::" + Kind, t), kind + "_fixed", "Ops.incFixedValue", self_ty=t, expand=(inv, m, t), wp=wp, as_method=[(t, kind + "_fixed")]))
            out.append(B(f"{kind}Assign{t}", inv, impl_in(f"crate::{Kind}Assign", t), kind + "_assign", "Ops.incAssign", self_ty=t, expand=(inv, m, t), wp=wp, inout="self",
                         as_method=[(t, kind + "_assign")]))
            out.append(B(f"{kind}FixedAssign{t}", inv, impl_in(f"crate::{Kind}Assign", t), kind + "_fixed_assign", "Ops.incFixedAssign", self_ty=t, expand=(inv, m, t), wp=wp,
                         inout="self", as_method=[(t, kind + "_fixed_assign")]))
        if has(t, "impl_lighten_hwb"):
            m = "impl_lighten_hwb"
            out.append(B(f"lighten{t}", inv, impl_in("crate::Lighten", t), "lighten", "Ops.hwbLighten", self_ty=t, expand=(inv, m, t)))
            out.append(B(f"lightenFixed{t}", inv, impl_in("crate::Lighten", t), "lighten_fixed", "Ops.hwbLightenFixed", self_ty=t, expand=(inv, m, t)))
            out.append(B(f"lightenAssign{t}", inv, impl_in("crate::LightenAssign", t), "lighten_assign", "Ops.hwbLightenAssign", self_ty=t, expand=(inv, m, t), inout="self"))
            out.append(B(f"lightenFixedAssign{t}", inv, impl_in("crate::LightenAssign", t), "lighten_fixed_assign", "Ops.hwbLightenFixedAssign", self_ty=t, expand=(inv, m, t), inout="self"))
        if has(t, "impl_hue_ops"):
            m = "impl_hue_ops"
            out.append(B(f"getHue{t}", inv, impl_in("crate::GetHue", t), "get_hue", "Ops.getHue", self_ty=t, expand=(inv, m, t)))
            out.append(B(f"withHue{t}", inv, trait_in("crate::WithHue", "H", t), "with_hue", "Ops.withHue", self_ty=t, expand=(inv, m, t), ptypes={"hue": "T"}))
            out.append(B(f"setHue{t}", inv, trait_in("crate::SetHue", "H", t), "set_hue", "Ops.setHue", self_ty=t, expand=(inv, m, t), ptypes={"hue": "T"}, inout="self"))
            out.append(B(f"shiftHue{t}", inv, impl_in("crate::ShiftHue", t), "shift_hue", "Ops.shiftHue", self_ty=t, expand=(inv, m, t), as_method=[(t, "shift_hue")]))
            out.append(B(f"shiftHueAssign{t}", inv, impl_in("crate::ShiftHueAssign", t), "shift_hue_assign", "Ops.shiftHueAssign", self_ty=t, expand=(inv, m, t), inout="self"))
        if has(t, "impl_lab_color_schemes"):
            m = "impl_lab_color_schemes"
            out.append(B(f"complementary{t}", inv, impl_in("crate::color_theory::Complementary", t), "complementary", "Ops.labComplementary", self_ty=t, expand=(inv, m, t),
                         as_method=[(t, "complementary")]))
            out.append(B(f"tetradic{t}", inv, impl_in("crate::color_theory::Tetradic", t), "tetradic", "Ops.labTetradic", self_ty=t, expand=(inv, m, t)))
    # blanket impls, translated at one implementing type per hue position (`Hsv`: hue first, `Lch`: hue last); the trait-dispatched inner
    # call resolves to the translated body of that type
    for t in ("Hsv", "Lch"):
        for fn, lean in (("complementary", "complementary"), ("split_complementary", "splitComplementary"), ("analogous", "analogous"),
                         ("analogous_secondary", "analogousSecondary"), ("triadic", "triadic"), ("tetradic", "tetradic")):
            tr = {"analogous_secondary": "Analogous"}.get(fn, camel(fn))
            out.append(B(f"{lean}{t}", "color_theory.rs", impl_of(f"{tr} for T"), fn, f"Ops.{lean}", self_ty=t, scalars=["T::Scalar"]))
    for t, kind, Kind, dec, Dec in (("Lab", "lighten", "Lighten", "darken", "Darken"), ("Hsl", "lighten", "Lighten", "darken", "Darken"),
                                    ("Hsv", "saturate", "Saturate", "desaturate", "Desaturate"), ("Lch", "saturate", "Saturate", "desaturate", "Desaturate")):
        out.append(B(f"{dec}{t}", "lib.rs", impl_of(f"{Dec} for T"), dec, "Ops.decValue", self_ty=t))
        out.append(B(f"{dec}Fixed{t}", "lib.rs", impl_of(f"{Dec} for T"), dec + "_fixed", "Ops.decFixedValue", self_ty=t))
        out.append(B(f"{dec}Assign{t}", "lib.rs", impl_of(f"{Dec}Assign for T"), dec + "_assign", "Ops.decAssign", self_ty=t, inout="self"))
        out.append(B(f"{dec}FixedAssign{t}", "lib.rs", impl_of(f"{Dec}Assign for T"), dec + "_fixed_assign", "Ops.decFixedAssign", self_ty=t, inout="self"))
    return out

UNTRANSLATED_OPS = [
    "the operator macros at `Luma` (one component; the lowering represents a colour struct as `V3 α`): the same macro bodies, translated here at every invocation for a",
    "  three-component colour type; which type gets which macro with which components is extracted data (Gen/Ops.lean, C10_Ops).  The six partial CAM16 types (`$name`",
    "  inside `make_partial_cam16!`) are translated by tools/rust2lean_more.py (Gen/BodiesOpsX.lean, Tie_OpsX.lean)",
    "`Alpha<C, T>` forwarding impls (alpha/alpha.rs) and the `[T]` slice impls of lib.rs (`for color in self { .. }`): trait-generic glue, translated by",
    "  tools/rust2lean_glue.py with the colour's operator as a parameter (Gen/BodiesAlpha.lean, Tie_Alpha.lean).  Still law-free theorems + oracle only: `PreAlpha<C>`",
    "  (blend/pre_alpha.rs; same text shape and model functions as `Alpha`), the `Alpha` arms of `impl_lab_color_schemes!`",
    "`SaturatingAdd` / `SaturatingSub` arms of `impl_color_add!` / `impl_color_sub!` (integer components; outside C10's quantifier; their `Alpha` forwarding is in Tie_Alpha)",
    "`num::Clamp` / `ClampAssign` / `MinMax` for f32/f64 (`f32::clamp`, `f32::max`, `f32::min`) and the lib.rs wrappers `clamp`, `clamp_assign`, `clamp_min_assign`",
    "  (pinned by digest): per-type primitives, read as `Scalar.clamp`, `Scalar.max`, `Scalar.min` as Ops.lean does; `lazy_select!` for `bool` masks: `if`",
    "`Hue + T`, `Hue - Hue`, `Hue += T` (hues.rs `make_hues!`): the stored angle, translated and tied in the family `hue` (Tie_Hue.lean)",
]

# ---- hues as angles (C11): angle.rs (`impl_angle_float!`, `impl_from_angle_u8!`) and hues.rs (`make_hues!`), in the reading of PaletteModel/Hue.lean
PROFILES["hue"] = {"to_radians": "({0} * (Hue.AngleConsts.radsPerDeg : α))", "to_degrees": "({0} * (Hue.AngleConsts.degsPerRad : α))",
                   "pi": "(Hue.AngleConsts.pi : α)", "cast_u8_T": "(Hue.AngleConsts.ofU8 {0} : α)", "cast_T_u8": "(Hue.AngleConsts.toU8 {0})"}
HU = dict(prims="hue", mask="prop", inst="[Hue.AngleConsts α]")
FROM_U8 = (r"macro_rules!\s+impl_from_angle_u8\b", "macro_rules! impl_from_angle_u8")
U8ARGS = dict(macro_args={"float_ty": "f32"}, invocation=("angle.rs", "impl_from_angle_u8", "f32, f64"), scalars=["f32"])
RGBHUE = dict(macro_args={"name": "RgbHue"}, invocation_rx=("hues.rs", r"make_hues!\s*\{[^}]*\bstruct\s+RgbHue\s*;"))
def in_hues(head): return (r"impl\s*(?:<[^{>]*>)?\s*" + r"\s*".join(re.escape(x) for x in re.findall(r"\$?\w+|[^\w\s]", head)) + r"(?![\w<])", "impl " + head + " (make_hues!)")
def hue_arith(fn, lean):
    """the four impls of `Add` / `Sub` / `AddAssign` / `SubAssign` inside `make_hues!`: hue ∘ hue, hue ∘ T, f32 ∘ hue, f64 ∘ hue (in source order)"""
    assign = fn.endswith("_assign")
    return [B(f"hues{camel(fn)}{i}", "hues.rs", HUES, fn, lean, nth=i, self_ty="Hue" if i < 2 else "T", scalars=["f32", "f64"],
              **(dict(inout="self") if assign else {}), **RGBHUE, **HU) for i in range(4)]

BODIES_HUE = [
    # ---- angle.rs `impl_angle_float!` (f32, f64)
    B("angHalfRotation", "angle.rs", ANGLE_FLOAT, "half_rotation", "Hue.halfRotation", self_ty="T", as_fn=["T::half_rotation"], **HU),
    B("angFullRotation", "angle.rs", ANGLE_FLOAT, "full_rotation", "Hue.fullRotation", self_ty="T", as_fn=["T::full_rotation"], **HU),
    B("angDegreesToRadians", "angle.rs", ANGLE_FLOAT, "degrees_to_radians", "Hue.degreesToRadians", self_ty="T", as_fn=["T::degrees_to_radians"], **HU),
    B("angRadiansToDegrees", "angle.rs", ANGLE_FLOAT, "radians_to_degrees", "Hue.radiansToDegrees", self_ty="T", as_fn=["T::radians_to_degrees"], **HU),
    B("angNormalizeSigned", "angle.rs", ANGLE_FLOAT, "normalize_signed_angle", "Hue.normalizeSigned", self_ty="T", as_method=[("T", "normalize_signed_angle")], **HU),
    B("angNormalizeUnsigned", "angle.rs", ANGLE_FLOAT, "normalize_unsigned_angle", "Hue.normalizeUnsigned", self_ty="T", as_method=[("T", "normalize_unsigned_angle")], **HU),
    B("angAngleEq", "angle.rs", ANGLE_FLOAT, "angle_eq", "Hue.angleEq", self_ty="T", rty="P", as_method=[("T", "angle_eq")], **HU),
    # ---- angle.rs `impl_from_angle_u8!` instantiated at f32 (of `impl_from_angle_u8!(f32, f64)`): u8 -> float, float -> u8
    B("angFromU8", "angle.rs", FROM_U8, "from_angle", "Hue.u8ToFloat", nth=0, self_ty="T", **U8ARGS, **HU),
    B("angIntoU8", "angle.rs", FROM_U8, "from_angle", "Hue.floatToU8", nth=1, self_ty="u8", **U8ARGS, **HU),
    # ---- hues.rs `make_hues!` (one macro body for the five hue types; `$name` instantiated at `RgbHue` where it occurs): `self.0` = the stored degrees
    B("huesNew", "hues.rs", HUES, "new", "Hue.fromDegrees", self_ty="Hue", as_fn=["Self::new"], **HU),
    B("huesIntoInner", "hues.rs", HUES, "into_inner", "Hue.intoRawDegrees", self_ty="Hue", **HU),
    B("huesFromDegrees", "hues.rs", HUES, "from_degrees", "Hue.fromDegrees", self_ty="Hue", **HU),
    B("huesFromRadians", "hues.rs", HUES, "from_radians", "Hue.fromRadians", self_ty="Hue", as_fn=["Self::from_radians"], **HU),
    B("huesIntoRawDegrees", "hues.rs", HUES, "into_raw_degrees", "Hue.intoRawDegrees", self_ty="Hue", **HU),
    B("huesIntoRawRadians", "hues.rs", HUES, "into_raw_radians", "Hue.intoRawRadians", self_ty="Hue", as_method=[("T", "into_raw_radians")], **HU),
    B("huesIntoDegrees", "hues.rs", HUES, "into_degrees", "Hue.intoDegrees", self_ty="Hue", **HU),
    B("huesIntoRadians", "hues.rs", HUES, "into_radians", "Hue.intoRadians", self_ty="Hue", **HU),
    B("huesIntoPositiveDegrees", "hues.rs", HUES, "into_positive_degrees", "Hue.intoPositiveDegrees", self_ty="Hue", **HU),
    B("huesIntoPositiveRadians", "hues.rs", HUES, "into_positive_radians", "Hue.intoPositiveRadians", self_ty="Hue", **HU),
    B("huesFromCartesian", "hues.rs", HUES, "from_cartesian", "Hue.fromCartesian", self_ty="Hue", **HU),
    B("huesIntoCartesian", "hues.rs", HUES, "into_cartesian", "Hue.intoCartesian", self_ty="Hue", **HU),
    B("huesFromT", "hues.rs", in_hues("From<T> for $name<T>"), "from", "Hue.fromDegrees", self_ty="Hue", **RGBHUE, **HU),
    B("huesIntoF64", "hues.rs", in_hues("From<$name<f64>> for f64"), "from", "Hue.intoDegrees", self_ty="T", scalars=["f64"], **RGBHUE, **HU),
    B("huesIntoF32", "hues.rs", in_hues("From<$name<f32>> for f32"), "from", "Hue.intoDegrees", self_ty="T", scalars=["f32"], **RGBHUE, **HU),
    B("huesEq", "hues.rs", in_hues("PartialEq for $name<T>"), "eq", "Hue.hueEq", self_ty="Hue", rty="P", **RGBHUE, **HU),
    B("huesEqT", "hues.rs", in_hues("PartialEq<T> for $name<T>"), "eq", "Hue.hueEq", self_ty="Hue", rty="P", **RGBHUE, **HU),
] + hue_arith("add", "Hue.add") + hue_arith("add_assign", "Hue.add") + hue_arith("sub", "Hue.sub") + hue_arith("sub_assign", "Hue.sub")

UNTRANSLATED_HUE = [
    "`$name::into_format` / `from_format` (`$name(U::from_angle(self.0))`: trait-dispatched `FromAngle`; its f32/f64 <-> u8 instances ARE translated: `angFromU8`,",
    "  `angIntoU8`), `impl_from_angle_float!` (`angle as $ty`: the primitive cast between f32 and f64) and `From<$name<f32>> for f64` / `From<$name<f64>> for f32`",
    "  (`normalize_signed_angle() as f64`: the translated normal form followed by that primitive cast)",
    "`u8` angles (`half_rotation = 128`, `angle_eq = ==`, `normalize_unsigned_angle = self`), the SIMD copies in angle/wide.rs (same text, pinned by",
    "  `C11.source_as_modelled`), the `&T` / `&mut T` / `Vec<T>` accessors of `make_hues!`, `approx` and `rand` impls: not part of the model",
    "`f32/f64::to_radians`, `to_degrees`, `round`, `floor`, `ceil`, `atan2`, `sin_cos`, `u8 as f32`, `f32 as u8`: per-type primitives, read as multiplication by",
    "  `AngleConsts.radsPerDeg` / `degsPerRad`, the fields of `class Scalar`, `AngleConsts.ofU8` / `toU8` (PaletteModel/Hue.lean; compared bit for bit on every run)",
]

# ------------------------------------------------------------------------------------------------ monomorphic bit-level lowering (stimulus.rs, C06)
# stimulus.rs is not generic float code: every arm is monomorphic in (source, target) ∈ {f32, f64, u8, u16, u32, u64, u128}², uses `to_bits`,
# `from_bits`, `saturating_sub`, `<<`, `|` and `as` casts.  `MonoLower` translates that subset with *typed* values onto Lean core's kernel-transparent
# `Float32` / `Float` / `UIntN` (`u128` is `Nat`: core has no 128-bit word), the representation PaletteModel/Stimulus.lean is written in.
# What the language (not palette) defines is read as follows (the per-type primitives of this family; each reading is a definition of
# Stimulus.lean that the correspondence run compares with the hardware on every run):
#   f32::min/max -> Stim.min32/max32 (IEEE minNum/maxNum), f64 likewise;  f32::clamp -> Stim.clamp32;  f32::round -> Stim.round32;  recip -> 1.0 / x
#   x as f64 (f32) -> Stim.f32ToF64;  x as f32 (f64) -> Stim.f64ToF32;  u8/u16 as f32/f64 -> core `toFloat32` / `toFloat`;  u32/u64/u128 as f64 -> Stim.natToF64
#   f64 as uN (saturating) -> Stim.f64CastNat N;  f32 as u8 -> core `Float32.toUInt8`;  uA as uB -> core `toUIntB` (zero-extend / truncate), `toNat` / `ofNat` at u128
#   uN::MAX -> the numeral 2^N - 1;  Self::BITS -> the numeral N;  a float literal -> its bit pattern (exactly representable literals only)
import struct
MONO_LEAN = {"f32": "Float32", "f64": "Float", "u8": "UInt8", "u16": "UInt16", "u32": "UInt32", "u64": "UInt64", "u128": "Nat", "bool": "Bool"}
UBITS = {"u8": 8, "u16": 16, "u32": 32, "u64": 64, "u128": 128}

class MonoLower:
    def __init__(self, consts, bodies, self_ty, ret_ty):
        self.consts = consts          # module constants: name -> (type, literal)
        self.bodies = bodies          # (src, dst) -> Lean name of the translated `IntoStimulus<dst> for src`; ("max", ty) -> of `max_intensity`
        self.self_ty, self.ret_ty = self_ty, ret_ty

    def flit(self, lit, ty):
        lit = re.sub(r"_?(f32|f64)$", "", lit).replace("_", "")
        x = float(lit)
        if ty == "f32":
            b = struct.unpack(">I", struct.pack(">f", x))[0]
            if struct.unpack(">f", struct.pack(">I", b))[0] != x: fail(f"float literal {lit} is not exactly representable in f32")
            return Val(f"(Float32.ofBits 0x{b:08x})", "f32")
        if ty == "f64":
            if "e" in lit.lower() or len(lit.replace(".", "").lstrip("0")) > 15: fail(f"float literal {lit}: only short decimal literals")
            return Val(f"(Float.ofBits 0x{struct.unpack('>Q', struct.pack('>d', x))[0]:016x})", "f64")
        fail(f"float literal {lit} where a {ty} is expected")

    def ilit(self, n, ty):
        if ty not in UBITS or not 0 <= n < 2 ** UBITS[ty]: fail(f"integer literal {n} for {ty}")
        return Val(f"({n} : {MONO_LEAN[ty]})", ty)

    def cast(self, v, to):
        a = v.ty
        if a == to: return v
        if a in UBITS and to in UBITS:
            if to == "u128": return Val(f"{v.code}.toNat" if re.fullmatch(r"[\w.']+", v.code) else f"({v.code}).toNat", to)
            if a == "u128": return Val(f"({MONO_LEAN[to]}.ofNat {v.code})", to)
            return Val(f"({v.code}).to{MONO_LEAN[to]}" if not re.fullmatch(r"[\w.']+", v.code) else f"{v.code}.to{MONO_LEAN[to]}", to)
        if a in ("u8", "u16") and to == "f32": return Val(f"({v.code}).toFloat32", to)
        if a in ("u8", "u16") and to == "f64": return Val(f"({v.code}).toFloat", to)
        if a in ("u32", "u64") and to == "f64": return Val(f"(Stim.natToF64 ({v.code}).toNat)", to)
        if a == "u128" and to == "f64": return Val(f"(Stim.natToF64 {v.code})", to)
        if a == "f32" and to == "f64": return Val(f"(Stim.f32ToF64 {v.code})", to)
        if a == "f64" and to == "f32": return Val(f"(Stim.f64ToF32 {v.code})", to)
        if a == "f64" and to in UBITS:
            c = f"(Stim.f64CastNat {UBITS[to]} {v.code})"
            return Val(c if to == "u128" else f"({MONO_LEAN[to]}.ofNat {c})", to)
        if a == "f32" and to == "u8": return Val(f"({v.code}).toUInt8", to)
        fail(f"`as {to}` on a {a} is outside the translated subset")

    def expr(self, e, env, expect=None):
        k = e[0]
        if k == "num":
            if re.fullmatch(r"0x[0-9a-fA-F_]+|\d[\d_]*", e[1]):
                if expect is None: fail(f"integer literal {e[1]} without expected type")
                return self.ilit(int(e[1].replace("_", ""), 0), expect)
            if expect is None: fail(f"float literal {e[1]} without expected type")
            return self.flit(e[1], expect)
        if k == "path":
            segs = e[1]
            if len(segs) == 1:
                if segs[0] in env: return env[segs[0]]
                if segs[0] in self.consts:
                    ty, lit = self.consts[segs[0]]
                    v = self.ilit(int(lit.replace("_", ""), 0), ty)
                    return Val(f"(0x{int(lit.replace('_', ''), 0):x} : {MONO_LEAN[ty]})", ty) if lit.startswith("0x") else v
                fail(f"unbound name {segs[0]!r}")
            t = self.self_ty if segs[0] == "Self" else segs[0]
            if len(segs) == 2 and t in UBITS and segs[1] == "MAX": return self.ilit(2 ** UBITS[t] - 1, t)
            if len(segs) == 2 and t in UBITS and segs[1] == "BITS": return Val(str(UBITS[t]), "bits")
            fail(f"path {'::'.join(segs)}")
        if k == "cast": return self.cast(self.expr(e[1], env), e[2])
        if k == "unary" and e[1] in ("&", "*"): return self.expr(e[2], env, expect)
        if k == "binary":
            op = e[1]
            a = self.expr(e[2], env, expect if op in "+-*/|" else None) if e[2][0] != "num" else None
            b = self.expr(e[3], env, a.ty if a is not None and op not in ("<<", ">>") else None)
            if a is None: a = self.expr(e[2], env, b.ty)
            if op in ("<<", ">>"):
                if a.ty not in UBITS or b.ty != "bits": fail(f"`{op}`: only `uN {op} Self::BITS`")
                if int(b.code) >= UBITS[a.ty]: fail("shift by the full width")
                return Val(f"({a.code} {'<<<' if op == '<<' else '>>>'} {b.code})" if a.ty == "u128" else f"({a.code} {'<<<' if op == '<<' else '>>>'} ({b.code} : {MONO_LEAN[a.ty]}))", a.ty)
            if a.ty != b.ty: fail(f"`{op}` on {a.ty} and {b.ty}")
            if op in "+-*/":
                if a.ty in ("f32", "f64") or (a.ty in UBITS and a.ty != "u128" and op == "+"): return Val(f"({a.code} {op} {b.code})", a.ty)
                fail(f"`{op}` on {a.ty}")
            if op == "|" and a.ty in UBITS: return Val(f"({a.code} ||| {b.code})", a.ty)
            if op in CMP_OPS and a.ty in ("f32", "f64"):
                rel, flip = CMP_OPS[op]
                return Val(f"({b.code} {rel} {a.code})" if flip else f"({a.code} {rel} {b.code})", "prop")
            fail(f"binary {op} on {a.ty}")
        if k == "call":
            f, xs = e[1], e[2]
            if f[0] != "path": fail("call of a computed value")
            segs = f[1]
            key = "::".join(segs)
            if key in ("f32::from_bits", "f64::from_bits") and len(xs) == 1:
                v = self.expr(xs[0], env, "u32" if segs[0] == "f32" else "u64")
                if v.ty != ("u32" if segs[0] == "f32" else "u64"): fail(f"{key} of a {v.ty}")
                return Val(f"({MONO_LEAN[segs[0]]}.ofBits {v.code})", segs[0])
            if len(segs) == 2 and segs[1] == "from" and len(xs) == 1 and (segs[0] in UBITS or segs[0] == "f64"):      # lossless `From`
                v = self.expr(xs[0], env)
                ok = (v.ty in UBITS and segs[0] in UBITS and UBITS[v.ty] < UBITS[segs[0]]) or (v.ty == "f32" and segs[0] == "f64")
                if not ok: fail(f"{key} of a {v.ty}")
                return self.cast(v, segs[0])
            if len(segs) == 2 and segs[1] == "max_intensity" and not xs:
                t = self.self_ty if segs[0] == "Self" else segs[0]
                if ("max", t) not in self.bodies: fail(f"{t}::max_intensity() is not a registered body")
                return Val(self.bodies[("max", t)], t)
            if key in ("clamp", "crate::clamp") and len(xs) == 3:
                v = self.expr(xs[0], env)
                if v.ty not in ("f32", "f64"): fail("clamp on a non-float")
                lo, hi = self.expr(xs[1], env, v.ty), self.expr(xs[2], env, v.ty)
                if lo.ty != v.ty or hi.ty != v.ty: fail("clamp: operand types")
                return Val(f"(Stim.clamp{v.ty[1:]} {v.code} {lo.code} {hi.code})", v.ty)
            if key == "Round::round" and len(xs) == 1:
                v = self.expr(xs[0], env)
                if v.ty not in ("f32", "f64"): fail("round on a non-float")
                return Val(f"(Stim.round{v.ty[1:]} {v.code})", v.ty)
            if len(segs) == 2 and segs[1] == "from_stimulus" and len(xs) == 1:       # `impl<T, U: IntoStimulus<T>> FromStimulus<U> for T`: `other.into_stimulus()`
                v = self.expr(xs[0], env)
                return self.into(v, segs[0])
            fail(f"call of {key} is outside the translated subset")
        if k == "mcall":
            name, xs = e[2], e[3]
            if name == "into_stimulus" and not xs:
                if expect is None: fail("`.into_stimulus()` without a target type")
                return self.into(self.expr(e[1], env), expect)
            r = self.expr(e[1], env, expect)
            if name in ("min", "max") and len(xs) == 1 and r.ty in ("f32", "f64"):
                b = self.expr(xs[0], env, r.ty)
                if b.ty != r.ty: fail(f".{name}: operand types")
                return Val(f"(Stim.{name}{r.ty[1:]} {r.code} {b.code})", r.ty)
            if name == "to_bits" and not xs and r.ty in ("f32", "f64"): return Val(f"({r.code}).toBits", "u32" if r.ty == "f32" else "u64")
            if name == "saturating_sub" and len(xs) == 1 and r.ty in ("u32", "u64"):
                b = self.expr(xs[0], env, r.ty)
                if b.ty != r.ty: fail("saturating_sub: operand types")
                return Val(f"(Stim.satSub{r.ty[1:]} {r.code} {b.code})", r.ty)
            if name == "recip" and not xs and r.ty in ("f32", "f64"): return Val(f"({self.flit('1.0', r.ty).code} / {r.code})", r.ty)
            fail(f"method .{name}() on a {r.ty} is outside the translated subset")
        if k == "if":
            c = self.expr(e[1], env)
            if c.ty != "prop" or e[3] is None: fail("if: a float comparison and an else branch expected")
            a, b = self.block(e[2], env, expect), self.block(e[3], env, expect)
            if a.ty != b.ty: fail(f"if: branch types differ ({a.ty} / {b.ty})")
            return Val(f"(if {c.code} then {a.code} else {b.code})", a.ty)
        if k == "block": return self.block(e, env, expect)
        fail(f"expression kind {k!r} is outside the translated subset (stimulus.rs)")

    def into(self, v, to):
        if v.ty == to: return v
        if (v.ty, to) not in self.bodies: fail(f"IntoStimulus<{to}> for {v.ty} is not a registered body (register callees first)")
        return Val(f"({self.bodies[(v.ty, to)]} {v.code})", to)

    def block(self, b, env, expect=None):
        env = dict(env); lines = []
        for s in b[1]:
            if s[0] != "let" or s[1][0] != "pid" or s[3] is None: fail("only `let x = e;` statements (stimulus.rs)")
            v = self.expr(s[3], env)
            if v.ty in ("prop", "bits"): fail("binding a comparison")
            n = lname(s[1][1])
            lines.append(f"let {n} : {MONO_LEAN[v.ty]} := {v.code};")
            env[s[1][1]] = Val(n, v.ty)
        if b[2] is None: fail("block without value")
        v = self.expr(b[2], env, expect)
        if not lines: return v
        return Val("(" + "\n".join(lines + [v.code]) + ")", v.ty)

def translate_mono(ctx, spec, read_src, registry):
    """one `IntoStimulus<dst> for src` (or `Stimulus::max_intensity` for an integer type) -> Lean definition text"""
    src_ty, dst_ty = spec["mono"]
    src = read_src(spec["file"])
    inv_text = None
    if spec.get("expand"):
        try:
            text, inv_text = ctx.engine.expand_invocation(*spec["expand"])
        except rust_macros.MacroError as e:
            fail(f"macro expansion of {spec['expand'][1]}! in {spec['expand'][0]}: {e}")
    else: text = src
    params, ret, body = find_fn(text, spec["where"], spec["fn"])
    ret = re.sub(r"\s+", "", ret)
    if ret == "Self": ret = src_ty if spec["fn"] == "max_intensity" else ret
    if ret != dst_ty: fail(f"return type {ret!r}, registered target {dst_ty}")
    ps = [x.strip() for x in split_top(params) if x.strip()]
    if ps not in ([], ["self"]): fail(f"parameters {ps}")
    consts = {m.group(1): (m.group(2), m.group(3)) for m in re.finditer(r"\bconst\s+(\w+)\s*:\s*(u32|u64)\s*=\s*(0x[0-9a-fA-F_]+|\d[\d_]*)\s*;", src)}
    lo = MonoLower(consts, registry, src_ty, dst_ty)
    env = {"self": Val("self_", src_ty)} if ps else {}
    v = lo.block(parse_block(body), env, dst_ty)
    if v.ty != dst_ty: fail(f"body has type {v.ty}, signature says {dst_ty}")
    code = v.code[1:-1] if v.code.startswith("(let ") else v.code
    where = spec.get("label") or ""
    doc = f"/-- `{spec['file']}`: `fn {spec['fn']}` of `{where}`" + \
          (f", in the expansion of `{spec['expand'][1]}!({pretty_tokens(inv_text)[:170]})`" if inv_text is not None else "") + " -/"
    binder = f" (self_ : {MONO_LEAN[src_ty]})" if ps else ""
    return f"{doc}\ndef {spec['name']}{binder} : {MONO_LEAN[dst_ty]} :=\n{indent(reflow(code), 2)}\n"

def stim_impl(dst, src): return (r"impl\s+IntoStimulus\s*<\s*" + dst + r"\s*>\s*for\s+" + src + r"\b", f"impl IntoStimulus<{dst}> for {src}")
STIM_TYPES = ["f32", "f64", "u8", "u16", "u32", "u64", "u128"]
def cap_ty(t): return t[0].upper() + t[1:]

def bodies_stim(read_src):
    """every `IntoStimulus<dst> for src` of stimulus.rs, with the macro invocation it comes from found in the current source"""
    eng = rust_macros.Engine(read_src, tokenize, ["stimulus.rs"])
    src = read_src("stimulus.rs")
    out = []
    # `impl_uint_components!(u8, ..)`: `max_intensity() = $ty::MAX`
    for t in UBITS:
        out.append(B(f"stimMax{cap_ty(t)}", "stimulus.rs", (r"impl\s+Stimulus\s+for\s+" + t + r"\b", f"impl Stimulus for {t}"), "max_intensity", None,
                     expand=("stimulus.rs", "impl_uint_components", None, 0), mono=(t, t)))
    macros = ["convert_float_to_uint", "convert_double_to_uint", "convert_uint_to_float", "convert_uint_to_uint", "convert_uint_to_larger_uint"]
    found = {}
    for mac in macros:
        for inv in eng.invocations("stimulus.rs", mac):
            first = inv[0][2]
            text = eng.expand_invocation("stimulus.rs", mac, first)[0]
            for m in re.finditer(r"impl IntoStimulus < (\w+) > for (\w+)", text):
                if (m.group(2), m.group(1)) in found: fail(f"IntoStimulus<{m.group(1)}> for {m.group(2)} generated twice")
                found[(m.group(2), m.group(1))] = (mac, first)
    for m in re.finditer(r"impl\s+IntoStimulus\s*<\s*(\w+)\s*>\s*for\s+(\w+)\s*\{", src):      # the hand-written impls (u8 -> f32/f64, f32 <-> f64)
        if (m.group(2), m.group(1)) in found: fail(f"IntoStimulus<{m.group(1)}> for {m.group(2)} implemented twice")
        found[(m.group(2), m.group(1))] = None
    want = {(a, b) for a in STIM_TYPES for b in STIM_TYPES if a != b}
    if set(found) != want: fail(f"stimulus.rs: impls found for {sorted(set(found) ^ want)} differ from the 42 ordered pairs")
    def model(a, b):
        if a in ("f32", "f64"): return "Stim.f32ToF64" if b == "f64" else "Stim.f64ToF32" if b == "f32" else f"Stim.{a}ToUint"
        if b in ("f32", "f64"): return f"Stim.uintTo{cap_ty(b)}"
        return "Stim.uintToUint"
    # callees first: direct widenings (`next`) before the chained ones
    order = sorted(found, key=lambda p: (0 if found[p] and found[p][0] == "convert_uint_to_larger_uint" and UBITS[p[1]] == 2 * UBITS[p[0]] else 1,
                                         STIM_TYPES.index(p[0]), STIM_TYPES.index(p[1])))
    chained = [p for p in order if found[p] and found[p][0] == "convert_uint_to_larger_uint" and UBITS[p[1]] != 2 * UBITS[p[0]]]
    order = [p for p in order if p not in chained] + sorted(chained, key=lambda p: (-UBITS[p[0]], UBITS[p[1]]))
    for (a, b) in order:
        out.append(B(f"stim{cap_ty(a)}To{cap_ty(b)}", "stimulus.rs", stim_impl(b, a), "into_stimulus", model(a, b),
                     expand=("stimulus.rs",) + found[(a, b)] if found[(a, b)] else None, mono=(a, b)))
    return out

UNTRANSLATED_STIM = [
    "`impl<T> IntoStimulus<T> for T` (the identity); the blanket `FromStimulus` and `into_format` / `from_format` of `Rgb`, `Luma` and their `Alpha` forms are",
    "  translated by tools/rust2lean_glue.py (family `format`: Gen/BodiesFormat.lean, Tie_Format.lean: the component-wise map, instantiated with these arms)",
    "what the language defines (per-type primitives, read as definitions of PaletteModel/Stimulus.lean and compared with the hardware on every run):",
    "  `f32/f64::min`, `max`, `clamp`, `round`, `recip`; the casts `f32 as f64` (Stim.f32ToF64), `f64 as f32` (Stim.f64ToF32), `uN as f64` for N >= 32",
    "  (Stim.natToF64), `f64 as uN` (Stim.f64CastNat, saturating), `f32 as u8`, `u8/u16 as f32/f64`, `uA as uB` (core Lean's conversions);",
    "  `to_bits` / `from_bits` / `saturating_sub` / `<<` / `|` / wrapping `+` on words (core Lean's `UIntN`; `u128` is `Nat`)",
]

FAMILIES["clamp"] = dict(file="BodiesClamp.lean", tie="Tie_Clamp.lean", imports=["PaletteModel.Clamp"], bodies=bodies_clamp,
                         what="clamp / bounds (C03): macros/clamp.rs (`impl_clamp!`, `impl_clamp_hwb!`, `impl_is_within_bounds!`, `impl_is_within_bounds_hwb!`, `_clamp_value!`) expanded "
                              "at every invocation for a three-component colour type, and the `min_*` / `max_*` accessors those invocations name",
                         untranslated=UNTRANSLATED_CLAMP, colour_files=TYPES3_FILES, macro_files=MACRO_FILES, expr_macros=["_clamp_value"], pins=CLAMP_PINS,
                         structs=[], enums=[])

FAMILIES["ops"] = dict(file="BodiesOps.lean", tie="Tie_Ops.lean", imports=["PaletteModel.Ops"], bodies=bodies_ops,
                       what="colour operators (C10): macros/mix.rs, macros/lighten_saturate.rs, macros/hue.rs, macros/arithmetics.rs, macros/color_theory.rs expanded at every invocation "
                            "for a three-component colour type; the blanket impls of color_theory.rs and lib.rs (`Darken`, `Desaturate`); the accessors and angle helpers they use",
                       untranslated=UNTRANSLATED_OPS, colour_files=TYPES3_FILES, macro_files=MACRO_FILES, expr_macros=[], pins=CLAMP_PINS, structs=[], enums=[])

FAMILIES["hue"] = dict(file="BodiesHue.lean", tie="Tie_Hue.lean", imports=["PaletteModel.Hue"], bodies=BODIES_HUE,
                       what="hues as angles (C11): angle.rs (`impl_angle_float!`, `impl_from_angle_u8!`) and hues.rs (`make_hues!`: constructors, accessors, cartesian forms, `From`, `PartialEq`, `Add`/`Sub` and their assigning forms)",
                       untranslated=UNTRANSLATED_HUE, structs=[], enums=[])

FAMILIES["stim"] = dict(file="BodiesStim.lean", tie="Tie_Stimulus.lean", imports=["PaletteModel.Stimulus"], bodies=bodies_stim, mono=True,
                        what="component number formats (C06): every `IntoStimulus<target> for source` of stimulus.rs (42 ordered pairs of f32, f64, u8, u16, u32, u64, u128), read from the "
                             "expansions of `convert_float_to_uint!`, `convert_double_to_uint!`, `convert_uint_to_float!`, `convert_uint_to_uint!`, `convert_uint_to_larger_uint!`, "
                             "`impl_uint_components!` at their invocations, and the hand-written `u8 -> f32/f64`, `f32 <-> f64` impls",
                        untranslated=UNTRANSLATED_STIM, macro_files=["stimulus.rs"], expr_macros=[], structs=[], enums=[])

def ty_of(ctx, text, self_ty):
    t = re.sub(r"\s*::\s*", "::", text.strip())      # expansions come back with single spaces between all tokens
    while t.startswith("&"): t = t[1:].strip()
    if t.startswith("mut "): t = t[4:].strip()
    if t in SCALAR_TYPES: return "T"
    if t == "u8": return "N"
    if t.endswith("::Mask"): return "B"
    if re.fullmatch(r"\[\s*(\w+)\s*;\s*3\s*\]", t) and re.fullmatch(r"\[\s*(\w+)\s*;\s*3\s*\]", t).group(1) in SCALAR_TYPES: return ("V3", None)
    m = re.fullmatch(r"impl\s+FnMut\s*\((.*)\)\s*->\s*(.+)", t, re.S)
    if m: return ("fn", [ty_of(ctx, x, self_ty) for x in split_top(m.group(1))], ty_of(ctx, m.group(2), self_ty))
    if t == "Self::Output" and self_ty is not None: t = "Self"      # `type Output = Self;` of the arithmetic impls
    if t == "Self":
        if self_ty is None: fail("`Self` outside an impl")
        return ty_of(ctx, self_ty, None)
    if t == "Hue" or re.fullmatch(r"\$?\w*Hue\b.*", t) or t.startswith("$name"): return "T"
    if t.startswith("("):
        return ("tup", [ty_of(ctx, x, self_ty) for x in split_top(t[1:t.rindex(")")])])
    t = re.sub(r"^(?:(?:crate|super|self|core|\w+)\s*::\s*)+(?=[A-Z]\w*)", "", t)      # `crate::blend::PreAlpha<Self>` -> `PreAlpha<Self>`
    m = re.match(r"(\w+)", t)
    if not m: fail(f"type {text!r}")
    n = m.group(1)
    if n == "Mat3": return "M3"
    if n == "Vec3": return ("V3", None)
    n = STRUCT_ALIASES.get(n, n)
    n = STRUCT_RENAME.get(n, n)
    if n in GENERIC_COLOURS: return "C"
    if is_struct(n): return ("S", n)
    if n in ENUMS: return ("E", n)
    if ctx.resolve(n) in ctx.type_files or n in ctx.macro_structs: return ("V3", ctx.resolve(n))
    if n == "bool": return "B"
    fail(f"type {text!r} is outside the translated subset")

def module_consts(src):
    return {m.group(1): m.group(2) for m in re.finditer(r"\bconst\s+(\w+)\s*:\s*(?:f64|f32|usize)\s*=\s*([0-9][0-9_.eE+-]*)\s*;", src)}

def macro_expand(text, binds):
    """instantiate a `macro_rules!` transcriber at `binds` (name -> str | [str]): `$( .. )sep+` / `*` groups are repeated over the list
    metavariables they mention (no nesting), `$( .. )?` groups are kept iff one of their metavariables is bound; `$name` is substituted"""
    out, i = "", 0
    while True:
        j = text.find("$(", i)
        if j < 0: out += text[i:]; break
        out += text[i:j]
        depth, k = 0, j + 1
        while True:
            if text[k] == "(": depth += 1
            elif text[k] == ")":
                depth -= 1
                if depth == 0: break
            k += 1
        inner = text[j + 2:k]
        if "$(" in inner: fail("macro_expand: nested repetition")
        m = re.match(r"\s*([,;]?)\s*([+*?])", text[k + 1:])
        if not m: fail("macro_expand: repetition without `+`/`*`/`?`")
        sep, kind = m.group(1), m.group(2)
        names = re.findall(r"\$(\w+)", inner)
        if kind == "?":
            if any(n in binds for n in names): out += macro_expand(inner, binds)
        else:
            lists = [n for n in names if isinstance(binds.get(n), list)]
            if not lists: fail(f"macro_expand: repetition over unbound metavariables {names}")
            cnt = len(binds[lists[0]])
            parts = []
            for idx in range(cnt):
                b2 = dict(binds)
                for n in lists: b2[n] = binds[n][idx]
                parts.append(macro_expand(inner, b2))
            out += ((sep + " ") if sep else " ").join(parts)
        i = k + 1 + m.end()
    def sub(m):
        n = m.group(1)
        if n not in binds: fail(f"macro_expand: metavariable ${n} is not bound by the registration")
        if isinstance(binds[n], list): fail(f"macro_expand: list metavariable ${n} outside a repetition")
        return binds[n]
    return re.sub(r"\$(\w+)", sub, out)

def check_invocation(src, macro, args):
    """the registered instantiation must be an actual invocation: `macro!(<args text>` occurs in the file (whitespace-insensitive)"""
    want = re.sub(r"\s+", "", f"{macro}!({args}")
    if want not in re.sub(r"\s+", "", src).replace(macro + "!{", macro + "!("): fail(f"invocation `{macro}!({args} ..)` not found")

def pretty_tokens(t):
    """single-space separated tokens -> readable source text (doc comments only)"""
    t = re.sub(r" ?:: ?", "::", t)
    t = re.sub(r" ([,;)\]>.])", r"\1", t)
    t = re.sub(r"([(\[<.&!]) ", r"\1", t)
    t = re.sub(r"(\w) ([(<!])", r"\1\2", t)
    t = re.sub(r"= >", "=>", t)
    return t

def translate_body(ctx, spec, read_src):
    """-> (Lean definition text, callee record)"""
    global SCALAR_TYPES, GENERIC_COLOURS, STRUCT_RENAME
    saved = (SCALAR_TYPES, GENERIC_COLOURS, STRUCT_RENAME)
    SCALAR_TYPES = SCALAR_TYPES | set(spec.get("scalars", ()))
    GENERIC_COLOURS = set(spec.get("colours", ()))
    STRUCT_RENAME = dict(spec.get("structs", {}))
    try:
        return translate_body_(ctx, spec, read_src)
    finally:
        SCALAR_TYPES, GENERIC_COLOURS, STRUCT_RENAME = saved

def translate_body_(ctx, spec, read_src):
    src = read_src(spec["file"])
    inv_text = None
    if spec.get("expand"):
        # the body is read from the expansion of an actual macro invocation (tools/rust_macros.py): (file of the invocation, macro, first token)
        if ctx.engine is None: fail("`expand` in a family without macro engine")
        try:
            text, inv_text = ctx.engine.expand_invocation(*spec["expand"])
        except rust_macros.MacroError as e:
            fail(f"macro expansion of {spec['expand'][1]}! in {spec['expand'][0]}: {e}")
        params, ret, body = find_fn(text, spec["where"], spec["fn"], spec.get("nth", 0))
    else:
        params, ret, body = find_fn(src, spec["where"], spec["fn"], spec.get("nth", 0))
    if spec.get("invocation_rx"):      # (file, regex): the registered instantiation must be an actual invocation
        if not re.search(spec["invocation_rx"][1], read_src(spec["invocation_rx"][0])): fail(f"invocation /{spec['invocation_rx'][1]}/ not found in {spec['invocation_rx'][0]}")
    if spec.get("macro_args"):
        inv = spec.get("invocation")
        if inv: check_invocation(read_src(inv[0]), inv[1], inv[2])
        params, ret, body = (macro_expand(x, spec["macro_args"]) for x in (params, ret, body))
    self_ty = spec.get("self_ty")
    if self_ty is None and spec["where"] and not spec.get("expand"):
        m = re.search(r"\bfor\s+(\w+)", re.search(spec["where"], src).group(0))
        if m: self_ty = m.group(1)
    subst = {}
    for k, (f, rx) in (spec.get("subst") or {}).items():
        m = re.search(rx, read_src(f))
        if not m: fail(f"associated constant {k}: /{rx}/ not found in {f}")
        subst[k] = m.group(1)
    holes = [(parse_expr(k), Val(lname(n), "T")) for k, n in (spec.get("holes") or {}).items()]
    consts = module_consts(src)
    for f in spec.get("consts_from") or ():       # constants of another module, used qualified (`ok_utils::MAX_SRGB_SATURATION_INACCURACY`)
        mod = re.sub(r"\.rs$", "", f.split("/")[-1])
        for k, v in module_consts(read_src(f)).items(): consts[mod + "::" + k] = v
    lo = Lower(ctx, self_ty=self_ty, kmode=spec.get("k", "sci"), consts=consts, typeid=spec.get("typeid"),
               wp="wp" if spec.get("wp") else None, subst=subst, prims=spec.get("prims"), mask=spec.get("mask", "bool"), holes=holes,
               scalars=spec.get("scalars", ()))
    env, binders, ptys = {}, [], []
    if spec.get("wp"): binders.append("(wp : V3 α)")
    for _, hv in holes:
        binders.append(f"({hv.code} : α)"); ptys.append("T")
    for p in split_top(params):
        p = p.strip()
        if not p: continue
        if re.sub(r"\s+", " ", p) in ("self", "&self", "mut self", "&mut self", "& self", "& mut self"):
            if "self" in (spec.get("skip_params") or ()): continue
            ty = ty_of(ctx, "Self", self_ty); n = "self"
        else:
            m = re.match(r"(?:mut\s+)?(\w+)\s*:\s*(.+)$", p, re.S)
            if not m: fail(f"parameter {p!r}")
            n = m.group(1)
            if n in (spec.get("skip_params") or ()): continue      # replaced by the holes of the registration
            ty = (spec.get("ptypes") or {}).get(n) or ty_of(ctx, m.group(2), self_ty)
        env[n] = Val(lname(n) if n != "self" else "self_", ty)
        binders.append(f"({env[n].code} : {lean_ty(ty)})")
        ptys.append(ty)
    blk = parse_block(body)
    if spec.get("inout"):
        # a `&mut self` method (or `mut self` one ending in `self`): the value is the final state of the receiver
        if blk[2] is not None or ret.strip(): fail(f"inout body with a value of its own")
        if spec["inout"] not in env: fail(f"inout parameter {spec['inout']} not found")
        blk = ("block", blk[1], ("path", [spec["inout"]], []))
        rty = env[spec["inout"]].ty
    else:
        rty = spec.get("rty") or ty_of(ctx, ret, self_ty)
    v = lo.stmts(blk[1], 0, blk[2], env)
    if v.ty == "P" and rty == "B": v = Val(lo.as_bool(v), "B")
    ok = v.ty == rty or (v.ty not in ("T", "B", "P", "C") and rty not in ("T", "B", "P", "C") and v.ty[0] == "V3" and rty[0] == "V3")
    if not ok: fail(f"body has type {v.ty!r}, signature says {rty!r}")
    unused = [k for k in (spec.get("typeid") or {}) if k not in lo.typeids_seen]
    if unused: fail(f"registered TypeId comparison(s) {unused} do not occur in the body any more")
    inst = "[Scalar α]" + (" " + spec["inst"] if spec.get("inst") else "") + (" [Angle α]" if lo.uses_angle else "") + (" {β : Type} [Scalar β] [ViaF64 α β]" if lo.uses_viaf64 else "")
    where = spec.get("label") or spec["where"] or ""
    doc = f"/-- `{spec['file']}`: `fn {spec['fn']}`" + (f" of `{where}`" if where else "") + \
          (f", branch {spec['typeid']}" if spec.get("typeid") else "") + (f", with {subst}" if subst else "") + \
          (f", instantiated at `{spec['invocation'][1]}!({spec['invocation'][2]})` ({spec['invocation'][0]})" if spec.get("invocation") else "") + \
          (f", in the expansion of `{spec['expand'][1]}!({pretty_tokens(inv_text)[:170]})` ({spec['expand'][0]})" if inv_text is not None else "") + \
          (f" (#{spec['nth']})" if spec.get("nth") else "") + \
          (f", `Self` = `{self_ty}`" if spec.get("self_ty") and spec["where"] and ("trait" in (where or "") or (where or "").endswith(" for T")) else "") + \
          ("".join(f", `{k}` as the parameter `{n}`" for k, n in (spec.get("holes") or {}).items())) + " -/"
    text = f"{doc}\ndef {spec['name']} {{α : Type}} {inst} {' '.join(binders)} : {lean_ty(rty)} :=\n{indent(reflow(v.code), 2)}\n"
    rec = dict(lean="Gen.Body." + spec["name"], params=ptys, ret=rty, angle=lo.uses_angle, viaf64=lo.uses_viaf64,
               extra=["wp"] if spec.get("wp") else [], mutates=bool(spec.get("inout")))
    return text, rec

def make_ctx(read_src):
    ctx = Ctx(read_src)
    ctx.type_files = dict(COLOR_FILES)
    rgb = read_src("rgb.rs")
    for m in re.finditer(r"pub type (\w+)<[^>]*>\s*=\s*Rgb<", rgb): ctx.aliases[m.group(1)] = "Rgb"
    if "LinSrgb" not in ctx.aliases: fail("alias LinSrgb = Rgb<..> not found in rgb.rs")
    for k, d in INTRINSICS.items(): ctx.fns[k] = d
    return ctx

def translate_all(ctx, bodies, read_src, tie_text, tie_file="Tie_Bodies.lean"):
    """translate `bodies` in order (callees first), registering each under its Rust spellings; every body with a model function must
    have its `tie_<name>` theorem in `tie_text` stating `Gen.Body.<name>` against that model function"""
    defs = []
    registry = {}
    for spec in bodies:
        try:
            if spec.get("mono"):
                text, rec = translate_mono(ctx, spec, read_src, registry), None
                registry[("max", spec["mono"][0]) if spec["fn"] == "max_intensity" else spec["mono"]] = "Gen.Body." + spec["name"]
            else:
                text, rec = translate_body(ctx, spec, read_src)
        except Untranslatable as e:
            raise Untranslatable(f"body {spec['name']} ({spec['file']}: fn {spec['fn']}): {e}")
        defs.append(text)
        for k in spec.get("as_fn", []): ctx.fns[k] = rec
        for k in spec.get("as_method", []):
            ctx.methods[tuple(k)] = dict(rec, hint=spec["hint"]) if spec.get("hint") else rec
        if spec["model"] is not None:
            m = re.search(r"\btheorem\s+tie_" + spec["name"] + r"\b(.*?):=", tie_text, re.S)
            if not m:
                raise Untranslatable(f"body {spec['name']} is translated but lean/PaletteProofs/{tie_file} has no theorem tie_{spec['name']}")
            if not (re.search(r"Gen\.Body\." + spec["name"] + r"\b", m.group(1)) and re.search(re.escape(spec["model"]) + r"(?![\w.])", m.group(1))):
                raise Untranslatable(f"theorem tie_{spec['name']} does not state Gen.Body.{spec['name']} = {spec['model']}")
    return defs

def verify_decls(read_src, structs, enums):
    """the registered layouts of the non-colour structs / enums are the ones the source declares (names, order, arity)"""
    for n in structs:
        info = STRUCTS2[n]
        got = [f for f, _ in struct_fields(read_src(info["file"]), info.get("rust", n))]
        want = [rf for rf, _, _ in info["fields"]]
        if got != want: fail(f"struct {n} ({info['file']}): fields {got}, registered {want}")
    for n in enums:
        info = ENUMS[n]
        got = enum_variants(read_src(info["file"]), n)
        want = [(v, len(a)) for v, (_, a) in info["variants"].items()]
        if got != want: fail(f"enum {n} ({info['file']}): variants {got}, registered {want}")

def generate_family(read_src, tie_text, fam):
    """-> text of Gen/Bodies<Fam>.lean for one of FAMILIES"""
    F = FAMILIES[fam]
    ctx = make_ctx(read_src)
    ctx.type_files.update(F.get("colour_files", {}))
    ctx.macro_structs = dict(F.get("macro_structs", {}))
    for k, d in F.get("intrinsics", {}).items():
        if isinstance(k, tuple): ctx.methods[k] = d
        else: ctx.fns[k] = d
    global EXPR_MACRO_HOOK
    EXPR_MACRO_HOOK = None
    if F.get("macro_files"):
        ctx.engine = rust_macros.Engine(read_src, tokenize, F["macro_files"])
        def hook(name, toks, eng=ctx.engine, allowed=tuple(F.get("expr_macros", ()))):
            if name not in allowed: return None
            try:
                return eng.expand_expr_macro(name, toks)
            except rust_macros.MacroError as e:
                fail(f"{name}!: {e}")
        EXPR_MACRO_HOOK = hook
    try:
        verify_decls(read_src, F.get("structs", []), F.get("enums", []))
    except Untranslatable as e:
        raise Untranslatable(f"family {fam}: {e}")
    for (file, fn, reading, digest) in F.get("pins", []):
        # plumbing that is *read* (not translated): its text is pinned, so that a change of what the reading stands for stops the run
        params, ret, body = find_fn(read_src(file), None, fn)
        got = hashlib.sha256(re.sub(r"\s+", "", params + "->" + ret + body).encode()).hexdigest()[:16]
        if got != digest:
            raise Untranslatable(f"family {fam}: `{fn}` ({file}) is read as {reading}, registered for the text with digest {digest}; the text now has digest {got} "
                                 f"(re-read the function, adapt the reading in Lower.zip_loop / BodyPrimExt.lean if needed, then update the digest)")
    bodies = F["bodies"](read_src) if callable(F["bodies"]) else F["bodies"]      # a family may derive its registrations from the invocations it finds
    try:
        defs = translate_all(ctx, bodies, read_src, tie_text, F["tie"])
    finally:
        EXPR_MACRO_HOOK = None
    F = dict(F, bodies=bodies)
    tied = [s for s in F["bodies"] if s["model"]]
    head = [f"/- GENERATED by tools/extract.py (tools/rust2lean.py, family `{fam}`) from the function bodies of palette/src -- do not edit",
            "",
            f"  {F['what']}",
            "  Each definition is the translation of the *current* text of one Rust function / macro body / loop statement (named in its doc",
            "  comment) into a Lean term over `class Scalar`; conventions in the header of tools/rust2lean.py, primitives in",
            f"  PaletteModel/BodyPrim.lean and PaletteModel/BodyPrimExt.lean.  `PaletteProofs/{F['tie']}` proves for every `[Scalar α]`:",
            ] + ["    " + ", ".join(f"{s['name']} = {s['model']}" for s in tied[i:i + 3]) for i in range(0, len(tied), 3)] + [
            "  Helpers translated and unfolded inside those proofs (no model function of their own): "
            + (", ".join(s["name"] for s in F["bodies"] if not s["model"]) or "none"),
            "",
            "  NOT translated in this family (still tied to the source by the correspondence run only):"] + \
           ["    " + u for u in F["untranslated"]] + ["-/",
            "import PaletteModel.BodyPrim", "import PaletteModel.BodyPrimExt"] + [f"import {m}" for m in F["imports"]] + [

            "", "set_option linter.unusedVariables false   -- loop variables the Rust body does not read (`for (src, dst) in ..`) stay named", "",
            "namespace Gen.Body", "",
            f"/-- names of the translated bodies of family `{fam}` that have a `tie_` theorem, with the model function they are proved equal to -/",
            f"def tied{fam.capitalize()} : List (String × String) := [\n" + ",\n".join("  " + ", ".join(f'("{s["name"]}", "{s["model"]}")' for s in tied[i:i + 3])
                                                                  for i in range(0, len(tied), 3)) + "]", ""]
    return "\n".join(head) + "\n" + "\n".join(defs) + "\nend Gen.Body\n"

def generate(read_src, tie_text):
    """-> text of Gen/Bodies.lean.  Raises Untranslatable when a registered body is not recognised any more, or when a translated
    body has no `tie_` theorem in PaletteProofs/Tie_Bodies.lean."""
    ctx = make_ctx(read_src)
    defs = translate_all(ctx, BODIES, read_src, tie_text)
    tied = [s for s in BODIES if s["model"]]
    head = ["/- GENERATED by tools/extract.py (tools/rust2lean.py) from the function bodies of palette/src -- do not edit",
            "",
            "  Each definition is the translation of the *current* text of one Rust function (file, item and function named in its",
            "  doc comment) into a Lean term over `class Scalar`; conventions in the header of tools/rust2lean.py, primitives in",
            "  PaletteModel/BodyPrim.lean.  `PaletteProofs/Tie_Bodies.lean` proves `Gen.Body.<name> = <hand-written model function>`",
            "  (`tie_<name>`) for:",
            ] + ["    " + ", ".join(f"{s['name']} = {s['model']}" for s in tied[i:i + 4]) for i in range(0, len(tied), 4)] + [
            "  Helpers translated and unfolded inside those proofs (no model function of their own): "
            + ", ".join(s["name"] for s in BODIES if not s["model"]),
            "",
            "  NOT translated (still tied to the source by the correspondence run only):"] + \
           ["    " + u for u in UNTRANSLATED] + ["-/",
            "import PaletteModel.BodyPrim", "import PaletteModel.Color.Angle", "import PaletteModel.Color.Cie", "import PaletteModel.Color.Ok",
            "", "namespace Gen.Body", "",
            "/-- names of the translated bodies that have a `tie_` theorem, with the model function they are proved equal to -/",
            "def tied : List (String × String) := [\n" + ",\n".join("  " + ", ".join(f'("{s["name"]}", "{s["model"]}")' for s in tied[i:i + 3])
                                                                  for i in range(0, len(tied), 3)) + "]", ""]
    return "\n".join(head) + "\n" + "\n".join(defs) + "\nend Gen.Body\n"

if __name__ == "__main__":
    repo = os.environ.get("PALETTE_REPO", "/repo")
    def read_src(rel): return strip_comments(open(os.path.join(repo, "palette", "src", rel)).read())
    root = os.path.dirname(os.path.dirname(os.path.abspath(__file__)))
    tie = os.path.join(root, "lean", "PaletteProofs", "Tie_Bodies.lean")
    fams = [a for a in sys.argv[1:] if a in FAMILIES]
    try:
        if fams:
            F = FAMILIES[fams[0]]
            tie = os.path.join(root, "lean", "PaletteProofs", F["tie"])
            bs = F["bodies"](read_src) if callable(F["bodies"]) else F["bodies"]
            sys.stdout.write(generate_family(read_src, open(tie).read() if os.path.exists(tie) and "--no-tie" not in sys.argv else
                                             "".join(f"theorem tie_{s['name']} : Gen.Body.{s['name']} = {s['model']} := " for s in bs), fams[0]))
            sys.exit(0)
        sys.stdout.write(generate(read_src, open(tie).read() if os.path.exists(tie) and "--no-tie" not in sys.argv else
                                  "".join(f"theorem tie_{s['name']} : Gen.Body.{s['name']} = {s['model']} := " for s in BODIES)))
    except Untranslatable as e:
        print("FAILED:", e); sys.exit(1)
