#!/usr/bin/env python3
"""
rust2lean -- translate the straight-line generic-float function bodies of palette into Lean 4 terms over `class Scalar`.

Used by tools/extract.py (`gen_bodies`): on every run the *formula bodies* of the colour conversions are re-read from
/repo, parsed (a real tokenizer + Pratt parser for the expression/statement subset of Rust those bodies use) and
lowered to `def Gen.Body.<name> [Scalar α] ...` in lean/PaletteModel/Gen/Bodies.lean.  lean/PaletteProofs/Tie_Bodies.lean
proves each of them equal to the hand-written model function the driver executes, so that a changed coefficient,
operand or comparison in the Rust source breaks a proof obligation (`tie_<name>`), not only the sampled correspondence.

Translation conventions (the same the hand-written model follows, AGENT_GUIDE.md item 1):
  * `T::from_f64(<one numeric literal>)`  -> the scientific literal at `α` (`116.0`), `T::from_f64(-4.0)` -> `-4.0`
    `T::from_f64(<anything else>)`        -> `Scalar.const (<K expression>)`, module-level `const X: f64 = lit;` inlined
    (bodies registered with `k='const'` -- the Ok family -- use `Scalar.const` for every `from_f64`, as Ok.lean does)
  * `T::zero()` / `T::one()` -> `0.0` / `1.0`;   `.clone()`, `&x`, `*x`, `.into()` between a hue and its float: identity
  * `lazy_select! { if c => a, .. else => b }`, `if c {a} else {b}`, `m.select(a, b)`, `m.lazy_select(|| a, || b)` -> `if c then a else b`
  * comparisons are `Prop`s in the orientation of `<`/`≤` (`a.gt(&b)`, `a > b` -> `b < a`), `==`/`.eq` -> `Scalar.eqv`;
    a mask that is stored in a variable or combined with `|`/`&`/`||`/`&&`/`!` is a `Bool` (`decide (..)`, `||`, `&&`, `!`)
  * `x.powi(2)` / `x.powi(3)` -> `Prim.powi2 x` / `Prim.powi3 x` (= `x * x`, `x * x * x`), `x.recip()` -> `Prim.recip x` (= `1.0 / x`)
  * colour structs are `V3 α` in struct field order (PhantomData fields dropped; order re-read from the struct definition),
    `[T; 3]` is `V3 α`, tuples are Lean tuples, destructuring is projection
  * `let mut` + assignment: shadowing `let`; an `if` statement that assigns outer variables rebinds them from a tuple-valued `if`;
    `if c { return a; }` -> `if c then a else <rest of the block>`; `for _ in 0..N { .. }` -> `Prim.iterate N (fun v => ..) v`
  * `TypeId::of::<A>() == TypeId::of::<B>()` is resolved by the registration of the body (one translation per monomorphic branch)
Anything outside this subset raises `Untranslatable` (extract.py turns that into `die`, i.e. `broken[extraction]`).
"""
import re

class Untranslatable(Exception):
    pass

def fail(msg):
    raise Untranslatable(msg)

# ------------------------------------------------------------------------------------------------ tokens
TOK = re.compile(r"""
  (?P<ws>\s+)
 |(?P<num>\d[\d_]*(?:\.\d[\d_]*)?(?:[eE][+-]?\d+)?(?:_?(?:f32|f64|usize|u8|u16|u32|i32))?)
 |(?P<id>[A-Za-z_][A-Za-z0-9_]*)
 |(?P<life>'[A-Za-z_][A-Za-z0-9_]*)
 |(?P<op>::|->|=>|==|!=|<=|>=|&&|\|\||\.\.=|\.\.|\+=|-=|\*=|/=|[-+*/%=<>!&|.,;:(){}\[\]\#?$@^])
""", re.X)

def strip_comments(src):
    src = re.sub(r"/\*.*?\*/", "", src, flags=re.S)
    return re.sub(r"//[^\n]*", "", src)

def tokenize(src):
    out, i = [], 0
    while i < len(src):
        m = TOK.match(src, i)
        if not m: fail(f"cannot tokenize at {src[i:i+30]!r}")
        i = m.end()
        k = m.lastgroup
        if k == "ws": continue
        out.append((k, m.group(0)))
    return out

# ------------------------------------------------------------------------------------------------ parser
BINOPS = {  # operator -> (left binding power, right binding power)
    "*": (70, 71), "/": (70, 71), "%": (70, 71),
    "+": (60, 61), "-": (60, 61),
    "&": (50, 51), "^": (45, 46), "|": (40, 41),
    "==": (30, 31), "!=": (30, 31), "<": (30, 31), ">": (30, 31), "<=": (30, 31), ">=": (30, 31),
    "&&": (20, 21), "||": (15, 16),
    "..": (10, 11),
}
UNARY_BP = 80

class Parser:
    def __init__(self, toks):
        self.t, self.i = toks, 0

    def peek(self, k=0):
        j = self.i + k
        return self.t[j] if j < len(self.t) else ("eof", "")

    def at(self, v, k=0): return self.peek(k)[1] == v and self.peek(k)[0] != "num"
    def next(self):
        x = self.peek(); self.i += 1; return x
    def eat(self, v):
        if self.at(v): self.i += 1; return True
        return False
    def expect(self, v):
        if not self.eat(v): fail(f"expected {v!r}, found {self.peek()[1]!r} (token {self.i}: ...{' '.join(x[1] for x in self.t[max(0, self.i-8):self.i+4])})")

    # ---- helpers that skip what the translation does not look at
    def skip_angles(self):
        """at `<`: skip the balanced generic argument list, return its text"""
        self.expect("<"); depth, txt = 1, []
        while depth:
            k, v = self.next()
            if k == "eof": fail("unbalanced <>")
            if v == "<": depth += 1
            elif v == ">": depth -= 1
            if depth: txt.append(v)
        return " ".join(txt)

    def skip_type(self, stops):
        """skip a type up to (not including) one of `stops` at bracket depth 0; returns its text"""
        depth, txt = 0, []
        while True:
            k, v = self.peek()
            if k == "eof": fail("unterminated type")
            if depth == 0 and v in stops and k != "num": break
            if v in "<([": depth += 1
            elif v in ">)]": depth -= 1
            txt.append(v); self.i += 1
        return " ".join(txt)

    def balanced(self):
        """at an opening bracket: the token list strictly inside the balanced pair"""
        open_ = self.next()[1]
        close = {"(": ")", "{": "}", "[": "]"}[open_]
        depth, start = 1, self.i
        while depth:
            k, v = self.next()
            if k == "eof": fail("unbalanced " + open_)
            if k != "num" and v in "({[": depth += 1
            elif k != "num" and v in ")}]": depth -= 1
        return self.t[start:self.i - 1]

    # ---- patterns
    def pattern(self):
        if self.eat("("):
            ps = []
            while not self.at(")"):
                ps.append(self.pattern())
                if not self.eat(","): break
            self.expect(")")
            return ("ptuple", ps)
        if self.eat("["):
            ps = []
            while not self.at("]"):
                ps.append(self.pattern())
                if not self.eat(","): break
            self.expect("]")
            return ("parray", ps)
        self.eat("&")
        mut = self.eat("mut")
        k, v = self.next()
        if k != "id": fail(f"pattern: unexpected {v!r}")
        if v == "_": return ("pwild",)
        name = v
        while self.at("::"):
            self.i += 1
            if self.at("<"): self.skip_angles()
            else: name = self.next()[1]
        if self.at("{"):
            self.i += 1
            fields, rest = [], False
            while not self.at("}"):
                if self.eat(".."): rest = True; break
                f = self.next()[1]
                p = self.pattern() if self.eat(":") else ("pid", f, False)
                fields.append((f, p))
                if not self.eat(","): break
            self.expect("}")
            return ("pstruct", name, fields, rest)
        return ("pid", name, mut)

    # ---- expressions
    def expr(self, bp=0, no_struct=False):
        lhs = self.prefix(no_struct)
        while True:
            k, v = self.peek()
            if k == "num" or v not in BINOPS: break
            l, r = BINOPS[v]
            if l < bp: break
            self.i += 1
            if v == ".." and (self.at(")") or self.at("]") or self.at("}") or self.at(",") or self.at(";")):
                lhs = ("range", lhs, None); continue
            rhs = self.expr(r, no_struct)
            lhs = ("range", lhs, rhs) if v == ".." else ("binary", v, lhs, rhs)
        return lhs

    def prefix(self, no_struct):
        k, v = self.peek()
        if k != "num" and v in ("-", "!", "&", "*"):
            self.i += 1
            if v == "&": self.eat("mut")
            e = self.expr(UNARY_BP, no_struct)
            return ("unary", v, e)
        if k != "num" and v == "||":       # closure without parameters
            self.i += 1
            return ("closure", [], self.expr(0, no_struct))
        if k != "num" and v == "|":
            self.i += 1
            params = []
            while not self.at("|"):
                p = self.pattern()
                ty = None
                if self.eat(":"): ty = self.skip_type(("|", ","))
                params.append((p, ty))
                if not self.eat(","): break
            self.expect("|")
            return ("closure", params, self.expr(0, no_struct))
        if k == "id" and v == "return":
            self.i += 1
            if self.at(";") or self.at("}"): return ("return", None)
            return ("return", self.expr(0, no_struct))
        return self.postfix(self.atom(no_struct), no_struct)

    def path(self):
        """ident (:: ident | :: <..>)*  ->  ("path", [segments], [generic argument texts])"""
        segs, gens = [], []
        if self.at("<"):   # qualified path `<A as B>::c`
            gens.append(self.skip_angles()); segs.append("<qualified>")
        else:
            segs.append(self.next()[1])
        while self.at("::"):
            self.i += 1
            if self.at("<"): gens.append(self.skip_angles())
            else: segs.append(self.next()[1])
        return ("path", segs, gens)

    def atom(self, no_struct):
        k, v = self.peek()
        if k == "num":
            self.i += 1
            return ("num", v)
        if v == "(":
            self.i += 1
            if self.eat(")"): return ("tuple", [])
            e = self.expr()
            if self.eat(")"): return e
            items = [e]
            while self.eat(","):
                if self.at(")"): break
                items.append(self.expr())
            self.expect(")")
            return ("tuple", items)
        if v == "[":
            self.i += 1
            items = []
            while not self.at("]"):
                items.append(self.expr())
                if not self.eat(","): break
            self.expect("]")
            return ("array", items)
        if v == "{":
            return self.block()
        if k == "id" and v == "if":
            return self.if_expr()
        if k == "id" and v == "for":
            self.i += 1
            p = self.pattern()
            if self.next()[1] != "in": fail("for: expected `in`")
            it = self.expr(0, True)
            return ("for", p, it, self.block())
        if k == "id" and v in ("match", "while", "loop", "unsafe"):
            fail(f"`{v}` is outside the translated subset")
        if k == "id" or v == "<":
            p = self.path()
            if self.at("!") and self.peek(1)[1] in ("(", "{", "["):
                self.i += 1
                toks = self.balanced()
                name = p[1][-1]
                if name == "lazy_select": return self.lazy_select(toks)
                fail(f"macro {name}! is outside the translated subset")
            last = p[1][-1]
            if self.at("{") and not no_struct and (last[:1].isupper() or last == "Self"):
                self.i += 1
                fields, base = [], None
                while not self.at("}"):
                    if self.eat(".."):
                        base = self.expr(); break
                    f = self.next()[1]
                    e = self.expr() if self.eat(":") else ("path", [f], [])
                    fields.append((f, e))
                    if not self.eat(","): break
                self.expect("}")
                return ("struct", p, fields, base)
            return p
        fail(f"unexpected token {v!r}")

    def lazy_select(self, toks):
        q = Parser(toks)
        arms, other = [], None
        while q.peek()[0] != "eof":
            if q.eat("if"):
                c = q.expr()
                q.expect("=>")
                e = q.expr()
                arms.append((c, e))
            elif q.eat("else"):
                q.expect("=>")
                other = q.expr()
            else: fail(f"lazy_select!: unexpected {q.peek()[1]!r}")
            q.eat(",")
        if not arms or other is None: fail("lazy_select!: needs `if` arms and an `else` arm")
        return ("lazy_select", arms, other)

    def if_expr(self):
        self.expect("if")
        if self.at("let"): fail("`if let` is outside the translated subset")
        c = self.expr(0, True)
        th = self.block()
        el = None
        if self.eat("else"):
            el = self.if_expr() if self.at("if") else self.block()
        return ("if", c, th, el)

    def postfix(self, e, no_struct):
        while True:
            if self.at("("):
                self.i += 1
                args = []
                while not self.at(")"):
                    args.append(self.expr())
                    if not self.eat(","): break
                self.expect(")")
                e = ("call", e, args)
            elif self.at("."):
                k, v = self.peek(1)
                if k == "num":
                    self.i += 2
                    if not re.fullmatch(r"\d+", v): fail(f"tuple index {v!r}")
                    e = ("index", e, int(v))
                elif k == "id":
                    self.i += 2
                    gens = []
                    if self.at("::"):
                        self.i += 1; gens.append(self.skip_angles())
                    if self.at("("):
                        self.i += 1
                        args = []
                        while not self.at(")"):
                            args.append(self.expr())
                            if not self.eat(","): break
                        self.expect(")")
                        e = ("mcall", e, v, args, gens)
                    else:
                        e = ("field", e, v)
                else: break
            elif self.at("?"):
                fail("`?` is outside the translated subset")
            elif self.peek()[0] == "id" and self.peek()[1] == "as":
                fail("`as` casts are outside the translated subset")
            else: break
        return e

    def block(self):
        self.expect("{")
        stmts, tail = [], None
        while not self.at("}"):
            if self.eat(";"): continue
            if self.at("let"):
                self.i += 1
                p = self.pattern()
                ty = None
                if self.eat(":"): ty = self.skip_type(("=", ";"))
                init = None
                if self.eat("="): init = self.expr()
                self.expect(";")
                stmts.append(("let", p, ty, init))
                continue
            if self.at("#"):       # attribute on a statement
                self.i += 1; self.balanced(); continue
            e = self.expr()
            k, v = self.peek()
            if k != "num" and v in ("=", "+=", "-=", "*=", "/="):
                self.i += 1
                rhs = self.expr()
                self.expect(";")
                if v != "=": rhs = ("binary", v[0], e, rhs)
                stmts.append(("assign", e, rhs))
                continue
            if self.eat(";"):
                stmts.append(("expr", e)); continue
            if self.at("}"):
                tail = e; break
            if e[0] in ("if", "for", "block"):
                stmts.append(("expr", e)); continue
            fail(f"statement: unexpected {self.peek()[1]!r} after expression")
        self.expect("}")
        return ("block", stmts, tail)

def parse_block(src):
    """`{ ... }` source text -> block AST"""
    p = Parser(tokenize(strip_comments(src)))
    b = p.block()
    if p.peek()[0] != "eof": fail("trailing tokens after block")
    return b

def parse_expr(src):
    p = Parser(tokenize(strip_comments(src)))
    e = p.expr()
    if p.peek()[0] != "eof": fail(f"trailing tokens after expression: {p.peek()[1]!r}")
    return e

# ------------------------------------------------------------------------------------------------ source lookup
def match_brace(src, i):
    depth = 0
    for j in range(i, len(src)):
        if src[j] == "{": depth += 1
        elif src[j] == "}":
            depth -= 1
            if depth == 0: return j + 1
    fail("unbalanced braces")

def find_fn(src, where, fn):
    """(parameter text, return type text, body text incl. braces) of `fn <fn>` inside the first item whose header matches the
    regex `where` (None: whole file).  `src` has comments stripped."""
    if where is not None:
        m = re.search(where, src)
        if not m: fail(f"item /{where}/ not found")
        i = src.index("{", m.end() - 1)
        scope = src[i:match_brace(src, i)]
    else:
        scope = src
    for m in re.finditer(r"\bfn\s+" + re.escape(fn) + r"\b\s*", scope):
        i = m.end()
        if i < len(scope) and scope[i] == "<":       # generic parameters (`->` inside them does not occur in the crate's signatures)
            depth = 0
            while True:
                if scope[i] == "<": depth += 1
                elif scope[i] == ">" and scope[i - 1] != "-": depth -= 1
                i += 1
                if depth == 0: break
            while scope[i].isspace(): i += 1
        if scope[i] != "(": continue
        start, depth = i + 1, 1
        i += 1
        while depth:
            if scope[i] == "(": depth += 1
            elif scope[i] == ")": depth -= 1
            i += 1
        params = scope[start:i - 1]
        j = scope.find("{", i)
        k = scope.find(";", i)
        if j < 0 or 0 <= k < j: continue            # a declaration without body (trait method)
        head = scope[i:j]
        rm = re.match(r"\s*->\s*(.*?)\s*(?:\bwhere\b.*)?$", head, re.S)
        ret = rm.group(1).strip() if rm else ""
        return params, ret, scope[j:match_brace(scope, j)]
    fail(f"fn {fn} not found" + (f" in /{where}/" if where else ""))

def split_top(s, sep=","):
    out, depth, cur = [], 0, ""
    for ch in s:
        if ch in "([{<": depth += 1
        elif ch in ")]}>": depth -= 1
        if ch == sep and depth == 0: out.append(cur); cur = ""
        else: cur += ch
    if cur.strip(): out.append(cur)
    return out

def struct_fields(src, name):
    """[(field, type text)] of `pub struct <name><..> { .. }` without PhantomData fields, in declaration order"""
    m = re.search(r"\bstruct\s+" + name + r"\b[^{;(]*\{", src)
    if not m: fail(f"struct {name} not found")
    body = src[m.end() - 1:match_brace(src, m.end() - 1)][1:-1]
    body = re.sub(r"#\[[^\]]*\]", "", body)
    out = []
    for part in split_top(body):
        mm = re.match(r"\s*(?:pub(?:\([^)]*\))?\s+)?(\w+)\s*:\s*(.+?)\s*$", part, re.S)
        if not mm: fail(f"struct {name}: field {part!r}")
        if mm.group(2).startswith("PhantomData"): continue
        out.append((mm.group(1), mm.group(2)))
    return out

# ------------------------------------------------------------------------------------------------ lowering
class Val:
    """a lowered expression: Lean source text and the (coarse) type used for dispatch
       types: 'T' scalar (also hues) | 'B' Bool | 'P' Prop | ('V3', name|None) | ('S', name) | ('tup', [..]) | 'M3' | ('fn', [..], ret)
              | ('typeid', text) | 'unit'"""
    __slots__ = ("code", "ty")
    def __init__(self, code, ty): self.code, self.ty = code, ty

def lean_ty(ty):
    if ty == "T": return "α"
    if ty == "B": return "Bool"
    if ty == "P": return "Prop"
    if ty == "M3": return "M3 α"
    if ty == "unit": return "Unit"
    if ty[0] == "V3": return "V3 α"
    if ty[0] == "S": return f"{STRUCTS[ty[1]][0]} α"
    if ty[0] == "tup": return "(" + " × ".join(lean_ty(t) for t in ty[1]) + ")"
    if ty[0] == "fn": return "(" + " → ".join(lean_ty(t) for t in ty[1] + [ty[2]]) + ")"
    fail(f"no Lean type for {ty!r}")

def tup_proj(code, i, n):
    """projection i of an n-tuple (right-nested pairs)"""
    s = code
    for _ in range(i): s += ".2"
    if i < n - 1: s += ".1"
    return s

LEAN_RESERVED = {"at", "from", "fun", "then", "do", "in", "open", "show", "have", "end", "by", "let", "if", "else", "match", "with",
                 "where", "instance", "class", "def", "theorem", "variable", "universe", "namespace", "section", "import", "export",
                 "mutual", "local", "private", "protected", "macro", "syntax", "notation", "prefix", "infix", "postfix", "using",
                 "calc", "exists", "forall", "Type", "Prop", "Sort", "deriving", "extends", "structure", "inductive", "abbrev",
                 "example", "axiom", "opaque", "partial", "unsafe", "noncomputable", "nomatch", "nofun", "return", "for", "try",
                 "catch", "finally", "unless", "mut", "break", "continue", "true", "false", "suffices", "obtain", "set", "this"}

def lname(n):
    return n + "_r" if n in LEAN_RESERVED else n

# non-colour structs of ok_utils.rs: Rust name -> (Lean structure of the model, [(rust field, lean field)])
STRUCTS = {
    "LC": ("Ok.LC", [("lightness", "lightness"), ("chroma", "chroma")]),
    "ST": ("Ok.ST", [("s", "s"), ("t", "t")]),
    "ChromaValues": ("Ok.Cs", [("zero", "zero"), ("mid", "mid"), ("max", "max")]),
}

# scalar primitives: trait methods of `num.rs`/`angle.rs` implemented for f32/f64 by the standard library (class fields of Scalar / Angle)
PRIM1 = {"sqrt": "Scalar.sqrt", "cbrt": "Scalar.cbrt", "abs": "Scalar.abs", "sin": "Scalar.sin", "cos": "Scalar.cos", "floor": "Scalar.floor",
         "ceil": "Scalar.ceil", "round": "Scalar.round", "exp": "Scalar.exp", "ln": "Scalar.ln", "recip": "Prim.recip",
         "degrees_to_radians": "Angle.degToRad", "radians_to_degrees": "Angle.radToDeg", "is_valid_divisor": "Scalar.isValidDivisor"}
PRIM2 = {"max": "Scalar.max", "min": "Scalar.min", "powf": "Scalar.powf", "atan2": "Scalar.atan2", "hypot": "Angle.hypot"}
PRIM3 = {"mul_add": "Scalar.mulAdd", "mul_sub": "Scalar.mulSub"}
ANGLE_PRIMS = {"Angle.degToRad", "Angle.radToDeg", "Angle.hypot", "Angle.pi"}
IDENTITY_METHODS = {"clone", "with_white_point", "is_true", "into_inner", "into_raw_degrees", "reinterpret_as", "borrow", "to_owned"}
CMP_METHODS = {"gt": ("<", True), "lt": ("<", False), "gt_eq": ("≤", True), "lt_eq": ("≤", False)}
CMP_OPS = {">": ("<", True), "<": ("<", False), ">=": ("≤", True), "<=": ("≤", False)}

class Ctx:
    """what a translation unit knows about the crate: struct layouts, registered callees, constants"""
    def __init__(self, read_src):
        self.read_src = read_src          # rel path under palette/src -> comment-stripped text
        self.type_files = {}              # colour struct -> [files]
        self.aliases = {}                 # type alias -> struct
        self.fns = {}                     # rust callee key -> dict(lean=.., params=[ty], ret=ty, extra=[codes], angle=bool)
        self.methods = {}                 # (struct name, method) -> same kind of dict, receiver is the first parameter
        self._fields = {}

    def resolve(self, name):
        return self.aliases.get(name, name)

    def fields(self, name):
        name = self.resolve(name)
        if name not in self._fields:
            if name not in self.type_files: fail(f"unknown colour struct {name}")
            self._fields[name] = [f for f, _ in struct_fields(self.read_src(self.type_files[name][0]), name)]
            if len(self._fields[name]) != 3: fail(f"struct {name}: {len(self._fields[name])} non-phantom fields, V3 expects 3")
        return self._fields[name]

    def new_params(self, name):
        """parameter names of `<name>::new`, checked to be exactly the struct's fields (mapped by name)"""
        name = self.resolve(name)
        src = self.read_src(self.type_files[name][0])
        params, _, _ = find_fn(src, None, "new")
        ps = [re.match(r"\s*(?:mut\s+)?(\w+)\s*:", p).group(1) for p in split_top(params)]
        if sorted(ps) != sorted(self.fields(name)): fail(f"{name}::new parameters {ps} are not the fields {self.fields(name)}")
        return ps

class Lower:
    def __init__(self, ctx, self_ty=None, kmode="sci", consts=None, typeid=None, wp=None, subst=None):
        self.ctx = ctx
        self.self_ty = self_ty            # name the path `Self` denotes
        self.kmode = kmode                # 'sci' | 'const'
        self.consts = consts or {}        # module-level numeric constants: name -> literal text
        self.typeid = typeid or {}        # "A == B" -> bool
        self.wp = wp                      # Lean name of the white point parameter (`Wp::get_xyz()`), if any
        self.subst = subst or {}          # associated constants of type parameters fixed by the registration, e.g. {"N::VALUE": "2.2"}
        self.uses_angle = False
        self.uses_viaf64 = False          # `luv_bounds.rs` computes in f64 whatever `T` is (class ViaF64 of Cie.lean)
        self.fresh = 0
        self.typeids_seen = []
        self.hint = None                  # type annotation of the `let` whose initialiser is being lowered

    # ---- small helpers
    def tmp(self, base="d"):
        self.fresh += 1
        return f"_{base}{self.fresh}"

    def sci(self, lit):
        lit = re.sub(r"_?(f32|f64)$", "", lit).replace("_", "")
        if re.fullmatch(r"\d+", lit): lit += ".0"
        if not re.fullmatch(r"\d+\.\d+|\d+(\.\d+)?[eE]-?\d+", lit): fail(f"numeric literal {lit!r}")
        return lit

    def as_bool(self, v):
        if v.ty == "B": return v.code
        if v.ty == "P": return f"decide ({v.code})"
        fail(f"mask expected, found {v.ty!r}: {v.code}")

    def as_cond(self, v):
        if v.ty in ("B", "P"): return v.code
        fail(f"condition expected, found {v.ty!r}: {v.code}")

    def scalar(self, v, what=""):
        if v.ty != "T": fail(f"scalar expected{what}, found {v.ty!r}: {v.code}")
        return v.code

    # ---- constants
    def k_expr(self, e):
        """f64 constant expression -> Lean `K` term"""
        if e[0] == "num": return f"({self.sci(e[1])} : K)"
        if e[0] == "unary" and e[1] == "-": return f"(-{self.k_expr(e[2])})"
        if e[0] == "binary" and e[1] in "+-*/": return f"({self.k_expr(e[2])} {e[1]} {self.k_expr(e[3])})"
        if e[0] == "path":
            key = "::".join(e[1])
            if key in self.subst: return f"({self.sci(self.subst[key])} : K)"
            if len(e[1]) == 1 and e[1][0] in self.consts: return f"({self.sci(self.consts[e[1][0]])} : K)"
        fail(f"not a constant expression: {e!r}")

    def from_f64(self, e):
        if e[0] == "path" and "::".join(e[1]) in self.subst:
            e = ("num", self.subst["::".join(e[1])])
        if e[0] == "path" and e[1] == ["core", "f64", "consts", "PI"]:
            self.uses_angle = True
            return Val("Angle.pi", "T")
        if self.kmode == "sci":
            if e[0] == "num": return Val(f"({self.sci(e[1])} : α)", "T")
            if e[0] == "unary" and e[1] == "-" and e[2][0] == "num": return Val(f"(-({self.sci(e[2][1])} : α))", "T")
        return Val(f"(Scalar.const {self.k_expr(e)} : α)", "T")

    # ---- expressions
    def expr(self, e, env):
        k = e[0]
        if k == "num":
            return Val(f"({self.sci(e[1])} : α)", "T")      # a bare float literal (macro bodies instantiated at f32/f64)
        if k == "path": return self.path(e, env)
        if k == "unary": return self.unary(e, env)
        if k == "binary": return self.binary(e, env)
        if k == "field": return self.field(e, env)
        if k == "index":
            r = self.expr(e[1], env)
            if r.ty == "T" and e[2] == 0: return r            # `self.0` of a hue newtype
            if r.ty[0] == "tup": return Val(tup_proj(r.code, e[2], len(r.ty[1])), r.ty[1][e[2]])
            fail(f"tuple index on {r.ty!r}")
        if k == "call": return self.call(e, env)
        if k == "mcall": return self.mcall(e, env)
        if k == "if": return self.if_value(e, env)
        if k == "lazy_select":
            other = self.expr(e[2], env)
            code = other.code
            for c, a in reversed(e[1]):
                cv, av = self.expr(c, env), self.expr(a, env)
                if av.ty != other.ty: fail(f"lazy_select!: arm types differ ({av.ty!r} / {other.ty!r})")
                code = f"(if {self.as_cond(cv)} then {av.code} else {code})"
            return Val(code, other.ty)
        if k == "block": return self.block(e, env)
        if k == "tuple":
            vs = [self.expr(x, env) for x in e[1]]
            if not vs: return Val("()", "unit")
            return Val("(" + ", ".join(v.code for v in vs) + ")", ("tup", [v.ty for v in vs]))
        if k == "array":
            vs = [self.expr(x, env) for x in e[1]]
            if len(vs) not in (3, 9) or any(v.ty != "T" for v in vs): fail("only [T; 3] and [T; 9] arrays are translated")
            if len(vs) == 9: return Val("(M3.mk " + " ".join(v.code for v in vs) + ")", "M3")
            return Val("(V3.mk " + " ".join(v.code for v in vs) + ")", ("V3", None))
        if k == "struct": return self.struct_lit(e, env)
        if k == "closure": return self.closure(e, env)
        if k == "return": fail("`return` in a position the translation cannot express (only `if c { ..; return x; }` statements are)")
        fail(f"expression kind {k!r} is outside the translated subset")

    def path(self, e, env):
        segs = e[1]
        if len(segs) == 1:
            n = segs[0]
            if n in env: return env[n]
            if n == "PhantomData": return Val("_", "phantom")
            if n in self.consts: fail(f"module constant {n} used outside T::from_f64")
            fail(f"unbound name {n!r}")
        fail(f"path {'::'.join(segs)} used as a value")

    def unary(self, e, env):
        op = e[1]
        v = self.expr(e[2], env)
        if op in ("&", "*"): return v
        if op == "-": return Val(f"(-{self.scalar(v, ' under unary -')})", "T")
        if op == "!":
            if v.ty == "B": return Val(f"(!{v.code})", "B")
            if v.ty == "P": return Val(f"(¬ {v.code})", "P")
            fail(f"`!` on {v.ty!r}")
        fail(f"unary {op}")

    def binary(self, e, env):
        op = e[1]
        a, b = self.expr(e[2], env), self.expr(e[3], env)
        if a.ty != "T" and a.ty[0] == "typeid":
            if op != "==" or b.ty[0] != "typeid": fail("TypeId used outside `==`")
            key = f"{a.ty[1]} == {b.ty[1]}"
            self.typeids_seen.append(key)
            if key not in self.typeid: fail(f"TypeId comparison `{key}` is not resolved by the registration of this body")
            return Val("True" if self.typeid[key] else "False", ("static", self.typeid[key]))
        if op in "+-*/":
            if a.ty == "T" and b.ty == "T": return Val(f"({a.code} {op} {b.code})", "T")
            if a.ty[0] == "V3" and b.ty[0] == "V3":      # impl_color_{add,sub,mul,div}!: component-wise
                return Val(f"(Prim.v3{ {'+':'Add','-':'Sub','*':'Mul','/':'Div'}[op] } {a.code} {b.code})", a.ty)
            if a.ty[0] == "V3" and b.ty == "T":          # colour (op) scalar: every component with the same scalar
                return Val(f"(Prim.v3{ {'+':'Add','-':'Sub','*':'Mul','/':'Div'}[op] }S {a.code} {b.code})", a.ty)
            fail(f"`{op}` on {a.ty!r} and {b.ty!r}")
        if op in CMP_OPS:
            rel, flip = CMP_OPS[op]
            x, y = self.scalar(a), self.scalar(b)
            return Val(f"({y} {rel} {x})" if flip else f"({x} {rel} {y})", "P")
        if op == "==": return Val(f"(Scalar.eqv {self.scalar(a)} {self.scalar(b)})", "P")
        if op == "!=": return Val(f"(¬ Scalar.eqv {self.scalar(a)} {self.scalar(b)})", "P")
        if op in ("|", "||"): return Val(f"({self.as_bool(a)} || {self.as_bool(b)})", "B")
        if op in ("&", "&&"): return Val(f"({self.as_bool(a)} && {self.as_bool(b)})", "B")
        fail(f"binary {op}")

    def field(self, e, env):
        r = self.expr(e[1], env)
        f = e[2]
        if r.ty != "T" and r.ty[0] == "V3":
            if r.ty[1] is None: fail("field of an anonymous [T; 3]")
            fs = self.ctx.fields(r.ty[1])
            if f not in fs: fail(f"{r.ty[1]} has no field {f}")
            return Val(f"{r.code}.c{fs.index(f)}", "T")
        if r.ty != "T" and r.ty[0] == "S":
            for rf, lf in STRUCTS[r.ty[1]][1]:
                if rf == f: return Val(f"{r.code}.{lf}", "T")
            fail(f"{r.ty[1]} has no field {f}")
        fail(f"field .{f} of {r.ty!r}")

    def struct_lit(self, e, env):
        name = e[1][1][-1]
        if name == "Self": name = self.self_ty
        if e[3] is not None: fail("struct update syntax `..base` is outside the translated subset")
        given = {f: self.expr(x, env) for f, x in e[2]}
        if name in STRUCTS:
            lean, fs = STRUCTS[name]
            if sorted(given) != sorted(rf for rf, _ in fs): fail(f"{name} literal: fields {sorted(given)}")
            return Val(f"({lean}.mk " + " ".join(self.scalar(given[rf]) for rf, _ in fs) + ")", ("S", name))
        name = self.ctx.resolve(name)
        fs = self.ctx.fields(name)
        extra = [f for f in given if f not in fs]
        for f in extra:
            if given[f].ty != "phantom": fail(f"{name} literal: unexpected field {f}")
        if any(f not in given for f in fs): fail(f"{name} literal: missing fields")
        return Val("(V3.mk " + " ".join(self.scalar(given[f], f" for {name}.{f}") for f in fs) + ")", ("V3", name))

    def closure(self, e, env):
        params, body = e[1], e[2]
        env2 = dict(env)
        names, tys = [], []
        for p, ty in params:
            if p[0] != "pid": fail("closure parameter pattern")
            if ty is not None and ty.replace("&", "").strip() != "T": fail(f"closure parameter type {ty!r}")
            n = lname(p[1])
            env2[p[1]] = Val(n, "T"); names.append(n); tys.append("T")
        b = self.expr(body, env2)
        if not names: return Val(b.code, ("thunk", b.ty))
        return Val("(fun " + " ".join(f"({n} : α)" for n in names) + f" => {b.code})", ("fn", tys, b.ty))

    # ---- calls
    def args(self, xs, env): return [self.expr(x, env) for x in xs]

    def construct(self, name, args):
        name = self.ctx.resolve(name)
        ps = self.ctx.new_params(name)
        if len(args) != len(ps): fail(f"{name}::new: {len(args)} arguments")
        by = dict(zip(ps, args))
        return Val("(V3.mk " + " ".join(self.scalar(by[f], f" for {name}.{f}") for f in self.ctx.fields(name)) + ")", ("V3", name))

    def apply_fn(self, d, args, what):
        if "hint" in d and not (self.hint and re.search(d["hint"], self.hint)):
            fail(f"{what}: trait-dispatched call whose target type is not the registered one (/{d['hint']}/, annotation {self.hint!r})")
        if len(args) != len(d["params"]): fail(f"{what}: {len(args)} arguments, {len(d['params'])} expected")
        for a, t in zip(args, d["params"]):
            ok = a.ty == t or (a.ty != "T" and t != "T" and a.ty[0] == "V3" and t[0] == "V3")
            if not ok: fail(f"{what}: argument type {a.ty!r}, expected {t!r}")
        if d.get("angle"): self.uses_angle = True
        if d.get("viaf64"): self.uses_viaf64 = True
        return Val("(" + " ".join([d["lean"]] + d.get("extra", []) + [a.code for a in args]) + ")", d["ret"])

    def call(self, e, env):
        f, xs = e[1], e[2]
        if f[0] != "path":
            fv = self.expr(f, env)
            fail(f"call of a computed value {fv.code}")
        segs, gens = f[1], f[2]
        key = "::".join(segs)
        # local closure
        if len(segs) == 1 and segs[0] in env:
            fv = env[segs[0]]
            if fv.ty == "T" or fv.ty[0] != "fn": fail(f"{segs[0]} is not callable")
            a = self.args(xs, env)
            if [x.ty for x in a] != fv.ty[1]: fail(f"closure {segs[0]}: argument types")
            return Val("(" + " ".join([fv.code] + [x.code for x in a]) + ")", fv.ty[2])
        if key == "T::from_f64":
            if len(xs) != 1: fail("T::from_f64 arity")
            return self.from_f64(xs[0])
        if key in ("T::zero", "T::min_intensity") and not xs: return Val("(0.0 : α)", "T")
        if key in ("T::one", "T::max_intensity") and not xs: return Val("(1.0 : α)", "T")
        if key == "TypeId::of" and not xs:
            return Val("_", ("typeid", re.sub(r"\s+", "", gens[-1]) if gens else "?"))
        if key == "Wp::get_xyz" and not xs:
            if self.wp is None: fail("Wp::get_xyz() in a body registered without a white point parameter")
            return Val(self.wp, ("V3", "Xyz"))
        if key == "PhantomData": return Val("_", "phantom")
        # UFCS forms of the scalar primitives: `T::max(a, b)`, `Round::floor(x)`, `T::cbrt(x)`
        if len(segs) == 2 and segs[0] in ("T", "Round", "Self") and (segs[1] in PRIM1 or segs[1] in PRIM2 or segs[1] in PRIM3) \
                and not (segs[0] == "Self" and key in self.ctx.fns):
            a = self.args(xs, env)
            return self.prim(segs[1], a)
        # registered callees (other translated bodies, generated tables)
        cands = [key]
        if segs[0] == "Self" and self.self_ty: cands.append("::".join([self.self_ty] + segs[1:]))
        if len(segs) > 1: cands.append("::".join(segs[-2:])); cands.append(segs[-1])
        for c in cands:
            if c in self.ctx.fns:
                return self.apply_fn(self.ctx.fns[c], self.args(xs, env), c)
        # constructors
        if len(segs) == 2 and segs[1] in ("new", "new_const"):
            name = self.self_ty if segs[0] == "Self" else segs[0]
            if self.ctx.resolve(name) in self.ctx.type_files: return self.construct(name, self.args(xs, env))
        if len(segs) == 1 and segs[0] == "Self" and len(xs) == 1:      # `Self(x)` of a hue newtype
            return self.expr(xs[0], env)
        if len(segs) == 2 and segs[1] in ("from_degrees", "new") and segs[0].endswith("Hue") and len(xs) == 1:
            return self.expr(xs[0], env)
        fail(f"call of {key} is outside the translated subset (not a primitive, constructor or registered body)")

    def prim(self, name, a):
        n = len(a)
        if name in PRIM1 and n == 1:
            lean = PRIM1[name]
            if lean in ANGLE_PRIMS: self.uses_angle = True
            return Val(f"({lean} {self.scalar(a[0])})", "B" if name == "is_valid_divisor" else "T")
        if name in PRIM2 and n == 2:
            lean = PRIM2[name]
            if lean in ANGLE_PRIMS: self.uses_angle = True
            return Val(f"({lean} {self.scalar(a[0])} {self.scalar(a[1])})", "T")
        if name in PRIM3 and n == 3:
            return Val(f"({PRIM3[name]} {self.scalar(a[0])} {self.scalar(a[1])} {self.scalar(a[2])})", "T")
        fail(f"primitive {name} with {n} arguments")

    def mcall(self, e, env):
        recv, name, xs = e[1], e[2], e[3]
        # `LuvBounds::from_lightness(l).max_chroma_at_hue(h)` and similar two-step helpers registered as one callee
        if recv[0] == "call" and recv[1][0] == "path":
            key = "::".join(recv[1][1]) + "()." + name
            if key in self.ctx.fns:
                return self.apply_fn(self.ctx.fns[key], self.args(recv[2], env) + self.args(xs, env), key)
        r = self.expr(recv, env)
        if name in IDENTITY_METHODS and not xs: return r
        if r.ty == "T":
            if name == "into" and not xs: return r                    # T -> hue newtype (`From<T> for Hue`: `$name(degrees)`)
            if name == "powi":
                if len(xs) != 1 or xs[0][0] != "num" or xs[0][1] not in ("2", "3"): fail("powi with an exponent other than the literals 2, 3")
                return Val(f"(Prim.powi{xs[0][1]} {r.code})", "T")
            if name == "sin_cos" and not xs:
                return Val(f"(Scalar.sin {r.code}, Scalar.cos {r.code})", ("tup", ["T", "T"]))
            if name in CMP_METHODS and len(xs) == 1:
                rel, flip = CMP_METHODS[name]
                y = self.scalar(self.expr(xs[0], env))
                return Val(f"({y} {rel} {r.code})" if flip else f"({r.code} {rel} {y})", "P")
            if name == "eq" and len(xs) == 1: return Val(f"(Scalar.eqv {r.code} {self.scalar(self.expr(xs[0], env))})", "P")
            if name == "neq" and len(xs) == 1: return Val(f"(¬ Scalar.eqv {r.code} {self.scalar(self.expr(xs[0], env))})", "P")
            if name in PRIM1 or name in PRIM2 or name in PRIM3:
                return self.prim(name, [r] + self.args(xs, env))
            if ("T", name) in self.ctx.methods:                        # hue / angle helpers translated from their macro bodies
                return self.apply_fn(self.ctx.methods[("T", name)], [r] + self.args(xs, env), name)
            fail(f"scalar method .{name}() is outside the translated subset")
        if r.ty in ("B", "P"):
            if name == "select" and len(xs) == 2:
                a, b = self.args(xs, env)
                if a.ty != b.ty: fail("select: branch types differ")
                return Val(f"(if {self.as_cond(r)} then {a.code} else {b.code})", a.ty)
            if name == "lazy_select" and len(xs) == 2:
                a, b = self.args(xs, env)
                if a.ty[0] != "thunk" or b.ty[0] != "thunk" or a.ty[1] != b.ty[1]: fail("lazy_select: expects two `||` closures of one type")
                return Val(f"(if {self.as_cond(r)} then {a.code} else {b.code})", a.ty[1])
            fail(f"mask method .{name}()")
        if r.ty[0] == "V3":
            if name == "into" and not xs: return Val(r.code, ("V3", None))       # colour -> [T; 3] (impl_array_casts!)
            key = (self.ctx.resolve(r.ty[1]) if r.ty[1] else None, name)
            if key in self.ctx.methods:
                return self.apply_fn(self.ctx.methods[key], [r] + self.args(xs, env), f"{key[0]}::{name}")
            fail(f"method .{name}() of {r.ty[1]} is outside the translated subset")
        if r.ty[0] == "S":
            key = (r.ty[1], name)
            if key in self.ctx.methods:
                return self.apply_fn(self.ctx.methods[key], [r] + self.args(xs, env), f"{key[0]}::{name}")
            fail(f"method .{name}() of {r.ty[1]}")
        fail(f"method .{name}() on {r.ty!r}")

    # ---- control flow
    def static_cond(self, c, env):
        """value of a condition that the registration resolves statically (TypeId comparisons), else None"""
        v = self.expr(c, env)
        if v.ty != "T" and v.ty[0] == "static": return v.ty[1], v
        return None, v

    def if_value(self, e, env):
        st, cv = self.static_cond(e[1], env)
        if st is not None:
            br = e[2] if st else e[3]
            if br is None: fail("statically false `if` without else used as a value")
            return self.expr(br, env)
        if e[3] is None: fail("`if` without `else` used as a value")
        a = self.expr(e[2], env)
        b = self.expr(e[3], env)
        if a.ty != b.ty and not (a.ty != "T" and b.ty != "T" and a.ty[0] == "V3" and b.ty[0] == "V3"):
            fail(f"if: branch types differ ({a.ty!r} / {b.ty!r})")
        return Val(f"(if {self.as_cond(cv)} then {a.code} else {b.code})", a.ty)

    @staticmethod
    def wrap(v):
        c = v.code
        if "\n" in c or c.startswith("let ") or c.startswith("if "): return Val("(" + c + ")", v.ty)
        return v

    def block(self, e, env):
        return self.wrap(self.stmts(e[1], 0, e[2], dict(env)))

    def bind(self, pat, v, env, lines):
        """bind pattern to value: appends `let` lines, updates env"""
        k = pat[0]
        if k == "pwild": return
        if k == "pid":
            n = lname(pat[1])
            if v.ty != "T" and v.ty[0] in ("typeid", "static", "phantom"):
                env[pat[1]] = v; return
            if v.ty == "P": v = Val(self.as_bool(v), "B")
            if v.ty != "T" and v.ty[0] == "thunk": fail("binding a parameterless closure")
            lines.append(f"let {n} : {lean_ty(v.ty)} := {v.code};")
            env[pat[1]] = Val(n, v.ty)
            return
        # destructuring: bind the value once, then project
        if k in ("ptuple", "pstruct", "parray"):
            if re.fullmatch(r"[\w.']+", v.code): t = v.code
            else:
                t = self.tmp()
                lines.append(f"let {t} : {lean_ty(v.ty)} := {v.code};")
            if k == "ptuple":
                if v.ty == "T" or v.ty[0] != "tup" or len(v.ty[1]) != len(pat[1]): fail(f"tuple pattern against {v.ty!r}")
                for i, p in enumerate(pat[1]):
                    self.bind(p, Val(tup_proj(t, i, len(pat[1])), v.ty[1][i]), env, lines)
            elif k == "parray":
                if v.ty == "M3" and len(pat[1]) == 9:
                    for i, p in enumerate(pat[1]):
                        self.bind(p, Val(f"{t}.m{i}", "T"), env, lines)
                    return
                if v.ty == "T" or v.ty[0] != "V3" or len(pat[1]) != 3: fail(f"array pattern against {v.ty!r}")
                for i, p in enumerate(pat[1]):
                    self.bind(p, Val(f"{t}.c{i}", "T"), env, lines)
            else:
                name = self.self_ty if pat[1] == "Self" else pat[1]
                if v.ty == "T" or v.ty[0] != "V3" or v.ty[1] is None: fail(f"struct pattern {name} against {v.ty!r}")
                if self.ctx.resolve(name) != self.ctx.resolve(v.ty[1]): fail(f"struct pattern {name} against a {v.ty[1]}")
                fs = self.ctx.fields(name)
                for f, p in pat[2]:
                    if f not in fs: fail(f"pattern field {f} of {name}")
                    self.bind(p, Val(f"{t}.c{fs.index(f)}", "T"), env, lines)
            return
        fail(f"pattern {k}")

    @staticmethod
    def ends_in_return(b):
        """(stmts, returned expr) if the block's last action is `return e`"""
        if b[0] != "block": return None
        if b[2] is not None and b[2][0] == "return": return b[1], b[2][1]
        if b[2] is None and b[1] and b[1][-1][0] == "expr" and b[1][-1][1][0] == "return": return b[1][:-1], b[1][-1][1][1]
        return None

    @staticmethod
    def assigned(b, declared=None):
        """names assigned (not declared) in a block, in order of first assignment; nested blocks included"""
        out = []
        declared = set(declared or ())
        def walk_block(blk, decl):
            decl = set(decl)
            for s in blk[1]:
                if s[0] == "let":
                    def names(p):
                        if p[0] == "pid": decl.add(p[1])
                        elif p[0] in ("ptuple", "parray"): [names(q) for q in p[1]]
                        elif p[0] == "pstruct": [names(q) for _, q in p[2]]
                    names(s[1])
                elif s[0] == "assign":
                    if s[1][0] != "path" or len(s[1][1]) != 1: fail("assignment to something other than a local variable")
                    n = s[1][1][0]
                    if n not in decl and n not in out: out.append(n)
                elif s[0] == "expr" and s[1][0] == "if":
                    walk_if(s[1], decl)
                elif s[0] == "expr" and s[1][0] == "block":
                    walk_block(s[1], decl)
                elif s[0] == "expr" and s[1][0] == "for":
                    walk_block(s[1][3], decl)
        def walk_if(i, decl):
            walk_block(i[2], decl)
            if i[3] is not None:
                if i[3][0] == "if": walk_if(i[3], decl)
                else: walk_block(i[3], decl)
        walk_block(b, declared)
        return out

    def stmts(self, ss, i, tail, env):
        """lower statements ss[i:] followed by the tail expression, as one Lean term"""
        if i == len(ss):
            if tail is None: return Val("()", "unit")
            if tail[0] == "return":
                if tail[1] is None: fail("bare return")
                return self.expr(tail[1], env)
            if tail[0] == "if" and self.has_return(tail):
                return self.if_return_chain(tail, ss, i, None, env)
            return self.expr(tail, env)
        s = ss[i]
        if s[0] == "let":
            if s[3] is None: fail("`let` without initialiser")
            self.hint = s[2]
            v = self.expr(s[3], env)
            self.hint = None
            lines = []
            self.bind(s[1], v, env, lines)
            rest = self.stmts(ss, i + 1, tail, env)
            return Val("\n".join(lines + [rest.code]), rest.ty)
        if s[0] == "assign":
            if s[1][0] != "path" or len(s[1][1]) != 1: fail("assignment to something other than a local variable")
            n = s[1][1][0]
            if n not in env: fail(f"assignment to unbound {n}")
            v = self.expr(s[2], env)
            if v.ty != env[n].ty: fail(f"assignment changes the type of {n}")
            lines = []
            self.bind(("pid", n, True), v, env, lines)
            rest = self.stmts(ss, i + 1, tail, env)
            return Val("\n".join(lines + [rest.code]), rest.ty)
        if s[0] == "expr":
            e = s[1]
            if e[0] == "return":
                if e[1] is None: fail("bare return")
                return self.expr(e[1], env)
            if e[0] == "if":
                if self.has_return(e):
                    return self.if_return_chain(e, ss, i + 1, tail, env)
                return self.if_assign(e, ss, i, tail, env)
            if e[0] == "for":
                return self.for_loop(e, ss, i, tail, env)
            if e[0] == "block" and i == len(ss) - 1 and tail is None:
                return self.block(e, env)
            fail(f"expression statement of kind {e[0]!r} has no effect the translation can express")
        fail(f"statement {s[0]!r}")

    def has_return(self, e):
        def blk(b):
            if b is None: return False
            if b[0] == "if": return self.has_return(b)
            return self.ends_in_return(b) is not None
        return blk(e[2]) or blk(e[3])

    def if_return_chain(self, e, ss, nxt, tail, env):
        """`if c { ..; return a; } [else if d { ..; return b; }]` followed by the rest of the block:
           `if c then a else if d then b else <rest>`; a branch that does not return falls through to the rest"""
        st, cv = self.static_cond(e[1], env)
        def branch(b):
            r = self.ends_in_return(b)
            if r is None:
                # falls through: its statements followed by the rest of the enclosing block
                if self.assigned(b) or b[2] is not None: fail("branch that neither returns nor is empty next to a returning branch")
                return self.stmts(ss, nxt, tail, dict(env))
            return self.stmts(r[0], 0, ("return", r[1]), dict(env))
        def rest():
            if e[3] is None: return self.stmts(ss, nxt, tail, dict(env))
            if e[3][0] == "if":
                if self.has_return(e[3]): return self.if_return_chain(e[3], ss, nxt, tail, env)
                fail("else-if without return next to a returning branch")
            return branch(e[3])
        if st is not None: return branch(e[2]) if st else rest()
        a = self.wrap(branch(e[2]))
        b = self.wrap(rest())
        if a.ty != b.ty and not (a.ty != "T" and b.ty != "T" and a.ty[0] == "V3" and b.ty[0] == "V3"):
            fail(f"early return of a {a.ty!r} from a block of type {b.ty!r}")
        return Val(f"if {self.as_cond(cv)} then\n{a.code}\nelse\n{b.code}", b.ty)

    def if_assign(self, e, ss, i, tail, env):
        """an `if` statement whose branches assign outer variables: rebind them from a (tuple-valued) `if`"""
        st, cv = self.static_cond(e[1], env)
        if st is not None:
            br = e[2] if st else e[3]
            if br is None: return self.stmts(ss, i + 1, tail, env)
            if br[0] == "if": return self.stmts([("expr", br)] + list(ss[i + 1:]), 0, tail, env)
            # splice the taken branch into the enclosing block (its `let`s stay visible only if it is the last statement, as in Rust
            # they would go out of scope; a spliced branch with a tail value must be the value of the enclosing block)
            if br[2] is not None:
                if i != len(ss) - 1 or tail is not None: fail("statically selected branch with a value in the middle of a block")
                return self.stmts(br[1], 0, br[2], env)
            names = self.assigned(br)
            return self.merge([(None, br)], names, ss, i, tail, env)
        branches, cur = [], e
        while True:
            branches.append((cur[1], cur[2]))
            if cur[3] is None: branches.append((None, None)); break
            if cur[3][0] == "if":
                cur = cur[3]; continue
            branches.append((None, cur[3])); break
        names = []
        for _, b in branches:
            if b is None: continue
            if b[2] is not None: fail("`if` statement whose branch has a value")
            for n in self.assigned(b):
                if n not in names: names.append(n)
        if not names: fail("`if` statement without effect")
        return self.merge(branches, names, ss, i, tail, env)

    def merge(self, branches, names, ss, i, tail, env):
        for n in names:
            if n not in env: fail(f"assignment to unbound {n}")
        tys = [env[n].ty for n in names]
        ty = tys[0] if len(names) == 1 else ("tup", tys)
        result = ("path", [names[0]], []) if len(names) == 1 else ("tuple", [("path", [n], []) for n in names])
        def val(b):
            if b is None: return self.expr(result, env)
            return self.wrap(self.stmts(b[1], 0, result, dict(env)))
        if len(branches) == 1 and branches[0][0] is None:
            code = val(branches[0][1]).code
        else:
            code = val(branches[-1][1]).code
            if branches[-1][0] is not None: fail("internal: last branch must be the else")
            for c, b in reversed(branches[:-1]):
                st, cv = self.static_cond(c, env)
                if st is not None: fail("static condition inside an else-if chain of assignments")
                code = f"(if {self.as_cond(cv)} then\n{val(b).code}\nelse\n{code})"
        lines = []
        if len(names) == 1:
            n = lname(names[0])
            lines.append(f"let {n} : {lean_ty(ty)} := {code};")
            env[names[0]] = Val(n, ty)
        else:
            t = self.tmp("m")
            lines.append(f"let {t} : {lean_ty(ty)} := {code};")
            for j, n in enumerate(names):
                lines.append(f"let {lname(n)} : {lean_ty(tys[j])} := {tup_proj(t, j, len(names))};")
                env[n] = Val(lname(n), tys[j])
        rest = self.stmts(ss, i + 1, tail, env)
        return Val("\n".join(lines + [rest.code]), rest.ty)

    def for_loop(self, e, ss, i, tail, env):
        pat, it, body = e[1], e[2], e[3]
        if pat[0] not in ("pwild", "pid") or (pat[0] == "pid" and not pat[1].startswith("_")): fail("for: the loop variable must be unused (`_`)")
        if it[0] != "range" or it[1] != ("num", "0") or it[2] is None: fail("for: only `0..N` ranges")
        hi = it[2]
        if hi[0] == "num": n = hi[1]
        elif hi[0] == "path" and len(hi[1]) == 1 and hi[1][0] in self.consts: n = self.consts[hi[1][0]]
        else: fail("for: the bound must be a literal or a module constant")
        if not re.fullmatch(r"\d+", n): fail(f"for: bound {n!r}")
        names = self.assigned(body)
        if len(names) != 1 or body[2] is not None: fail("for: the body must update exactly one outer variable")
        v = names[0]
        if v not in env: fail(f"for: {v} unbound")
        ty = env[v].ty
        env2 = dict(env)
        p = lname(v)
        env2[v] = Val(p, ty)
        b = self.wrap(self.stmts(body[1], 0, ("path", [v], []), env2))
        line = f"let {p} : {lean_ty(ty)} := Prim.iterate {n} (fun ({p} : {lean_ty(ty)}) =>\n{b.code}) {env[v].code};"
        env[v] = Val(p, ty)
        rest = self.stmts(ss, i + 1, tail, env)
        return Val(line + "\n" + rest.code, rest.ty)

def rust_expr_to_lean(src, env=None, ctx=None, **opts):
    """the reusable entry point: one Rust expression (source text) -> (Lean term text, coarse type).
    `env` maps the free Rust variables to `Val(lean name, type)` (default: none), `opts` are those of `Lower`
    (`kmode`, `consts`, `typeid`, `wp`, `subst`, `self_ty`); `ctx` supplies struct layouts and registered callees."""
    lo = Lower(ctx or Ctx(lambda rel: fail(f"no source reader for {rel}")), **opts)
    v = lo.expr(parse_expr(src), dict(env or {}))
    return v.code, v.ty

def indent(code, n):
    pad = " " * n
    return "\n".join(pad + l if l else l for l in code.split("\n"))

def reflow(code):
    """indent a lowered term by parenthesis depth (purely cosmetic)"""
    out, depth = [], 0
    for line in code.split("\n"):
        s = line.strip()
        lead = 0
        for ch in s:
            if ch in ")": lead += 1
            else: break
        out.append("  " * max(0, depth - lead + 1) + s)
        for ch in s:
            if ch == "(": depth += 1
            elif ch == ")": depth -= 1
    return "\n".join(out)

# ------------------------------------------------------------------------------------------------ registration of the bodies
COLOR_FILES = {   # colour struct -> files searched for its definition / inherent methods (first = definition)
    "Xyz": ["xyz.rs"], "Yxy": ["yxy.rs"], "Lab": ["lab.rs"], "Lch": ["lch.rs"], "Luv": ["luv.rs"], "Lchuv": ["lchuv.rs"],
    "Hsluv": ["hsluv.rs"], "Rgb": ["rgb/rgb.rs"], "Hsv": ["hsv.rs"], "Hsl": ["hsl.rs"], "Hwb": ["hwb.rs"],
    "Oklab": ["oklab.rs", "oklab/properties.rs"], "Oklch": ["oklch.rs"], "Okhsv": ["okhsv.rs"], "Okhsl": ["okhsl.rs"], "Okhwb": ["okhwb.rs"],
}

def conv(src_ty, dst_ty):
    """regex of the header `impl<..> FromColorUnclamped<SRC> for DST`"""
    def pat(t): return r"\s*".join(re.escape(x) for x in re.findall(r"\w+|[^\w\s]", t))
    return (r"impl\s*<[^{]*?>\s*FromColorUnclamped\s*<\s*" + pat(src_ty) + r"\s*>\s*for\s+" + pat(dst_ty) + r"(?![\w<])",
            f"impl FromColorUnclamped<{src_ty}> for {dst_ty}")

def B(name, file, where, fn, model=None, **kw):
    label = None
    if isinstance(where, tuple): where, label = where
    d = dict(name=name, file=file, where=where, fn=fn, model=model, label=label)
    d.update(kw)
    return d

def tf(trait, ty, gen="T"):
    def pat(t): return r"\s*".join(re.escape(x) for x in re.findall(r"\w+|[^\w\s]", t))
    return (r"impl\s*<\s*" + pat(gen) + r"\s*>\s*" + trait + r"\s*<\s*T\s*,\s*T\s*>\s*for\s+" + pat(ty) + r"(?![\w<])",
            f"impl {trait}<T, T> for {ty}")

# associated constant of the type parameter `N` of `GammaFn<N>`, fixed at `F2p2`: (file, regex whose group 1 is the literal)
F2P2 = {"N::VALUE": ("encoding/gamma.rs", r"impl\s+Number\s+for\s+F2p2\s*\{\s*const\s+VALUE\s*:\s*f64\s*=\s*([0-9][0-9_.]*)\s*;")}

SCALAR_MASK = {"T::Mask == bool": True}
SIMD_MASK = {"T::Mask == bool": False}
HUES = (r"macro_rules!\s+make_hues\b", "macro_rules! make_hues")

# Order = emission order (callees first).  Keys:
#   model    the hand-written model function `tie_<name>` proves it equal to (None: helper, unfolded in its callers' ties)
#   self_ty  what `Self` denotes; wp: the body reads `Wp::get_xyz()` (first Lean parameter `wp`); k: 'sci' | 'const'
#   typeid   resolution of the `TypeId::of` comparisons of the body; subst: associated constants fixed by the instantiation
#   as_fn / as_method   Rust spellings under which later bodies call this one
BODIES = [
    # ---- hues.rs (`make_hues!`), angle.rs (`impl_angle_float!`): the macro bodies, `self.0` = the stored degrees
    B("angleNormalizeUnsigned", "angle.rs", (r"macro_rules!\s+impl_angle_float\b", "macro_rules! impl_angle_float"), "normalize_unsigned_angle", "RgbFam.normalizeUnsigned",
      self_ty="T", as_method=[("T", "normalize_unsigned_angle")]),
    B("hueFromRadians", "hues.rs", HUES, "from_radians", None, self_ty="Hue", as_fn=["Hue::from_radians"]),
    B("hueIntoRawRadians", "hues.rs", HUES, "into_raw_radians", None, self_ty="Hue", as_method=[("T", "into_raw_radians")]),
    B("hueIntoPositiveDegrees", "hues.rs", HUES, "into_positive_degrees", "RgbFam.normalizeUnsigned", self_ty="Hue",
      as_method=[("T", "into_positive_degrees")]),
    B("hueFromCartesian", "hues.rs", HUES, "from_cartesian", "Cie.hueFromCartesian", self_ty="Hue", as_fn=["from_cartesian"]),
    B("hueIntoCartesian", "hues.rs", HUES, "into_cartesian", "Ok.hueIntoCartesian", self_ty="Hue", as_method=[("T", "into_cartesian")]),
    B("labGetHue", "lab.rs", (r"impl\s*<[^{]*?>\s*GetHue\s+for\s+Lab\b", "impl GetHue for Lab"), "get_hue", None, self_ty="Lab", as_method=[("Lab", "get_hue")]),
    B("luvGetHue", "luv.rs", (r"impl\s*<[^{]*?>\s*GetHue\s+for\s+Luv\b", "impl GetHue for Luv"), "get_hue", None, self_ty="Luv", as_method=[("Luv", "get_hue")]),
    # ---- CIE family
    B("xyzToYxy", "yxy.rs", conv("Xyz<Wp, T>", "Yxy<Wp, T>"), "from_color_unclamped", "Cie.xyzToYxy"),
    B("yxyToXyz", "xyz.rs", conv("Yxy<Wp, T>", "Xyz<Wp, T>"), "from_color_unclamped", "Cie.yxyToXyz"),
    B("xyzToLab", "lab.rs", conv("Xyz<Wp, T>", "Lab<Wp, T>"), "from_color_unclamped", "Cie.xyzToLab", wp=True),
    B("labToXyz", "xyz.rs", conv("Lab<Wp, T>", "Xyz<Wp, T>"), "from_color_unclamped", "Cie.labToXyz", wp=True),
    B("labToLch", "lch.rs", conv("Lab<Wp, T>", "Lch<Wp, T>"), "from_color_unclamped", "Cie.labToLch"),
    B("lchToLab", "lab.rs", conv("Lch<Wp, T>", "Lab<Wp, T>"), "from_color_unclamped", "Cie.lchToLab"),
    B("luvToLchuv", "lchuv.rs", conv("Luv<Wp, T>", "Lchuv<Wp, T>"), "from_color_unclamped", "Cie.luvToLchuv"),
    B("lchuvToLuv", "luv.rs", conv("Lchuv<Wp, T>", "Luv<Wp, T>"), "from_color_unclamped", "Cie.lchuvToLuv"),
    B("xyzToLuv", "luv.rs", conv("Xyz<Wp, T>", "Luv<Wp, T>"), "from_color_unclamped", "Cie.xyzToLuv", wp=True),
    B("luvToXyz", "xyz.rs", conv("Luv<Wp, T>", "Xyz<Wp, T>"), "from_color_unclamped", "Cie.luvToXyz", wp=True),
    # ---- RGB family (the `TypeId::of::<T::Mask>() == TypeId::of::<bool>()` branch and the mask-generic branch are two bodies)
    B("rgbToHsv", "hsv.rs", conv("Rgb<S, T>", "Hsv<S, T>"), "from_color_unclamped", "RgbFam.rgbToHsv", typeid=SCALAR_MASK),
    B("rgbToHsvMask", "hsv.rs", conv("Rgb<S, T>", "Hsv<S, T>"), "from_color_unclamped", "RgbFam.rgbToHsvMask", typeid=SIMD_MASK),
    B("rgbToHsl", "hsl.rs", conv("Rgb<S, T>", "Hsl<S, T>"), "from_color_unclamped", "RgbFam.rgbToHsl", typeid=SCALAR_MASK),
    B("rgbToHslMask", "hsl.rs", conv("Rgb<S, T>", "Hsl<S, T>"), "from_color_unclamped", "RgbFam.rgbToHslMask", typeid=SIMD_MASK),
    B("hsvToRgb", "rgb/rgb.rs", conv("Hsv<S, T>", "Rgb<S, T>"), "from_color_unclamped", "RgbFam.hsvToRgb"),
    B("hslToRgb", "rgb/rgb.rs", conv("Hsl<S, T>", "Rgb<S, T>"), "from_color_unclamped", "RgbFam.hslToRgb"),
    B("hslToHsv", "hsv.rs", conv("Hsl<S, T>", "Hsv<S, T>"), "from_color_unclamped", "RgbFam.hslToHsv"),
    B("hsvToHsl", "hsl.rs", conv("Hsv<S, T>", "Hsl<S, T>"), "from_color_unclamped", "RgbFam.hsvToHsl"),
    B("hsvToHwb", "hwb.rs", conv("Hsv<S, T>", "Hwb<S, T>"), "from_color_unclamped", "RgbFam.hsvToHwb"),
    B("hwbToHsv", "hsv.rs", conv("Hwb<S, T>", "Hsv<S, T>"), "from_color_unclamped", "RgbFam.hwbToHsv"),
    # ---- transfer functions (encoding/*.rs): the generic-float `IntoLinear<T, T>` / `FromLinear<T, T>` impls
    B("srgbIntoLinear", "encoding/srgb.rs", tf("IntoLinear", "Srgb"), "into_linear", "Transfer.srgbIntoLinear"),
    B("srgbFromLinear", "encoding/srgb.rs", tf("FromLinear", "Srgb"), "from_linear", "Transfer.srgbFromLinear"),
    B("recIntoLinear", "encoding/rec_standards.rs", tf("IntoLinear", "RecOetf"), "into_linear", "Transfer.recIntoLinear"),
    B("recFromLinear", "encoding/rec_standards.rs", tf("FromLinear", "RecOetf"), "from_linear", "Transfer.recFromLinear"),
    B("adobeIntoLinear", "encoding/adobe.rs", tf("IntoLinear", "AdobeRgb"), "into_linear", "Transfer.adobeIntoLinear"),
    B("adobeFromLinear", "encoding/adobe.rs", tf("FromLinear", "AdobeRgb"), "from_linear", "Transfer.adobeFromLinear"),
    B("p3IntoLinear", "encoding/p3.rs", tf("IntoLinear", "P3Gamma"), "into_linear", "Transfer.p3IntoLinear"),
    B("p3FromLinear", "encoding/p3.rs", tf("FromLinear", "P3Gamma"), "from_linear", "Transfer.p3FromLinear"),
    B("prophotoIntoLinear", "encoding/prophoto.rs", tf("IntoLinear", "ProPhotoRgb"), "into_linear", "Transfer.prophotoIntoLinear"),
    B("prophotoFromLinear", "encoding/prophoto.rs", tf("FromLinear", "ProPhotoRgb"), "from_linear", "Transfer.prophotoFromLinear"),
    # `GammaFn<N>` at `N = F2p2` (the only `Number` in the crate): `N::VALUE` is re-read from `impl Number for F2p2`
    B("gammaIntoLinear", "encoding/gamma.rs", tf("IntoLinear", "GammaFn<N>", "T, N"), "into_linear", "Transfer.gammaIntoLinear", subst=F2P2),
    B("gammaFromLinear", "encoding/gamma.rs", tf("FromLinear", "GammaFn<N>", "T, N"), "from_linear", "Transfer.gammaFromLinear", subst=F2P2),
    # ---- HSLuv edges (the chroma bound itself, luv_bounds.rs, is an intrinsic: `Cie.maxChroma`)
    B("lchuvToHsluv", "hsluv.rs", conv("Lchuv<Wp, T>", "Hsluv<Wp, T>"), "from_color_unclamped", "Cie.lchuvToHsluv"),
    B("hsluvToLchuv", "lchuv.rs", conv("Hsluv<Wp, T>", "Lchuv<Wp, T>"), "from_color_unclamped", "Cie.hsluvToLchuv"),
    # ---- matrix.rs, Oklab matrices
    B("matMulVec", "matrix.rs", None, "multiply_3x3_and_vec3", "M3.mulVec", as_fn=["multiply_3x3_and_vec3"]),
    B("oklabM1", "oklab.rs", None, "m1", "Ok.m1", k="const", as_fn=["m1"]),
    B("oklabM1Inv", "oklab.rs", None, "m1_inv", "Ok.m1Inv", k="const", as_fn=["m1_inv"]),
    B("oklabM2", "oklab.rs", None, "m2", "Ok.m2", k="const", as_fn=["m2"]),
    B("oklabM2Inv", "oklab.rs", None, "m2_inv", "Ok.m2Inv", k="const", as_fn=["m2_inv"]),
    # ---- Ok family (every `T::from_f64` is `Scalar.const`, as in Ok.lean)
    B("xyzToOklab", "oklab.rs", conv("Xyz<D65, T>", "Oklab<T>"), "from_color_unclamped", "Ok.xyzToOklab", k="const"),
    B("oklabToXyz", "xyz.rs", conv("Oklab<T>", "Xyz<D65, T>"), "from_color_unclamped", "Ok.oklabToXyz", k="const"),
    B("linSrgbToOklab", "oklab.rs", None, "linear_srgb_to_oklab", "Ok.linSrgbToOklab", k="const", as_fn=["linear_srgb_to_oklab"]),
    # `Oklab -> LinSrgb` through `IntoColorUnclamped` is `oklab_to_linear_srgb` (rgb/rgb.rs: `Space == Srgb` branch, then the identity
    # `Rgb<Linear<Srgb>> -> Rgb<Linear<Srgb>>`): trait dispatch, resolved here by the annotated target type
    B("oklabToLinSrgb", "oklab.rs", None, "oklab_to_linear_srgb", "Ok.oklabToLinSrgb", k="const", as_fn=["oklab_to_linear_srgb"],
      as_method=[("Oklab", "into_color_unclamped")], hint=r"^LinSrgb\b"),
    B("oklabGetHue", "oklab/properties.rs", (r"impl\s*<[^{]*?>\s*GetHue\s+for\s+Oklab\b", "impl GetHue for Oklab"), "get_hue", None, self_ty="Oklab", as_method=[("Oklab", "get_hue")]),
    B("oklabGetChroma", "oklab.rs", None, "get_chroma", "Ok.chromaOf", self_ty="Oklab", as_method=[("Oklab", "get_chroma")]),
    B("oklabToOklch", "oklch.rs", conv("Oklab<T>", "Oklch<T>"), "from_color_unclamped", "Ok.oklabToOklch", k="const"),
    B("oklchToOklab", "oklab.rs", conv("Oklch<T>", "Oklab<T>"), "from_color_unclamped", "Ok.oklchToOklab", k="const"),
    B("toe", "ok_utils.rs", None, "toe", "Ok.toe", k="const", as_fn=["toe"]),
    B("toeInv", "ok_utils.rs", None, "toe_inv", "Ok.toeInv", k="const", as_fn=["toe_inv"]),
    B("stOfLC", "ok_utils.rs", (r"impl\s*<T>\s*From\s*<\s*LC\s*<T>\s*>\s*for\s+ST\s*<T>", "impl From<LC<T>> for ST<T>"), "from", "Ok.stOfLC", k="const", self_ty="ST",
      as_fn=["ST::from"], as_method=[("LC", "into")]),
    B("stMid", "ok_utils.rs", (r"impl\s*<T>\s*ST\s*<T>", "impl ST<T>"), "mid", "Ok.stMid", k="const", self_ty="ST", as_fn=["ST::mid"]),
    B("maxSaturation", "ok_utils.rs", (r"impl\s*<T>\s*LC\s*<T>", "impl LC<T>"), "max_saturation", "Ok.maxSaturation", k="const", self_ty="LC",
      as_fn=["LC::max_saturation"]),
    B("findCusp", "ok_utils.rs", (r"impl\s*<T>\s*LC\s*<T>", "impl LC<T>"), "find_cusp", "Ok.findCusp", k="const", self_ty="LC", as_fn=["LC::find_cusp"]),
    B("findGamutIntersection", "ok_utils.rs", None, "find_gamut_intersection", "Ok.findGamutIntersection", k="const",
      as_fn=["find_gamut_intersection"]),
    B("fromNormalized", "ok_utils.rs", (r"impl\s*<T>\s*ChromaValues\s*<T>", "impl ChromaValues<T>"), "from_normalized", "Ok.fromNormalized", k="const",
      self_ty="ChromaValues", as_fn=["ChromaValues::from_normalized"]),
    B("okhslToOklab", "oklab.rs", conv("Okhsl<T>", "Oklab<T>"), "from_color_unclamped", "Ok.okhslToOklab", k="const"),
    B("oklabToOkhsl", "okhsl.rs", conv("Oklab<T>", "Okhsl<T>"), "from_color_unclamped", "Ok.oklabToOkhsl", k="const"),
    B("okhsvToOklab", "oklab.rs", conv("Okhsv<T>", "Oklab<T>"), "from_color_unclamped", "Ok.okhsvToOklab", k="const"),
    B("oklabToOkhsv", "okhsv.rs", conv("Oklab<T>", "Okhsv<T>"), "from_color_unclamped", "Ok.oklabToOkhsv", k="const"),
    B("okhsvToOkhwb", "okhwb.rs", conv("Okhsv<T>", "Okhwb<T>"), "from_color_unclamped", "Ok.okhsvToOkhwb", k="const"),
    B("okhwbToOkhsv", "okhsv.rs", conv("Okhwb<T>", "Okhsv<T>"), "from_color_unclamped", "Ok.okhwbToOkhsv", k="const"),
]

# callees that are NOT translated: given a Lean reading by naming the hand-written model function (listed in the generated header)
INTRINSICS = {
    # luv_bounds.rs runs in f64 for every `T` (`Into<f64>`, `T::from_f64`), with `for` loops over arrays and `Option`s
    "LuvBounds::from_lightness().max_chroma_at_hue": dict(lean="Cie.maxChroma", params=["T", "T"], ret="T", angle=True, viaf64=True),
}

# printed in the header of Gen/Bodies.lean (and summarised in the level_note of C01/C02)
UNTRANSLATED = [
    "Rgb<S> <-> Xyz (xyz.rs `impl FromColorUnclamped<Rgb<S, T>> for Xyz`, rgb/rgb.rs `.. <Xyz<..>> for Rgb<S, T>`): `matrix_from_rgb/_xyz`,",
    "  `convert_once`, `into_linear`/`from_linear` are dispatched over the `RgbStandard` traits (model: RgbFam.rgbToXyz/xyzToRgb, Ok.*Hard);",
    "  their parts are tied: the matrices are extracted data (Gen.Mat), `multiply_3x3_and_vec3` and every transfer curve are translated",
    "Rgb<S1> <- Rgb<S2>, Hsv/Hsl/Hwb<S1> <-> <S2>, Rgb <- Luma, Rgb <-> Oklab: `TypeId` dispatch over standards around trait-dispatched",
    "  `into_linear` / `into_color_unclamped` (model: RgbFam.rgbToRgb, hsvToHsv, hslToHsl, hwbToHwb, lumaToRgb, Ok.rgbToOklab, Ok.oklabToRgb)",
    "Luma edges (luma/luma.rs, xyz.rs, yxy.rs: `..Default::default()`, trait-dispatched transfer function) and Lms edges (lms/lms.rs, xyz.rs:",
    "  `matrix_from_lms().convert_once`, trait-dispatched; the cone matrices are extracted data)",
    "luv_bounds.rs (`LuvBounds::from_lightness`, `max_chroma_at_hue`): runs in f64 for every T, loops over arrays, `Option`; its constants are",
    "  extracted (Gen.Mat.hsluvM/Kappa/Epsilon); the translated HSLuv edges call it as the model function `Cie.maxChroma`",
    "the per-component-type primitives of num.rs / angle.rs (`max min sqrt cbrt powf powi recip abs floor sin cos atan2 hypot mul_add mul_sub",
    "  is_valid_divisor`, comparisons, `select`): fields of `class Scalar` / `class Angle` and PaletteModel/BodyPrim.lean",
    "`impl_color_add!/_sub!/_mul!/_div!` (macros/arithmetics.rs), read as `Prim.v3*`; `LinearFn` (identity); the SIMD mask types of `wide`",
    "cam16/*.rs (C16 has its own extraction)",
]

def ty_of(ctx, text, self_ty):
    t = text.strip()
    while t.startswith("&"): t = t[1:].strip()
    if t.startswith("mut "): t = t[4:].strip()
    if t == "T" or t == "T::Scalar": return "T"
    if t == "Self":
        if self_ty is None: fail("`Self` outside an impl")
        return ty_of(ctx, self_ty, None)
    if t == "Hue" or re.fullmatch(r"\$?\w*Hue\b.*", t) or t.startswith("$name"): return "T"
    if t.startswith("("):
        return ("tup", [ty_of(ctx, x, self_ty) for x in split_top(t[1:t.rindex(")")])])
    m = re.match(r"(\w+)", t)
    if not m: fail(f"type {text!r}")
    n = m.group(1)
    if n == "Mat3": return "M3"
    if n == "Vec3": return ("V3", None)
    if n in STRUCTS: return ("S", n)
    if ctx.resolve(n) in ctx.type_files: return ("V3", ctx.resolve(n))
    if n == "bool": return "B"
    fail(f"type {text!r} is outside the translated subset")

def module_consts(src):
    return {m.group(1): m.group(2) for m in re.finditer(r"\bconst\s+(\w+)\s*:\s*(?:f64|f32|usize)\s*=\s*([0-9][0-9_.eE+-]*)\s*;", src)}

def translate_body(ctx, spec, read_src):
    """-> (Lean definition text, callee record)"""
    src = read_src(spec["file"])
    params, ret, body = find_fn(src, spec["where"], spec["fn"])
    self_ty = spec.get("self_ty")
    if self_ty is None and spec["where"]:
        m = re.search(r"\bfor\s+(\w+)", re.search(spec["where"], src).group(0))
        if m: self_ty = m.group(1)
    subst = {}
    for k, (f, rx) in (spec.get("subst") or {}).items():
        m = re.search(rx, read_src(f))
        if not m: fail(f"associated constant {k}: /{rx}/ not found in {f}")
        subst[k] = m.group(1)
    lo = Lower(ctx, self_ty=self_ty, kmode=spec.get("k", "sci"), consts=module_consts(src), typeid=spec.get("typeid"),
               wp="wp" if spec.get("wp") else None, subst=subst)
    env, binders, ptys = {}, [], []
    if spec.get("wp"): binders.append("(wp : V3 α)")
    for p in split_top(params):
        p = p.strip()
        if not p: continue
        if p in ("self", "&self", "mut self"):
            ty = ty_of(ctx, "Self", self_ty); n = "self"
        else:
            m = re.match(r"(?:mut\s+)?(\w+)\s*:\s*(.+)$", p, re.S)
            if not m: fail(f"parameter {p!r}")
            n, ty = m.group(1), ty_of(ctx, m.group(2), self_ty)
        env[n] = Val(lname(n) if n != "self" else "self_", ty)
        binders.append(f"({env[n].code} : {lean_ty(ty)})")
        ptys.append(ty)
    rty = ty_of(ctx, ret, self_ty)
    v = lo.stmts(*(lambda b: (b[1], 0, b[2]))(parse_block(body)), env)
    ok = v.ty == rty or (v.ty != "T" and rty != "T" and v.ty[0] == "V3" and rty[0] == "V3")
    if not ok: fail(f"body has type {v.ty!r}, signature says {rty!r}")
    unused = [k for k in (spec.get("typeid") or {}) if k not in lo.typeids_seen]
    if unused: fail(f"registered TypeId comparison(s) {unused} do not occur in the body any more")
    inst = "[Scalar α]" + (" [Angle α]" if lo.uses_angle else "") + (" {β : Type} [Scalar β] [ViaF64 α β]" if lo.uses_viaf64 else "")
    where = spec.get("label") or spec["where"] or ""
    doc = f"/-- `{spec['file']}`: `fn {spec['fn']}`" + (f" of `{where}`" if where else "") + \
          (f", branch {spec['typeid']}" if spec.get("typeid") else "") + (f", with {subst}" if subst else "") + " -/"
    text = f"{doc}\ndef {spec['name']} {{α : Type}} {inst} {' '.join(binders)} : {lean_ty(rty)} :=\n{indent(reflow(v.code), 2)}\n"
    rec = dict(lean="Gen.Body." + spec["name"], params=ptys, ret=rty, angle=lo.uses_angle, viaf64=lo.uses_viaf64,
               extra=["wp"] if spec.get("wp") else [])
    return text, rec

def make_ctx(read_src):
    ctx = Ctx(read_src)
    ctx.type_files = dict(COLOR_FILES)
    rgb = read_src("rgb.rs")
    for m in re.finditer(r"pub type (\w+)<[^>]*>\s*=\s*Rgb<", rgb): ctx.aliases[m.group(1)] = "Rgb"
    if "LinSrgb" not in ctx.aliases: fail("alias LinSrgb = Rgb<..> not found in rgb.rs")
    for k, d in INTRINSICS.items(): ctx.fns[k] = d
    return ctx

def generate(read_src, tie_text):
    """-> text of Gen/Bodies.lean.  Raises Untranslatable when a registered body is not recognised any more, or when a translated
    body has no `tie_` theorem in PaletteProofs/Tie_Bodies.lean."""
    ctx = make_ctx(read_src)
    defs = []
    for spec in BODIES:
        try:
            text, rec = translate_body(ctx, spec, read_src)
        except Untranslatable as e:
            raise Untranslatable(f"body {spec['name']} ({spec['file']}: fn {spec['fn']}): {e}")
        defs.append(text)
        for k in spec.get("as_fn", []): ctx.fns[k] = rec
        for k in spec.get("as_method", []):
            ctx.methods[tuple(k)] = dict(rec, hint=spec["hint"]) if spec.get("hint") else rec
        if spec["model"] is not None:
            m = re.search(r"\btheorem\s+tie_" + spec["name"] + r"\b(.*?):=", tie_text, re.S)
            if not m:
                raise Untranslatable(f"body {spec['name']} is translated but lean/PaletteProofs/Tie_Bodies.lean has no theorem tie_{spec['name']}")
            if not (re.search(r"Gen\.Body\." + spec["name"] + r"\b", m.group(1)) and spec["model"] in m.group(1)):
                raise Untranslatable(f"theorem tie_{spec['name']} does not state Gen.Body.{spec['name']} = {spec['model']}")
    tied = [s for s in BODIES if s["model"]]
    head = ["/- GENERATED by tools/extract.py (tools/rust2lean.py) from the function bodies of palette/src -- do not edit",
            "",
            "  Each definition is the translation of the *current* text of one Rust function (file, item and function named in its",
            "  doc comment) into a Lean term over `class Scalar`; conventions in the header of tools/rust2lean.py, primitives in",
            "  PaletteModel/BodyPrim.lean.  `PaletteProofs/Tie_Bodies.lean` proves `Gen.Body.<name> = <hand-written model function>`",
            "  (`tie_<name>`) for:",
            ] + ["    " + ", ".join(f"{s['name']} = {s['model']}" for s in tied[i:i + 4]) for i in range(0, len(tied), 4)] + [
            "  Helpers translated and unfolded inside those proofs (no model function of their own): "
            + ", ".join(s["name"] for s in BODIES if not s["model"]),
            "",
            "  NOT translated (still tied to the source by the correspondence run only):"] + \
           ["    " + u for u in UNTRANSLATED] + ["-/",
            "import PaletteModel.BodyPrim", "import PaletteModel.Color.Angle", "import PaletteModel.Color.Cie", "import PaletteModel.Color.Ok",
            "", "namespace Gen.Body", "",
            "/-- names of the translated bodies that have a `tie_` theorem, with the model function they are proved equal to -/",
            "def tied : List (String × String) := [\n" + ",\n".join("  " + ", ".join(f'("{s["name"]}", "{s["model"]}")' for s in tied[i:i + 3])
                                                                  for i in range(0, len(tied), 3)) + "]", ""]
    return "\n".join(head) + "\n" + "\n".join(defs) + "\nend Gen.Body\n"

if __name__ == "__main__":
    import os, sys
    repo = os.environ.get("PALETTE_REPO", "/repo")
    def read_src(rel): return strip_comments(open(os.path.join(repo, "palette", "src", rel)).read())
    root = os.path.dirname(os.path.dirname(os.path.abspath(__file__)))
    tie = os.path.join(root, "lean", "PaletteProofs", "Tie_Bodies.lean")
    try:
        sys.stdout.write(generate(read_src, open(tie).read() if os.path.exists(tie) and "--no-tie" not in sys.argv else
                                  "".join(f"theorem tie_{s['name']} : Gen.Body.{s['name']} = {s['model']} := " for s in BODIES)))
    except Untranslatable as e:
        print("FAILED:", e); sys.exit(1)
