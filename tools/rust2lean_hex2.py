#!/usr/bin/env python3
"""
rust2lean_hex2 -- family `hex2` of the source-text tie (C12): what the header of Gen/BodiesHex.lean lists as NOT translated.

  * the eight `From` impls between `Packed<O, P>` and `Rgb` / `Rgba` (rgb/rgb.rs), `Luma` / `Lumaa` (luma/luma.rs)
  * `Rgb::from_hex` / `Rgba::from_hex` (the inherent constructors: one line, `hex.parse()`)
  * the blanket impls `ComponentOrder<C, u8>` / `<C, u64>` / `<C, u128> for T` of cast/packed.rs (the u16 / u32 ones are family `hex`); every
    `impl<C, T> ComponentOrder<C, uN> for T` found in the file must be registered in one of the two families (a new width stops the run)
  * `impl Display for FromHexError`: the `match` (variant -> format string and arguments) as a table, format strings as byte lists
Parser: `HParser` of tools/rust2lean_hex.py (string literals, `write!`).  The lowering here is a small *dictionary-passing* one for one-expression bodies
(`Lower2`): a variable, a field read `.color` (checked against the `struct Alpha` field list), a call / method call whose callee is a registered
dictionary entry (trait dispatch: `Self::from`, `Rgba::from`, `hex.parse()`, `T::pack`, `T::unpack`) or a registered translated function of family `hex`
(`Packed::pack`, `.unpack()` -> `Gen.BodyHex.packedPack / packedUnpack`, imported), `uN::from_be_bytes(a)` / `x.to_be_bytes()` -> `Hex2Prim.fromBeBytes` /
`Hex2Prim.toBeBytes N`, a one-element array `[x]` / the pattern `let [x] = e;` -> `Hex2Prim.arr1` / `Hex2Prim.get1`.
Output: lean/PaletteModel/Gen/BodiesHex2.lean (namespace `Gen.BodyHex2`), tied in lean/PaletteProofs/Tie_Hex2.lean.
"""
import os, re, sys
sys.path.insert(0, os.path.dirname(os.path.abspath(__file__)))
import rust2lean as R
import rust2lean_hex as H
from rust2lean import Untranslatable, fail, find_fn, split_top, impl_of

NS = "Gen.BodyHex2"
def norm(t): return re.sub(r"\s+", "", t)

class Lower2:
    def __init__(self, spec):
        self.spec = spec
        self.used = set()

    def expr(self, e, env):
        k = e[0]
        if k == "path" and len(e[1]) == 1 and not e[2]:
            if e[1][0] in env: return env[e[1][0]]
            fail(f"unbound name {e[1][0]}")
        if k == "field":
            if e[2] not in self.spec.get("fields", ()): fail(f"field .{e[2]} is not registered for this body")
            return f"{self.expr(e[1], env)}.{e[2]}"
        if k == "call" and e[1][0] == "path":
            key = "::".join(e[1][1])
            args = [self.expr(x, env) for x in e[2]]
            return self.apply(key, args)
        if k == "mcall" and not (len(e) > 4 and e[4]):
            return self.apply("." + e[2], [self.expr(e[1], env)] + [self.expr(x, env) for x in e[3]])
        if k == "array" and len(e[1]) == 1:
            return f"(Hex2Prim.arr1 {self.expr(e[1][0], env)})"
        fail(f"expression kind {k!r} is outside the translated subset of family hex2")

    def apply(self, key, args):
        d = self.spec.get("dict", {})
        if key in d:
            self.used.add(key)
            name, arity = d[key][0], d[key][2] if len(d[key]) > 2 else 1
            if len(args) != arity: fail(f"`{key}` with {len(args)} arguments, {arity} registered")
            return "(" + " ".join([name] + args) + ")"
        m = re.fullmatch(r"(u\d+)::from_be_bytes", key)
        if m and len(args) == 1:
            if m.group(1) != self.spec.get("uint"): fail(f"`{key}` in a body registered for {self.spec.get('uint')}")
            return f"(Hex2Prim.fromBeBytes {args[0]})"
        if key == ".to_be_bytes" and len(args) == 1 and self.spec.get("uint"):
            return f"(Hex2Prim.toBeBytes {int(self.spec['uint'][1:]) // 8} {args[0]})"
        fail(f"call of `{key}` is outside the translated subset (not a registered dictionary entry, translated function or primitive)")

    def block(self, b, env):
        env = dict(env)
        lets = []
        for st in b[1]:
            if st[0] == "let" and st[1][0] == "parray" and len(st[1][1]) == 1 and st[1][1][0][0] == "pid" and st[3] is not None:
                n = st[1][1][0][1]
                lets.append(f"let {n} := Hex2Prim.get1 {self.expr(st[3], env)};")
                env[n] = n
            else:
                fail(f"statement {st[0]!r} is outside the translated subset of family hex2")
        if b[2] is None: fail("body without value")
        return "\n".join(lets + [self.expr(b[2], env)])

def translate(spec, read_src):
    src = read_src(spec["file"])
    params, ret, body = find_fn(src, spec["where"][0], spec["fn"], spec.get("nth", 0))
    if norm(ret) != norm(spec["ret"][0]): fail(f"return type is `{ret}`, registered `{spec['ret'][0]}`")
    got = [p.strip() for p in split_top(params) if p.strip()]
    if len(got) != len(spec["params"]): fail(f"{len(got)} parameters, registered {len(spec['params'])}")
    env, binders = {}, []
    for p, (rname, rty, lty) in zip(got, spec["params"]):
        if rname == "self":
            if norm(p) != norm(rty): fail(f"receiver `{p}`, registered `{rty}`")
            env["self"] = "self_"; binders.append(f"(self_ : {lty})"); continue
        m = re.fullmatch(r"(\w+)\s*:\s*(.+)", p, re.S)
        if not m or m.group(1) != rname or norm(m.group(2)) != norm(rty): fail(f"parameter `{p}`, registered `{rname}: {rty}`")
        env[rname] = R.lname(rname); binders.append(f"({R.lname(rname)} : {lty})")
    if spec.get("where_clause"):       # the bound that makes the registered dictionary the right one (`O: ComponentOrder<Rgba<S, T>, P>`)
        i = src.index("{", re.search(spec["where"][0], src).end() - 1)
        head = src[re.search(spec["where"][0], src).start():i]
        for w in spec["where_clause"]:
            if norm(w) not in norm(head): fail(f"bound `{w}` not found in the impl header")
    L = Lower2(spec)
    term = L.block(H.parse_block(body), env)
    unused = [k for k in spec.get("dict", {}) if k not in L.used and not spec["dict"][k][3:]]
    if unused: fail(f"registered callee(s) {unused} are not called any more")
    dict_binders = []
    for k, v in spec.get("dict", {}).items():
        if v[1] is not None and f"({v[0]} : {v[1]})" not in dict_binders: dict_binders.append(f"({v[0]} : {v[1]})")
    sig = " ".join(x for x in [spec.get("targs", "")] + dict_binders + binders if x)
    return f"/-- `{spec['file']}`: `fn {spec['fn']}` of `{spec['where'][1]}` -/\ndef {spec['name']} {sig} : {spec['ret'][1]} :=\n{R.indent(term, 2)}\n"

def B(name, file, where, fn, model, params, ret, **kw):
    return dict(name=name, file=file, where=where, fn=fn, model=model, params=params, ret=ret, **kw)

PK = "HexPrim.PackedOf π"
PACKFN = {"Packed::pack": ("Gen.BodyHex.packedPack pack unpack", None, 1), "O::pack": ("pack", "γ → π", 1, "opt"), "O::unpack": ("unpack", "π → γ", 1, "opt")}
UNPACKFN = {".unpack": ("Gen.BodyHex.packedUnpack pack unpack", None, 1), "O::pack": ("pack", "γ → π", 1, "opt"), "O::unpack": ("unpack", "π → γ", 1, "opt")}

def packed_impls(file, colour):
    A = colour + "a"
    lo, la = colour.lower(), A.lower()
    return [
        B(f"{la}IntoPacked", file, impl_of(f"From<{A}<S, T>> for Packed<O, P>"), "from", "Packed.packU32" if colour == "Rgb" else "Packed.packU16",
          [("color", f"{A}<S, T>", "γ")], ("Self", PK), targs="{γ π : Type}", dict=PACKFN, where_clause=[f"O: ComponentOrder<{A}<S, T>, P>"]),
        B(f"{lo}IntoPacked", file, impl_of(f"From<{colour}<S, T>> for Packed<O, P>"), "from", "Packed.rgbIntoU32" if colour == "Rgb" else "Packed.lumaIntoU16",
          [("color", f"{colour}<S, T>", "ρ")], ("Self", PK), targs="{ρ γ π : Type}",
          dict={"Self::from": ("packedFrom", f"γ → {PK}", 1), f"{A}::from": (f"{la}From", "ρ → γ", 1)},
          where_clause=[f"O: ComponentOrder<{A}<S, T>, P>", f"{A}<S, T>: From<{colour}<S, T>>"]),
        B(f"{la}FromPacked", file, impl_of(f"From<Packed<O, P>> for {A}<S, T>"), "from", "Packed.unpackU32" if colour == "Rgb" else "Packed.unpackU16",
          [("packed", "Packed<O, P>", PK)], ("Self", "γ"), targs="{γ π : Type}", dict=UNPACKFN, where_clause=[f"O: ComponentOrder<{A}<S, T>, P>"]),
        B(f"{lo}FromPacked", file, impl_of(f"From<Packed<O, P>> for {colour}<S, u8>"), "from", "Packed.rgbFromU32" if colour == "Rgb" else "Packed.lumaFromU16",
          [("packed", "Packed<O, P>", PK)], ("Self", "ρ"), targs="{ρ τ π : Type}", fields=["color"],
          dict={f"{A}::from": (f"{la}From", f"{PK} → Prim.AlphaOf ρ τ", 1)}, where_clause=[f"O: ComponentOrder<{A}<S, u8>, P>"]),
    ]

def blanket(bits):
    n = bits // 8
    arr = "Hex2Prim.Arr1 Nat" if n == 1 else "List Nat"
    w = impl_of(f"ComponentOrder<C, u{bits}> for T")
    d = {"T::pack": ("pack", f"γ → {arr}", 1, "opt"), "T::unpack": ("unpack", f"{arr} → γ", 1, "opt")}
    wc = [f"T: ComponentOrder<C, [u8; {n}]>"]
    return [B(f"orderPackU{bits}", "cast/packed.rs", w, "pack", f"PackedForms.packU{bits}", [("color", "C", "γ")], (f"u{bits}", "Nat"), targs="{γ : Type}", dict=d,
              uint=f"u{bits}", where_clause=wc),
            B(f"orderUnpackU{bits}", "cast/packed.rs", w, "unpack", f"PackedForms.unpackU{bits}", [("packed", f"u{bits}", "Nat")], ("C", "γ"), targs="{γ : Type}", dict=d,
              uint=f"u{bits}", where_clause=wc)]

def from_hex(name, ty, nth):
    return B(name, "rgb/rgb.rs", impl_of(ty), "from_hex", "Hex.fromStr" + ("RgbaU8" if "Alpha" in ty else "RgbU8"), [("hex", "&str", "Hex.Bytes")],
             ("Result<Self, <Self as FromStr>::Err>", "ρ"), targs="{ρ : Type}", dict={".parse": ("parse", "Hex.Bytes → ρ", 1)})

BODIES = packed_impls("rgb/rgb.rs", "Rgb") + packed_impls("luma/luma.rs", "Luma") + [
    from_hex("rgbFromHex", "Rgb<S, T>", 0), from_hex("rgbaFromHex", "Alpha<Rgb<S, T>, A>", 0),
    *blanket(8), *blanket(64), *blanket(128)]

HEX_WIDTHS = {16, 32}      # the blanket impls of family `hex`

def check_widths(read_src):
    got = {int(b) for b in re.findall(r"impl\s*<\s*C\s*,\s*T\s*>\s*ComponentOrder\s*<\s*C\s*,\s*u(\d+)\s*>\s*for\s+T\b", read_src("cast/packed.rs"))}
    want = HEX_WIDTHS | {8, 64, 128}
    if got != want: fail(f"cast/packed.rs: blanket `ComponentOrder<C, uN> for T` impls for N = {sorted(got)}, registered {sorted(want)}")

def check_from_impls(read_src):
    """every `impl From<..Packed..> for ..` / `impl From<..> for Packed<..>` of rgb/rgb.rs and luma/luma.rs is registered"""
    for f, n in (("rgb/rgb.rs", 4), ("luma/luma.rs", 4)):
        got = re.findall(r"impl\s*<[^>]*>\s*From\s*<\s*([^{]*?)\s*>\s*for\s+([\w<>, ]+?)\s*(?:where|\{)", read_src(f))
        got = [(a, b) for a, b in got if "Packed" in a or "Packed" in b]
        if len(got) != n: fail(f"{f}: {len(got)} `From` impls involving `Packed`, {n} registered")

# ------------------------------------------------------------------------------------------------ Display for FromHexError
def display_table(read_src):
    """`impl Display for FromHexError`: [(variant, binder, format string, [arguments])] of the `match self { V(x) => write!(f, "..", args), .. }`"""
    src_raw = read_src("rgb/rgb.rs")
    params, ret, body = find_fn(src_raw, impl_of("core::fmt::Display for FromHexError")[0], "fmt")
    toks = H.tokenize(body)
    p = H.HParser(toks)
    p.expect("{")
    if not (p.eat("match") and p.eat("self")): fail("Display for FromHexError: body is not `match self { .. }`")
    p.expect("{")
    rows = []
    while not p.at("}"):
        if not (p.eat("FromHexError") and p.eat("::")): fail("Display for FromHexError: arm pattern is not `FromHexError::Variant(x)`")
        variant = p.next()[1]
        p.expect("("); binder = p.next()[1]; p.expect(")"); p.expect("=>")
        if not (p.eat("write") and p.eat("!")): fail(f"Display for FromHexError: arm {variant} is not a `write!`")
        p.expect("(")
        if p.next()[1] != "f": fail("write!: first argument is not `f`")
        p.expect(",")
        k, s = p.next()
        if k != "str": fail("write!: format string expected")
        args = []
        while p.eat(","):
            if p.at(")"): break
            args.append(p.next()[1])
        p.expect(")")
        p.eat(",")
        rows.append((variant, binder, s[1:-1], args))
    p.expect("}"); p.expect("}")
    variants = [v for v, _ in R.enum_variants(src_raw, "FromHexError")]
    if [r[0] for r in rows] != variants: fail(f"Display for FromHexError: arms {[r[0] for r in rows]}, enum variants {variants}")
    return rows

def bytes_lit(s):
    if "\\" in s: fail("escape sequence in a format string")
    return "[" + ", ".join(str(b) for b in s.encode()) + "]"

UNTRANSLATED = [
    "`FromStr::from_str` behind `hex.parse()` (`str::parse::<F>` is `F::from_str`: core): the dictionary entry `parse`; instantiated at the translated `FromStr` impls of family `hex`",
    "`uN::from_be_bytes` / `to_be_bytes` of core at u8 / u64 / u128: *read* as `Hex2Prim.fromBeBytes` / `Hex2Prim.toBeBytes N` (= `Packed.fromBeBytes` / `Packed.toBeBytes N`,",
    "  the model's own big-endian functions); no colour of the crate implements `ComponentOrder<_, [u8; 1 | 8 | 16]>`, so these three blanket impls have no instance",
    "  inside palette (C12 quantifies over the 4 RGBA and 2 luma orders at u32 / u16): the ties are for every dictionary",
    "`core::fmt` behind `write!(f, \"{}..\", x)` in `Display for FromHexError`: only the table variant -> (format string, arguments) is extracted and pinned (`tie_displayFromHexError`);",
    "  the message payloads `&'static str` are dropped by the model (`Hex.Err`), `impl Error for FromHexError` (`source()`: forwarding)",
    "`impl_array_casts!`, `named::entries / names / colors`: see the header of Gen/BodiesHex.lean (C04 family `cast2` ties the `impl_array_casts!` expansions)",
]

def generate(read_src, tie_text):
    H.verify_decls(read_src)
    check_widths(read_src); check_from_impls(read_src)
    defs, tied = [], []
    for spec in BODIES:
        try:
            defs.append(translate(spec, read_src))
        except Untranslatable as e:
            raise Untranslatable(f"body {spec['name']} ({spec['file']}: fn {spec['fn']}): {e}")
        except (KeyError, IndexError, TypeError, AttributeError, ValueError) as e:
            raise Untranslatable(f"body {spec['name']} ({spec['file']}: fn {spec['fn']}): {type(e).__name__}: {e}")
        tied.append((spec["name"], spec["model"]))
    rows = display_table(read_src)
    tied.append(("displayFromHexError", "HexForms.displayTable"))
    for name, model in tied:
        m = re.search(r"\btheorem\s+tie_" + name + r"\b(.*?):=", tie_text, re.S)
        if not m: raise Untranslatable(f"body {name} is translated but lean/PaletteProofs/Tie_Hex2.lean has no theorem tie_{name}")
        if not (re.search(re.escape(NS) + r"\." + name + r"\b", m.group(1)) and re.search(r"(?<![\w.])" + re.escape(model) + r"(?![\w])", m.group(1))):
            raise Untranslatable(f"theorem tie_{name} does not state {NS}.{name} against {model}")
    have = {n for n, _ in tied}
    for m in re.finditer(r"\btheorem\s+tie_(\w+)", tie_text):
        if m.group(1) not in have: raise Untranslatable(f"lean/PaletteProofs/Tie_Hex2.lean has theorem tie_{m.group(1)}, but no body {m.group(1)} is translated any more")
    disp = ("/-- `rgb/rgb.rs`: `fn fmt` of `impl core::fmt::Display for FromHexError`: per `match` arm (enum order) the variant, the format string (UTF-8 bytes) and the\n"
            "    positions of the `write!` arguments that are the arm's binder (every argument must be the binder) -/\n"
            "def displayFromHexError : List (String × List UInt8 × Nat) := [\n" +
            ",\n".join(f"  ({H_lean_str(v)}, {bytes_lit(s)}, {len(args)})" for v, b, s, args in rows) + "]\n")
    for v, b, s, args in rows:
        if any(a != b for a in args): fail(f"Display for FromHexError: arm {v} formats {args}, not only its binder `{b}`")
        if s.count("{}") != len(args) or s.count("{") != len(args): fail(f"Display for FromHexError: arm {v}: placeholders of {s!r} do not match {len(args)} arguments")
    head = ["/- GENERATED by tools/extract.py (plugin tools/extract_plugins/hex2.py, translator tools/rust2lean_hex2.py, family `hex2`) from the function bodies of palette/src -- do not edit",
            "",
            "  C12, second part: the eight `From` impls between `Packed<O, P>` and Rgb / Rgba / Luma / Lumaa, `Rgb::from_hex` / `Rgba::from_hex`, the blanket",
            "  `ComponentOrder<C, u8 / u64 / u128> for T` impls of cast/packed.rs, and the arm table of `Display for FromHexError`.  Each definition is the translation of the",
            "  *current* text of one Rust function (named in its doc comment); trait-dispatched callees are parameters; conventions in the header of tools/rust2lean_hex2.py,",
            "  readings in PaletteModel/BodyPrimHex2.lean.  `PaletteProofs/Tie_Hex2.lean` proves (for every value of the parameters, or at the instantiation in the statement):",
            ] + ["    " + ", ".join(f"{n} ~ {m}" for n, m in tied[i:i + 4]) for i in range(0, len(tied), 4)] + [
            "",
            "  NOT translated in this family:"] + ["    " + u for u in UNTRANSLATED] + ["-/",
            "import PaletteModel.Gen.BodiesHex", "import PaletteModel.BodyPrimHex2", "import PaletteModel.PackedForms", "",
            "set_option linter.unusedVariables false   -- every registered dictionary entry stays a parameter, used or not", "",
            f"namespace {NS}", "",
            "/-- names of the translated bodies with the model function their `tie_` theorem relates them to -/",
            "def tiedHex2 : List (String × String) := [\n" + ",\n".join("  " + ", ".join(f'("{n}", "{m}")' for n, m in tied[i:i + 3]) for i in range(0, len(tied), 3)) + "]", ""]
    return "\n".join(head) + "\n" + "\n".join(defs) + "\n" + disp + f"\nend {NS}\n"

def H_lean_str(s): return '"' + s.replace("\\", "\\\\").replace('"', '\\"') + '"'

if __name__ == "__main__":
    repo = os.environ.get("PALETTE_REPO", "/repo")
    def read_src(rel): return R.strip_comments(open(os.path.join(repo, "palette", "src", rel)).read())
    root = os.path.dirname(os.path.dirname(os.path.abspath(__file__)))
    tie = os.path.join(root, "lean", "PaletteProofs", "Tie_Hex2.lean")
    try:
        fake = "".join(f"theorem tie_{s['name']} : {NS}.{s['name']} {s['model']} := " for s in BODIES) + f"theorem tie_displayFromHexError : {NS}.displayFromHexError HexForms.displayTable := "
        sys.stdout.write(generate(read_src, open(tie).read() if os.path.exists(tie) and "--no-tie" not in sys.argv else fake))
    except Untranslatable as e:
        sys.stderr.write(f"rust2lean_hex2: {e}\n"); sys.exit(1)
