#!/usr/bin/env python3
"""
Certificate search for lean/PaletteProofs/C07_OkCuspScan{0,1,2,3}.lean (the interval scan of the hue circle behind
C07 OkCusp.* / C01 unconditional Okhsv round trips).

The Lean side evaluates `OkCusp.checkT` (PaletteProofs/Lemmas/OkCuspEnclosure.lean) in the kernel on boxes of the rational
circle parameter t; this script mirrors that fixed-point interval arithmetic (same operation order, same outward rounding, so it
predicts the kernel's answers exactly), finds for each of the 80 base cells [j/96, (j+1)/96), j = -40..39, of each quarter-turn
sector the smallest refinement 2^k that passes, widens finer runs by one cell, and writes the four scan modules (chunks of at most
CHUNK boxes per `decide +kernel`, glued by `OkCusp.scan_sound`).

It is NOT part of ./check: the generated modules are ordinary proof sources (the kernel re-checks every box); rerun it only if
the coefficients of ok_utils.rs change and a scan theorem fails.   usage: python3 tools/gen_okcusp_scan.py
"""
import os, re, sys
from fractions import Fraction as Fr
ROOT = os.path.dirname(os.path.dirname(os.path.abspath(__file__)))
P = 50; ONE = 1 << P
def fdiv(z, d=ONE): return z // d
def cdiv(z, d=ONE): return -((-z) // d)
class I:
    __slots__ = ('lo', 'hi')
    def __init__(s, lo, hi): s.lo = lo; s.hi = hi
    def __add__(a, b): b = V(b); return I(a.lo + b.lo, a.hi + b.hi)
    __radd__ = __add__
    def __sub__(a, b): b = V(b); return I(a.lo - b.hi, a.hi - b.lo)
    def __rsub__(a, b): return V(b) - a
    def __neg__(a): return I(-a.hi, -a.lo)
    def __mul__(a, b):
        b = V(b); ps = [a.lo * b.lo, a.lo * b.hi, a.hi * b.lo, a.hi * b.hi]
        return I(fdiv(min(ps)), cdiv(max(ps)))
    __rmul__ = __mul__
    def inv(a):
        if a.lo > 0: return I(fdiv(ONE * ONE, a.hi), cdiv(ONE * ONE, a.lo))
        raise ZeroDivisionError
    def __truediv__(a, b): return a * V(b).inv()
    def __rtruediv__(a, b): return V(b) / a
def V(x):
    if isinstance(x, I): return x
    q = Fr(str(x)) if not isinstance(x, Fr) else x
    return I(fdiv(q.numerator * ONE, q.denominator), cdiv(q.numerator * ONE, q.denominator))
def imax(a, b): return I(max(a.lo, b.lo), max(a.hi, b.hi))

def klist(name):
    """constants of Gen/OkUtils.lean / Gen/Matrices.lean (the generated model tables), as intervals"""
    for f in ("lean/PaletteModel/Gen/OkUtils.lean", "lean/PaletteModel/Gen/Matrices.lean"):
        txt = open(os.path.join(ROOT, f)).read()
        m = re.search(r"def %s : List K := \[(.*?)\]\n" % name, txt)
        if m:
            out = []
            for neg, num in re.findall(r"\((-?)\(([0-9.e]+) : K\)\)", m.group(1)):
                v = V(Fr(num)) if 'e' not in num else V(Fr(float(num)))
                out.append(-v if neg else v)
            return out
    raise SystemExit("table %s not found" % name)
c = klist("maxSaturation"); sm = klist("stMid"); fn = klist("fromNormalized"); lin = klist("oklabToLinSrgbCoeffs")

def halley(o, a, b):
    k0, k1, k2, k3, k4, wl, wm, ws = c[o:o + 8]
    S = k0 + k1 * a + k2 * b + k3 * (a * a) + k4 * a * b
    kl = c[28] * a + c[29] * b; km = c[30] * a - c[31] * b; ks = c[32] * a - c[33] * b
    l_ = 1 + S * kl; m_ = 1 + S * km; s_ = 1 + S * ks
    l = l_ * l_ * l_; m = m_ * m_ * m_; s = s_ * s_ * s_
    lds = c[34] * kl * (l_ * l_); mds = c[35] * km * (m_ * m_); sds = c[36] * ks * (s_ * s_)
    l2 = c[37] * (kl * kl) * l_; m2 = c[38] * (km * km) * m_; s2 = c[39] * (ks * ks) * s_
    f = wl * l + wm * m + ws * s; f1 = wl * lds + wm * mds + ws * sds; f2 = wl * l2 + wm * m2 + ws * s2
    return S, f, f1, f1 * f1 - c[40] * f * f2
def rgb(L, a, b):
    k = lin
    l_ = L + k[0] * a + k[1] * b; m_ = L - k[2] * a - k[3] * b; s_ = L - k[4] * a - k[5] * b
    l = l_ * l_ * l_; m = m_ * m_ * m_; s = s_ * s_ * s_
    return (k[6] * l - k[7] * m + k[8] * s, k[9] * l + k[10] * m - k[11] * s, k[12] * l - k[13] * m + k[14] * s)
def dens(a, b):
    ds = sm[1] + sm[2] * b + a * (sm[3] + sm[4] * b + a * (sm[5] - sm[6] * b + a * (sm[7] + sm[8] * b + sm[9] * a)))
    dt = sm[11] - sm[12] * b + a * (sm[13] + sm[14] * b + a * (sm[15] + sm[16] * b + a * (sm[17] - sm[18] * b - sm[19] * a)))
    return ds, dt
def check_box(A, B):
    ds, dt = dens(A, B)
    if not (ds.lo > 0 and dt.lo > 0): return False
    mid = fn[0] * (sm[0] + 1 / ds)
    c0 = c[0] * A - c[1] * B; c1 = c[10] * A - c[11] * B
    poss = [c0.hi > ONE, c0.lo <= ONE and c1.hi > ONE, c0.lo <= ONE and c1.lo <= ONE]
    for i in range(3):
        if not poss[i]: continue
        S, f, f1, Dn = halley([2, 12, 20][i], A, B)
        if not Dn.lo > 0: return False
        sat = S - f * f1 / Dn
        if not (sat.lo > ONE // 8 and sat.hi < ONE): return False
        r = rgb(V(1), sat * A, sat * B); M = imax(imax(r[0], r[1]), r[2])
        if not (M.lo > ONE and M.hi < 20 * ONE): return False
        if not mid.hi < sat.lo: return False
    return True
ROT = [lambda c, s: (c, s), lambda c, s: (-s, c), lambda c, s: (-c, -s), lambda c, s: (s, -c)]
def check_t(r, n0, n1, d):
    T = I(fdiv(n0 * ONE, d), cdiv(n1 * ONE, d)); t2 = T * T
    C = (1 - t2) / (1 + t2); S = (2 * T) / (1 + t2)
    try: return check_box(*ROT[r](C, S))
    except ZeroDivisionError: return False

D0, N0, KMAX, CHUNK = 96, 40, 7, 24
def level(r, j):
    for k in range(KMAX + 1):
        m = 1 << k
        if all(check_t(r, (-N0 + j) * m + i, (-N0 + j) * m + i + 1, D0 * m) for i in range(m)): return k
    raise SystemExit("cell %d of sector %d does not pass at level %d" % (j, r, KMAX))

def main():
    total = 0
    for r in range(4):
        ks = [level(r, j) for j in range(2 * N0)]
        wide = [max(ks[max(0, j - 1):j + 2]) for j in range(2 * N0)]          # widen finer runs by one cell
        segs = []                                                             # (k, cell0, cells)
        for j, k in enumerate(wide):
            if segs and segs[-1][0] == k: segs[-1][2] += 1
            else: segs.append([k, j, 1])
        chunks = []                                                           # (N, D, j0, cnt)
        for k, c0, n in segs:
            m = 1 << k; j0 = c0 * m; left = n * m
            while left > 0:
                cnt = min(CHUNK, left); chunks.append((N0 * m, D0 * m, j0, cnt)); j0 += cnt; left -= cnt
        for (N, D, j0, cnt) in chunks:
            assert all(check_t(r, -N + j0 + i, -N + j0 + i + 1, D) for i in range(cnt))
        total += sum(ch[3] for ch in chunks)
        L = []
        L.append("/- GENERATED by tools/gen_okcusp_scan.py (certificate: refinement levels per base cell `%s`) -- the kernel re-checks every box -/" % ''.join(map(str, wide)))
        L.append("import PaletteProofs.Lemmas.OkCuspEnclosure\n")
        L.append("set_option maxRecDepth 100000\n")
        L.append("namespace OkCuspScan%d\nopen OkCusp\n" % r)
        for i, (N, D, j0, cnt) in enumerate(chunks):
            L.append("theorem chunk%d : scan %d %d %d %d %d = true := by decide +kernel" % (i, r, N, D, j0, cnt))
        L.append("")
        L.append("/-- **sector %d** (a quarter turn centred on the %s axis): the facts hold for every parameter `t ∈ [−5/12, 5/12)` -/" % (r, ["+a", "+b", "−a", "−b"][r]))
        L.append("theorem sector (t : ℝ) (h0 : -(5 / 12 : ℝ) ≤ t) (h1 : t < 5 / 12) :")
        L.append("    Facts (rotA %d (circC t) (circS t)) (rotB %d (circC t) (circS t)) := by" % (r, r))
        for i, (N, D, j0, cnt) in enumerate(chunks):
            hi = Fr(-N + j0 + cnt, D)
            last = i == len(chunks) - 1
            call = "scan_sound %d %d %d (by norm_num) %d %d chunk%d t (by norm_num; linarith) (by norm_num; linarith)" % (r, N, D, j0, cnt, i)
            if last:
                L.append("  exact " + call)
            else:
                L.append("  by_cases c%d : t < (%d / %d : ℝ)" % (i, hi.numerator, hi.denominator))
                L.append("  · exact " + call)
        L.append("\nend OkCuspScan%d" % r)
        open(os.path.join(ROOT, "lean/PaletteProofs/C07_OkCuspScan%d.lean" % r), "w").write("\n".join(L) + "\n")
        print("sector", r, "levels", ''.join(map(str, wide)), "chunks", len(chunks), "boxes", sum(ch[3] for ch in chunks))
    print("total boxes", total)
if __name__ == "__main__":
    main()
