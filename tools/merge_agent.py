#!/usr/bin/env python3
"""
merge_agent.py <agent copy dir> <PROP> [--driver-arm '<arm text>'] ...
Copies the files an agent added for a property from its copy of /verif and merges the shared registration files:
  * new files under lean/PaletteModel, lean/PaletteProofs, lean/PaletteSpec, harness/src (not Gen/, not existing ones unless --overwrite f)
  * extract.py: functions present in the copy but not here are inserted before `def lean_str`, and their calls appended in main()
  * Driver.lean: imports and dispatch arms present in the copy but not here
  * main.rs: `mod` lines and dispatch arms
  * spec/props.json: the property's entry
"""
import sys, os, re, json, shutil
src = sys.argv[1].rstrip("/"); pid = sys.argv[2]
overwrite = set(sys.argv[3:])
dst = "/verif"
def rd(p): return open(p).read()
def wr(p, s): open(p, "w").write(s)
# 1. new files
for sub in ("lean/PaletteModel", "lean/PaletteModel/Color", "lean/PaletteProofs", "lean/PaletteProofs/Lemmas", "lean/PaletteSpec", "harness/src", "tools", "spec", "harness/corpus"):
    sd = os.path.join(src, sub)
    if not os.path.isdir(sd): continue
    for f in sorted(os.listdir(sd)):
        sp, dp = os.path.join(sd, f), os.path.join(dst, sub, f)
        if not os.path.isfile(sp): continue
        if f in ("extract.py", "main.rs", "registry.rs.txt", "props.json", "check", "gen_manifest.py", "hooks.json") : continue
        if not os.path.exists(dp):
            os.makedirs(os.path.dirname(dp), exist_ok=True); shutil.copy(sp, dp); print("added", os.path.join(sub, f))
        elif rd(sp) != rd(dp):
            if f in overwrite or os.path.join(sub, f) in overwrite: shutil.copy(sp, dp); print("OVERWROTE", os.path.join(sub, f))
            else: print("DIFFERS (kept ours):", os.path.join(sub, f))
# 2. extract.py
a, b = rd(os.path.join(src, "tools/extract.py")), rd(os.path.join(dst, "tools/extract.py"))
def top_defs(s):
    out = {}
    ms = list(re.finditer(r"^(?:def (\w+)\(|([A-Z_]+) = )", s, re.M))
    for i, m in enumerate(ms):
        name = m.group(1) or m.group(2)
        end = ms[i + 1].start() if i + 1 < len(ms) else len(s)
        # include preceding comment header lines
        start = m.start()
        out[name] = s[start:end]
    return out
da, db = top_defs(a), top_defs(b)
new = [n for n in da if n not in db and n not in ("main",)]
if new:
    block = "".join(da[n] for n in new)
    b = b.replace("def lean_str(s):", block + "def lean_str(s):", 1)
    calls_a = re.findall(r"^    (gen_\w+)\(\)", da.get("main", ""), re.M)
    calls_b = re.findall(r"^    (gen_\w+)\(\)", db.get("main", ""), re.M)
    for c in calls_a:
        if c not in calls_b:
            b = b.replace('    print("extract: ok")', f'    {c}()\n    print("extract: ok")'); print("extract.py: added call", c)
    wr(os.path.join(dst, "tools/extract.py"), b); print("extract.py: added", new)
for n in da:
    if n in db and da[n] != db[n] and n != "main": print("extract.py: function differs (kept ours):", n)
# 3. Driver.lean
a, b = rd(os.path.join(src, "lean/Driver.lean")), rd(os.path.join(dst, "lean/Driver.lean"))
for imp in re.findall(r"^import .*$", a, re.M):
    if imp not in b:
        last = list(re.finditer(r"^import .*$", b, re.M))[-1]
        b = b[:last.end()] + "\n" + imp + b[last.end():]; print("Driver.lean:", imp)
arms_a = re.findall(r"^  \| \".*=> .*$", a, re.M)
for arm in arms_a:
    if arm not in b:
        b = re.sub(r"^  \| _ => ", lambda m: arm + "\n" + m.group(0), b, count=1, flags=re.M); print("Driver.lean:", arm.strip()[:100])
wr(os.path.join(dst, "lean/Driver.lean"), b)
# 4. main.rs
srcreg = os.path.join(src, "harness/src/main.rs") if os.path.exists(os.path.join(src, "harness/src/main.rs")) else os.path.join(src, "harness/src/registry.rs.txt")
a, b = rd(srcreg), rd(os.path.join(dst, "harness/src/registry.rs.txt"))
for mod in re.findall(r"^mod \w+;$", a, re.M):
    if mod not in b:
        last = list(re.finditer(r"^mod \w+;$", b, re.M))[-1]
        b = b[:last.end()] + "\n" + mod + b[last.end():]; print("main.rs:", mod)
for arm in re.findall(r'^        "C\d+\w*" => .*$', a, re.M):
    if arm not in b:
        b = b.replace('        _ => { eprintln!("unknown property', arm + '\n        _ => { eprintln!("unknown property'); print("main.rs:", arm.strip())
wr(os.path.join(dst, "harness/src/registry.rs.txt"), b)
os.system("python3 /verif/tools/gen_bins.py > /dev/null")
# 5. props.json
pa, pb = json.load(open(os.path.join(src, "spec/props.json"))), json.load(open(os.path.join(dst, "spec/props.json")))
if pid in pa:
    pb[pid] = pa[pid]; json.dump(pb, open(os.path.join(dst, "spec/props.json"), "w"), indent=1); print("props.json:", pid)
# 6. Cargo.toml differences
if rd(os.path.join(src, "harness/Cargo.toml")) != rd(os.path.join(dst, "harness/Cargo.toml")): print("NOTE harness/Cargo.toml differs")
if os.path.exists(os.path.join(src, "lean/lakefile.toml")) and rd(os.path.join(src, "lean/lakefile.toml")) != rd(os.path.join(dst, "lean/lakefile.toml")): print("NOTE lean/lakefile.toml differs")
