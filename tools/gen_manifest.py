#!/usr/bin/env python3
"""Writes MANIFEST.json from spec/props.json (claimed properties) + properties.jsonl (everything else -> not_applicable/pending)."""
import json, os
ROOT = os.path.dirname(os.path.dirname(os.path.abspath(__file__)))
props = json.load(open(os.path.join(ROOT, "spec", "props.json")))
all_ids = [json.loads(l)["id"] for l in open(os.path.join(ROOT, "properties.jsonl"))]
checks, na = [], []
for pid in all_ids:
    if pid in props and props[pid].get("claimed", True):
        P = props[pid]
        checks.append({
            "property_id": pid,
            "quick_cmd": f"./check {pid} quick",
            "thorough_cmd": f"./check {pid} thorough",
            "evidence_file": f"/verif/evidence/{pid}.json",
            "replay_cmd_template": f"./check {pid} --replay {{path}}",
            "engine": "lean4-proof+correspondence",
            "level_claimed": {"category": "proof", "text": P["level_text"], "design_ref": P.get("design_ref", "DESIGN.md §3 " + pid)},
            "level_note": P["level_note"],
            "technique": P.get("technique", "Lean 4 theorems about a model of the code, tied to /repo by a translator for data and a differential correspondence check for logic"),
        })
    else:
        na.append({"property_id": pid, "reason": props.get(pid, {}).get("na_reason", "not yet claimed: model and theorems for this property are still being built (see DESIGN.md §7); no other technique is substituted")})
man = {
    "version": 1,
    "setup_cmd": "./setup.sh",
    "hooks": {
        "guard": "--cfg palette_verif",
        "enable": "harness/.cargo/config.toml passes `--cfg palette_verif` in rustflags; the harness depends on /repo/palette by path, so every check rebuilds palette from the working tree with the hook on",
        "baseline_off_cmd": "cd /repo && cargo test --workspace --no-fail-fast --offline --lib --tests",
        "source_commits": json.load(open(os.path.join(ROOT, "spec", "hooks.json")))["source_commits"],
        "add_only": True,
    },
    "engines": [{"name": "lean4-proof+correspondence", "path": "/verif/check", "serves_properties": [c["property_id"] for c in checks],
                 "kind_free_text": "Lean 4.33 theorems (lake build + #print axioms audit) about an executable model; Python translator regenerates data tables from /repo; Rust harness runs the real crate in-process and a compiled Lean driver replays every line through the model"}],
    "checks": checks,
    "not_applicable": na,
    "notes": "See DESIGN.md. known_findings.json lists genuine defects (fixed ones suppress nothing).",
}
json.dump(man, open(os.path.join(ROOT, "MANIFEST.json"), "w"), indent=1)
print("claimed:", [c["property_id"] for c in checks])
