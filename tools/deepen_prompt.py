#!/usr/bin/env python3
"""prints the standing brief for a builder sub-agent that DEEPENS an existing property module (more theorems, more of the code
inside the model, a tighter tie) in its own copy of /verif.   usage: deepen_prompt.py <name> <Cxx[,Cyy]> <task file>"""
import json, sys
name, pids, task = sys.argv[1], sys.argv[2].split(","), open(sys.argv[3]).read()
props = [json.loads(l) for l in open('/verif/properties.jsonl')]
texts = "\n".join(json.dumps({k: p[k] for k in ("id", "title", "statement", "quantifier")}, indent=1) for p in props if p['id'] in pids)
checks = " && ".join(f"./check {p} quick" for p in pids)
print(f"""You are extending a Lean-4-proof based verification framework for the Rust crate Ogeon/palette (source in /repo, read-only for you).
All 20 properties already have a passing check; your job is to DEEPEN the part described under "Task" in YOUR OWN COPY of the framework, following its conventions exactly.

## Setup (do this first)
  mkdir -p /tmp/w_{name} && rsync -a --exclude harness/target --exclude out --exclude replays /verif/ /tmp/w_{name}/verif/ && cd /tmp/w_{name}/verif
Work ONLY inside /tmp/w_{name}/verif. Never write to /verif or /repo (the harness depends on /repo/palette by absolute path; that is fine, it only reads it).
The copy has the Lean build cache (lean/.lake) but not the Rust one: if (and only if) your task needs the harness, `cd harness && cargo build --release --offline --bin <cxx>` builds one property's binary in 1-3 min; `./check Cxx quick` does that itself.
No network. Lean 4.33 + Mathlib are preinstalled (`lake build` inside lean/ just works; never add a `require`; never `import Mathlib` wholesale, only single modules, and never in PaletteModel/ or Driver.lean).
Other agents work in parallel on the same machine (16 cores shared): do not run more than one `lake build` / `cargo build` at a time yourself.
Read first: AGENT_GUIDE.md (conventions, MUST follow), DESIGN.md §2 and the "### Cxx" paragraphs of §3 for your properties, the `level_note` of your properties in spec/props.json (it lists what is NOT yet proved), and the existing modules named in the task.

## The properties concerned (fixed text; never reinterpret more strictly or more loosely, never edit properties.jsonl)
{texts}

## Task
{task}

## Rules
- Theorems are about the model the driver executes (PaletteModel/...), not about a fresh idealised copy. If you must restate a function to reason about it, prove the restatement equal to the model function.
- State each claim at full strength; if only part is provable keep the full statement in a comment, prove a clearly named `..._partial`, and say what is missing. Beside an implication add an `example` showing its hypotheses are satisfiable by a non-trivial value.
- No sorry / admit / axiom / native_decide / bv_decide / implemented_by / unsafe / `maxHeartbeats 0`. `#print axioms` of every theorem must be within {{propext, Classical.choice, Quot.sound}}. No tactic call above ~30 s, no module above ~4 min (split files). Long kernel evaluations (> 4 min in total) go into the library `PaletteThorough` (thorough tier only; see spec/props.json `lean_thorough` of C06 and lean/PaletteThorough/).
- Several agents extend this framework in parallel and their work is merged file by file: put new work into NEW files wherever possible; edit existing files (other than your properties' entries in spec/props.json) only when unavoidable, append-only where you can, and list every such edit. Do not change the semantics of an existing model function (the driver and other proofs depend on it).
- Do not weaken, delete or rename existing theorems; do not loosen oracle tolerances. If an existing statement turns out false, say so in the report with the witness.
- New theorem modules must be registered in spec/props.json (`lean` list of the property, or `lean_thorough`), level_text / level_note updated honestly (what is proved now, what is still only oracle/correspondence), then `python3 tools/gen_manifest.py`.
- Acceptance: `{checks}` exit 0 on the unchanged /repo in your copy (each < 4 minutes warm), and `cd lean && lake build` completes.
- Genuine defects of palette found on the way (the property as stated fails on the real code with a concrete input): do NOT loosen anything; report input and behaviour, and if the repair is a small safe patch write it as /tmp/w_{name}/fix.diff (unified diff against /repo; verify `cargo test --workspace --no-fail-fast --offline --lib --tests` = 871 passed in a scratch worktree `git -C /repo worktree add --detach /tmp/w_{name}/repo_fix HEAD`, removed afterwards with `git -C /repo worktree remove --force`).

## Final report (your last message, short)
- files added / changed in your copy (relative paths); for shared files (lean/Driver.lean, harness/src/registry.rs.txt, spec/props.json, tools/extract.py, known_findings.json, DESIGN.md) the exact entries you changed, so they can be merged entry by entry
- new theorem names with one line each on what they state, what remains `_partial` or unproved and why, build times
- tails of the acceptance runs
Do not remove /tmp/w_{name}/verif when done (remove only scratch worktrees and their build output).
""")
