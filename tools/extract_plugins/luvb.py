"""family `luvb`: palette/src/luv_bounds.rs and the two HSLuv edges that call it, re-translated on every run by tools/rust2lean_luvb.py into
lean/PaletteModel/Gen/BodiesLuvBounds.lean; lean/PaletteProofs/Tie_LuvBounds.lean proves every body equal to its model function.  A registered body
that disappears or leaves the translated subset, an unregistered new `fn` in `impl BoundaryLine` / `impl LuvBounds`, a changed struct layout, or a
translated body without its `tie_` theorem stops the run (`broken[extraction]`)."""
import os, sys

def run(ctx):
    sys.path.insert(0, os.path.join(ctx.ROOT, "tools"))
    import rust2lean, rust2lean_luvb
    tie = os.path.join(ctx.ROOT, "lean", "PaletteProofs", "Tie_LuvBounds.lean")
    if not os.path.exists(tie): ctx.die("lean/PaletteProofs/Tie_LuvBounds.lean is missing")
    try:
        text = rust2lean_luvb.generate(lambda rel: ctx.strip_comments(ctx.read("palette/src/" + rel)), open(tie).read())
    except rust2lean.Untranslatable as e:
        ctx.die(f"formula bodies (luvb): {e}")
    ctx.emit("BodiesLuvBounds.lean", text)
