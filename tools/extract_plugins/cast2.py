"""family `cast2` of the source-text tie (C04, type side): tools/rust2lean_cast2.py expands every invocation of impl_array_casts! / impl_uint_casts_self! /
impl_uint_casts_other! found in palette/src against macros/casting.rs as written now, parses every `unsafe impl ArrayCast / UintCast` and every struct that
derives ArrayCast, and writes lean/PaletteModel/Gen/BodiesCast2.lean; lean/PaletteProofs/Tie_Cast2.lean decides the tables equal to PaletteModel/CastTable.lean and to
the channel counts of Gen/Types.lean.  A generated body outside the four translated shapes, an unparsable impl, a changed `fn derive` of palette_derive (pinned) or
a missing `tie_` theorem stops the run (`broken[extraction]`)."""
import os, sys

def run(ctx):
    sys.path.insert(0, os.path.join(ctx.ROOT, "tools"))
    import rust2lean, rust2lean_cast2, rust_macros
    tie = os.path.join(ctx.ROOT, "lean", "PaletteProofs", "Tie_Cast2.lean")
    if not os.path.exists(tie): ctx.die("lean/PaletteProofs/Tie_Cast2.lean is missing")
    try:
        text = rust2lean_cast2.generate(lambda rel: ctx.strip_comments(ctx.read("palette/src/" + rel)), rust2lean_cast2.list_files(ctx.REPO), ctx.read, open(tie).read())
    except (rust2lean.Untranslatable, rust_macros.MacroError) as e:
        ctx.die(f"cast tables (cast2): {e}")
    ctx.emit("BodiesCast2.lean", text)
