"""family `glue2` of the source-text tie (shared glue of C01 / C03 / C10 / C08): tools/rust2lean_glue2.py re-translates
  std    `Hsv / Hsl / Hwb<S2> <- <S1>` (hsv.rs, hsl.rs, hwb.rs)                                        -> Gen/BodiesGlue2Std.lean    <-> PaletteProofs/Tie_Glue2Std.lean
  alpha  `FromColorUnclamped<C1> for Alpha<C2, T>`, `WithAlpha`, `From<C> for Alpha`, `Deref` (alpha/*.rs, derive) -> Gen/BodiesGlue2Alpha.lean  <-> Tie_Glue2Alpha.lean
  n      the clamp / operator macros at `Luma` (one component) and `Cam16` (six)                          -> Gen/BodiesGlue2N.lean      <-> Tie_Glue2N.lean
  pre    `PreAlpha<C>`: `Mix`, arithmetic, `From`, `Deref` (blend/pre_alpha.rs)                            -> Gen/BodiesGlue2Pre.lean    <-> Tie_Glue2Pre.lean
A registered body that leaves the subset or disappears, a pinned text that no longer matches, or a translated body without `tie_<name>` theorem (stating the body
against its model function, `TypeId` parameters by name) stops the run (`broken[extraction]`)."""
import os, sys

def run(ctx):
    sys.path.insert(0, os.path.join(ctx.ROOT, "tools"))
    import rust2lean_glue2 as G2
    def read_src(rel):
        if rel.startswith("../../"): return ctx.strip_comments(ctx.read(rel[6:]))          # palette_derive/src/.. (the `WithAlpha` derive template)
        return ctx.strip_comments(ctx.read("palette/src/" + rel))
    for fam, (file, tie, gen, _bodies, _ns) in G2.SUBFAMILIES.items():
        tp = os.path.join(ctx.ROOT, "lean", "PaletteProofs", tie)
        if not os.path.exists(tp): ctx.die(f"lean/PaletteProofs/{tie} is missing")
        try:
            text = gen(read_src, open(tp).read())
        except G2.ERRORS as e:
            ctx.die(f"formula bodies (glue2/{fam}): {e}")
        ctx.emit(file, text)
