"""family `matrix` of the source-text tie (C14; shared edges of C01 / C02): tools/rust2lean_matrix.py re-translates the matrix-building and matrix-applying code of
palette (matrix.rs, convert/matrix3.rs, chromatic_adaptation.rs, lms/matrix.rs, rgb.rs) and the trait- / `TypeId`-dispatched conversion edges around it into
lean/PaletteModel/Gen/BodiesMatrix.lean; lean/PaletteProofs/Tie_Matrix.lean proves each body equal to the model function.  A registered body that leaves the subset or
disappears, a pinned text that no longer matches, or a translated body without `tie_<name>` theorem stops the run (`broken[extraction]`)."""
import os, sys

def run(ctx):
    sys.path.insert(0, os.path.join(ctx.ROOT, "tools"))
    import rust2lean, rust2lean_matrix, rust_macros
    tie = os.path.join(ctx.ROOT, "lean", "PaletteProofs", "Tie_Matrix.lean")
    if not os.path.exists(tie): ctx.die("lean/PaletteProofs/Tie_Matrix.lean is missing")
    try:
        text = rust2lean_matrix.generate(lambda rel: ctx.strip_comments(ctx.read("palette/src/" + rel)), open(tie).read())
    except (rust2lean.Untranslatable, rust_macros.MacroError) as e:
        ctx.die(f"formula bodies (matrix): {e}")
    ctx.emit("BodiesMatrix.lean", text)
