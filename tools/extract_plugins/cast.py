"""family `cast` (C04): re-translate the bodies of palette/src/cast/{array,uint}.rs and of the cast traits into lean/PaletteModel/Gen/BodiesCast.lean
(translator: tools/rust2lean_cast.py).  Stops the run (`broken[extraction]`) when a body leaves the translated subset, when a `pub fn` of
array.rs / uint.rs or an impl method of the trait files has no `tie_<name>` theorem in PaletteProofs/Tie_Cast.lean / Tie_CastTraits.lean, and
when a registered function disappears."""
import os

def run(ctx):
    import rust2lean_cast as C
    def read_src(rel):
        return ctx.strip_comments(ctx.read(os.path.join("palette", "src", rel)))
    ties = {}
    for f in ("Tie_Cast.lean", "Tie_CastTraits.lean"):
        p = os.path.join(ctx.ROOT, "lean", "PaletteProofs", f)
        ties[f] = open(p).read() if os.path.exists(p) else ""
    try:
        text, tied = C.generate(read_src, ties)
    except C.Untranslatable as e:
        ctx.die(f"cast bodies (tools/rust2lean_cast.py): {e}")
    ctx.emit("BodiesCast.lean", text)
