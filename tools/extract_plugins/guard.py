"""family `guard` (C13): the in-place conversion impls, both scope guards (every inherent method, Deref, DerefMut, Drop) and the in-place maps /
owned-buffer casts of cast/array.rs are re-translated from the current source text by tools/rust2lean_guard.py into Gen/BodiesGuard.lean;
PaletteProofs/Tie_Guard.lean proves each body equal to the function of the hand model (PaletteModel/InPlace.lean, InPlaceForms.lean).
A registered body that disappears or leaves the translated subset, or a translated body without its `tie_` theorem, stops the run."""
import os

def run(ctx):
    import rust2lean, rust2lean_guard, rust_macros
    tie = os.path.join(ctx.ROOT, "lean", "PaletteProofs", "Tie_Guard.lean")
    if not os.path.exists(tie): ctx.die("lean/PaletteProofs/Tie_Guard.lean is missing")
    try:
        text = rust2lean_guard.generate(lambda rel: ctx.strip_comments(ctx.read("palette/src/" + rel)), open(tie).read())
    except (rust2lean.Untranslatable, rust_macros.MacroError) as e:
        ctx.die(f"guard bodies (guard): {e}")
    ctx.emit("BodiesGuard.lean", text)
