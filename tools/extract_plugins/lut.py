"""family `lut` (C05): the lookup-table encoders of encoding/lut.rs (macro body expanded at its invocations) and the integer FromLinear / IntoLinear impls,
re-translated on every run into lean/PaletteModel/Gen/BodiesLut.lean by tools/rust2lean_lut.py; lean/PaletteProofs/Tie_Lut.lean proves each body equal to
the hand model PaletteModel/Lut.lean.  A registered body that leaves the translated subset or disappears, an unregistered impl that appears, or a translated
body without `tie_` theorem stops the run (broken[extraction])."""
import os

def run(ctx):
    import rust2lean, rust2lean_lut, rust_macros
    tie = os.path.join(ctx.ROOT, "lean", "PaletteProofs", rust2lean_lut.TIE_FILE)
    if not os.path.exists(tie): ctx.die(f"lean/PaletteProofs/{rust2lean_lut.TIE_FILE} is missing")
    try:
        text = rust2lean_lut.generate(lambda rel: ctx.strip_comments(ctx.read("palette/src/" + rel)), open(tie).read())
    except (rust2lean.Untranslatable, rust_macros.MacroError) as e:
        ctx.die(f"formula bodies (lut): {e}")
    ctx.emit(rust2lean_lut.GEN_FILE, text)
