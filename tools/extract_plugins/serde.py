"""family `serde` (C20): tools/rust2lean_serde.py re-translates the bodies of palette/src/serde.rs, serde/alpha_serializer.rs, serde/alpha_deserializer.rs and the
Serialize / Deserialize impls of Alpha / PreAlpha into lean/PaletteModel/Gen/BodiesSerde.lean; lean/PaletteProofs/Tie_Serde.lean proves each equal to the model
function.  A registered body that leaves the translated subset or disappears, a changed struct / enum / pinned line, a method that appears in one of the three
impls, or a translated body without its `tie_` theorem stops the run (`broken[extraction]`)."""
import os, sys

def run(ctx):
    sys.path.insert(0, os.path.join(ctx.ROOT, "tools"))
    import rust2lean, rust2lean_serde, rust_macros
    tie = os.path.join(ctx.ROOT, "lean", "PaletteProofs", rust2lean_serde.TIE_FILE)
    if not os.path.exists(tie): ctx.die(f"lean/PaletteProofs/{rust2lean_serde.TIE_FILE} is missing")
    try:
        text = rust2lean_serde.generate(lambda rel: ctx.strip_comments(ctx.read("palette/src/" + rel)), open(tie).read())
    except (rust2lean.Untranslatable, rust_macros.MacroError) as e:
        ctx.die(f"serde bodies: {e}")
    ctx.emit(rust2lean_serde.GEN_FILE, text)
