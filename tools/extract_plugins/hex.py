"""family `hex` (C12): the bodies of rgb/hex.rs, the FromStr / LowerHex / UpperHex / From<u32> impls, cast/packed.rs, the channel orders and
named::from_str are re-translated by tools/rust2lean_hex.py into Gen/BodiesHex.lean; PaletteProofs/Tie_Hex.lean proves each equal to the model
function.  A registered body that leaves the translated subset or disappears, a changed struct / enum / alias declaration the readings rest on,
or a translated body without `tie_` theorem stops the run (broken[extraction])."""
import os, sys

def run(ctx):
    sys.path.insert(0, os.path.join(ctx.ROOT, "tools"))
    import rust2lean, rust2lean_hex
    tie = os.path.join(ctx.ROOT, "lean", "PaletteProofs", "Tie_Hex.lean")
    if not os.path.exists(tie): ctx.die("lean/PaletteProofs/Tie_Hex.lean is missing")
    try:
        text = rust2lean_hex.generate(lambda rel: ctx.strip_comments(ctx.read("palette/src/" + rel)), open(tie).read())
    except rust2lean.Untranslatable as e:
        ctx.die(f"hex bodies: {e}")
    ctx.emit("BodiesHex.lean", text)
