"""family `hex2` of the source-text tie (C12): tools/rust2lean_hex2.py re-translates the eight `From` impls between `Packed<O, P>` and Rgb / Rgba / Luma / Lumaa,
`Rgb::from_hex` / `Rgba::from_hex`, the blanket `ComponentOrder<C, u8 / u64 / u128> for T` impls of cast/packed.rs and the arm table of `Display for FromHexError` into
lean/PaletteModel/Gen/BodiesHex2.lean; lean/PaletteProofs/Tie_Hex2.lean proves each equal to the model function.  A registered body that leaves the translated subset or
disappears, a new blanket width / `From<..Packed..>` impl without registration, or a translated body without `tie_` theorem stops the run (`broken[extraction]`)."""
import os, sys

def run(ctx):
    sys.path.insert(0, os.path.join(ctx.ROOT, "tools"))
    import rust2lean, rust2lean_hex2
    tie = os.path.join(ctx.ROOT, "lean", "PaletteProofs", "Tie_Hex2.lean")
    if not os.path.exists(tie): ctx.die("lean/PaletteProofs/Tie_Hex2.lean is missing")
    try:
        text = rust2lean_hex2.generate(lambda rel: ctx.strip_comments(ctx.read("palette/src/" + rel)), open(tie).read())
    except rust2lean.Untranslatable as e:
        ctx.die(f"hex bodies (hex2): {e}")
    ctx.emit("BodiesHex2.lean", text)
