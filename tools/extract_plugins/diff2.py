"""family `diff2` of the source-text tie (C09): tools/rust2lean_diff2.py re-translates relative_contrast.rs (deprecated `RelativeContrast`: `contrast_ratio`,
the five default predicates, every `impl RelativeContrast for <Ty>` found), the deprecated `ColorDifference::get_color_difference` of lab.rs / lch.rs and the
invocations of `impl_euclidean_distance!` / `impl_hyab!` that family `diff` does not instantiate, into lean/PaletteModel/Gen/BodiesDiff2.lean;
lean/PaletteProofs/Tie_Diff2.lean proves each body equal to the model function of PaletteModel/Diff.lean.  A registered body that leaves the subset or disappears,
an impl / invocation that appears without `tie_<name>` theorem, or an impl block that overrides a default predicate stops the run (`broken[extraction]`)."""
import os, sys

def run(ctx):
    sys.path.insert(0, os.path.join(ctx.ROOT, "tools"))
    import rust2lean, rust2lean_diff2, rust_macros
    tie = os.path.join(ctx.ROOT, "lean", "PaletteProofs", "Tie_Diff2.lean")
    if not os.path.exists(tie): ctx.die("lean/PaletteProofs/Tie_Diff2.lean is missing")
    try:
        text = rust2lean_diff2.generate(lambda rel: ctx.strip_comments(ctx.read("palette/src/" + rel)), rust2lean_diff2.list_files(ctx.REPO), open(tie).read())
    except (rust2lean.Untranslatable, rust_macros.MacroError) as e:
        ctx.die(f"formula bodies (diff2): {e}")
    ctx.emit("BodiesDiff2.lean", text)
