"""
extract plugin `rand` (C19): the source-text tie of palette's random-sampling code.

On every run tools/rust2lean_rand.py re-reads macros/random.rs (expanded at every actual `impl_rand_traits_*!` invocation found under palette/src),
random_sampling/cone.rs, the `rand` impls of hues.rs (`impl_uniform!`, `Distribution<$name<T>> for Standard`) and of alpha/alpha.rs, with the helpers they
call, and lowers each body to `def Gen.BodyRand.<name>` in lean/PaletteModel/Gen/BodiesRand.lean (the RNG and rand's primitive distributions are
parameters).  lean/PaletteProofs/Tie_Rand.lean proves each of them against the model function of PaletteModel/Sampling.lean.
The run stops (`broken[extraction]`) when a body leaves the translated subset, when a macro arm loses one of its four methods, when a translated body has
no `tie_<name>` theorem, and when an invocation appears whose type has no ties (every invocation found is translated, so a new one needs four new ties).
"""
import os, sys

def run(ctx):
    sys.path.insert(0, os.path.join(ctx.ROOT, "tools"))
    import rust2lean, rust2lean_rand
    tie = os.path.join(ctx.ROOT, "lean", "PaletteProofs", "Tie_Rand.lean")
    if not os.path.exists(tie): ctx.die("lean/PaletteProofs/Tie_Rand.lean is missing")
    files = sorted(os.path.relpath(os.path.join(dp, f), ctx.SRC) for dp, dn, fn in os.walk(ctx.SRC) for f in fn if f.endswith(".rs"))
    def read_src(rel): return ctx.strip_comments(ctx.read("palette/src/" + rel))
    try:
        text, summary = rust2lean_rand.generate(read_src, files, open(tie).read())
    except rust2lean.Untranslatable as e:
        ctx.die(f"rand bodies: {e}")
    ctx.emit("BodiesRand.lean", text)
