"""family `soa` (C18): the struct-of-arrays macro bodies and `alpha::Iter` / `Extend` / `FromIterator` of alpha.rs, re-translated from the current
source text by tools/rust2lean_soa.py into lean/PaletteModel/Gen/BodiesSoa.lean; lean/PaletteProofs/Tie_Soa.lean proves each translated body equal to
the model function of PaletteModel/Soa.lean / SoaNested.lean (`tie_<name>`).  A registered body that leaves the translated subset or disappears, a method that
appears in a translated impl block without being registered (a new override such as `Iterator::nth`: `rust2lean_soa.MethodSets`), a
macro arm that no longer matches its invocation, or a translated body without `tie_` theorem stops the run (`broken[extraction]`)."""
import os, sys

def run(ctx):
    sys.path.insert(0, os.path.join(ctx.ROOT, "tools"))
    import rust2lean, rust2lean_soa, rust_macros
    import glob
    tie = os.path.join(ctx.ROOT, "lean", "PaletteProofs", rust2lean_soa.TIE)
    if not os.path.exists(tie): ctx.die(f"lean/PaletteProofs/{rust2lean_soa.TIE} is missing")
    # Tie_Soa.lean imports its per-shape parts Tie_Soa<Type>.lean (split for build time): a `tie_` theorem may live in any of them,
    # but only in a part Tie_Soa.lean imports (so that building PaletteProofs.Tie_Soa checks it)
    main = open(tie).read()
    parts = [p for p in sorted(glob.glob(os.path.join(ctx.ROOT, "lean", "PaletteProofs", "Tie_Soa*.lean")))
             if p == tie or ("import PaletteProofs." + os.path.basename(p)[:-5] + "\n") in main]
    try:
        text = rust2lean_soa.generate(lambda rel: ctx.strip_comments(ctx.read("palette/src/" + rel)), "\n".join(open(p).read() for p in parts))
    except (rust2lean.Untranslatable, rust_macros.MacroError) as e:
        ctx.die(f"struct-of-arrays bodies (soa): {e}")
    ctx.emit("BodiesSoa.lean", text)
