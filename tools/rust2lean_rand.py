#!/usr/bin/env python3
"""
rust2lean_rand -- translate palette's random-sampling code (C19) into Lean: family `rand`.

What is read from /repo on every run (tokenizer / Pratt parser / `find_fn` of tools/rust2lean.py, `macro_rules!` engine of tools/rust_macros.py):
  * macros/random.rs: `impl_rand_traits_cartesian!`, `_cylinder!`, `_hsv_cone!`, `_hsl_bicone!`, `_hwb_cone!` -- every ACTUAL invocation found in
    palette/src is expanded against the arms as written now (incl. the `$ty` -> `$ty<>` recursion, `$(..)?` groups, `__apply_map_fn!` in expression
    position), and of each expansion: `Distribution<Ty> for Standard::sample`, the `pub struct Uniform<Ty>` item, `UniformSampler::new`,
    `new_inclusive`, `sample`;
  * random_sampling/cone.rs: `sample_hsv`, `invert_hsv_sample`, `sample_hsl`, `sample_bicone_height`, `invert_hsl_sample`, `invert_bicone_height_sample`
    (+ the `struct`s `HsvSample`, `HslSample`);
  * hues.rs: `impl_uniform!` at every invocation (`Uniform*Hue::new` / `new_inclusive` / `sample`), `Distribution<$name<T>> for Standard` of `make_hues!`
    (instantiated at every hue named in the `make_hues!` invocation), and the helpers those bodies call: `from_degrees`, `new`, `From<T>::from`,
    `into_positive_degrees` (make_hues!), `normalize_unsigned_angle`, `full_rotation` (angle.rs `impl_angle_float!`), `MinMax::min_max` (num.rs `impl_float!`);
  * alpha/alpha.rs: `Distribution<Alpha<C, T>> for Standard::sample`, `UniformAlpha::new` / `new_inclusive` / `sample` (generic over the colour: dictionary passing);
  * the accessor functions named in the map closures (`Lch::<Wp, T>::max_l()`, ...): body re-read and inlined.

Lowering conventions (beyond the header of rust2lean.py: `T::from_f64(lit)` -> literal, `.clone()` / `&` / `.borrow()` / hue wrapper = identity,
comparisons as `Prop`s oriented `<` / `<=`, `lazy_select!` -> `if`):
  * THE RNG IS A PARAMETER.  `rng: &mut R` is a value `rng : Prim.Rand.Rng α` threaded through the body (state passing): every *effectful* call
    (`rng.gen::<T>()`, `u.sample(rng)`, a call of a translated function taking `rng`) is bound in Rust's evaluation order (statements in order, struct-literal
    fields in the order WRITTEN, call arguments left to right) as `let dK := <call> rng; let rng := dK.2;` and its value is `dK.1`.  `rng.gen::<T>()` ->
    `Prim.Rand.Rng.genT rng` (the value is the parameter `rng.gen` at the current position), `u.sample(rng)` for `u : Uniform<T>` -> `Prim.Rand.Uniform.sample u rng`
    (the parameter `rng.draw u` at the current position: the value may depend on the interval handed to rand AND on the position in the stream).
    `rng.gen()` without turbofish takes its type from the context (struct field type, parameter type of the callee, arithmetic operand: `T`).
    An effect inside a conditional is outside the subset.
  * `rand::distributions::uniform::Uniform::new::<_, T>(a, b)` -> `Prim.Rand.Uniform.new a b`, `new_inclusive` -> `Prim.Rand.Uniform.newInclusive a b`: the record
    of what was handed to rand (low, high, which constructor).
  * colour structs: `V3 α` (three non-phantom fields, declaration order re-read from the `struct`) / `Prim.Rand.C1 α` (one); sampler structs (`UniformLch`, ...):
    a generated Lean `structure` with the fields of the expanded `pub struct` item (PhantomData dropped); `HsvSample` / `HslSample` / `Alpha` / `UniformAlpha`: tuples
    in declaration order; struct patterns / tuple patterns: projections.
  * `Ty::from_color_unclamped(x)`: the conversion body already translated by tools/rust2lean.py (`Gen.Body.hwbToHsv`, ...; tied in Tie_Bodies.lean).
  * a closure applied on the spot (`(|l: T| l * k)(e)`, the expansion of `__apply_map_fn!`) is beta-reduced; `Wp::get_xyz()` is the parameter `(V3.mk wx wy wz)`.
  * masks (`let mask = r1.lt_eq(..)`) are `Prop`s and inlined at their uses.
  * Alpha: `C` is a type parameter `γ`, `Uniform<C>` a type parameter `σ`; `rng.gen::<C>()`, `Uniform::new::<C, _>`, `Uniform::new_inclusive::<C, _>`,
    `Uniform<C>::sample` are parameters (`genC`, `newC`, `newInclusiveC`, `sampleC`) of every Alpha body, used or not.
Anything else raises `Untranslatable` (plugin: `die`, i.e. `broken[extraction]`); so does a translated body without `tie_<name>` theorem in
lean/PaletteProofs/Tie_Rand.lean, an invocation whose type has no `struct`, a macro arm that no longer has the four methods.
"""
import re, os, sys
sys.path.insert(0, os.path.dirname(os.path.abspath(__file__)))
import rust2lean as R
import rust_macros as M
from rust2lean import Untranslatable, fail, tokenize, Parser, find_fn, lname

MACROS = ["impl_rand_traits_cartesian", "impl_rand_traits_cylinder", "impl_rand_traits_hsv_cone", "impl_rand_traits_hsl_bicone", "impl_rand_traits_hwb_cone"]
FAMILY_OF = {m: m[len("impl_rand_traits_"):] for m in MACROS}
CONE = "random_sampling/cone.rs"
NS = "Gen.BodyRand"

# ------------------------------------------------------------------------------------------------ source preparation
def strip_attrs(src):
    """remove `#[..]` / `#![..]` attributes (string literals inside them may contain brackets); the shared tokenizer has no string token.
    Reading: `#[cfg(feature = "random")]` is on (the harness builds palette with the feature)."""
    out, i, n = [], 0, len(src)
    while i < n:
        if src[i] == "#":
            m = re.match(r"#\s*!?\s*\[", src[i:])
            if m:
                j = i + m.end() - 1; depth = 0
                while j < n:
                    c = src[j]
                    if c == '"':
                        j += 1
                        while j < n and src[j] != '"':
                            if src[j] == "\\": j += 1
                            j += 1
                    elif c == "[": depth += 1
                    elif c == "]":
                        depth -= 1
                        if depth == 0: break
                    j += 1
                if j >= n:            # a string cut by comment stripping (`"http://.."` in a doc attribute): drop the line
                    j = src.find("\n", i)
                    if j < 0: j = n
                i = j + 1; continue
        out.append(src[i]); i += 1
    return "".join(out)

# ------------------------------------------------------------------------------------------------ macro engine: `expr` fragments with turbofish
def match_seq(pats, items, pos, binds):
    """rust_macros.match_seq, except that an `expr` fragment does not end at a `,` inside `::<..>` (rustc parses the expression; the map closures
    `|l: T| l * Lch::<Wp, T>::max_l()` need it).  Same data model, so `rust_macros.transcribe` is used unchanged."""
    for p in pats:
        if p[0] == "lit":
            if pos >= len(items) or items[pos][0] != "tok" or items[pos][2] != p[1]: raise M.NoMatch(f"expected {p[1]!r}")
            pos += 1
        elif p[0] == "group":
            if pos >= len(items) or items[pos][0] != "group" or items[pos][1] != p[1]: raise M.NoMatch(f"expected a {p[1]!r} group")
            end = match_seq(p[2], items[pos][2], 0, binds)
            if end != len(items[pos][2]): raise M.NoMatch("trailing tokens in a group")
            pos += 1
        elif p[0] == "var":
            name, frag = p[1], p[2]
            if frag == "expr":
                j = pos
                if pos < len(items) and items[pos][0] == "tok" and items[pos][1] != "num" and items[pos][2] in M.NOT_EXPR_START:
                    raise M.NoMatch(f"${name}: `{items[pos][2]}` cannot begin an expression")
                while j < len(items):
                    it = items[j]
                    if it[0] == "tok" and it[1] != "num" and it[2] in M.STOP_EXPR: break
                    if M.is_tok(it, "::") and j + 1 < len(items) and M.is_tok(items[j + 1], "<"):
                        depth, j = 1, j + 2
                        while j < len(items) and depth:
                            if M.is_tok(items[j], "<"): depth += 1
                            elif M.is_tok(items[j], ">"): depth -= 1
                            j += 1
                        if depth: raise M.NoMatch(f"${name}: unbalanced turbofish")
                        continue
                    j += 1
                if j == pos: raise M.NoMatch(f"${name}: expression expected")
                binds[name] = ("leaf", frag, items[pos:j]); pos = j
            else:
                b = {}
                pos = M.match_seq([p], items, pos, b)
                binds.update(b)
        else:  # rep
            inner, sep, kind = p[1], p[2], p[3]
            iters = []
            while True:
                start = pos
                if iters and sep is not None:
                    if pos < len(items) and items[pos][0] == "tok" and items[pos][2] == sep: pos += 1
                    else: break
                b = {}
                try:
                    end = match_seq(inner, items, pos, b)
                except M.NoMatch:
                    pos = start; break
                if end == pos: pos = start; break
                iters.append(b); pos = end
                if kind == "?": break
            if kind == "+" and not iters: raise M.NoMatch("`+` repetition matched nothing")
            for n in M.names_of(inner):
                binds[n] = ("seq", [b[n] for b in iters if n in b])
    return pos

class Engine(M.Engine):
    def expand_items(self, name, items, depth=0):
        if depth > 8: raise M.MacroError(f"{name}!: expansion does not terminate")
        errs = []
        for matcher, transcriber in self.arms(name):
            binds = {}
            try:
                end = match_seq(matcher, items, 0, binds)
                if end != len(items): raise M.NoMatch("trailing tokens")
            except M.NoMatch as e:
                errs.append(str(e)); continue
            out = M.transcribe(transcriber, binds)
            core = out[:-1] if out and M.is_tok(out[-1], ";") else out
            if len(core) == 3 and core[0][0] == "tok" and core[0][1] == "id" and M.is_tok(core[1], "!") and core[2][0] == "group":
                return self.expand_items(core[0][2], core[2][2], depth + 1)
            return out
        raise M.MacroError(f"{name}!: no arm matches the invocation `{M.text_of(items)[:120]}` ({'; '.join(errs)})")

# ------------------------------------------------------------------------------------------------ struct items
def struct_item(src, name):
    """[(field, type text)] of `struct <name> .. { .. }` in declaration order, PhantomData fields included; None when absent"""
    m = re.search(r"\bstruct\s+" + re.escape(name) + r"\b[^{;(]*\{", src)
    if not m: return None
    body = src[m.end() - 1:R.match_brace(src, m.end() - 1)][1:-1]
    out = []
    for part in R.split_top(body):
        if not part.strip(): continue
        mm = re.match(r"\s*(?:pub\s*(?:\([^)]*\))?\s+)?(\w+)\s*:\s*(.+?)\s*$", part, re.S)
        if not mm: fail(f"struct {name}: field {part!r}")
        out.append((mm.group(1), re.sub(r"\s+", "", mm.group(2))))
    return out

def camel(s):
    parts = s.split("_")
    return parts[0] + "".join(p[:1].upper() + p[1:] for p in parts[1:])

def lower_first(s): return s[:1].lower() + s[1:]

def sci(lit):
    lit = re.sub(r"_?(f32|f64)$", "", lit).replace("_", "")
    if re.fullmatch(r"\d+", lit): lit += ".0"
    if not re.fullmatch(r"\d+\.\d+(e-?\d+)?|\d+e-?\d+", lit): fail(f"numeric literal {lit!r}")
    return lit

# ------------------------------------------------------------------------------------------------ global state of one run
class Globals:
    def __init__(self, read_src, files):
        self.read_raw = read_src
        self._cache = {}
        self.files = files
        self.engine = Engine(self.read, tokenize, ["macros/random.rs", "hues.rs"])
        self.colours = {}       # colour struct name -> dict(file, fields=[non-phantom field names], phantoms=[..])
        self.samplers = {}      # sampler struct name -> dict(fields=[(name, type)], phantoms=[..])
        self.recs = {}          # tuple-like records: name -> [(field, type)]
        self.hues = []          # hue type names
        self.fns = {}           # key -> dict(lean, params=[types], ret, effect, wp)
        self.conv = {}          # (target colour, source colour) -> Gen.Body name
        self.defs = []          # (name, doc, lean text, model)
        self.structs_out = []   # lean text of generated structures

    def read(self, rel):
        if rel not in self._cache: self._cache[rel] = strip_attrs(self.read_raw(rel))
        return self._cache[rel]

    def colour(self, name):
        if name in self.colours: return self.colours[name]
        for f in self.files:
            src = self.read(f)
            if not re.search(r"\bpub\s+struct\s+" + name + r"\b", src): continue
            fs = struct_item(src, name)
            if fs is None: continue
            info = dict(file=f, fields=[(n, t) for n, t in fs if "PhantomData" not in t], phantoms=[n for n, t in fs if "PhantomData" in t])
            if len(info["fields"]) not in (1, 3): fail(f"colour struct {name}: {len(info['fields'])} components (1 or 3 are represented)")
            self.colours[name] = info
            return info
        return None

def lean_ty(G, ty):
    if ty == "T": return "α"
    if ty == "P": return "Prop"
    if ty == "U": return "Prim.Rand.Uniform α"
    if ty == "rng": return "Prim.Rand.Rng α"
    if ty[0] == "col": return "V3 α" if len(G.colour(ty[1])["fields"]) == 3 else "Prim.Rand.C1 α"
    if ty[0] == "smp": return f"{NS}.{ty[1]} α"
    if ty[0] == "rec": return "(" + " × ".join(lean_ty(G, t) for _, t in G.recs[ty[1]]) + ")"
    if ty[0] == "tup": return "(" + " × ".join(lean_ty(G, t) for t in ty[1]) + ")"
    if ty[0] == "gen": return ty[1]
    fail(f"no Lean type for {ty!r}")

class Val:
    __slots__ = ("code", "ty")
    def __init__(self, code, ty): self.code, self.ty = code, ty

IDENTITY = {"clone", "borrow", "to_owned"}
CMP_M = {"lt_eq": "≤", "lt": "<", "gt_eq": "≥", "gt": ">"}

class Lower:
    """lowering of one body; `lines` are the `let` lines in evaluation order"""
    def __init__(self, G, self_ty=None, dict_=None, file=None):
        self.G, self.self_ty, self.dict, self.file = G, self_ty, dict_ or {}, file
        self.env, self.lines, self.effects, self.uses_wp = {}, [], 0, False
        self.names = set()
        self.ctr = [0]           # shared with the sub-lowerings of closures / blocks

    def fresh(self, p):
        self.ctr[0] += 1
        return f"{p}{self.ctr[0]}"

    # ---- types from Rust type text
    def type_of_text(self, t):
        t = re.sub(r"\s+", "", t)
        t = re.sub(r"^&(mut)?", "", t)
        if t in ("T", "Self::Scalar"): return "T"
        m = re.match(r"(?:\w+::)*(\w+)(?:<.*>)?$", t)
        if not m: fail(f"type {t!r}")
        n = m.group(1)
        if n == "Self" and self.self_ty: return self.self_ty
        if n in self.dict.get("types", {}): return self.dict["types"][n]
        if t in self.dict.get("types", {}): return self.dict["types"][t]
        if n == "Uniform":
            inner = re.match(r"(?:\w+::)*Uniform<(.*)>$", t)
            if inner and inner.group(1) in self.dict.get("types", {}): return self.dict["types"]["Uniform<" + inner.group(1) + ">"]
            return "U"
        if n in self.G.hues: return "T"
        if n in self.G.samplers: return ("smp", n)
        if n in self.G.recs: return ("rec", n)
        if self.G.colour(n): return ("col", n)
        fail(f"type {t!r} is outside the translated subset")

    # ---- effects
    def effect(self, call_code, ret_ty):
        """bind an effectful call (already applied to everything but `rng`) at the current position"""
        if "rng" not in self.env: fail("an effectful call in a body without `rng`")
        d = self.fresh("d")
        self.lines.append(f"let {d} := {call_code} rng;")
        self.lines.append(f"let rng := {d}.2;")
        self.effects += 1
        return Val(f"{d}.1", ret_ty)

    def pure(self, f, what):
        n = self.effects
        v = f()
        if self.effects != n: fail(f"an effectful call inside {what} is outside the translated subset")
        return v

    # ---- calls of translated functions
    def call_fn(self, key, args_ast, what):
        info = self.G.fns.get(key)
        if info is None: fail(f"{what}: no translated callee for {key!r}")
        ps = info["params"]
        if len(args_ast) != len(ps): fail(f"{what}: {len(args_ast)} arguments, {len(ps)} expected")
        args = [self.expr(a, p) for a, p in zip(args_ast, ps)]
        for a, p in zip(args, ps):
            if a.ty != p: fail(f"{what}: argument of type {a.ty!r}, {p!r} expected")
        code = info["lean"]
        if info.get("dict"):
            code += " " + " ".join(n for n, _ in self.dict["params"])
        if info.get("wp"):
            self.uses_wp = True; code += " wx wy wz"
        code += "".join(" " + a.code for a in args)
        if info["effect"]: return self.effect("(" + code + ")" if " " in code else code, info["ret"])
        return Val("(" + code + ")" if " " in code else code, info["ret"])

    # ---- expressions
    def expr(self, e, expect=None):
        k = e[0]
        if k == "num": return Val(f"({sci(e[1])} : α)", "T")
        if k == "path": return self.path(e)
        if k == "unary":
            if e[1] in "&*": return self.expr(e[2], expect)
            if e[1] == "-":
                v = self.expr(e[2], "T")
                if v.ty != "T": fail("unary minus on a non-scalar")
                return Val(f"(-{v.code})", "T")
            fail(f"unary {e[1]!r} is outside the translated subset")
        if k == "binary": return self.binary(e)
        if k == "field": return self.field(self.expr(e[1]), e[2])
        if k == "index":
            v = self.expr(e[1])
            if v.ty == "T" and e[2] == 0: return v          # `hue.0`: the hue wrapper is transparent
            if isinstance(v.ty, tuple) and v.ty[0] == "tup": return Val(R.tup_proj(v.code, e[2], len(v.ty[1])), v.ty[1][e[2]])
            fail(f"tuple index .{e[2]} on {v.ty!r}")
        if k == "tuple":
            vs = [self.expr(x) for x in e[1]]
            return Val("(" + ", ".join(v.code for v in vs) + ")", ("tup", [v.ty for v in vs]))
        if k == "call": return self.call(e, expect)
        if k == "mcall": return self.mcall(e, expect)
        if k == "struct": return self.struct(e)
        if k == "lazy_select":
            other = self.pure(lambda: self.expr(e[2], expect), "lazy_select!")
            code = other.code
            for c, a in reversed(e[1]):
                cv = self.pure(lambda: self.expr(c), "lazy_select!")
                av = self.pure(lambda: self.expr(a, expect), "lazy_select!")
                if cv.ty != "P": fail("lazy_select!: the condition is not a mask")
                if av.ty != other.ty: fail("lazy_select!: arms of different types")
                code = f"(if {cv.code} then {av.code} else {code})"
            return Val(code, other.ty)
        if k == "if":
            if e[3] is None: fail("`if` without `else` in expression position")
            cv = self.pure(lambda: self.expr(e[1]), "`if`")
            a = self.pure(lambda: self.expr(e[2], expect), "`if`")
            b = self.pure(lambda: self.expr(e[3], expect), "`if`")
            if cv.ty != "P": fail("`if`: the condition is not a comparison")
            if a.ty != b.ty: fail("`if`: branches of different types")
            return Val(f"(if {cv.code} then {a.code} else {b.code})", a.ty)
        if k == "block": return self.block_expr(e, expect)
        fail(f"expression form {k!r} is outside the translated subset")

    def block_expr(self, b, expect):
        """a block in expression position: its own scope, lowered to nested `let`s; effects bubble up in order"""
        sub = Lower(self.G, self.self_ty, self.dict, self.file)
        sub.env = dict(self.env); sub.ctr = self.ctr; sub.names = self.names
        if b[2] is None: fail("a block without tail expression")
        outer_lines = self.lines
        sub.lines = []
        for s in b[1]: sub.stmt(s)
        v = sub.expr(b[2], expect)
        self.uses_wp |= sub.uses_wp
        if sub.effects:
            # effects in a nested block: hoist everything (evaluation order is preserved: the block is evaluated where it stands)
            self.lines.extend(sub.lines); self.effects += sub.effects
            if "rng" in sub.env: self.env["rng"] = sub.env["rng"]
            return v
        if not sub.lines: return v
        return Val("(" + " ".join(sub.lines) + " " + v.code + ")", v.ty)

    def path(self, e):
        segs = e[1]
        if len(segs) == 1 and segs[0] in self.env: return self.env[segs[0]]
        if segs[-1] == "PhantomData": return Val("", "phantom")
        fail(f"path {'::'.join(segs)} is outside the translated subset")

    def binary(self, e):
        op = e[1]
        if op in ("+", "-", "*", "/"):
            a = self.expr(e[2], "T"); b = self.expr(e[3], "T")
            if a.ty != "T" or b.ty != "T": fail(f"`{op}` on non-scalars")
            return Val(f"({a.code} {op} {b.code})", "T")
        if op in ("<", "<=", ">", ">="):
            a = self.expr(e[2], "T"); b = self.expr(e[3], "T")
            if a.ty != "T" or b.ty != "T": fail(f"`{op}` on non-scalars")
            return Val({"<": f"({a.code} < {b.code})", "<=": f"({a.code} ≤ {b.code})", ">": f"({b.code} < {a.code})", ">=": f"({b.code} ≤ {a.code})"}[op], "P")
        if op == "&&":
            a = self.expr(e[2]); b = self.pure(lambda: self.expr(e[3]), "the right operand of `&&`")
            if a.ty != "P" or b.ty != "P": fail("`&&` on non-masks")
            return Val(f"({a.code} ∧ {b.code})", "P")
        fail(f"operator {op!r} is outside the translated subset")

    def field(self, v, f):
        ty = v.ty
        if isinstance(ty, tuple):
            if ty[0] == "col":
                fs = [n for n, _ in self.G.colour(ty[1])["fields"]]
                if f not in fs: fail(f"{ty[1]} has no component `{f}`")
                fty = self.type_of_text(self.G.colour(ty[1])["fields"][fs.index(f)][1])
                if fty != "T": fail(f"{ty[1]}.{f}: not a scalar / hue component")
                return Val(f"{v.code}.c{fs.index(f)}", "T")
            if ty[0] == "smp":
                fs = dict(self.G.samplers[ty[1]]["fields"])
                if f not in fs: fail(f"{ty[1]} has no field `{f}`")
                return Val(f"{v.code}.{lname(f)}", fs[f])
            if ty[0] == "rec":
                fs = self.G.recs[ty[1]]
                names = [n for n, _ in fs]
                if f not in names: fail(f"{ty[1]} has no field `{f}`")
                i = names.index(f)
                return Val(R.tup_proj(v.code, i, len(fs)), fs[i][1])
        fail(f"field `.{f}` of a value of type {ty!r}")

    def const_f64(self, a):
        if a[0] == "num": return Val(f"({sci(a[1])} : α)", "T")
        if a[0] == "unary" and a[1] == "-" and a[2][0] == "num": return Val(f"(-{sci(a[2][1])} : α)", "T")
        fail("T::from_f64 of something other than one literal")

    def call(self, e, expect):
        f, args = e[1], e[2]
        if f[0] == "closure":
            params, body = f[1], f[2]
            if len(params) != len(args): fail("closure applied to the wrong number of arguments")
            sub = Lower(self.G, self.self_ty, self.dict, self.file)
            sub.env = dict(self.env); sub.ctr = self.ctr; sub.lines = self.lines; sub.names = self.names
            for (p, ty), a in zip(params, args):
                if p[0] != "pid": fail("closure parameter pattern")
                pty = self.type_of_text(ty) if ty else "T"
                av = self.expr(a, pty)
                if av.ty != pty: fail("closure argument of the wrong type")
                sub.env[p[1]] = av
            sub.effects = self.effects
            v = sub.pure(lambda: sub.expr(body, expect), "a closure body")
            self.uses_wp |= sub.uses_wp
            return v
        if f[0] != "path": fail("call of a computed function")
        segs, gens = f[1], f[2]
        last = segs[-1]
        head = segs[0]
        if head == "T" and len(segs) == 2:
            if last == "from_f64" and len(args) == 1: return self.const_f64(args[0])
            if last == "one" and not args: return Val("(1.0 : α)", "T")
            if last == "zero" and not args: return Val("(0.0 : α)", "T")
            if last == "full_rotation" and not args: return self.call_fn(("angle", "full_rotation"), [], "T::full_rotation()")
            fail(f"T::{last} is outside the translated subset")
        if segs == ["hue_wrap"] and len(args) == 1:          # `Self(x)` / `$name(x)` of a hue: the wrapper is transparent
            v = self.expr(args[0], "T")
            if v.ty != "T": fail("hue constructor applied to a non-scalar")
            return v
        if segs[-2:] == ["Round", "floor"] and len(args) == 1:
            v = self.expr(args[0], "T")
            return Val(f"(Scalar.floor {v.code})", "T")
        if len(segs) >= 2 and segs[-2] == "Uniform" and last in ("new", "new_inclusive"):
            if len(args) != 2: fail("Uniform::new: two arguments expected")
            g = [x.strip() for x in gens[-1].split(",")] if gens else []
            dn = self.dict.get("uniform_new", {})
            for x in g:
                if x in dn:          # rand's Uniform over a generic colour: dictionary parameter
                    a = self.expr(args[0]); b = self.expr(args[1])
                    want = dn[x]["arg"]
                    if a.ty != want or b.ty != want: fail(f"Uniform::{last}::<{x}, _>: arguments of type {a.ty!r}")
                    return Val(f"({dn[x][last]} {a.code} {b.code})", dn[x]["ret"])
            a = self.expr(args[0], "T"); b = self.expr(args[1], "T")
            if a.ty != "T" or b.ty != "T": fail(f"Uniform::{last}: the ends are not scalars")
            return Val(f"(Prim.Rand.Uniform.{'new' if last == 'new' else 'newInclusive'} {a.code} {b.code})", "U")
        if segs == ["Wp", "get_xyz"] and not args:
            self.uses_wp = True
            return Val("(V3.mk wx wy wz)", ("col", "Xyz"))
        owner = segs[-2] if len(segs) >= 2 else None
        if owner == "Self" and self.self_ty and self.self_ty[0] in ("col", "smp"): owner = self.self_ty[1]
        if owner == "Self" and self.self_ty == "hue": owner = self.G.hues[0]
        if last == "from_color_unclamped" and owner and len(args) == 1:
            a = self.expr(args[0])
            if not (isinstance(a.ty, tuple) and a.ty[0] == "col"): fail("from_color_unclamped of a non-colour")
            key = (owner, a.ty[1])
            if key not in self.G.conv: fail(f"no translated conversion {a.ty[1]} -> {owner}")
            return Val(f"({self.G.conv[key]} {a.code})", ("col", owner))
        if owner in self.G.hues:
            return self.call_fn(("hue", last), args, f"{owner}::{last}")
        if owner in self.G.samplers and last in ("new", "new_inclusive"):
            return self.call_fn((last, owner), args, f"{owner}::{last}")
        if owner and self.G.colour(owner) and not args:
            return self.accessor(owner, last)
        if (None, last) in self.G.fns:
            return self.call_fn((None, last), args, last)
        fail(f"call of {'::'.join(segs)} is outside the translated subset")

    def accessor(self, ty, name):
        """`Ty::<..>::name()`: the body of the associated function, re-read and inlined"""
        info = self.G.colour(ty)
        src = self.G.read(info["file"])
        try:
            params, ret, body = find_fn(src, None, name)
        except Untranslatable:
            fail(f"accessor {ty}::{name} not found in {info['file']}")
        if params.strip() or re.sub(r"\s+", "", ret) != "T": fail(f"accessor {ty}::{name}: signature ({params}) -> {ret}")
        sub = Lower(self.G, ("col", ty), None, info["file"])
        b = Parser(tokenize(body)).block()
        if b[1] or b[2] is None: fail(f"accessor {ty}::{name}: not a single expression")
        v = sub.expr(b[2], "T")
        if v.ty != "T" or sub.lines: fail(f"accessor {ty}::{name}: not a scalar expression")
        self.uses_wp |= sub.uses_wp
        return v

    def mcall(self, e, expect):
        recv, m, args, gens = e[1], e[2], e[3], e[4]
        if recv[0] == "path" and recv[1] == ["rng"] and m == "gen":
            if args: fail("rng.gen with arguments")
            if gens: ty = self.type_of_text(gens[0]); tname = re.match(r"\s*(\w+)", gens[0]).group(1)
            elif expect is not None: ty, tname = expect, None
            else: fail("`rng.gen()` whose type cannot be read from the context")
            if ty == "T" and (tname is None or tname == "T"): return self.effect("Prim.Rand.Rng.genT", "T")
            if ty == "T" and tname in self.G.hues: return self.call_fn(("standard", tname), [], f"rng.gen::<{tname}>()")
            if isinstance(ty, tuple) and ty[0] == "col": return self.call_fn(("standard", ty[1]), [], f"rng.gen::<{ty[1]}>()")
            if isinstance(ty, tuple) and ty[0] == "gen" and ty[1] in self.dict.get("gen", {}): return self.effect(self.dict["gen"][ty[1]], ty)
            fail(f"rng.gen::<{gens[0] if gens else ty}>() is outside the translated subset")
        if m == "sample" and len(args) == 1 and args[0][0] == "path" and args[0][1] == ["rng"]:
            r = self.expr(recv)
            if r.ty == "U": return self.effect(f"(Prim.Rand.Uniform.sample {r.code})", "T")
            if isinstance(r.ty, tuple) and r.ty[0] == "smp":
                info = self.G.fns.get(("sample", r.ty[1]))
                if info is None: fail(f"no translated `sample` of {r.ty[1]}")
                return self.effect(f"({info['lean']} {r.code})", info["ret"])
            if isinstance(r.ty, tuple) and r.ty[0] == "gen" and r.ty[1] in self.dict.get("sample", {}):
                d = self.dict["sample"][r.ty[1]]
                return self.effect(f"({d[0]} {r.code})", d[1])
            fail(f".sample(rng) on a value of type {r.ty!r}")
        r = self.expr(recv, expect if m in IDENTITY else None)
        if m in IDENTITY and not args: return r
        if r.ty == "T":
            if m in ("cbrt", "sqrt") and not args: return Val(f"(Scalar.{m} {r.code})", "T")
            if m == "powi" and len(args) == 1 and args[0][0] == "num" and args[0][1] in ("2", "3"): return Val(f"(Prim.powi{args[0][1]} {r.code})", "T")
            if m in CMP_M and len(args) == 1:
                b = self.expr(args[0], "T")
                if b.ty != "T": fail(f".{m}: operand")
                return Val({"≤": f"({r.code} ≤ {b.code})", "<": f"({r.code} < {b.code})", "≥": f"({b.code} ≤ {r.code})", ">": f"({b.code} < {r.code})"}[CMP_M[m]], "P")
            if ("T", m) in self.G.fns:
                info = self.G.fns[("T", m)]
                vs = [r] + [self.expr(a, p) for a, p in zip(args, info["params"][1:])]
                if len(vs) != len(info["params"]) or any(v.ty != p for v, p in zip(vs, info["params"])): fail(f".{m}: arguments")
                if info["effect"] or info.get("wp") or info.get("dict"): fail(f".{m}: unexpected callee kind")
                return Val("(" + info["lean"] + "".join(" " + v.code for v in vs) + ")", info["ret"])
        if r.ty == "P" and m == "clone": return r
        fail(f"method .{m} on a value of type {r.ty!r} is outside the translated subset")

    def struct(self, e):
        name = e[1][1][-1]
        if e[3] is not None: fail("struct update syntax")
        if name == "Self":
            if not (self.self_ty and isinstance(self.self_ty, tuple)): fail("`Self { .. }` without a known Self type")
            name = self.self_ty[1]
        G = self.G
        if name in G.samplers:
            info = G.samplers[name]; want = dict(info["fields"]); vals = {}
            for f, x in e[2]:
                if f in info["phantoms"]:
                    if self.expr(x).ty != "phantom": fail(f"{name}.{f}: PhantomData expected")
                    continue
                if f not in want or f in vals: fail(f"{name}: unexpected field `{f}`")
                v = self.expr(x, want[f])
                if v.ty != want[f]: fail(f"{name}.{f}: value of type {v.ty!r}, {want[f]!r} expected")
                vals[f] = v.code
            if set(vals) != set(want): fail(f"{name}: fields {sorted(vals)} initialised, {sorted(want)} declared")
            return Val("({ " + ", ".join(f"{lname(f)} := {vals[f]}" for f, _ in info["fields"]) + f" }} : {NS}.{name} α)", ("smp", name))
        if name in G.recs:
            fs = G.recs[name]; vals = {}
            for f, x in e[2]:
                names = [n for n, _ in fs]
                if f not in names or f in vals: fail(f"{name}: unexpected field `{f}`")
                want = fs[names.index(f)][1]
                v = self.expr(x, want)
                if v.ty != want: fail(f"{name}.{f}: value of type {v.ty!r}, {want!r} expected")
                vals[f] = v.code
            if len(vals) != len(fs): fail(f"{name}: not every field initialised")
            return Val("(" + ", ".join(vals[n] for n, _ in fs) + ")", ("rec", name))
        info = G.colour(name)
        if info:
            names = [n for n, _ in info["fields"]]; vals = {}
            for f, x in e[2]:
                if f in info["phantoms"]:
                    if self.expr(x).ty != "phantom": fail(f"{name}.{f}: PhantomData expected")
                    continue
                if f not in names or f in vals: fail(f"{name}: unexpected field `{f}`")
                v = self.expr(x, "T")
                if v.ty != "T": fail(f"{name}.{f}: not a scalar / hue")
                vals[f] = v.code
            if len(vals) != len(names): fail(f"{name}: fields {sorted(vals)} initialised, {names} declared")
            ctor = "V3.mk" if len(names) == 3 else "Prim.Rand.C1.mk"
            return Val(f"({ctor} " + " ".join(vals[n] for n in names) + ")", ("col", name))
        fail(f"struct literal of {name} is outside the translated subset")

    # ---- statements
    def bind(self, pat, v):
        if pat[0] == "pid":
            if v.ty == "P" or v.ty == "phantom":
                self.env[pat[1]] = v; return
            n = lname(pat[1])
            if n == "rng": fail("a variable named rng")
            # a rebinding gets a new Lean name: inlined masks (and beta-reduced closure arguments) may still mention the shadowed variable
            used = {v2.code for v2 in self.env.values()} | self.names
            if n in used:
                j = 1
                while f"{n}_{j}" in used: j += 1
                n = f"{n}_{j}"
            self.names.add(n)
            self.lines.append(f"let {n} : {lean_ty(self.G, v.ty)} := {v.code};")
            self.env[pat[1]] = Val(n, v.ty); return
        if pat[0] == "pwild": return
        if pat[0] == "ptuple":
            if not (isinstance(v.ty, tuple) and v.ty[0] == "tup" and len(v.ty[1]) == len(pat[1])): fail("tuple pattern against a non-tuple")
            t = self.fresh("t")
            self.lines.append(f"let {t} : {lean_ty(self.G, v.ty)} := {v.code};")
            for i, p in enumerate(pat[1]): self.bind(p, Val(R.tup_proj(t, i, len(pat[1])), v.ty[1][i]))
            return
        if pat[0] == "pstruct":
            name = pat[1]
            if not (isinstance(v.ty, tuple) and v.ty == ("rec", name)): fail(f"struct pattern {name} against {v.ty!r}")
            if pat[3]: fail("`..` in a struct pattern")
            fs = self.G.recs[name]; names = [n for n, _ in fs]
            if sorted(f for f, _ in pat[2]) != sorted(names): fail(f"pattern {name}: fields {[f for f, _ in pat[2]]}, declared {names}")
            t = self.fresh("t")
            self.lines.append(f"let {t} : {lean_ty(self.G, v.ty)} := {v.code};")
            for f, p in pat[2]:
                i = names.index(f)
                self.bind(p, Val(R.tup_proj(t, i, len(fs)), fs[i][1]))
            return
        fail(f"pattern {pat[0]} is outside the translated subset")

    def stmt(self, s):
        if s[0] == "let":
            if s[3] is None: fail("`let` without initialiser")
            if s[1][0] == "pid" and s[1][2]: fail("`let mut` is outside the translated subset")
            expect = self.type_of_text(s[2]) if s[2] else None
            self.bind(s[1], self.expr(s[3], expect)); return
        fail(f"statement {s[0]} is outside the translated subset")

# ------------------------------------------------------------------------------------------------ one body
def translate(G, name, doc, body_text, params, ret_ty, model, self_ty=None, dict_=None, key=None, file=None, register=None):
    """params: [(rust name, type)], `rng` last if present.  Registers the body in G.fns under `key` and appends the def."""
    L = Lower(G, self_ty, dict_, file)
    for n, t in params: L.env[n] = Val("rng" if t == "rng" else lname(n) if n != "self" else "self_", t)
    effectful = any(t == "rng" for _, t in params)
    try:
        b = Parser(tokenize(body_text)).block()
        for s in b[1]: L.stmt(s)
        if b[2] is None: fail("no tail expression")
        v = L.expr(b[2], ret_ty)
    except M.MacroError as e:
        raise Untranslatable(f"body {name} ({doc}): {e}")
    except Untranslatable as e:
        raise Untranslatable(f"body {name} ({doc}): {e}")
    if v.ty != ret_ty: raise Untranslatable(f"body {name} ({doc}): result of type {v.ty!r}, {ret_ty!r} expected")
    binders = "{α : Type} [Scalar α]"
    if dict_:
        binders += " " + dict_["implicit"] + "".join(f" ({n} : {t})" for n, t in dict_["params"])
    if L.uses_wp: binders += " (wx wy wz : α)"
    for n, t in params:
        binders += f" ({'rng' if t == 'rng' else 'self_' if n == 'self' else lname(n)} : {lean_ty(G, t)})"
    rt = lean_ty(G, ret_ty)
    if effectful: rt = f"({rt} × Prim.Rand.Rng α)"
    res = f"({v.code}, rng)" if effectful else v.code
    text = f"/-- {doc} -/\ndef {name} {binders} : {rt} :=\n" + "".join("    " + l + "\n" for l in L.lines) + "    " + res + "\n"
    G.defs.append((name, doc, text, model))
    info = dict(lean=f"{NS}.{name}", params=[t for n, t in params if t != "rng"], ret=ret_ty, effect=effectful, wp=L.uses_wp, dict=bool(dict_))
    if key is not None: G.fns[key] = info
    return info

def fn_of(src, where, fn, what):
    try:
        return find_fn(src, where, fn)
    except Untranslatable as e:
        raise Untranslatable(f"{what}: {e}")

def param_names(params):
    out = []
    for p in R.split_top(params):
        p = p.strip()
        if not p: continue
        if re.fullmatch(r"&?\s*(mut\s+)?self", p): out.append(("self", None)); continue
        m = re.match(r"(?:mut\s+)?(\w+)\s*:\s*(.+)$", p, re.S)
        if not m: fail(f"parameter {p!r}")
        out.append((m.group(1), re.sub(r"\s+", "", m.group(2))))
    return out

# ------------------------------------------------------------------------------------------------ the family
def macro_text(src, name):
    m = re.search(r"\bmacro_rules!\s+" + name + r"\s*\{", src)
    if not m: fail(f"macro_rules! {name} not found")
    return src[m.end() - 1:R.match_brace(src, m.end() - 1)]

def gen_helpers(G):
    """angle.rs / hues.rs / num.rs helpers the sampler bodies call"""
    ang = G.read("angle.rs")
    A = (r"macro_rules!\s+impl_angle_float\b")
    p, r, b = fn_of(ang, A, "full_rotation", "angle.rs impl_angle_float!")
    translate(G, "angFullRotation", "`angle.rs`: `fn full_rotation` of `macro_rules! impl_angle_float`", b, [], "T", "Gen.Sampling.fullRotation",
              key=("angle", "full_rotation"))
    p, r, b = fn_of(ang, A, "normalize_unsigned_angle", "angle.rs impl_angle_float!")
    translate(G, "angNormalizeUnsigned", "`angle.rs`: `fn normalize_unsigned_angle` of `macro_rules! impl_angle_float`", b, [("self", "T")], "T",
              "Sampling.normalizeUnsigned", key=("T", "normalize_unsigned_angle"))
    hs = G.read("hues.rs")
    Hm = r"macro_rules!\s+make_hues\b"
    # the hue types named in the invocation of make_hues!
    inv = re.search(r"(?<![\w$])make_hues\s*!\s*\{", hs[re.search(Hm, hs).end():])
    if not inv: fail("hues.rs: invocation of make_hues! not found")
    start = re.search(Hm, hs).end() + inv.end() - 1
    G.hues = re.findall(r"\bstruct\s+(\w+)\s*;", hs[start:R.match_brace(hs, start)])
    if not G.hues: fail("make_hues!: no hue types found in the invocation")
    for fn, nm in (("new", "hueNew"), ("from_degrees", "hueFromDegrees"), ("into_positive_degrees", "hueIntoPositiveDegrees")):
        p, r, b = fn_of(hs, Hm, fn, "hues.rs make_hues!")
        pn = param_names(p)
        b = re.sub(r"\bSelf\s*\(", "hue_wrap(", b)
        params = [(n, "T") for n, _ in pn]
        translate(G, nm, f"`hues.rs`: `fn {fn}` of `macro_rules! make_hues`", b, params, "T", "Sampling.normalizeUnsigned" if fn == "into_positive_degrees" else None,
                  self_ty="hue", key=("hue", fn))
    # `impl<T> From<T> for $name<T>`: `fn from(degrees: T) -> $name<T> { $name(degrees) }`
    mt = macro_text(hs, "make_hues")
    m = re.search(r"impl\s*<\s*T\s*>\s*From\s*<\s*T\s*>\s*for\s*\$name\s*<\s*T\s*>\s*\{", mt)
    if not m: fail("make_hues!: `impl<T> From<T> for $name<T>` not found")
    item = mt[m.end() - 1:R.match_brace(mt, m.end() - 1)]
    p, r, b = fn_of(item, None, "from", "make_hues! From<T>")
    b = re.sub(r"\$name\s*\(", "hue_wrap(", b)
    translate(G, "hueFromT", "`hues.rs`: `fn from` of `impl<T> From<T> for $name<T>` (`macro_rules! make_hues`)", b, [(n, "T") for n, _ in param_names(p)], "T", None,
              self_ty="hue", key=("hue", "from"))
    # num.rs: MinMax::min_max for f32/f64 (`impl_float!`)
    num = G.read("num.rs")
    p, r, b = fn_of(num, r"macro_rules!\s+impl_float\b", "min_max", "num.rs impl_float!")
    translate(G, "numMinMax", "`num.rs`: `fn min_max` of `impl MinMax for $ty` (`macro_rules! impl_float`)", b, [("self", "T"), ("other", "T")], ("tup", ["T", "T"]),
              "Sampling.minMaxCode", key=("T", "min_max"))

def gen_hue_samplers(G):
    hs = G.read("hues.rs")
    mt = macro_text(hs, "make_hues")
    m = re.search(r"impl\s*<\s*T\s*>\s*Distribution\s*<\s*\$name\s*<\s*T\s*>\s*>\s*for\s+Standard\b[^{]*\{", mt)
    if not m: fail("make_hues!: `impl<T> Distribution<$name<T>> for Standard` not found")
    item = mt[m.end() - 1:R.match_brace(mt, m.end() - 1)]
    p, r, body = fn_of(item, None, "sample", "make_hues! Distribution for Standard")
    for h in G.hues:
        b = re.sub(r"\$name\b", h, body)
        translate(G, lower_first(h) + "Standard", f"`hues.rs`: `fn sample` of `impl<T> Distribution<{h}<T>> for Standard` (`make_hues!` at `{h}`)", b, [("rng", "rng")], "T",
                  "Sampling.hueStandard", key=("standard", h))
    invs = G.engine.invocations("hues.rs", "impl_uniform")
    invs = [x for x in invs if not any(M.is_tok(t, "$") for t in x)]
    if not invs: fail("hues.rs: no invocation of impl_uniform!")
    for inv in invs:
        exp = M.text_of(G.engine.expand_items("impl_uniform", inv))
        um = re.search(r"\bstruct\s+(\w+)", exp)
        if not um: fail("impl_uniform!: the expansion has no `struct`")
        uni = um.group(1)
        xm = re.search(r"\btype\s+X\s*=\s*(\w+)", exp)
        if not xm or xm.group(1) not in G.hues: fail(f"impl_uniform! {uni}: `type X = <hue>` not found")
        base = xm.group(1)
        fs = struct_item(exp, uni)
        fields = [(n, "U") for n, t in fs if re.fullmatch(r"(\w+::)*Uniform<T>", t)]
        if len(fields) != len(fs): fail(f"struct {uni}: fields {fs}")
        G.samplers[uni] = dict(fields=fields, phantoms=[], hue=base)
        emit_struct(G, uni, f"`hues.rs`: `pub struct {uni}<T>` (`impl_uniform!({uni}, {base})`)")
        W = r"UniformSampler\s+for\s+" + uni + r"\b"
        for fn, suffix, model in (("new", "New", "Sampling.hueEnds"), ("new_inclusive", "NewInclusive", "Sampling.hueEnds")):
            p, r, b = fn_of(exp, W, fn, f"impl_uniform! {uni}")
            pn = param_names(p)
            if [n for n, _ in pn] != ["low_b", "high_b"]: fail(f"{uni}::{fn}: parameters {pn}")
            translate(G, lower_first(uni) + suffix, f"`hues.rs`: `fn {fn}` of `impl<T> UniformSampler for {uni}<T>` (`impl_uniform!({uni}, {base})`)", b,
                      [("low_b", "T"), ("high_b", "T")], ("smp", uni), model, self_ty=("smp", uni), key=(fn, uni))
        p, r, b = fn_of(exp, W, "sample", f"impl_uniform! {uni}")
        translate(G, lower_first(uni) + "Sample", f"`hues.rs`: `fn sample` of `impl<T> UniformSampler for {uni}<T>` (`impl_uniform!({uni}, {base})`)", b,
                  [("self", ("smp", uni)), ("rng", "rng")], "T", "Sampling.hueSample", self_ty=("smp", uni), key=("sample", uni))

def emit_struct(G, name, doc):
    info = G.samplers[name]
    G.structs_out.append(f"/-- {doc} -/\nstructure {name} (α : Type) where\n" + "".join(f"  {lname(f)} : {lean_ty(G, t)}\n" for f, t in info["fields"]))

def gen_cone(G):
    src = G.read(CONE)
    for s in ("HsvSample", "HslSample"):
        fs = struct_item(src, s)
        if fs is None: fail(f"{CONE}: struct {s} not found")
        if any(t != "T" for _, t in fs): fail(f"{CONE}: struct {s}: fields {fs}")
        G.recs[s] = [(n, "T") for n, _ in fs]
    T, HSV, HSL, TT = "T", ("rec", "HsvSample"), ("rec", "HslSample"), ("tup", ["T", "T"])
    for fn, params, ret, model in (("sample_hsv", [("r1", T), ("r2", T)], HSV, "Sampling.sampleHsv"),
                                   ("invert_hsv_sample", [("sample", HSV)], TT, "Sampling.invertHsv"),
                                   ("sample_bicone_height", [("r1", T)], T, "Sampling.biconeHeight"),
                                   ("sample_hsl", [("r1", T), ("r2", T)], HSL, "Sampling.sampleHsl"),
                                   ("invert_bicone_height_sample", [("height", T)], T, "Sampling.invertBiconeHeight"),
                                   ("invert_hsl_sample", [("sample", HSL)], TT, "Sampling.invertHsl")):
        p, r, b = fn_of(src, None, fn, CONE)
        pn = param_names(p)
        if [n for n, _ in pn] != [n for n, _ in params]: fail(f"{CONE}: fn {fn}: parameters {pn}")
        translate(G, camel(fn), f"`{CONE}`: `fn {fn}`", b, params, ret, model, key=(None, fn), file=CONE)

def sampler_fields(G, exp, uni):
    fs = struct_item(exp, uni)
    if fs is None: fail(f"the expansion has no `struct {uni}`")
    fields, ph = [], []
    for n, t in fs:
        if "PhantomData" in t: ph.append(n); continue
        if re.fullmatch(r"(\w+::)*Uniform<T>", t): fields.append((n, "U")); continue
        m = re.fullmatch(r"(?:\w+::)*(\w+)<.*>", t)
        if m and m.group(1) in G.samplers: fields.append((n, ("smp", m.group(1)))); continue
        fail(f"struct {uni}: field {n}: {t}")
    return fields, ph

def gen_colour_samplers(G):
    found = []
    for f in G.files:
        if f.startswith("macros/"): continue
        src = G.read(f)
        for mac in MACROS:
            if not re.search(r"(?<![\w$])" + mac + r"\s*!", src): continue
            for inv in G.engine.invocations(f, mac):
                found.append((f, mac, inv))
    # inner samplers first (hwb_cone uses the HSV sampler of another invocation)
    found.sort(key=lambda x: (x[1] == "impl_rand_traits_hwb_cone", x[0]))
    types = []
    for f, mac, inv in found:
        fam = FAMILY_OF[mac]
        exp = M.text_of(G.engine.expand_items(mac, inv))
        m = re.search(r"Distribution\s*<\s*(\w+)\s*<", exp)
        if not m: fail(f"{f}: {mac}!: `Distribution<Ty<..>>` not found in the expansion")
        ty = m.group(1)
        if not G.colour(ty): fail(f"{f}: {mac}!: no `pub struct {ty}`")
        um = re.search(r"\bstruct\s+(\w+)", exp)
        uni = um.group(1)
        fields, ph = sampler_fields(G, exp, uni)
        G.samplers[uni] = dict(fields=fields, phantoms=ph)
        emit_struct(G, uni, f"`{f}`: `pub struct {uni}` of `{mac}!` at `{ty}`")
        prev_hook = R.EXPR_MACRO_HOOK
        def hook(name, toks, eng=G.engine):
            if name != "__apply_map_fn": return None
            return eng.expand_expr_macro(name, toks)
        R.EXPR_MACRO_HOOK = hook
        try:
            base = lower_first(ty)
            col = ("col", ty)
            W1 = r"impl\s*<[^{]*?Distribution\s*<\s*" + ty + r"\s*<"
            p, r, b = fn_of(exp, W1, "sample", f"{mac}! at {ty}: Distribution for Standard")
            translate(G, base + "Standard", f"`{f}`: `fn sample` of `impl Distribution<{ty}> for Standard` (`{mac}!`)", b, [("rng", "rng")], col,
                      "Sampling.standard", self_ty=col, key=("standard", ty), file=f)
            W2 = r"UniformSampler\s+for\s+" + uni + r"\b"
            xm = re.search(r"\btype\s+X\s*=\s*(\w+)", exp[re.search(W2, exp).end():])
            if not xm or xm.group(1) != ty: fail(f"{uni}: `type X = {ty}<..>` expected")
            for fn, suffix in (("new", "New"), ("new_inclusive", "NewInclusive")):
                p, r, b = fn_of(exp, W2, fn, f"{mac}! at {ty}")
                if [n for n, _ in param_names(p)] != ["low_b", "high_b"]: fail(f"{uni}::{fn}: parameters {p}")
                translate(G, base + suffix, f"`{f}`: `fn {fn}` of `impl UniformSampler for {uni}` (`{mac}!` at `{ty}`)", b, [("low_b", col), ("high_b", col)],
                          ("smp", uni), "Sampling.uniformEnds", self_ty=("smp", uni), key=(fn, uni), file=f)
            p, r, b = fn_of(exp, W2, "sample", f"{mac}! at {ty}")
            translate(G, base + "Sample", f"`{f}`: `fn sample` of `impl UniformSampler for {uni}` (`{mac}!` at `{ty}`)", b, [("self", ("smp", uni)), ("rng", "rng")], col,
                      "Sampling.uniformSample", self_ty=("smp", uni), key=("sample", uni), file=f)
        finally:
            R.EXPR_MACRO_HOOK = prev_hook
        types.append((ty, fam, uni, f))
    return types

ALPHA = "alpha/alpha.rs"
def gen_alpha(G):
    src = G.read(ALPHA)
    fs = struct_item(src, "Alpha")
    if fs is None or [(n, t) for n, t in fs] != [("color", "C"), ("alpha", "T")]: fail(f"{ALPHA}: struct Alpha: fields {fs}")
    G.recs["Alpha"] = [("color", ("gen", "γ")), ("alpha", "T")]
    fs = struct_item(src, "UniformAlpha")
    if fs is None or fs != [("color", "Uniform<C>"), ("alpha", "Uniform<T>")]: fail(f"{ALPHA}: struct UniformAlpha: fields {fs}")
    G.recs["UniformAlpha"] = [("color", ("gen", "σ")), ("alpha", "U")]
    RNG = "Prim.Rand.Rng α"
    D = dict(implicit="{γ σ : Type}",
             params=[("genC", f"{RNG} → γ × {RNG}"), ("newC", "γ → γ → σ"), ("newInclusiveC", "γ → γ → σ"), ("sampleC", f"σ → {RNG} → γ × {RNG}")],
             types={"C": ("gen", "γ"), "Uniform<C>": ("gen", "σ")},
             gen={"γ": "genC"}, sample={"σ": ("sampleC", ("gen", "γ"))},
             uniform_new={"C": dict(new="newC", new_inclusive="newInclusiveC", arg=("gen", "γ"), ret=("gen", "σ"))})
    A, UA = ("rec", "Alpha"), ("rec", "UniformAlpha")
    p, r, b = fn_of(src, r"impl\s*<\s*C\s*,\s*T\s*>\s*Distribution\s*<\s*Alpha\s*<\s*C\s*,\s*T\s*>\s*>\s*for\s+Standard", "sample", ALPHA)
    translate(G, "alphaStandard", f"`{ALPHA}`: `fn sample` of `impl<C, T> Distribution<Alpha<C, T>> for Standard`", b, [("rng", "rng")], A, "Sampling.alphaStandard",
              self_ty=A, dict_=D, file=ALPHA)
    W = r"impl\s*<\s*C\s*,\s*T\s*>\s*UniformSampler\s+for\s+UniformAlpha\b"
    for fn, nm in (("new", "uniformAlphaNew"), ("new_inclusive", "uniformAlphaNewInclusive")):
        p, r, b = fn_of(src, W, fn, ALPHA)
        if [n for n, _ in param_names(p)] != ["low_b", "high_b"]: fail(f"UniformAlpha::{fn}: parameters {p}")
        translate(G, nm, f"`{ALPHA}`: `fn {fn}` of `impl<C, T> UniformSampler for UniformAlpha<C, T>`", b, [("low_b", A), ("high_b", A)], UA, "Sampling.alphaEnds",
                  self_ty=UA, dict_=D, file=ALPHA)
    p, r, b = fn_of(src, W, "sample", ALPHA)
    translate(G, "uniformAlphaSample", f"`{ALPHA}`: `fn sample` of `impl<C, T> UniformSampler for UniformAlpha<C, T>`", b, [("self", UA), ("rng", "rng")], A,
              "Sampling.alphaSample", self_ty=UA, dict_=D, file=ALPHA)

def conversions(G):
    """`from_color_unclamped` bodies translated by tools/rust2lean.py (family of Gen/Bodies.lean) that the HWB samplers go through"""
    want = {("Hsv", "Hwb"): "hwbToHsv", ("Hwb", "Hsv"): "hsvToHwb", ("Okhsv", "Okhwb"): "okhwbToOkhsv", ("Okhwb", "Okhsv"): "okhsvToOkhwb"}
    names = {s["name"]: s for s in R.BODIES}
    for (dst, src), n in want.items():
        s = names.get(n)
        if s is None or s["fn"] != "from_color_unclamped": fail(f"tools/rust2lean.py no longer translates {src} -> {dst} as Gen.Body.{n}")
        G.conv[(dst, src)] = "Gen.Body." + n

UNTRANSLATED = [
    "`rand` itself: `Rng::gen::<T>()` for a float `T` (`Standard`: a value in [0, 1)), `Uniform::<T>::new` / `new_inclusive` / `sample` (`UniformFloat`): PARAMETERS of every",
    "  translated body (`Prim.Rand.Rng.gen`, `.draw`; PaletteModel/BodyPrimRand.lean) - what the C19 theorems assume about them is their hypothesis",
    "`rand::distributions::Uniform<X>` for a colour / hue `X` (`Uniform(X::Sampler)`, `Uniform::new(a, b)` = `X::Sampler::new(a, b)`, `SampleBorrow::borrow`): rand's",
    "  forwarding wrapper, read as the identity (for the generic colour of `Alpha`: the parameters `newC` / `newInclusiveC` / `sampleC`)",
    "`impl SampleUniform for ..` (`type Sampler = ..;`): no body; the `#[cfg(feature = \"random\")]` gates: read as on",
    "`f32/f64::cbrt`, `sqrt`, `floor`, `powi`: fields of `class Scalar` / `Prim.powi2`, `Prim.powi3` (as in the other families)",
    "the `from_color_unclamped` bodies between Hsv / Hwb and Okhsv / Okhwb: translated in Gen/Bodies.lean (tied in Tie_Bodies.lean), called from here",
    "the test-only macros of macros/random.rs (`assert_uniform_distribution!`, `test_uniform_distribution!`) and random_sampling.rs `test_utils`",
    "SIMD / integer component types: the float samplers only (`T` is a `Scalar`)",
]

def generate(read_src, files, tie_text, tie_file="Tie_Rand.lean"):
    """-> (text of Gen/BodiesRand.lean, summary dict)"""
    G = Globals(read_src, files)
    conversions(G)
    gen_helpers(G)
    # `Self(x)` / `$name(x)`: the hue wrapper is transparent
    gen_cone(G)
    gen_hue_samplers(G)
    types = gen_colour_samplers(G)
    gen_alpha(G)
    if len(types) < 1: fail("no invocation of impl_rand_traits_*! found")
    # every translated body with a model function needs its tie theorem
    for name, doc, text, model in G.defs:
        if model is None or tie_text is None: continue
        m = re.search(r"\btheorem\s+tie_" + name + r"\b(.*?):=", tie_text, re.S)
        if not m: fail(f"body {name} is translated but lean/PaletteProofs/{tie_file} has no theorem tie_{name}")
        if not (re.search(r"Gen\.BodyRand\." + name + r"\b", m.group(1)) and re.search(re.escape(model) + r"(?![\w.])", m.group(1))):
            fail(f"theorem tie_{name} does not state {NS}.{name} against {model}")
    tied = [(n, m) for n, _, _, m in G.defs if m]
    head = ["/- GENERATED by tools/extract.py (plugin tools/extract_plugins/rand.py, translator tools/rust2lean_rand.py, family `rand`) from palette/src -- do not edit",
            "",
            "  Random sampling (C19): macros/random.rs (`impl_rand_traits_cartesian!`, `_cylinder!`, `_hsv_cone!`, `_hsl_bicone!`, `_hwb_cone!` expanded at every invocation",
            "  found), random_sampling/cone.rs, the `rand` impls of hues.rs (`impl_uniform!`, `Distribution<$name<T>> for Standard`) and alpha/alpha.rs, with the helpers they",
            "  call.  Each definition is the translation of the *current* text of one Rust function / expanded macro body (named in its doc comment); conventions in",
            "  the header of tools/rust2lean_rand.py, primitives in PaletteModel/BodyPrimRand.lean.  The RNG and rand's primitive distributions are PARAMETERS",
            "  (`rng : Prim.Rand.Rng α`, threaded in evaluation order).  `PaletteProofs/Tie_Rand.lean` proves (`tie_<name>`) for every `[Scalar α]`:",
            ] + ["    " + ", ".join(f"{n} ~ {m}" for n, m in tied[i:i + 3]) for i in range(0, len(tied), 3)] + [
            "  Helpers translated and unfolded inside those proofs (no model function of their own): " + (", ".join(n for n, _, _, m in G.defs if not m) or "none"),
            "",
            "  NOT translated (parameters / readings / out of scope):"] + ["    " + u for u in UNTRANSLATED] + ["-/",
            "import PaletteModel.BodyPrim", "import PaletteModel.BodyPrimRand", "import PaletteModel.Gen.Bodies", "import PaletteModel.Gen.Sampling", "",
            "set_option linter.unusedVariables false", "",
            f"namespace {NS}", "",
            "/-- names of the translated bodies that have a `tie_` theorem, with the model function the theorem relates them to -/",
            "def tiedRand : List (String × String) := [\n" + ",\n".join("  " + ", ".join(f'("{n}", "{m}")' for n, m in tied[i:i + 3]) for i in range(0, len(tied), 3)) + "]", "",
            "/-- every `impl_rand_traits_*!` invocation found in palette/src (type, macro), all of them translated: `<ty>Standard`, `<ty>New`, `<ty>NewInclusive`, `<ty>Sample` -/",
            "def invocations : List (Gen.Sampling.Ty × Gen.Sampling.Family) := [" + ", ".join(f"(.{ty}, .{fam})" for ty, fam, _, _ in sorted(types)) + "]", "",
            "/-- the `impl_uniform!` invocations of hues.rs (sampler, hue) -/",
            "def hueSamplers : List (String × String) := [" + ", ".join(f'("{u}", "{G.samplers[u]["hue"]}")' for u in G.samplers if "hue" in G.samplers[u]) + "]", ""]
    body = []
    # structures before the defs that use them: emit in creation order, interleaved by first use -> simply all hue structs first, colour structs in order
    order = []
    si = 0
    structs_by_name = {re.search(r"structure (\w+)", s).group(1): s for s in G.structs_out}
    emitted = set()
    for name, doc, text, model in G.defs:
        for sn, st in structs_by_name.items():
            if sn not in emitted and re.search(r"\b" + sn + r"\b", text):
                # dependencies of the structure itself
                for dn, dt in structs_by_name.items():
                    if dn != sn and dn not in emitted and re.search(r"\b" + dn + r"\b", st):
                        body.append(dt); emitted.add(dn)
                body.append(st); emitted.add(sn)
        body.append(text)
    summary = dict(types=types, bodies=[n for n, _, _, _ in G.defs], tied=tied, hues=G.hues)
    return "\n".join(head) + "\n" + "\n".join(body) + f"\nend {NS}\n", summary

if __name__ == "__main__":
    repo = os.environ.get("PALETTE_REPO", "/repo")
    srcdir = os.path.join(repo, "palette", "src")
    def read_src(rel): return R.strip_comments(open(os.path.join(srcdir, rel)).read())
    files = sorted(os.path.relpath(os.path.join(dp, f), srcdir) for dp, dn, fn in os.walk(srcdir) for f in fn if f.endswith(".rs"))
    root = os.path.dirname(os.path.dirname(os.path.abspath(__file__)))
    tie = os.path.join(root, "lean", "PaletteProofs", "Tie_Rand.lean")
    try:
        text, summary = generate(read_src, files, None if ("--no-tie" in sys.argv or not os.path.exists(tie)) else open(tie).read())
        if "--summary" in sys.argv:
            for n, m in summary["tied"]: print(n, "~", m)
        else: sys.stdout.write(text)
    except Untranslatable as e:
        print("FAILED:", e); sys.exit(1)
