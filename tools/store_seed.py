#!/usr/bin/env python3
"""store_seed.py <Cxx> <k> <detected: caught-with-input|caught-no-input|missed> <checks run, comma separated> [note]
copies /tmp/mut/Cxx/_out/{patch_k.diff,demo_k.rs,meta_k.json} to /verif/seeded/Cxx-k/ and records what was run"""
import sys, os, json, shutil, re
pid, k, det, checks = sys.argv[1:5]
note = sys.argv[5] if len(sys.argv) > 5 else ""
src = f"/tmp/mut/{pid}/_out"; dst = f"/verif/seeded/{pid}-{k}"
os.makedirs(dst, exist_ok=True)
if not note and os.path.exists(f"{dst}/meta.json"):
    note = json.load(open(f"{dst}/meta.json")).get("detection", {}).get("note", "")   # keep the history of an earlier run
shutil.copy(f"{src}/patch_{k}.diff", f"{dst}/patch.diff")
shutil.copy(f"{src}/demo_{k}.rs", f"{dst}/demo.rs")
meta = json.load(open(f"{src}/meta_{k}.json"))
log = ""
for c in checks.split(","):
    p = os.environ.get("SEEDRUN", "/tmp/seedrun") + f"/last_{c}.log"
    if os.path.exists(p):
        lines = [l.rstrip()[:300] for l in open(p) if re.match(r"\[C|VIOLATION|KNOWN|  broken\[|  fails\[", l)]
        log += f"--- ./check {c} quick (patch applied)\n" + "\n".join(lines[:14]) + "\n"
meta_out = {
    "property": pid, "seed": f"{pid}-{k}",
    "summary": meta.get("summary"), "breaks": meta.get("breaks"), "needs": meta.get("needs"), "witness": meta.get("witness"),
    "author": "independent sub-agent given only the property text and a scratch worktree (tools/mut_prompt.py)",
    "confirmed": {"how": "tools/confirm_seed.sh: demo passes on the unchanged worktree, fails with the patch; full pinned suite passes with the patch (871 = 12+24+6+4+825); builds with all optional features",
                  "agent_commands": meta.get("commands")},
    "detection": {"result": det, "checks_run": checks.split(","), "how": "patch applied to a private copy of the repository (git worktree of /repo HEAD) with a private copy of /verif pointed at it (same code, harness path and PALETTE_REPO redirected), `./check <id> quick`, patch reverted", "note": note, "output": log},
}
json.dump(meta_out, open(f"{dst}/meta.json", "w"), indent=1)
print("stored", dst, det)
