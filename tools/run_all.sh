#!/bin/sh
# runs every claimed check of MANIFEST.json in the given tier (default quick); prints one summary line per check
tier=${1:-quick}
cd /verif
for p in $(python3 -c "import json; print(' '.join(c['property_id'] for c in json.load(open('MANIFEST.json'))['checks']))"); do
  s=$(date +%s)
  ./check $p $tier > out/run_all_$p.log 2>&1; rc=$?
  e=$(date +%s)
  echo "$p rc=$rc $((e-s))s $(grep -E '^\[C' out/run_all_$p.log | tail -1)"
  grep -E '^VIOLATION' out/run_all_$p.log
done
