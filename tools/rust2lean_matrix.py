#!/usr/bin/env python3
"""
rust2lean_matrix -- family `matrix`: the code of palette that BUILDS and APPLIES 3x3 matrices, and the trait-/`TypeId`-dispatched glue edges around it.

    matrix.rs (multiply_3x3, matrix_inverse, matrix_map, rgb_to_xyz_matrix, mat3_from_primaries), convert/matrix3.rs (`Matrix3`), chromatic_adaptation.rs
    (adaptation_matrix, diagonal_matrix, the deprecated `TransformMatrix` / `AdaptFrom` / `AdaptInto`, the blanket `AdaptIntoUnclamped`), lms/matrix.rs (cone
    matrices), rgb.rs (`RgbSpace` defaults, the tuple impls), and the conversion edges `Xyz <-> Rgb<S>`, `Rgb<S1> <- Rgb<S2>`, `Rgb <- Luma`, `Luma <- Luma / Xyz / Yxy`,
    `Xyz / Yxy <- Luma`, `Lms <-> Xyz`, `Oklab <-> Rgb<S>`, `Xyz<Wp2> <- Xyz<Wp1>` (adaptation with the same-white-point shortcut).

Front end only: tokenizer, Pratt parser, `find_fn`, `impl_of`, `struct_fields` are those of tools/rust2lean.py (imported, unchanged; `MParser` adds `a[i]`).  The lowering
(`MLower`) is new: *typed* (a coarse type per expression, needed for `[T; 9]` vs `[T; 3]` vs colour structs), *dictionary-passing* like tools/rust2lean_glue.py (every
trait-dispatched callee is a parameter, listed in the registration `dict`; all registered entries are parameters, used or not, so using a different registered callee is
a wrong *term*), and *partial*: a body that can panic is a function into `Option` (`none` = the panic).

Conventions (beyond the header of rust2lean.py):
  * `Mat3<T> = [T; 9]` is `M3 σ`, `Vec3<T> = [T; 3]` is `V3 σ` (the model's structures): a 9- / 3-element array expression is `M3.mk ..` / `V3.mk ..`, `let [a, ..] = m;`
    is projection, `m[4]` with a literal index is `m.m4` (`v[1]`: `v.c1`); an index that is not a literal below the length leaves the subset
  * colour structs `Xyz Yxy Lms Rgb Oklab` are `V3 α` in struct field order (order and `PhantomData` fields re-read from the `struct`; `<C>::new(..)` is the constructor in
    parameter order, checked against the text of `fn new`), `Luma` is `Prim.Luma1 α`, `Matrix3<I, O>` is `Prim.Matrix3 σ`, `ConeResponseMatrices<T>` is `Prim.ConeResponse α`;
    `cast::from_array` / `cast::into_array` / `.into()` between a colour and `[T; 3]` are the identity on `V3` (field order = array order: C04)
  * colour (op) colour and colour (op) scalar are `Prim.v3Div`, `Prim.v3MulS`, .. (`impl_color_div!` etc., as in the other families)
  * `T::zero()` / `T::one()` -> `0.0` / `1.0`; `T::from_f64(c)` -> `Scalar.const (c : K)` (as `M3.ofK` reads the tables); `x.recip()` -> `Prim.recip x`; the function values
    `T::Scalar::from_f64` -> `Scalar.const`, `T::from_scalar` -> `fun x => x` (`FromScalar` of `f32` / `f64` is the identity); `.clone()`, `&`, `*` -> identity
  * PANICS: `assert!(c); rest` -> `if c then rest else none`; `if c { panic!(..) } rest` -> `if c then none else rest`; a body with such a statement, or calling one,
    returns `Option`: the final value is `some v`, a call of a partial callee is `Option.bind (f x) (fun v => ..)` in evaluation order; `a.len()` of `[T; 9]` is `Prim.m3Len a` (= 9)
  * `o.map_or_else(d, f)` -> `match o with | none => d () | some m => f m` (the arms are lowered as blocks: the default is *not* evaluated when `o` is `Some`);
    `o.unwrap_or_else(|| e)` -> `match o with | some v => v | none => e`; `None` -> `none`
  * `TypeId::of::<A>() == TypeId::of::<B>()` (also through `let` variables; `!=` negated) is the Boolean parameter `same_<A>_<B>` (generic arguments spelled out with
    `_`), in order of first use, after the dictionary parameters: the tie states which branch is taken under which type equality, and a test of *other* types changes
    the parameter name, which the tie theorem must give *by name* (`(same_S1_S2 := src.name == dst.name)`; checked here and by Lean)
  * `match *self { Method::A => .. }` over the registered enum (variants re-read), every variant once, no wildcard
  * `Yxy { luma: e, ..base }`: the fields not named are projections of `base`
  * keys of `dict`: `Path::to::fn` (call or value), `<recv>.<method>` with `<recv>` the variable / last field of the receiver, `.method`, and `.method@k` for the k-th
    textual occurrence (0-based) of `.method(` in the body, so that two uses dispatched on different types are two parameters
Anything else raises `Untranslatable` (`broken[extraction]`); a translated body without `tie_<name>` in PaletteProofs/Tie_Matrix.lean does too.
"""
import re, os, sys, hashlib
sys.path.insert(0, os.path.dirname(os.path.abspath(__file__)))
import rust2lean as R
from rust2lean import Untranslatable, fail, tokenize, Parser, find_fn, strip_comments, struct_fields, struct_phantoms, split_top, lname, impl_of

NS = "Gen.BodyMatrix"

# ------------------------------------------------------------------------------------------------ parser: `a[i]`
class MParser(Parser):
    def postfix(self, e, no_struct):
        while True:
            e = Parser.postfix(self, e, no_struct)
            if self.at("[") and e[0] not in ("if", "block", "match", "for"):       # `if c { .. } [a, b]`: a statement followed by an array, not an index
                self.i += 1
                idx = self.expr()
                self.expect("]")
                e = ("aindex", e, idx)
                continue
            return e

def macro_hook(name, toks):
    """`assert!(c)` / `panic!(..)` as calls of reserved names (statements only; the lowering rejects them elsewhere)"""
    if name == "assert": return [("id", "__assert"), ("op", "(")] + list(toks) + [("op", ")")]
    if name == "panic": return [("id", "__panic"), ("op", "("), ("op", ")")]
    return None

def parse_body(body):
    body = re.sub(r'"(?:[^"\\]|\\.)*"', "__str", body)        # string literals occur only as panic messages
    old = R.EXPR_MACRO_HOOK
    R.EXPR_MACRO_HOOK = macro_hook
    try:
        p = MParser(tokenize(body))
        blk = p.block()
        if p.peek()[0] != "eof": fail("trailing tokens after the body")
        return blk
    finally:
        R.EXPR_MACRO_HOOK = old

# ------------------------------------------------------------------------------------------------ coarse types
# "T" α | "K" f64 constant | "B" Bool | "N" Nat | "M3" | "V3" | "V3:<Colour>" | "MX" Prim.Matrix3 | "L1" Prim.Luma1 | "CR" Prim.ConeResponse | "E:Method"
# | ("opt", t) | ("fn", [args], ret) | ("tid", name) ; a pair (coarse, "lean text") overrides the rendering (generic bodies)
COLOURS = {"Xyz": "xyz.rs", "Yxy": "yxy.rs", "Lms": "lms/lms.rs", "Rgb": "rgb/rgb.rs", "Oklab": "oklab.rs"}
STRUCTS = {   # non-colour structs: rust name -> (file, coarse type, lean constructor, lean field names by rust field)
    "Matrix3": ("convert/matrix3.rs", "MX", "Prim.Matrix3.mk", {"matrix": "matrix"}),
    "Luma": ("luma/luma.rs", "L1", "Prim.Luma1.mk", {"luma": "luma"}),
    "ConeResponseMatrices": ("chromatic_adaptation.rs", "CR", "Prim.ConeResponse.mk", {"ma": "ma", "inv_ma": "invMa"}),
}
ENUMS = {"Method": ("chromatic_adaptation.rs", "Prim.Method", {"Bradford": "bradford", "VonKries": "vonKries", "XyzScaling": "xyzScaling"})}

def parse_ty(s):
    """registration shorthand -> coarse type: `T`, `V3:Xyz`, `opt(M3K)`, `V3:Rgb -> V3:Xyz`, `M3<σ>` (generic element type)"""
    if isinstance(s, tuple): return s
    parts = [p.strip() for p in split_top(s.replace("->", "\x00"), "\x00")]
    if len(parts) > 1: return ("fn", [parse_ty(p) for p in parts[:-1]], parse_ty(parts[-1]))
    s = s.strip()
    m = re.fullmatch(r"opt\((.*)\)", s)
    if m: return ("opt", parse_ty(m.group(1)))
    m = re.fullmatch(r"\((.*)\)", s)
    if m: return parse_ty(m.group(1))
    return s

def elem(t):
    m = re.fullmatch(r"(?:M3|V3|MX)<(.*)>", t) if isinstance(t, str) else None
    return m.group(1) if m else None

def base(t):
    """coarse type without the element annotation / colour tag"""
    if isinstance(t, str): return re.sub(r"[<:].*", "", t)
    return t[0]

def lean_ty(t):
    if isinstance(t, tuple):
        if t[0] == "opt": return f"Option ({lean_ty(t[1])})"
        if t[0] == "fn": return "(" + " → ".join(lean_ty(x) for x in t[1] + [t[2]]) + ")"
        fail(f"type {t!r} has no Lean rendering")
    el = elem(t) or "α"
    b = base(t)
    if b == "T": return "α"
    if b == "K": return "K"
    if b == "B": return "Bool"
    if b == "N": return "Nat"
    if b == "M3K": return "M3 K"
    if b == "M3": return f"M3 {el}"
    if b == "V3": return f"V3 {el}"
    if b == "MX": return f"Prim.Matrix3 {el}"
    if b == "L1": return "Prim.Luma1 α"
    if b == "CR": return "Prim.ConeResponse α"
    if b == "E": return ENUMS[t[2:]][1]
    if re.fullmatch(r"[σταβγμ]", b): return b
    fail(f"type {t!r} has no Lean rendering")

def colour_of(t):
    return t[3:] if isinstance(t, str) and t.startswith("V3:") else None

# ------------------------------------------------------------------------------------------------ lowering
V3OPS = {"+": "Add", "-": "Sub", "*": "Mul", "/": "Div"}

def tid_name(text):
    return "_".join(re.findall(r"\w+", text))

class MLower:
    def __init__(self, spec, registry, read_src):
        self.spec, self.registry, self.read_src = spec, registry, read_src
        self.dict = {}
        for (k, n, t, *m) in spec.get("dict", []):
            self.dict[k] = (n, parse_ty(t))
        self.calls = dict(DEFAULT_CALLS); self.calls.update(spec.get("calls", {}))
        self.tids = []            # Boolean parameters `same_A_B`, in order of first use
        self.n = 0
        self.occ = {}             # textual occurrence counter per method name
        self.fields = {}          # colour -> field list

    # ---- helpers
    def fresh(self, b="v"):
        self.n += 1
        return f"{b}_{self.n}"

    def colour_fields(self, c):
        if c not in self.fields:
            self.fields[c] = [f for f, _ in struct_fields(self.read_src(COLOURS[c]), c)]
        return self.fields[c]

    def callee(self, key, args, pre):
        """(code, type) of a call of `key` with lowered argument codes; registry (translated body / external) first, then the dictionary"""
        name = self.calls.get(key)
        if name is not None:
            if name not in self.registry: fail(f"the callee {key!r} is read as the translated body `{name}`, which is not translated (yet) in this family")
            rec = self.registry[name]
            extra = []
            for k in rec["dict"]:
                k2 = self.spec.get("rename", {}).get((name, k), k)
                if k2 not in self.dict: fail(f"the callee {rec['lean']} needs the dictionary entry {k2!r}, which this body does not register")
                extra.append(self.dict[k2][0])
            if rec["tids"]: fail(f"the callee {rec['lean']} has `TypeId` parameters; call it through the dictionary")
            if len(args) != len(rec["params"]): fail(f"call of {key!r}: {len(args)} arguments, the translated body has {len(rec['params'])}")
            code = "(" + " ".join([rec["lean"]] + extra + args) + ")" if (extra or args) else rec["lean"]
            ret = rec["ret"]
            if isinstance(ret, str): ret = re.sub(r"<[στ]>", "", ret)          # a generic callee used at the component type
            if rec["fallible"]:
                v = self.fresh("r")
                pre.append(("bind", v, code))
                return v, ret
            return code, ret
        if key in self.dict:
            n, t = self.dict[key]
            if t[0] == "fn" if isinstance(t, tuple) else False:
                if len(args) != len(t[1]): fail(f"call of the dictionary entry {key!r}: {len(args)} arguments, registered type has {len(t[1])}")
                return ("(" + " ".join([n] + args) + ")" if args else n), t[2]
            if args: fail(f"the dictionary entry {key!r} is a value, called with arguments")
            return n, t
        return None

    # ---- expressions: (code, type); `pre` collects the bindings that must precede the expression (partial callees, guards)
    def expr(self, e, env, pre):
        k = e[0]
        if k == "num":
            if re.fullmatch(r"\d+(?:usize)?", e[1]): return re.match(r"\d+", e[1]).group(0), "N"
            return self.num(e[1]), "K"
        if k == "path": return self.path(e, env, pre)
        if k == "unary":
            if e[1] in ("&", "*"): return self.expr(e[2], env, pre)
            x, t = self.expr(e[2], env, pre)
            if e[1] == "-":
                if base(t) not in ("T", "K"): fail("unary `-` on a non-scalar")
                return f"(-{x})", t
            if e[1] == "!":
                if t != "B": fail("`!` on a non-Boolean")
                return f"(!{x})", "B"
        if k == "binary": return self.binary(e, env, pre)
        if k == "field": return self.field(e, env, pre)
        if k == "aindex": return self.aindex(e, env, pre)
        if k == "array": return self.array(e, env, pre)
        if k == "call": return self.call(e, env, pre)
        if k == "mcall": return self.mcall(e, env, pre)
        if k == "struct": return self.struct_lit(e, env, pre)
        if k == "if": return self.if_expr(e, env, pre)
        if k == "match": return self.match_expr(e, env, pre)
        if k == "block":
            code, t, fall = self.block_term(e, env)
            return self.bound(code, t, fall, pre)
        fail(f"expression kind {k!r} is outside the subset of the family `matrix`")

    def num(self, lit):
        lit = lit.replace("_", "")
        if not re.fullmatch(r"\d+\.\d+(?:[eE][+-]?\d+)?", lit): fail(f"numeric literal {lit!r}: only decimal float literals are constants here")
        return f"({lit} : K)"

    def bound(self, code, t, fall, pre):
        """a sub-term that may be partial: bind it when it is"""
        if not fall: return code, t
        v = self.fresh("r")
        pre.append(("bind", v, code))
        return v, t

    def path(self, e, env, pre):
        segs = e[1]
        if len(segs) == 1:
            n = segs[0]
            if n in env: return env[n]
            if n in ("true", "false"): return n, "B"
            if n == "None": return "none", ("opt", "?")
            if n == "PhantomData": return None, "phantom"
        key = "::".join(segs)
        if len(segs) == 2 and segs[0] in ENUMS and segs[1] in ENUMS[segs[0]][2]:
            return f"{ENUMS[segs[0]][1]}.{ENUMS[segs[0]][2][segs[1]]}", "E:" + segs[0]
        if key in FN_VALUES: return FN_VALUES[key]
        if key in self.dict: return self.dict[key]          # a trait function used as a value (`U::from_color`)
        if key in self.calls:       # a function item used as a value (`rgb_to_xyz_matrix::<..>` passed to `map_or_else`)
            return ("fnref", key), "fnref"
        fail(f"path {key!r} is neither a local, a registered callee, nor a known function value")

    def binary(self, e, env, pre):
        op, a, b = e[1], e[2], e[3]
        if op in ("==", "!="):
            x, tx = self.expr(a, env, pre); y, ty = self.expr(b, env, pre)
            if isinstance(tx, tuple) and tx[0] == "tid" and isinstance(ty, tuple) and ty[0] == "tid":
                name = f"same_{tx[1]}_{ty[1]}"
                if name not in self.tids: self.tids.append(name)
                return (name if op == "==" else f"(!{name})"), "B"
            fail(f"`{op}` on anything but two `TypeId`s is outside the subset")
        x, tx = self.expr(a, env, pre); y, ty = self.expr(b, env, pre)
        if op in ("<", ">", "<=", ">="):
            if tx == "N" and ty == "N":
                rel = {"<": f"{x} < {y}", ">": f"{y} < {x}", "<=": f"{x} ≤ {y}", ">=": f"{y} ≤ {x}"}[op]
                return f"decide ({rel})", "B"
            fail(f"comparison `{op}` on non-`usize` operands is outside the subset")
        if op in "+-*/":
            bx, by = base(tx), base(ty)
            if bx in ("T",) and by in ("T",): return f"({x} {op} {y})", "T"
            if bx == "V3" and by == "V3" and colour_of(tx): return f"(Prim.v3{V3OPS[op]} {x} {y})", tx
            if bx == "V3" and by == "T" and colour_of(tx): return f"(Prim.v3{V3OPS[op]}S {x} {y})", tx
            fail(f"operator `{op}` on operands of type {tx} and {ty}")
        fail(f"operator {op!r} is outside the subset")

    def field(self, e, env, pre):
        x, t = self.expr(e[1], env, pre)
        f = e[2]
        c = colour_of(t)
        if c:
            fs = self.colour_fields(c)
            if f not in fs: fail(f"colour {c} has no component `{f}` (fields now: {fs})")
            return f"{x}.c{fs.index(f)}", "T"
        for name, (_, ct, _, fmap) in STRUCTS.items():
            if base(t) == ct and f in fmap:
                ft = {"MX": "M3" + (f"<{elem(t)}>" if elem(t) else ""), "L1": "T", "CR": "M3"}[ct]
                return f"{x}.{fmap[f]}", ft
        fail(f"field `.{f}` of a value of type {t}")

    def aindex(self, e, env, pre):
        x, t = self.expr(e[1], env, pre)
        if e[2][0] != "num" or not re.fullmatch(r"\d+", e[2][1]): fail("array index that is not an integer literal")
        i = int(e[2][1])
        if base(t) == "M3":
            if i >= 9: fail(f"index {i} of a `[T; 9]` (out of bounds: the Rust body would panic)")
            return f"{x}.m{i}", elem(t) or "T"
        if base(t) == "V3" and not colour_of(t):
            if i >= 3: fail(f"index {i} of a `[T; 3]`")
            return f"{x}.c{i}", elem(t) or "T"
        fail(f"indexing a value of type {t}")

    def array(self, e, env, pre):
        items = [self.expr(x, env, pre) for x in e[1]]
        ts = {t for _, t in items}
        if len(ts) != 1: fail(f"array literal with elements of types {sorted(map(str, ts))}")
        et = ts.pop()
        ann = "" if et == "T" else f"<{et}>"
        if len(items) == 9: return "(M3.mk " + " ".join(c for c, _ in items) + ")", ("M3K" if et == "K" else "M3" + ann)
        if len(items) == 3: return "(V3.mk " + " ".join(c for c, _ in items) + ")", "V3" + ann
        fail(f"array literal of length {len(items)} (only `[T; 9]` and `[T; 3]`)")

    def args(self, xs, env, pre):
        return [self.expr(x, env, pre) for x in xs]

    def call(self, e, env, pre):
        f, args = e[1], e[2]
        if f[0] != "path": fail("call of a computed function")
        segs, gens = f[1], f[2]
        key = "::".join(segs)
        if key == "TypeId::of" and not args:
            if len(gens) != 1: fail("TypeId::of without exactly one generic argument")
            return None, ("tid", tid_name(gens[0]))
        if key in ("__assert", "__panic"): fail("`assert!` / `panic!` in value position")
        if len(segs) == 1 and segs[0] in env:          # call of a closure / function parameter
            fn, t = env[segs[0]]
            if not (isinstance(t, tuple) and t[0] == "fn"): fail(f"call of `{segs[0]}`, which is not of function type")
            a = self.args(args, env, pre)
            if len(a) != len(t[1]): fail(f"call of `{segs[0]}` with {len(a)} arguments")
            return "(" + " ".join([fn] + [c for c, _ in a]) + ")", t[2]
        if not args and segs[-1] in ("zero", "one") and len(segs) == 2 and segs[0] == "T":
            return ("0.0" if segs[-1] == "zero" else "1.0"), "T"
        if segs[-1] == "from_f64" and len(args) == 1 and segs[0] == "T":
            x, t = self.expr(args[0], env, pre)
            if t != "K": fail("T::from_f64 of a non-constant")
            return f"(Scalar.const {x})", "T"
        if key in ("cast::from_array", "cast::into_array") and len(args) == 1:
            x, t = self.expr(args[0], env, pre)
            if base(t) != "V3": fail(f"{key} of a value of type {t}")
            return x, self.spec.get("cast_ty", {}).get(key, "V3")
        if len(segs) == 2 and segs[1] == "new" and segs[0] in COLOURS:
            a = self.args(args, env, pre)
            check_new(self.read_src, segs[0])
            if len(a) != 3 or any(t != "T" for _, t in a): fail(f"{key}: expected three scalar arguments")
            return "(V3.mk " + " ".join(c for c, _ in a) + ")", "V3:" + segs[0]
        if len(segs) == 2 and segs[1] == "new" and segs[0] == "Luma":
            a = self.args(args, env, pre)
            check_new(self.read_src, "Luma")
            if len(a) != 1 or a[0][1] != "T": fail("Luma::new: expected one scalar argument")
            return f"(Prim.Luma1.mk {a[0][0]})", "L1"
        a = self.args(args, env, pre)
        gkey = key + "::<" + ",".join(g.replace(" ", "") for g in gens) + ">" if gens else key
        for kk in ([gkey] if any(k0.startswith(key + "::<") for k0 in self.dict) else [key]):
            r = self.callee(kk, [c for c, _ in a], pre)
            if r is not None: return r
        fail(f"call of {gkey!r}: not a registered callee of this body")

    def mkey(self, recv, m, gens=()):
        k = self.occ.get(m, 0)
        self.occ[m] = k + 1
        rn = recv_name(recv)
        if gens and rn and any(k0.startswith(f"{rn}.{m}::<") for k0 in self.dict):       # the generic argument selects the callee (`::<Bradford>`)
            key = f"{rn}.{m}::<" + ",".join(g.replace(" ", "") for g in gens) + ">"
            return key if key in self.dict else None
        for key in [f".{m}@{k}"] + ([f"{rn}.{m}"] if rn else []) + ["." + m]:
            if key in self.dict or key in self.calls: return key
        return None

    def closure_or_fn(self, f, params, env):
        """a closure / function value applied to the lowered `params` [(code, type)] -> (term, type, partial)"""
        if f[0] == "closure":
            if len(f[1]) != len(params): fail("closure arity")
            inner = dict(env)
            for (p, _ty), (c, t) in zip(f[1], params):
                if p[0] != "pid": fail("closure parameter pattern")
                inner[p[1]] = (c, t)
            body = f[2] if f[2][0] == "block" else ("block", [], f[2])
            return self.block_term(body, inner)
        pre = []
        v, t = self.expr(f, env, pre)
        if t == "fnref":
            code, rt = self.callee(v[1], [c for c, _ in params], pre)
        elif isinstance(t, tuple) and t[0] == "fn":
            code, rt = "(" + " ".join([v] + [c for c, _ in params]) + ")", t[2]
        else: fail("expected a closure or a function value")
        return self.finish(pre, code, rt)

    def mcall(self, e, env, pre):
        recv, m, args = e[1], e[2], e[3]
        if m in ("clone", "borrow") and not args: return self.expr(recv, env, pre)
        if m == "map_or_else" and len(args) == 2:
            o, t = self.expr(recv, env, pre)
            if not (isinstance(t, tuple) and t[0] == "opt"): fail("map_or_else on a non-Option")
            mv = self.fresh("m")
            d, td, fd = self.closure_or_fn(args[0], [], env)
            f, tf, ff = self.closure_or_fn(args[1], [(mv, t[1])], env)
            if base(td) != base(tf): fail(f"map_or_else: arms of types {td} and {tf}")
            fall = fd or ff
            if fall:
                d = d if fd else f"some {paren(d)}"
                f = f if ff else f"some {paren(f)}"
            return self.bound(f"(match {o} with | none => {d} | some {mv} => {f})", tf, fall, pre)
        if m == "unwrap_or_else" and len(args) == 1:
            o, t = self.expr(recv, env, pre)
            if not (isinstance(t, tuple) and t[0] == "opt"): fail("unwrap_or_else on a non-Option")
            d, td, fd = self.closure_or_fn(args[0], [], env)
            if fd: fail("unwrap_or_else with a partial default")
            v = self.fresh("w")
            return f"(match {o} with | some {v} => {v} | none => {d})", t[1]
        if m == "recip" and not args:
            x, t = self.expr(recv, env, pre)
            if t != "T": fail("recip of a non-scalar")
            return f"(Prim.recip {x})", "T"
        if m == "is_valid_divisor" and not args:
            x, t = self.expr(recv, env, pre)
            if t != "T": fail("is_valid_divisor of a non-scalar")
            return f"(Scalar.isValidDivisor {x})", "B"
        if m == "len" and not args:
            x, t = self.expr(recv, env, pre)
            if base(t) == "M3": return f"(Prim.m3Len {x})", "N"
            fail(f".len() of a value of type {t}")
        key = self.mkey(recv, m, e[4] if len(e) > 4 else ())
        if m == "into" and not args and key is None:
            x, t = self.expr(recv, env, pre)
            if base(t) == "V3": return x, self.spec.get("into_ty", "V3")          # colour <-> [T; 3] (`From` impls of `impl_array_casts!`)
            fail(f".into() of a value of type {t}")
        if key is None: fail(f"method .{m}() on `{recv_name(recv)}`: not a registered callee of this body")
        x, _t = self.expr(recv, env, pre)
        a = self.args(args, env, pre)
        return self.callee(key, [x] + [c for c, _ in a], pre)

    def struct_lit(self, e, env, pre):
        name = e[1][1][-1]
        if name == "Self": name = self.spec.get("self_struct") or fail("`Self { .. }` in a body without `self_struct`")
        got = dict(e[2])
        if name in COLOURS:
            fs = self.colour_fields(name)
            ph = struct_phantoms(self.read_src(COLOURS[name]), name)
            for p in ph:
                if p in got:
                    if got[p] != ("path", ["PhantomData"], []): fail(f"{name}.{p} is not `PhantomData`")
                    del got[p]
            bcode = None
            if e[3] is not None:
                bcode, bt = self.expr(e[3], env, pre)
                if colour_of(bt) != name: fail(f"struct update of {name} from a value of type {bt}")
                if not re.fullmatch(r"[\w.]+", bcode):
                    v = self.fresh("base"); pre.append(("let", v, bcode)); bcode = v
            elif sorted(got) != sorted(fs): fail(f"struct literal {name}: fields {sorted(got)}, struct has {sorted(fs)}")
            items = []
            for i, f in enumerate(fs):
                if f in got:
                    c, t = self.expr(got.pop(f), env, pre)
                    if t != "T": fail(f"{name}.{f}: a non-scalar component")
                    items.append(c)
                else: items.append(f"{bcode}.c{i}")
            if got: fail(f"struct literal {name}: unknown fields {sorted(got)}")
            return "(V3.mk " + " ".join(items) + ")", "V3:" + name
        if name in STRUCTS:
            file, ct, mk, fmap = STRUCTS[name]
            fs = [f for f, _ in struct_fields(self.read_src(file), name)]
            if fs != list(fmap): fail(f"struct {name} ({file}): fields {fs}, registered {list(fmap)}")
            for p in struct_phantoms(self.read_src(file), name):
                if p in got:
                    if got[p] != ("path", ["PhantomData"], []): fail(f"{name}.{p} is not `PhantomData`")
                    del got[p]
            if e[3] is not None or sorted(got) != sorted(fs): fail(f"struct literal {name}: fields {sorted(got)}, struct has {sorted(fs)}")
            vals = [self.expr(got[f], env, pre) for f in fs]
            t = ct
            if ct == "MX" and elem(vals[0][1]): t = f"MX<{elem(vals[0][1])}>"
            return "(" + " ".join([mk] + [c for c, _ in vals]) + ")", t
        fail(f"struct literal of the unregistered struct {name}")

    def if_expr(self, e, env, pre):
        if e[3] is None: fail("`if` without `else` in value position")
        c, tc = self.expr(e[1], env, pre)
        if tc != "B": fail("`if` condition that is not a Boolean of the subset")
        a, ta, fa = self.block_term(e[2], env)
        el = e[3] if e[3][0] == "block" else ("block", [], e[3])
        b, tb, fb = self.block_term(el, env)
        if base(ta) != base(tb): fail(f"`if` branches of types {ta} and {tb}")
        fall = fa or fb
        if fall:
            a = a if fa else f"some {paren(a)}"
            b = b if fb else f"some {paren(b)}"
        return self.bound(f"(if {c} then {a} else {b})", ta, fall, pre)

    def match_expr(self, e, env, pre):
        s, ts = self.expr(e[1], env, pre)
        if not (isinstance(ts, str) and ts.startswith("E:")): fail("`match` on a value that is not a registered enum")
        en = ts[2:]
        file, lean, vmap = ENUMS[en]
        src = self.read_src(file)
        m = re.search(r"\benum\s+" + en + r"\b[^{]*\{", src)
        if not m: fail(f"enum {en} not found")
        body = re.sub(r"#\[[^\]]*\]", "", src[m.end():R.match_brace(src, m.end() - 1) - 1])
        variants = [v.strip() for v in body.split(",") if v.strip()]
        if variants != list(vmap): fail(f"enum {en}: variants {variants}, registered {list(vmap)}")
        arms, seen, t0 = [], [], None
        for pats, body in e[2]:
            blk = body if body[0] == "block" else ("block", [], body)
            code, t, fall = self.block_term(blk, env)
            if fall: fail("partial match arm")
            if t0 is not None and base(t) != base(t0): fail("match arms of different types")
            t0 = t
            for p in pats:
                if p[0] != "penum" or p[2] is not None or len(p[1]) != 2 or p[1][0] != en or p[1][1] not in vmap: fail(f"match pattern {p!r}")
                seen.append(p[1][1])
                arms.append(f"| .{vmap[p[1][1]]} => {code}")
        if sorted(seen) != sorted(vmap): fail(f"match over {en}: arms {seen}, variants {list(vmap)}")
        return "(match " + s + " with " + " ".join(arms) + ")", t0

    # ---- blocks
    def fold(self, pre, tail):
        code = tail
        for kind, v, c in reversed(pre):
            if kind == "let": code = f"let {v} := {c}; {code}"
            elif kind == "bind": code = f"Option.bind {c} (fun {v} => {code})"
            elif kind == "assert": code = f"if {c} then {code} else none"
            elif kind == "panicif": code = f"if {c} then none else {code}"
        return code if not pre else "(" + code + ")"

    def block_term(self, b, env):
        """a block as one term: (code, type, partial)"""
        pre = []
        tail, t = self.block(b, dict(env), pre)
        return self.finish(pre, tail, t)

    def finish(self, pre, tail, t):
        fall = any(p[0] != "let" for p in pre)
        if fall:
            if pre and pre[-1][0] == "bind" and pre[-1][1] == tail:
                return self.fold(pre[:-1], pre[-1][2]), t, True
            return self.fold(pre, f"some {paren(tail)}"), t, True
        return self.fold(pre, tail), t, False

    def bind_pattern(self, pat, code, t, env, pre):
        if pat[0] == "pid":
            v = lname(pat[1])
            if v in ("self", "self_"): fail("binding `self`")
            pre.append(("let", v, code))
            env[pat[1]] = (v, t)
            return
        if pat[0] == "parray":
            n = len(pat[1])
            if base(t) == "M3" and n == 9: proj = [f"m{i}" for i in range(9)]
            elif base(t) == "V3" and n == 3 and not colour_of(t): proj = [f"c{i}" for i in range(3)]
            else: fail(f"array pattern of length {n} against a value of type {t}")
            if not re.fullmatch(r"[\w.]+", code):
                v = self.fresh("a"); pre.append(("let", v, code)); code = v
            for p, pr in zip(pat[1], proj):
                if p[0] == "pwild": continue
                if p[0] != "pid": fail("nested array pattern")
                pre.append(("let", lname(p[1]), f"{code}.{pr}"))
                env[p[1]] = (lname(p[1]), elem(t) or "T")
            return
        fail(f"pattern {pat[0]!r} is outside the subset")

    def block(self, b, env, pre):
        for s in b[1]:
            if s[0] == "let":
                pat, init = s[1], s[3]
                if init is None: fail("`let` without initialiser")
                code, t = self.expr(init, env, pre)
                if isinstance(t, tuple) and t[0] == "tid":
                    if pat[0] != "pid": fail("TypeId pattern")
                    env[pat[1]] = (None, t); continue
                if s[2] and base(t) == "V3":
                    mm = re.match(r"(\w+)\s*<", s[2])
                    if mm and mm.group(1) in COLOURS: t = "V3:" + mm.group(1)
                self.bind_pattern(pat, code, t, env, pre)
            elif s[0] == "assign":
                place = s[1]
                if place[0] != "path" or len(place[1]) != 1 or place[1][0] not in env: fail("assignment to anything but a local variable")
                code, t = self.expr(s[2], env, pre)
                v = env[place[1][0]][0]
                pre.append(("let", v, code))
                env[place[1][0]] = (v, t)
            elif s[0] == "expr":
                x = s[1]
                if x[0] == "call" and x[1] == ("path", ["__assert"], []):
                    if len(x[2]) != 1: fail("assert! with a message")
                    c, t = self.expr(x[2][0], env, pre)
                    if t != "B": fail("assert! of a non-Boolean")
                    pre.append(("assert", None, c)); continue
                if x[0] == "if" and x[3] is None and x[2][1] in ([], [("expr", ("call", ("path", ["__panic"], []), []))]) and \
                        (x[2][2] in (None, ("call", ("path", ["__panic"], []), []))) and (x[2][1] or x[2][2]):
                    c, t = self.expr(x[1], env, pre)
                    if t != "B": fail("`if c { panic!() }` with a non-Boolean condition")
                    pre.append(("panicif", None, c)); continue
                fail(f"expression statement of kind {x[0]!r} is outside the subset")
            else: fail(f"statement {s[0]!r}")
        if b[2] is None: fail("a block without a value")
        return self.expr(b[2], env, pre)

def paren(s):
    return s if re.fullmatch(r"[\w.]+|\(.*\)", s) and balanced_outer(s) else f"({s})"

def balanced_outer(s):
    if not s.startswith("("): return True
    d = 0
    for i, ch in enumerate(s):
        if ch == "(": d += 1
        elif ch == ")":
            d -= 1
            if d == 0 and i != len(s) - 1: return False
    return True

def recv_name(e):
    if e[0] == "path" and len(e[1]) == 1: return e[1][0]
    if e[0] == "field": return e[2]
    if e[0] == "unary" and e[1] in "&*": return recv_name(e[2])
    return None

NEW_IMPL = {"Xyz": "Xyz<Wp, T>", "Yxy": "Yxy<Wp, T>", "Lms": "Lms<M, T>", "Rgb": "Rgb<S, T>", "Luma": "Luma<S, T>", "Oklab": "Oklab<T>"}
_new_checked = {}
def check_new(read_src, colour):
    """`<Colour>::new(a, b, c)` is read as the constructor in argument order: its text must be `Colour { a, b, c, <phantom>: PhantomData }` with the parameters in field order"""
    if colour in _new_checked: return
    file = COLOURS.get(colour) or STRUCTS[colour][0]
    src = read_src(file)
    params, ret, body = find_fn(src, impl_of(NEW_IMPL[colour])[0], "new")
    names = [re.match(r"\s*(\w+)\s*:", p).group(1) for p in split_top(params)]
    fs = [f for f, _ in struct_fields(src, colour)]
    ph = struct_phantoms(src, colour)
    want = re.sub(r"\s+", "", "{" + (colour + "|Self") + "{" + ",".join(fs) + "," + ",".join(f"{p}:PhantomData" for p in ph) + ",}}")
    got = re.sub(r"\s+", "", body)
    if names != fs or not re.fullmatch(r"\{(?:" + colour + r"|Self)\{" + re.escape(",".join(fs) + "," + ",".join(f"{p}:PhantomData" for p in ph)) + r",?\}\}", got):
        fail(f"`{colour}::new` ({file}) is read as the constructor in field order {fs}; its text is now `{got}` with parameters {names}")
    _new_checked[colour] = True

# function items used as values
FN_VALUES = {
    "T::Scalar::from_f64": ("Scalar.const", ("fn", ["K"], "T")),
    "T::from_scalar": ("(fun x => x)", ("fn", ["T"], "T")),
}

# Rust spelling of a callee -> name of the translated body (overridable per body with `calls=`)
DEFAULT_CALLS = {
    "multiply_3x3_and_vec3": "matMulVec",
    "multiply_3x3": "multiply3x3",
    "matrix_inverse": "matrixInverse",
    "matrix_map": "matrixMap",
    "mat3_from_primaries": "mat3FromPrimaries",
    "rgb_to_xyz_matrix": "rgbToXyzMatrix",
    "diagonal_matrix": "diagonalMatrix",
    "adaptation_matrix": "adaptationMatrix",
    "Matrix3::from_array": "matrix3FromArray",
    ".convert_once": "matrix3ConvertOnce",
    ".then": "matrix3Then",
    ".into_array": "matrix3IntoArray",
    ".normalize": "xyzNormalize",
    ".with_white_point": "xyzWithWhitePoint",
    ".with_meta": "lmsWithMeta",
}

# ------------------------------------------------------------------------------------------------ translation of one body
def param_names(text):
    out = []
    for p in split_top(text):
        p = p.strip()
        if not p: continue
        if re.fullmatch(r"(?:&\s*(?:'\w+\s+)?)?(?:mut\s+)?self", p): out.append("self"); continue
        m = re.match(r"(?:mut\s+)?(\w+)\s*:", p)
        if not m: fail(f"parameter {p!r}")
        out.append(m.group(1))
    return out

def translate(spec, read_src, registry):
    src = read_src(spec["file"])
    where, label = spec["where"] if spec["where"] else (None, "file scope")
    params, ret, body = find_fn(src, where, spec["fn"], spec.get("nth", 0))
    names = param_names(params)
    ptys = [parse_ty(t) for t in spec["params"]]
    if len(names) != len(ptys): fail(f"parameters {names}, registered types {spec['params']}")
    L = MLower(spec, registry, read_src)
    blk = parse_body(body)
    env = {n: (("self_" if n == "self" else lname(n)), t) for n, t in zip(names, ptys)}
    pre = []
    tail, t = L.block(blk, env, pre)
    rt = parse_ty(spec["ret"])
    if base(t) != base(rt) and not (base(rt) == "M3K" and base(t) == "M3"):
        if not (isinstance(t, tuple) and isinstance(rt, tuple) and t[0] == rt[0] == "opt"): fail(f"the body has a value of type {t}, registered result type {spec['ret']}")
    fall = any(p[0] != "let" for p in pre)
    if fall != bool(spec.get("partial")):
        fail("the body " + ("can panic (assert! / panic! / a partial callee)" if fall else "cannot panic any more") + f", it is registered as {'partial' if spec.get('partial') else 'total'}")
    if fall and pre[-1][0] == "bind" and pre[-1][1] == tail:
        tail = pre[-1][2]; pre = pre[:-1]
    elif fall: tail = f"some {paren(tail)}"
    lines = []
    for kind, v, c in pre:
        if kind == "let": lines.append(f"let {v} := {c}")
        elif kind == "bind": lines.append(f"Option.bind {c} fun {v} =>")
        elif kind == "assert": lines.append(f"if {c} then (")
        elif kind == "panicif": lines.append(f"if {c} then none else")
    closers = "".join(" ) else none" for p in pre if p[0] == "assert")
    binders = [spec.get("binders", "{α : Type} [Scalar α]")] + [f"({n} : {lean_ty(parse_ty(ty))})" for (_, n, ty, *_m) in spec.get("dict", [])] + \
              [f"({n} : Bool)" for n in L.tids] + [f"({env0} : {lean_ty(ty)})" for env0, ty in ((("self_" if n == "self" else lname(n)), ty) for n, ty in zip(names, ptys))]
    lret = lean_ty(rt)
    if fall: lret = f"Option ({lret})"
    head = f"/-- `{spec['file']}`: `fn {spec['fn']}` of `{label}` -/\ndef {spec['name']} " + " ".join(b for b in binders if b) + f" : {lret} :=\n"
    text = head + "".join(f"  {l}\n" for l in lines) + f"  {tail}{closers}\n"
    rec = dict(lean=NS + "." + spec["name"], dict=[k for (k, *_r) in spec.get("dict", [])], params=names, ret=rt, fallible=fall, tids=list(L.tids))
    return text, rec

def B(name, file, where, fn, model, **kw):
    d = dict(name=name, file=file, where=where, fn=fn, model=model)
    d.update(kw)
    return d

# ------------------------------------------------------------------------------------------------ registrations
MX_, CA, M3RS, LMX, XYZ, RGB, LUMA, LMS, YXY, OKL = "matrix.rs", "chromatic_adaptation.rs", "convert/matrix3.rs", "lms/matrix.rs", "xyz.rs", "rgb/rgb.rs", "luma/luma.rs", "lms/lms.rs", "yxy.rs", "oklab.rs"
GEN2 = "{σ τ : Type}"
PRIM = [("S::Primaries::red", "red", "V3:Yxy"), ("S::Primaries::green", "green", "V3:Yxy"), ("S::Primaries::blue", "blue", "V3:Yxy"),
        (".into_color_unclamped", "yxyToXyz", "V3:Yxy -> V3:Xyz"), ("S::WhitePoint::get_xyz", "whitePoint", "V3:Xyz")]
HARD_TO, HARD_FROM = ("S::Space::rgb_to_xyz_matrix", "hardRgbToXyz", "opt(M3K)"), ("S::Space::xyz_to_rgb_matrix", "hardXyzToRgb", "opt(M3K)")
X2L, L2X = ("M::LmsMatrix::xyz_to_lms_matrix", "xyzToLms", "M3"), ("M::LmsMatrix::lms_to_xyz_matrix", "lmsToXyz", "M3")
ADAPT = [X2L, L2X, ("I::get_xyz", "inputWhite", "V3:Xyz"), ("O::get_xyz", "outputWhite", "V3:Xyz"),
         (".into_color_unclamped@0", "inputIntoLms", "V3:Xyz -> V3:Lms"), (".into_color_unclamped@1", "outputIntoLms", "V3:Xyz -> V3:Lms")]
TRAIT = lambda n: (r"\btrait\s+" + n + r"\b", "trait " + n)

def cone(name, ty, tr, fn, which):
    return B(name, LMX, impl_of(f"{tr}<T> for {ty}"), fn, "MatrixForms." + which, params=[], ret="M3")

BODIES = [
    # ---- matrix.rs
    B("multiply3x3", MX_, None, "multiply_3x3", "M3.mul", params=["M3", "M3"], ret="M3"),
    B("matrixInverse", MX_, None, "matrix_inverse", "Adapt.matrixInverse", params=["M3"], ret="M3", partial=True),
    B("matrixMap", MX_, None, "matrix_map", "MatrixForms.m3Map", binders=GEN2, params=["M3<σ>", "σ -> τ"], ret="M3<τ>"),
    B("mat3FromPrimaries", MX_, None, "mat3_from_primaries", "MatrixForms.mat3FromPrimaries", params=["V3:Xyz", "V3:Xyz", "V3:Xyz"], ret="M3"),
    B("rgbToXyzMatrix", MX_, None, "rgb_to_xyz_matrix", "MatrixForms.rgbToXyzMatrix", params=[], ret="M3", partial=True, dict=PRIM),
    # ---- convert/matrix3.rs
    B("matrix3FromArray", M3RS, impl_of("Matrix3<I, O>"), "from_array", "Prim.Matrix3.mk", binders="{σ : Type}", params=["M3<σ>"], ret="MX<σ>", self_struct="Matrix3"),
    B("matrix3IntoArray", M3RS, impl_of("Matrix3<I, O>"), "into_array", "Prim.Matrix3.matrix", binders="{σ : Type}", params=["MX<σ>"], ret="M3<σ>"),
    B("matrix3ConvertOnce", M3RS, impl_of("ConvertOnce<I, O> for Matrix3<I, O>"), "convert_once", "MatrixForms.convertOnce", params=["MX", "V3"], ret="V3"),
    B("matrix3Convert", M3RS, impl_of("Convert<I, O> for Matrix3<I, O>"), "convert", "MatrixForms.convertOnce", params=["MX", "V3"], ret="V3",
      calls={"Self::convert_once": "matrix3ConvertOnce"}),
    B("matrix3Identity", M3RS, impl_of("Matrix3<C, C>"), "identity", "MatrixForms.identity", params=[], ret="MX", calls={"Self::from_array": "matrix3FromArray"}),
    B("matrix3Scale", M3RS, impl_of("Matrix3<C, C>"), "scale", "MatrixForms.scale", params=["T", "T", "T"], ret="MX", calls={"Self::from_array": "matrix3FromArray"}),
    B("matrix3Then", M3RS, impl_of("Matrix3<I, O>"), "then", "MatrixForms.andThen", params=["MX", "MX"], ret="MX"),
    B("matrix3Invert", M3RS, impl_of("Matrix3<I, O>"), "invert", "MatrixForms.invert", params=["MX"], ret="MX", partial=True),
    # ---- small inherent helpers of the colour structs
    B("xyzNormalize", XYZ, None, "normalize", "Adapt.normalize", params=["V3:Xyz"], ret="V3:Xyz"),
    B("xyzWithWhitePoint", XYZ, None, "with_white_point", "MatrixForms.reinterpret", params=["V3:Xyz"], ret="V3:Xyz"),
    B("lmsWithMeta", LMS, None, "with_meta", "MatrixForms.reinterpret", params=["V3:Lms"], ret="V3:Lms"),
    B("rgbReinterpretAs", RGB, None, "reinterpret_as", "MatrixForms.reinterpret", params=["V3:Rgb"], ret="V3:Rgb"),
    B("lumaReinterpretAs", LUMA, None, "reinterpret_as", "MatrixForms.reinterpretLuma", params=["L1"], ret="L1"),
    B("rgbIntoLinear", RGB, None, "into_linear", "MatrixForms.mapRgb", params=["V3:Rgb"], ret="V3:Rgb", dict=[("S::TransferFn::into_linear", "tfIntoLinear", "T -> T")]),
    B("rgbFromLinear", RGB, None, "from_linear", "MatrixForms.mapRgb", params=["V3:Rgb"], ret="V3:Rgb", dict=[("S::TransferFn::from_linear", "tfFromLinear", "T -> T")]),
    B("lumaIntoLinear", LUMA, None, "into_linear", "MatrixForms.mapLuma", params=["L1"], ret="L1", dict=[("S::TransferFn::into_linear", "tfIntoLinear", "T -> T")]),
    B("lumaFromLinear", LUMA, None, "from_linear", "MatrixForms.mapLuma", params=["L1"], ret="L1", dict=[("S::TransferFn::from_linear", "tfFromLinear", "T -> T")]),
    # ---- lms/matrix.rs: the three cone matrix pairs
    cone("vonKriesXyzToLms", "VonKries", "XyzToLms", "xyz_to_lms_matrix", "coneToLms"), cone("vonKriesLmsToXyz", "VonKries", "LmsToXyz", "lms_to_xyz_matrix", "coneToXyz"),
    cone("bradfordXyzToLms", "Bradford", "XyzToLms", "xyz_to_lms_matrix", "coneToLms"), cone("bradfordLmsToXyz", "Bradford", "LmsToXyz", "lms_to_xyz_matrix", "coneToXyz"),
    cone("unitXyzToLms", "UnitMatrix", "XyzToLms", "xyz_to_lms_matrix", "coneToLms"), cone("unitLmsToXyz", "UnitMatrix", "LmsToXyz", "lms_to_xyz_matrix", "coneToXyz"),
    # ---- matrices as conversions: lms/lms.rs, xyz.rs, rgb/rgb.rs, rgb.rs
    B("lmsMatrixFromXyz", LMS, None, "matrix_from_xyz", "MatrixForms.ofMatrix", params=[], ret="MX", dict=[X2L]),
    B("xyzMatrixFromLms", XYZ, None, "matrix_from_lms", "MatrixForms.ofMatrix", params=[], ret="MX", dict=[L2X]),
    B("rgbSpaceDefaultRgbToXyz", "rgb.rs", TRAIT("RgbSpace"), "rgb_to_xyz_matrix", "MatrixForms.noHardMatrix", binders="", params=[], ret="opt(M3K)"),
    B("rgbSpaceDefaultXyzToRgb", "rgb.rs", TRAIT("RgbSpace"), "xyz_to_rgb_matrix", "MatrixForms.noHardMatrix", binders="", params=[], ret="opt(M3K)"),
    B("xyzMatrixFromRgb", XYZ, None, "matrix_from_rgb", "MatrixForms.matrixFromRgb", params=[], ret="MX", partial=True, dict=[HARD_TO] + PRIM),
    B("rgbMatrixFromXyz", RGB, None, "matrix_from_xyz", "MatrixForms.matrixFromXyz", params=[], ret="MX", partial=True, dict=[HARD_FROM] + PRIM),
    # ---- chromatic_adaptation.rs
    B("diagonalMatrix", CA, None, "diagonal_matrix", "Adapt.diagonalMatrix", params=["V3:Lms", "V3:Lms"], ret="MX"),
    B("adaptationMatrix", CA, None, "adaptation_matrix", "Adapt.adaptationMatrix", params=["opt(V3:Xyz)", "opt(V3:Xyz)"], ret="MX", dict=ADAPT,
      calls={"Lms::matrix_from_xyz": "lmsMatrixFromXyz", "Xyz::matrix_from_lms": "xyzMatrixFromLms"}),
    B("adaptIntoUnclampedWith", CA, impl_of("AdaptIntoUnclamped<T> for C"), "adapt_into_unclamped_with", "MatrixForms.apply", binders=GEN2, params=["σ"], ret="τ",
      dict=[("T::adapt_from_unclamped_with::<M>", "adaptFromWith", "σ -> τ")]),
    B("adaptFromUnclamped", CA, TRAIT("AdaptFromUnclamped"), "adapt_from_unclamped", "MatrixForms.apply", binders=GEN2, params=["σ"], ret="τ",
      dict=[("Self::adapt_from_unclamped_with::<Bradford>", "withBradford", "σ -> τ"), ("Self::adapt_from_unclamped_with::<VonKries>", "withVonKries", "σ -> τ"),
            ("Self::adapt_from_unclamped_with::<UnitMatrix>", "withUnitMatrix", "σ -> τ")]),
    B("adaptIntoUnclamped", CA, TRAIT("AdaptIntoUnclamped"), "adapt_into_unclamped", "MatrixForms.apply", binders=GEN2, params=["σ"], ret="τ",
      dict=[("self.adapt_into_unclamped_with::<Bradford>", "withBradford", "σ -> τ"), ("self.adapt_into_unclamped_with::<VonKries>", "withVonKries", "σ -> τ"),
            ("self.adapt_into_unclamped_with::<UnitMatrix>", "withUnitMatrix", "σ -> τ")]),
    B("getConeResponse", CA, impl_of("TransformMatrix<T> for Method"), "get_cone_response", "MatrixForms.coneResponse", params=["E:Method"], ret="CR",
      calls={f"lms::matrix::{t}::{f}": n for (t, f, n) in (("Bradford", "xyz_to_lms_matrix", "bradfordXyzToLms"), ("Bradford", "lms_to_xyz_matrix", "bradfordLmsToXyz"),
             ("VonKries", "xyz_to_lms_matrix", "vonKriesXyzToLms"), ("VonKries", "lms_to_xyz_matrix", "vonKriesLmsToXyz"),
             ("UnitMatrix", "xyz_to_lms_matrix", "unitXyzToLms"), ("UnitMatrix", "lms_to_xyz_matrix", "unitLmsToXyz"))}),
    B("generateTransformMatrix", CA, TRAIT("TransformMatrix"), "generate_transform_matrix", "Adapt.generateTransformMatrix", binders="{α μ : Type} [Scalar α]",
      params=["μ", "V3:Xyz", "V3:Xyz"], ret="M3", dict=[("self.get_cone_response", "getConeResponse", "μ -> CR")]),
    B("adaptFromUsing", CA, impl_of("AdaptFrom<S, Swp, Dwp, T> for D"), "adapt_from_using", "MatrixForms.adaptFromUsing", binders="{α σ τ μ : Type} [Scalar α]",
      params=["σ", "μ"], ret="τ",
      dict=[("color.into_color_unclamped", "intoXyz", "σ -> V3:Xyz"), ("method.generate_transform_matrix", "generate", "μ -> V3:Xyz -> V3:Xyz -> M3"),
            ("Swp::get_xyz", "srcWhite", "V3:Xyz"), ("Dwp::get_xyz", "dstWhite", "V3:Xyz"), ("D::from_color_unclamped", "fromXyz", "V3:Xyz -> τ")]),
    B("adaptFrom", CA, TRAIT("AdaptFrom"), "adapt_from", "MatrixForms.withMethod", binders=GEN2, params=["σ"], ret="τ",
      dict=[("Self::adapt_from_using", "adaptFromUsing", "σ -> E:Method -> τ")]),
    B("adaptIntoUsing", CA, impl_of("AdaptInto<D, Swp, Dwp, T> for S"), "adapt_into_using", "MatrixForms.apply2", binders="{σ τ μ : Type}", params=["σ", "μ"], ret="τ",
      dict=[("D::adapt_from_using", "adaptFromUsing", "σ -> μ -> τ")]),
    B("adaptInto", CA, TRAIT("AdaptInto"), "adapt_into", "MatrixForms.withMethod", binders=GEN2, params=["σ"], ret="τ",
      dict=[("self.adapt_into_using", "adaptIntoUsing", "σ -> E:Method -> τ")]),
    B("xyzAdaptFromUnclampedWith", XYZ, impl_of("AdaptFromUnclamped<Xyz<Wp1, T>> for Xyz<Wp2, T>"), "adapt_from_unclamped_with", "MatrixForms.adaptXyz",
      params=["V3:Xyz"], ret="V3:Xyz", dict=ADAPT),
    # ---- conversion edges
    B("xyzFromRgb", XYZ, impl_of("FromColorUnclamped<Rgb<S, T>> for Xyz<Wp, T>"), "from_color_unclamped", "RgbFam.rgbToXyz", params=["V3:Rgb"], ret="V3:Xyz", partial=True,
      dict=[HARD_TO] + PRIM + [("color.into_linear", "intoLinear", "V3:Rgb -> V3:Rgb")], calls={"Self::matrix_from_rgb": "xyzMatrixFromRgb"}),
    B("rgbFromXyz", RGB, impl_of("FromColorUnclamped<Xyz<<S::Space as RgbSpace>::WhitePoint, T>> for Rgb<S, T>"), "from_color_unclamped", "RgbFam.xyzToRgb",
      params=["V3:Xyz"], ret="V3:Rgb", partial=True, dict=[HARD_FROM] + PRIM + [("Self::from_linear", "fromLinear", "V3:Rgb -> V3:Rgb")],
      calls={"Rgb::matrix_from_xyz": "rgbMatrixFromXyz"}),
    B("rgbFromRgb", RGB, impl_of("FromColorUnclamped<Rgb<S2, T>> for Rgb<S1, T>"), "from_color_unclamped", "RgbFam.rgbToRgb", params=["V3:Rgb"], ret="V3:Rgb",
      dict=[("rgb.into_linear", "intoLinear", "V3:Rgb -> V3:Rgb"), ("Self::from_linear", "fromLinear", "V3:Rgb -> V3:Rgb"),
            ("Xyz::from_color_unclamped", "xyzFromRgb", "V3:Rgb -> V3:Xyz"), ("Self::from_color_unclamped", "rgbFromXyz", "V3:Xyz -> V3:Rgb")],
      calls={".reinterpret_as": "rgbReinterpretAs"}),
    B("rgbFromLuma", RGB, impl_of("FromColorUnclamped<Luma<St, T>> for Rgb<S, T>"), "from_color_unclamped", "RgbFam.lumaToRgb", params=["L1"], ret="V3:Rgb",
      dict=[("color.into_linear", "lumaIntoLinear", "L1 -> L1"), ("Self::from_linear", "fromLinear", "V3:Rgb -> V3:Rgb")]),
    B("lumaFromLuma", LUMA, impl_of("FromColorUnclamped<Luma<S2, T>> for Luma<S1, T>"), "from_color_unclamped", "RgbFam.lumaToLuma", params=["L1"], ret="L1",
      dict=[("color.into_linear", "intoLinear", "L1 -> L1"), ("Self::from_linear", "fromLinear", "L1 -> L1")], calls={".reinterpret_as": "lumaReinterpretAs"}),
    B("lumaFromXyz", LUMA, impl_of("FromColorUnclamped<Xyz<S::WhitePoint, T>> for Luma<S, T>"), "from_color_unclamped", "RgbFam.xyzToLuma", params=["V3:Xyz"], ret="L1",
      dict=[("Self::from_linear", "fromLinear", "L1 -> L1")]),
    B("lumaFromYxy", LUMA, impl_of("FromColorUnclamped<Yxy<S::WhitePoint, T>> for Luma<S, T>"), "from_color_unclamped", "RgbFam.yxyToLuma", params=["V3:Yxy"], ret="L1",
      dict=[("Self::from_linear", "fromLinear", "L1 -> L1")]),
    B("xyzFromLuma", XYZ, impl_of("FromColorUnclamped<Luma<S, T>> for Xyz<Wp, T>"), "from_color_unclamped", "RgbFam.lumaToXyz", params=["L1"], ret="V3:Xyz",
      dict=[("Wp::get_xyz", "whitePoint", "V3:Xyz"), ("color.into_linear", "intoLinear", "L1 -> L1")]),
    B("yxyDefault", YXY, impl_of("Default for Yxy<Wp, T>"), "default", "MatrixForms.yxyDefault", params=[], ret="V3:Yxy",
      dict=[("Wp::get_xyz", "whitePoint", "V3:Xyz"), (".into_color_unclamped", "xyzToYxy", "V3:Xyz -> V3:Yxy")]),
    B("yxyFromLuma", YXY, impl_of("FromColorUnclamped<Luma<S, T>> for Yxy<S::WhitePoint, T>"), "from_color_unclamped", "RgbFam.lumaToYxy", params=["L1"], ret="V3:Yxy",
      dict=[("Default::default", "dflt", "V3:Yxy"), ("luma.into_linear", "intoLinear", "L1 -> L1")]),
    B("lmsFromXyz", LMS, impl_of("FromColorUnclamped<Xyz<M::XyzMeta, T>> for Lms<M, T>"), "from_color_unclamped", "Cie.xyzToLms", params=["V3:Xyz"], ret="V3:Lms",
      dict=[X2L], calls={"Self::matrix_from_xyz": "lmsMatrixFromXyz"}, cast_ty={"cast::from_array": "V3:Lms"}),
    B("xyzFromLms", XYZ, impl_of("FromColorUnclamped<Lms<M, T>> for Xyz<M::XyzMeta, T>"), "from_color_unclamped", "Cie.lmsToXyz", params=["V3:Lms"], ret="V3:Xyz",
      dict=[L2X], calls={"Self::matrix_from_lms": "xyzMatrixFromLms"}),
    B("oklabFromRgb", OKL, impl_of("FromColorUnclamped<Rgb<S, T>> for Oklab<T>"), "from_color_unclamped", "Ok.rgbToOklab", params=["V3:Rgb"], ret="V3:Oklab",
      dict=[("rgb.into_linear", "intoLinear", "V3:Rgb -> V3:Rgb"), ("Xyz::from_color_unclamped", "xyzFromRgb", "V3:Rgb -> V3:Xyz"),
            (".into_color_unclamped", "xyzToOklab", "V3:Xyz -> V3:Oklab")],
      calls={".reinterpret_as": "rgbReinterpretAs", "linear_srgb_to_oklab": "linSrgbToOklab"}),
    B("rgbFromOklab", RGB, impl_of("FromColorUnclamped<Oklab<T>> for Rgb<S, T>"), "from_color_unclamped", "Ok.oklabToRgb", params=["V3:Oklab"], ret="V3:Rgb",
      dict=[(".into_color_unclamped@0", "linSrgbToRgb", "V3:Rgb -> V3:Rgb"), ("Xyz::from_color_unclamped", "oklabToXyz", "V3:Oklab -> V3:Xyz"),
            (".into_color_unclamped@1", "xyzToRgb", "V3:Xyz -> V3:Rgb")],
      calls={"oklab_to_linear_srgb": "oklabToLinSrgb"}),
]

# translated elsewhere (family `formula` of tools/rust2lean.py, Gen/Bodies.lean, tied in Tie_Bodies.lean): used here as callees
EXTERNAL = {
    "matMulVec": dict(lean="Gen.Body.matMulVec", dict=[], params=["matrix", "vector"], ret="V3", fallible=False, tids=[]),
    "linSrgbToOklab": dict(lean="Gen.Body.linSrgbToOklab", dict=[], params=["c"], ret="V3:Oklab", fallible=False, tids=[]),
    "oklabToLinSrgb": dict(lean="Gen.Body.oklabToLinSrgb", dict=[], params=["c"], ret="V3:Rgb", fallible=False, tids=[]),
}

# text that is *read* rather than translated: (file, regex the comment-stripped source must match, what it is read as)
PINS = [
    ("rgb.rs", r"impl\s*<\s*P\s*,\s*W\s*>\s*RgbSpace\s+for\s*\(\s*P\s*,\s*W\s*\)\s*\{\s*type\s+Primaries\s*=\s*P\s*;\s*type\s+WhitePoint\s*=\s*W\s*;\s*\}",
     "`impl<P, W> RgbSpace for (P, W)` defines the two associated types and no method: both matrix functions are the trait defaults (`None`), i.e. the derived matrix"),
    ("rgb.rs", r"impl\s*<\s*Sp\s*,\s*Tf\s*>\s*RgbStandard\s+for\s*\(\s*Sp\s*,\s*Tf\s*\)\s*where\s*Sp\s*:\s*RgbSpace\s*,?\s*\{\s*type\s+Space\s*=\s*Sp\s*;\s*type\s+TransferFn\s*=\s*Tf\s*;\s*\}",
     "`impl<Sp, Tf> RgbStandard for (Sp, Tf)`: `Space = Sp`, `TransferFn = Tf`"),
    ("rgb.rs", r"impl\s*<\s*Pr\s*,\s*Wp\s*,\s*Tf\s*>\s*RgbStandard\s+for\s*\(\s*Pr\s*,\s*Wp\s*,\s*Tf\s*\)\s*where\s*\(\s*Pr\s*,\s*Wp\s*\)\s*:\s*RgbSpace\s*,?\s*\{\s*type\s+Space\s*=\s*\(\s*Pr\s*,\s*Wp\s*\)\s*;\s*type\s+TransferFn\s*=\s*Tf\s*;\s*\}",
     "`impl<Pr, Wp, Tf> RgbStandard for (Pr, Wp, Tf)`: `Space = (Pr, Wp)` (the tuple space above), `TransferFn = Tf`"),
    ("matrix.rs", r"pub\s+type\s+Mat3\s*<\s*T\s*>\s*=\s*\[\s*T\s*;\s*9\s*\]\s*;", "`Mat3<T> = [T; 9]` (read as `M3`, `.len()` = 9)"),
    ("matrix.rs", r"pub\s+type\s+Vec3\s*<\s*T\s*>\s*=\s*\[\s*T\s*;\s*3\s*\]\s*;", "`Vec3<T> = [T; 3]` (read as `V3`)"),
]

UNTRANSLATED = [
    "`multiply_3x3_and_vec3` (matrix.rs), `linear_srgb_to_oklab`, `oklab_to_linear_srgb` (oklab.rs): translated in the family of tools/rust2lean.py (Gen/Bodies.lean, Tie_Bodies.lean:",
    "  `tie_matMulVec`, `tie_linSrgbToOklab`, `tie_oklabToLinSrgb`); used here as the callees `Gen.Body.matMulVec` ..",
    "`Primaries::{red, green, blue}`, `WhitePoint::get_xyz`, the hard-coded `RgbSpace::{rgb_to_xyz_matrix, xyz_to_rgb_matrix}` of encoding/*.rs: DATA, extracted into Gen/Matrices.lean",
    "  (parameters `red green blue whitePoint hardRgbToXyz hardXyzToRgb` here; Tie_Matrix instantiates them with the generated tables)",
    "`IntoLinear` / `FromLinear` impls (transfer curves: Tie_Bodies), `Yxy -> Xyz`, `Xyz -> Yxy`, `Xyz -> Oklab`, `Oklab -> Xyz` (Tie_Bodies): dictionary parameters here",
    "`impl_color_div!` / `impl_color_mul!` (macros/arithmetics.rs): read as `Prim.v3Div`, `Prim.v3MulS` (as in Gen/Bodies.lean); `impl_array_casts!` / `cast::from_array` /",
    "  `cast::into_array` / `From<[T; 3]>`: read as the identity on `V3` (layout: C04); `FromScalar` for f32 / f64: the identity; `Recip::recip`: `Prim.recip`",
    "`Hsv/Hsl/Hwb<S1> <-> <S2>` (hsv.rs, hsl.rs, hwb.rs: the same `TypeId` shape around `Rgb<S1> <- Rgb<S2>`; model RgbFam.hsvToHsv ..): not translated, correspondence only",
    "`Alpha` forms of `into_linear` / `from_linear` / `with_white_point` (forwarding; Tie_Alpha covers the operator forwarding), `Matrix3::clone`, SIMD (`wide`) instantiations",
    "`cam16` use of `Matrix3` / adaptation (BakedParameters: family `cam16`), `Lms::matrix_from_xyz` for custom `HasLmsMatrix` types (any matrix: parameter `xyzToLms`)",
]

def statement_of(tie_text, name):
    """text of `theorem <name> .. :=` up to the `:=` that starts the proof (the first one outside brackets: named arguments `(x := e)` are inside)"""
    m = re.search(r"\btheorem\s+" + name + r"\b", tie_text)
    if not m: return None
    depth, i = 0, m.end()
    while i < len(tie_text) - 1:
        ch = tie_text[i]
        if ch in "([{⟨": depth += 1
        elif ch in ")]}⟩": depth -= 1
        elif ch == ":" and tie_text[i + 1] == "=" and depth == 0: return tie_text[m.end():i]
        i += 1
    return None

def generate(read_src, tie_text):
    for (file, rx, reading) in PINS:
        if not re.search(rx, read_src(file)):
            raise Untranslatable(f"family matrix: {file} no longer matches the text that is read as: {reading}")
    registry, defs = dict(EXTERNAL), []
    _new_checked.clear()
    for spec in BODIES:
        try:
            text, rec = translate(spec, read_src, registry)
        except Untranslatable as e:
            raise Untranslatable(f"body {spec['name']} ({spec['file']}: fn {spec['fn']}): {e}")
        defs.append(text)
        registry[spec["name"]] = rec
        stmt = statement_of(tie_text, "tie_" + spec["name"])
        if stmt is None:
            raise Untranslatable(f"body {spec['name']} is translated but lean/PaletteProofs/Tie_Matrix.lean has no theorem tie_{spec['name']}")
        if not (re.search(re.escape(NS) + r"\." + spec["name"] + r"\b", stmt) and re.search(re.escape(spec["model"]) + r"(?![\w.])", stmt)):
            raise Untranslatable(f"theorem tie_{spec['name']} does not state {NS}.{spec['name']} = {spec['model']}")
        for tid in rec["tids"]:
            if not re.search(r"\(\s*" + tid + r"\s*:=", stmt):
                raise Untranslatable(f"body {spec['name']} compares `TypeId`s: its Boolean parameter `{tid}` must be given *by name* (`({tid} := ..)`) in the statement of "
                                     f"tie_{spec['name']}, so that the theorem says under which type equality which branch is taken (parameters now: {rec['tids']})")
    head = ["/- GENERATED by tools/extract.py (plugin tools/extract_plugins/matrix.py, translator tools/rust2lean_matrix.py) from the function bodies of palette/src -- do not edit",
            "",
            "  Family `matrix` (C14, shared edges of C01 / C02): the code that BUILDS and APPLIES 3x3 matrices - matrix.rs, convert/matrix3.rs, chromatic_adaptation.rs,",
            "  lms/matrix.rs, the `RgbSpace` defaults of rgb.rs - and the trait- / `TypeId`-dispatched conversion edges around it (xyz.rs, rgb/rgb.rs, luma/luma.rs, yxy.rs,",
            "  lms/lms.rs, oklab.rs).  Each definition is the translation of the *current* text of one Rust function (named in its doc comment); every trait-dispatched callee",
            "  is a parameter, every `TypeId` comparison a Boolean parameter `same_<A>_<B>`, a body that can panic returns `Option` (conventions: header of",
            "  tools/rust2lean_matrix.py; readings: PaletteModel/BodyPrimMatrix.lean).  `PaletteProofs/Tie_Matrix.lean` proves (`tie_<name>`):",
            ] + ["    " + ", ".join(f"{s['name']} = {s['model']}" for s in BODIES[i:i + 3]) for i in range(0, len(BODIES), 3)] + [
            "",
            "  Read, not translated (the run stops when the text no longer matches):"] + ["    " + r for (_, _, r) in PINS] + [
            "",
            "  NOT translated in this family:"] + ["    " + u for u in UNTRANSLATED] + ["-/",
            "import PaletteModel.BodyPrimMatrix", "import PaletteModel.Gen.Bodies",
            "", "set_option linter.unusedVariables false   -- every registered dictionary entry stays a parameter, used or not", "",
            "namespace " + NS, "",
            "/-- names of the translated bodies of family `matrix`, with the model function each is proved equal to -/",
            "def tiedMatrix : List (String × String) := [\n" + ",\n".join("  " + ", ".join(f'("{s["name"]}", "{s["model"]}")' for s in BODIES[i:i + 3])
                                                                  for i in range(0, len(BODIES), 3)) + "]", ""]
    return "\n".join(head) + "\n" + "\n".join(defs) + "\nend " + NS + "\n"

if __name__ == "__main__":
    repo = os.environ.get("PALETTE_REPO", "/repo")
    def read_src(rel): return strip_comments(open(os.path.join(repo, "palette", "src", rel)).read())
    root = os.path.dirname(os.path.dirname(os.path.abspath(__file__)))
    tie = os.path.join(root, "lean", "PaletteProofs", "Tie_Matrix.lean")
    try:
        sys.stdout.write(generate(read_src, open(tie).read() if os.path.exists(tie) and "--no-tie" not in sys.argv else
                                  "".join(f"theorem tie_{s['name']} : {NS}.{s['name']} = {s['model']} := " for s in BODIES)))
    except Untranslatable as e:
        print("FAILED:", e); sys.exit(1)
