#!/usr/bin/env python3
"""
rust2lean_more -- the operator / bounds macros at the six partial CAM16 types (`Cam16Jch`, `Cam16Jmh`, `Cam16Jsh`, `Cam16Qch`, `Cam16Qmh`, `Cam16Qsh`).

tools/rust2lean.py (families `clamp`, `ops`) expands `impl_clamp!`, `impl_is_within_bounds!`, `impl_mix_hue!`, `impl_hue_ops!`, `impl_color_add!`,
`impl_color_sub!` at every invocation *for a type named in the invocation*.  The partial CAM16 types are themselves produced by a macro
(cam16/partial.rs `make_partial_cam16!`): their `struct` and the operator invocations are written once, with `$name`, `$luminance`, `$chromaticity`.
This module does the outer step and then reuses the same translator unchanged:

  1. from the `macro_rules! make_partial_cam16` body as written now it takes the `pub struct $name<T> { .. }` item and the six inner invocations;
  2. for each of the actual `make_partial_cam16! { module::Name { luminance: Ty, chromaticity: Ty } }` invocations found in the file it substitutes the three
     metavariables -> a *virtual file* `cam16/partial.rs#<Name>` holding `pub struct Cam16Jch<T> { pub lightness: T, pub chroma: T, pub hue: Cam16Hue<T> }`,
     `impl_clamp! { Cam16Jch { lightness => [T::zero()], chroma => [T::zero()] } other {hue} where T: Zero }`, ...;
  3. the families `clampx` / `opsx` register, per type found, the same bodies `bodies_clamp` / `bodies_ops` register for `Lch` (hue last), expanded by
     tools/rust_macros.py from the `macro_rules!` of macros/*.rs as written now, and `rust2lean.generate_family` translates them
     (Gen/BodiesClampX.lean, Gen/BodiesOpsX.lean; ties in PaletteProofs/Tie_ClampX.lean, Tie_OpsX.lean).
The set of types is derived from the invocations (a seventh partial type without ties stops the run); an inner invocation that disappears from the macro
body, or a second one of the same macro, stops the run.
"""
import re, os, sys
sys.path.insert(0, os.path.dirname(os.path.abspath(__file__)))
import rust2lean as R
from rust2lean import Untranslatable, fail, B, impl_in, trait_in

PARTIAL = "cam16/partial.rs"
INNER = ["impl_is_within_bounds", "impl_clamp", "impl_mix_hue", "impl_hue_ops", "impl_color_add", "impl_color_sub"]

def balanced(src, i):
    op = src[i]; cl = {"(": ")", "{": "}", "[": "]"}[op]
    depth = 0
    for j in range(i, len(src)):
        if src[j] == op: depth += 1
        elif src[j] == cl:
            depth -= 1
            if depth == 0: return j + 1
    fail("unbalanced bracket")

def partial_instances(read_src):
    """{Name: text of the virtual file} for every `make_partial_cam16!` invocation"""
    src = read_src(PARTIAL)
    m = re.search(r"\bmacro_rules!\s+make_partial_cam16\s*\{", src)
    if not m: fail("macro_rules! make_partial_cam16 not found in cam16/partial.rs")
    end = balanced(src, m.end() - 1)
    body, rest = src[m.end():end], src[end:]
    sm = re.search(r"pub\s+struct\s+\$name\s*<\s*T\s*>\s*\{", body)
    if not sm: fail("make_partial_cam16!: `pub struct $name<T> {` not found")
    struct = body[sm.start():balanced(body, sm.end() - 1)]
    struct = re.sub(r"\$\(\s*#\[\$\w+\]\s*\)[+*]", "", struct)
    struct = re.sub(r"#\[[^\]]*\]", "", struct)
    pieces = [struct]
    for macro in INNER:
        ms = list(re.finditer(r"(?<![\w$])" + macro + r"\s*!\s*([({])", body))
        if len(ms) != 1: fail(f"make_partial_cam16!: {len(ms)} invocations of {macro}! in the macro body, exactly one expected")
        pieces.append(body[ms[0].start():balanced(body, ms[0].end() - 1)] + ";")
    text = "\n".join(pieces)
    out = {}
    A = R.ATTRS
    for im in re.finditer(r"(?<![\w$])make_partial_cam16\s*!\s*\{" + A + r"(\w+)\s*::\s*(\w+)\s*\{" + A + r"(\w+)\s*:\s*\w+\s*," + A + r"(\w+)\s*:\s*\w+\s*\}\s*\}", rest):
        _, name, lum, chr_ = im.groups()
        t = re.sub(r"\$name\b", name, text)
        t = re.sub(r"\$luminance\b", lum, t)
        t = re.sub(r"\$chromaticity\b", chr_, t)
        left = sorted(set(re.findall(r"[$]\w+", t)))
        if left: fail(f"make_partial_cam16! at {name}: metavariables left after substitution: {left}")
        out[name] = t
    n_inv = len(re.findall(r"(?<![\w$])make_partial_cam16\s*!", rest))
    if len(out) != n_inv: fail(f"make_partial_cam16!: {n_inv} invocations, {len(out)} recognised")
    if not out: fail("no make_partial_cam16! invocation found")
    return out

def vfile(name): return PARTIAL + "#" + name

def wrap(read_src):
    cache = {}
    def read2(rel):
        if rel.startswith(PARTIAL + "#"):
            if not cache: cache.update(partial_instances(read_src))
            return cache[rel.split("#", 1)[1]]
        return read_src(rel)
    return read2

def bodies_clampx(read_src):
    out = []
    for t in partial_instances(read_src):
        f = vfile(t)
        out.append(B(f"clamp{t}", f, impl_in("crate::Clamp", t), "clamp", "Clamp.clampAll", self_ty=t, expand=(f, "impl_clamp", t), prims="clamp"))
        out.append(B(f"clampAssign{t}", f, impl_in("crate::ClampAssign", t), "clamp_assign", "Clamp.clampAll", self_ty=t, expand=(f, "impl_clamp", t), inout="self", prims="clamp"))
        out.append(B(f"within{t}", f, impl_in("crate::IsWithinBounds", t), "is_within_bounds", "Clamp.withinAll", self_ty=t, expand=(f, "impl_is_within_bounds", t), prims="clamp"))
    return out

def bodies_opsx(read_src):
    out = [
        B("opsxNormalizeSigned", "angle.rs", R.ANGLE_FLOAT, "normalize_signed_angle", None, self_ty="T", as_method=[("T", "normalize_signed_angle")]),
        B("opsxHalfRotation", "angle.rs", R.ANGLE_FLOAT, "half_rotation", None, self_ty="T", as_fn=["T::half_rotation"]),
        B("opsxHueIntoDegrees", "hues.rs", R.HUES, "into_degrees", None, self_ty="Hue", as_method=[("T", "into_degrees")]),
    ]
    for t in partial_instances(read_src):
        f = vfile(t)
        for fn, tr, _ in R.ARITH[:2]:
            m = "impl_color_" + fn
            out.append(B(f"{fn}{t}", f, trait_in("core::ops::" + tr, "Self", t), fn, f"Ops.{fn}C", self_ty=t, expand=(f, m, t)))
            out.append(B(f"{fn}S{t}", f, trait_in("core::ops::" + tr, "T", t), fn, f"Ops.{fn}S", self_ty=t, expand=(f, m, t)))
            out.append(B(f"{fn}Assign{t}", f, trait_in(f"core::ops::{tr}Assign", "Self", t), fn + "_assign", f"Ops.{fn}AssignC", self_ty=t, expand=(f, m, t), inout="self"))
            out.append(B(f"{fn}AssignS{t}", f, trait_in(f"core::ops::{tr}Assign", "T", t), fn + "_assign", f"Ops.{fn}AssignS", self_ty=t, expand=(f, m, t), inout="self"))
        out.append(B(f"mix{t}", f, impl_in("crate::Mix", t), "mix", "Ops.mixHue", self_ty=t, expand=(f, "impl_mix_hue", t)))
        out.append(B(f"mixAssign{t}", f, impl_in("crate::MixAssign", t), "mix_assign", "Ops.mixHueAssign", self_ty=t, expand=(f, "impl_mix_hue", t), inout="self"))
        m = "impl_hue_ops"
        out.append(B(f"getHue{t}", f, impl_in("crate::GetHue", t), "get_hue", "Ops.getHue", self_ty=t, expand=(f, m, t)))
        out.append(B(f"withHue{t}", f, trait_in("crate::WithHue", "H", t), "with_hue", "Ops.withHue", self_ty=t, expand=(f, m, t), ptypes={"hue": "T"}))
        out.append(B(f"setHue{t}", f, trait_in("crate::SetHue", "H", t), "set_hue", "Ops.setHue", self_ty=t, expand=(f, m, t), ptypes={"hue": "T"}, inout="self"))
        out.append(B(f"shiftHue{t}", f, impl_in("crate::ShiftHue", t), "shift_hue", "Ops.shiftHue", self_ty=t, expand=(f, m, t)))
        out.append(B(f"shiftHueAssign{t}", f, impl_in("crate::ShiftHueAssign", t), "shift_hue_assign", "Ops.shiftHueAssign", self_ty=t, expand=(f, m, t), inout="self"))
    return out

UNTRANSLATED_X = [
    "`Luma` (luma/luma.rs: `impl_clamp!`, `impl_is_within_bounds!`, `impl_mix!`, `impl_lighten!`, `impl_color_add!/_sub!/_mul!/_div!`) and the full `Cam16` (cam16/full.rs:",
    "  `impl_clamp!`, `impl_is_within_bounds!`): one and six components; the lowering of tools/rust2lean.py represents a colour struct as `V3 α` (three fields).  The macro",
    "  *arms* selected for them are the ones translated at the 19 + 6 three-component types (same `macro_rules!` text, same helper `_clamp_value!`); their bound tables",
    "  and component lists are extracted data (Gen/Bounds.lean, Gen/Ops.lean) decided by C03_Clamp / C10_Ops, and the correspondence run replays every result",
    "the rest of `make_partial_cam16!` (constructors, `from_xyz` / `into_xyz` / `from_full` / `into_dynamic`: header of Gen/BodiesCam16.lean)",
]

def families(read_src):
    types = list(partial_instances(read_src))
    cf = {t: [vfile(t)] for t in types}
    return {
        "clampx": dict(file="BodiesClampX.lean", tie="Tie_ClampX.lean", imports=["PaletteModel.Clamp"], bodies=bodies_clampx,
                       what="clamp / bounds (C03) at the six partial CAM16 types: `impl_clamp!`, `impl_is_within_bounds!` inside cam16/partial.rs `make_partial_cam16!`, instantiated at "
                            "every `make_partial_cam16!` invocation (" + ", ".join(types) + ") and expanded from macros/clamp.rs",
                       untranslated=UNTRANSLATED_X, colour_files=cf, macro_files=R.MACRO_FILES, expr_macros=["_clamp_value"], pins=R.CLAMP_PINS, structs=[], enums=[]),
        "opsx": dict(file="BodiesOpsX.lean", tie="Tie_OpsX.lean", imports=["PaletteModel.Ops"], bodies=bodies_opsx,
                     what="colour operators (C10) at the six partial CAM16 types: `impl_mix_hue!`, `impl_hue_ops!`, `impl_color_add!`, `impl_color_sub!` inside cam16/partial.rs "
                          "`make_partial_cam16!`, instantiated at every invocation (" + ", ".join(types) + ") and expanded from macros/*.rs",
                     untranslated=UNTRANSLATED_X, colour_files=cf, macro_files=R.MACRO_FILES, expr_macros=[], pins=R.CLAMP_PINS, structs=[], enums=[]),
    }

def generate_family(read_src, tie_text, fam):
    """-> text of Gen/Bodies<Fam>.lean; the family is registered in rust2lean.FAMILIES only for the duration of the call"""
    F = families(read_src)[fam]
    R.FAMILIES[fam] = F
    try:
        text = R.generate_family(wrap(read_src), tie_text, fam)
    finally:
        del R.FAMILIES[fam]
    return text.replace("(tools/rust2lean.py, family", "(tools/rust2lean_more.py + tools/rust2lean.py, family", 1)

NAMES = ("clampx", "opsx")
FILES = {"clampx": ("BodiesClampX.lean", "Tie_ClampX.lean"), "opsx": ("BodiesOpsX.lean", "Tie_OpsX.lean")}

if __name__ == "__main__":
    repo = os.environ.get("PALETTE_REPO", "/repo")
    def read_src(rel): return R.strip_comments(open(os.path.join(repo, "palette", "src", rel)).read())
    root = os.path.dirname(os.path.dirname(os.path.abspath(__file__)))
    fam = sys.argv[1]
    if fam == "--instances":
        for k, v in partial_instances(read_src).items(): print("=====", k); print(v)
        sys.exit(0)
    tie = os.path.join(root, "lean", "PaletteProofs", FILES[fam][1])
    try:
        bs = families(read_src)[fam]["bodies"](read_src)
        sys.stdout.write(generate_family(read_src, open(tie).read() if os.path.exists(tie) and "--no-tie" not in sys.argv else
                                         "".join(f"theorem tie_{s['name']} : Gen.Body.{s['name']} = {s['model']} := " for s in bs), fam))
    except Untranslatable as e:
        print("FAILED:", e); sys.exit(1)
