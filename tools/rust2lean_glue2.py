#!/usr/bin/env python3
"""
rust2lean_glue2 -- family `glue2` of the source-text tie: the shared glue of C01 / C03 / C10 / C08 that the earlier families list as "not translated".

Four sub-families, each with its own generated file and tie module (a change in one rebuilds only its own obligations):

  std    Gen/BodiesGlue2Std.lean    <-> PaletteProofs/Tie_Glue2Std.lean    (C01)  `Hsv<S2> <- Hsv<S1>`, `Hsl<S2> <- Hsl<S1>`, `Hwb<S2> <- Hwb<S1>` (hsv.rs, hsl.rs, hwb.rs) and
                                                                                   their `reinterpret_as`; lowering = that of family `matrix` (tools/rust2lean_matrix.py)
  alpha  Gen/BodiesGlue2Alpha.lean  <-> PaletteProofs/Tie_Glue2Alpha.lean  (C01)  `FromColorUnclamped<C1> for Alpha<C2, T>`, `WithAlpha` (the impl for `Alpha` and the trait defaults
                                                                                   `opaque` / `transparent`), `From<C> for Alpha`, `Deref` / `DerefMut`, `Alpha::premultiply`
  n      Gen/BodiesGlue2N.lean      <-> PaletteProofs/Tie_Glue2N.lean      (C03, C10)  the clamp / operator macros at `Luma<S, T>` (ONE component) and `Cam16<T>` (SIX)
  pre    Gen/BodiesGlue2Pre.lean    <-> PaletteProofs/Tie_Glue2Pre.lean    (C10, C08)  `PreAlpha<C>` (blend/pre_alpha.rs): `Mix`, `MixAssign`, `Add`..`Div` in four forms, `From`, `Deref`

Front end only.  The tokenizer, the Pratt parser, `find_fn`, the macro engine and the three lowerings are those of tools/rust2lean.py, tools/rust_macros.py,
tools/rust2lean_matrix.py and tools/rust2lean_glue.py.  The existing tools are NOT changed: this module loads *private instances* of rust2lean.py and rust2lean_matrix.py
(`importlib`, under other module names) and extends only those instances, so that the existing families run exactly as before.

Extensions (everything else: headers of the three tools):
  * `std`: the colour table of the `matrix` lowering gains `Hsv`, `Hsl`, `Hwb` (`V3 α` in struct field order, `PhantomData` field re-read from the `struct`); the `TypeId`
    test on the two standards is the Boolean parameter `same_S1_S2`, which the tie must give BY NAME; `Rgb::<S1, T>::from_color_unclamped` and
    `Rgb::<S2, T>::from_color_unclamped` are two dictionary entries keyed by their generic arguments, so that exchanging them changes the term
  * `alpha` / `pre`: the dictionary-passing lowering of tools/rust2lean_glue.py (class `Glue2`): plus `let (a, b) = e;` (tuple pattern: projections `.1` / `.2`),
    `PreAlpha` arithmetic desugared like `Alpha`'s (`self.color += e` is the `AddAssign` call it is), `&self.color` / `&mut self.color` as the projection (`Deref` hands out
    the place; the model has values)
  * `n`: a colour struct with N != 3 components: `Prim.V1 α` (`Luma`) / `Prim.V6 α` (`Cam16`) of PaletteModel/BodyPrimGlue2.lean, fields `c0 ..` in struct field order like `V3`;
    the constructor is chosen by the arity re-read from the `struct` (class `LowerN`: every place where the lowering of rust2lean.py builds a `V3.mk` for a NAMED colour);
    colour (op) colour / colour (op) scalar (`impl_mix!` is written with the arithmetic impls) is `Prim.v1Add ..` / `Prim.v1AddS ..`; `PreAlpha<Luma>` is `Prim.PreAlpha1`
Anything else raises `Untranslatable` (`broken[extraction]`); a translated body without `tie_<name>` in its tie module does too.
"""
import re, os, sys, hashlib, importlib.util
HERE = os.path.dirname(os.path.abspath(__file__))
sys.path.insert(0, HERE)
import rust2lean as R0
import rust_macros
import rust2lean_glue as G0

def private(name, alias):
    """a private instance of tools/<name>.py (module globals of its own): extending it cannot change what the existing families do"""
    spec = importlib.util.spec_from_file_location(alias, os.path.join(HERE, name + ".py"))
    mod = importlib.util.module_from_spec(spec)
    spec.loader.exec_module(mod)
    return mod

Untranslatable = R0.Untranslatable
ERRORS = [R0.Untranslatable, rust_macros.MacroError]

def statement_of(tie_text, name):
    """text of `theorem <name> .. :=` up to the `:=` that starts the proof (the first one outside brackets)"""
    m = re.search(r"\btheorem\s+" + name + r"\b", tie_text)
    if not m: return None
    depth, i = 0, m.end()
    while i < len(tie_text) - 1:
        ch = tie_text[i]
        if ch in "([{⟨": depth += 1
        elif ch in ")]}⟩": depth -= 1
        elif ch == ":" and tie_text[i + 1] == "=" and depth == 0: return tie_text[m.end():i]
        i += 1
    return None

def check_tie(tie_text, tie_file, ns, name, model, by_name=()):
    stmt = statement_of(tie_text, "tie_" + name)
    if stmt is None:
        raise Untranslatable(f"body {name} is translated but lean/PaletteProofs/{tie_file} has no theorem tie_{name}")
    if not (re.search(re.escape(ns) + r"\." + name + r"\b", stmt) and re.search(re.escape(model) + r"(?![\w.])", stmt)):
        raise Untranslatable(f"theorem tie_{name} ({tie_file}) does not state {ns}.{name} = {model}")
    for p in by_name:
        if not re.search(r"\(\s*" + p + r"\s*:=", stmt):
            raise Untranslatable(f"body {name} compares `TypeId`s: its Boolean parameter `{p}` must be given *by name* (`({p} := ..)`) in the statement of tie_{name}")

def tied_table(fam, bodies):
    tied = [s for s in bodies if s["model"]]
    return [f"/-- names of the translated bodies of sub-family `{fam}` that have a `tie_` theorem, with the model function each is proved equal to -/",
            f"def tied{fam.capitalize()} : List (String × String) := [\n" + ",\n".join("  " + ", ".join(f'("{s["name"]}", "{s["model"]}")' for s in tied[i:i + 3])
                                                                                  for i in range(0, len(tied), 3)) + "]", ""]

def B(name, file, where, fn, model, **kw):
    d = dict(name=name, file=file, where=where, fn=fn, model=model)
    d.update(kw)
    return d

impl_of = R0.impl_of

# ================================================================================================ sub-family `std` (C01): Hsv / Hsl / Hwb between RGB standards
M = private("rust2lean_matrix", "rust2lean_matrix_glue2")
M.NS = "Gen.BodyGlue2Std"
M.COLOURS = dict(M.COLOURS, Hsv="hsv.rs", Hsl="hsl.rs", Hwb="hwb.rs")
M.DEFAULT_CALLS = {}
V = "V3:{0} -> V3:{1}"

def std_edge(ty, via, file):
    """`impl FromColorUnclamped<Ty<S1, T>> for Ty<S2, T>`: TypeId test on the standards, else through `via`"""
    lo = ty.lower()
    return [
        B(f"{lo}ReinterpretAs", file, None, "reinterpret_as", "Glue2.reinterpret", params=[f"V3:{ty}"], ret=f"V3:{ty}"),
        B(f"{lo}From{ty}", file, impl_of(f"FromColorUnclamped<{ty}<S1, T>> for {ty}<S2, T>"), "from_color_unclamped", f"RgbFam.{lo}To{ty}", params=[f"V3:{ty}"], ret=f"V3:{ty}",
          dict=[(f"{via}::from_color_unclamped::<S1,T>", f"{via.lower()}From{ty}", V.format(ty, via)),
                (f"{via}::from_color_unclamped::<S2,T>", f"{via.lower()}From{via}", V.format(via, via)),
                ("Self::from_color_unclamped", f"{lo}From{via}", V.format(via, ty))],
          calls={".reinterpret_as": f"{lo}ReinterpretAs"}),
    ]

BODIES_STD = std_edge("Hsv", "Rgb", "hsv.rs") + std_edge("Hsl", "Rgb", "hsl.rs") + std_edge("Hwb", "Hsv", "hwb.rs")
UNTRANSLATED_STD = [
    "`Rgb <- Hsv / Hsl`, `Hsv / Hsl <- Rgb`, `Hsv <-> Hwb`, `Hsl <-> Hsv` (per-type formula bodies: Gen/Bodies.lean, Tie_Bodies) and `Rgb<S2> <- Rgb<S1>` (Gen/BodiesMatrix.lean,",
    "  `tie_rgbFromRgb`): dictionary parameters here; Tie_Glue2Std instantiates them with the model functions those ties are about",
    "`TypeId::of::<S1>() == TypeId::of::<S2>()`: the Boolean parameter `same_S1_S2` (the model compares `Std.name`; that distinct standard *types* have distinct names",
    "  is extracted data: Gen/Matrices.lean)",
    "the `Alpha` forms of these edges (`Hsva<S2> <- Hsva<S1>`): the blanket `FromColorUnclamped<C1> for Alpha<C2, T>` of sub-family `alpha`",
]

def generate_std(read_src, tie_text):
    registry, defs = {}, []
    M._new_checked.clear()
    for spec in BODIES_STD:
        try:
            text, rec = M.translate(spec, read_src, registry)
        except Untranslatable as e:
            raise Untranslatable(f"body {spec['name']} ({spec['file']}: fn {spec['fn']}): {e}")
        defs.append(text)
        registry[spec["name"]] = rec
        check_tie(tie_text, "Tie_Glue2Std.lean", M.NS, spec["name"], spec["model"], rec["tids"])
    head = ["/- GENERATED by tools/extract.py (plugin tools/extract_plugins/glue2.py, translator tools/rust2lean_glue2.py, sub-family `std`) from palette/src -- do not edit",
            "",
            "  `impl FromColorUnclamped<Hsv<S1, T>> for Hsv<S2, T>` (hsv.rs), the same for `Hsl` (hsl.rs) and `Hwb` (hwb.rs, through `Hsv`), and the three `reinterpret_as`.",
            "  Each definition is the translation of the *current* text of one Rust function; every trait-dispatched callee is a parameter, the `TypeId` comparison is the",
            "  Boolean parameter `same_S1_S2` (conventions: headers of tools/rust2lean_matrix.py and tools/rust2lean_glue2.py).  `PaletteProofs/Tie_Glue2Std.lean` proves:",
            ] + ["    " + ", ".join(f"{s['name']} = {s['model']}" for s in BODIES_STD[i:i + 3]) for i in range(0, len(BODIES_STD), 3)] + [
            "",
            "  NOT translated in this sub-family:"] + ["    " + u for u in UNTRANSLATED_STD] + ["-/",
            "import PaletteModel.BodyPrimGlue2", "",
            "set_option linter.unusedVariables false   -- every registered dictionary entry stays a parameter, used or not", "",
            "namespace " + M.NS, ""] + tied_table("std", BODIES_STD)
    return "\n".join(head) + "\n" + "\n".join(defs) + "\nend " + M.NS + "\n"

# ================================================================================================ dictionary-passing lowering (sub-families `alpha`, `pre`)
ARITH_M = {"add": "+", "sub": "-", "mul": "*", "div": "/"}

BaseGlue = G0.Glue

class Glue2(BaseGlue):
    """tools/rust2lean_glue.py's lowering, plus: tuple patterns in `let`, `x.add(y)` / `x.add_assign(y);` on the scalar field `alpha` (core::ops on f32 / f64: the operator)"""
    def mcall(self, e, env):
        recv, m, args = e[1], e[2], e[3]
        if m in ARITH_M and len(args) == 1 and G0.recv_name(recv) == "alpha" and self.profile == "scalar" and self.mkey(recv, m) is None:
            return f"({self.expr(recv, env)} {ARITH_M[m]} {self.expr(args[0], env)})"
        return BaseGlue.mcall(self, e, env)

    def stmt_expr(self, e, env, lines):
        if e[0] == "mcall" and e[2].endswith("_assign") and e[2][:-7] in ARITH_M and len(e[3]) == 1 and G0.recv_name(e[1]) == "alpha" and self.profile == "scalar" \
                and self.mkey(e[1], e[2]) is None:
            self.set_place(e[1], f"({self.expr(e[1], env)} {ARITH_M[e[2][:-7]]} {self.expr(e[3][0], env)})", env, lines); return
        return BaseGlue.stmt_expr(self, e, env, lines)

    def block(self, b, env):
        # `let (a, b) = e;` -> `let p := e; let a := p.1; let b := p.2` (pairs only), then the block of the base lowering on the remaining statements
        out, stmts = [], list(b[1])
        lines = []
        i = 0
        while i < len(stmts):
            s = stmts[i]
            if s[0] == "let" and s[1][0] == "ptuple":
                pre_lines, _ = BaseGlue.block(self, ("block", stmts[:i], ("tuple", [])), env) if i else ([], None)
                lines += pre_lines
                pats = s[1][1]
                if len(pats) != 2 or any(p[0] != "pid" for p in pats) or s[3] is None: fail("let: only `let (a, b) = e;` with two names")
                self.n += 1
                pv = f"p_{self.n}"
                lines.append(f"let {pv} := {self.expr(s[3], env)}")
                for k, p in enumerate(pats):
                    v = R0.lname(p[1]); env[p[1]] = v
                    lines.append(f"let {v} := {pv}.{k + 1}")
                stmts = stmts[i + 1:]; i = 0
                continue
            i += 1
        rest, tail = BaseGlue.block(self, ("block", stmts, b[2]), env)
        return lines + rest, tail

fail = R0.fail

def translate_glue(spec, read_src, registry, ns):
    """tools/rust2lean_glue.py `translate` with the extended lowering; the callee record names the definition in this family's namespace"""
    old = G0.Glue
    G0.Glue = Glue2
    try:
        text, rec = G0.translate(spec, read_src, registry)
    finally:
        G0.Glue = old
    rec["lean"] = ns + "." + spec["name"]
    return text, rec

def generate_glue(fam, ns, bodies, external, read_src, tie_text, tie_file, what, untranslated, imports):
    registry, defs = dict(external), []
    for spec in bodies:
        try:
            text, rec = translate_glue(spec, read_src, registry, ns)
        except ERRORS as e:
            raise Untranslatable(f"body {spec['name']} ({spec['file']}: fn {spec['fn']}): {e}")
        defs.append(text)
        for k in spec.get("as_fn", []): registry[k] = rec
        if spec["model"] is not None: check_tie(tie_text, tie_file, ns, spec["name"], spec["model"])
    tied = [s for s in bodies if s["model"]]
    head = [f"/- GENERATED by tools/extract.py (plugin tools/extract_plugins/glue2.py, translator tools/rust2lean_glue2.py, sub-family `{fam}`) from palette/src -- do not edit",
            ""] + ["  " + w for w in what] + [
            "  Each definition is the translation of the *current* text of one Rust function (named in its doc comment); the code is generic over types and dispatches through",
            "  trait bounds: the translation is generic over Lean types and takes every trait-dispatched callee as a parameter (conventions: headers of tools/rust2lean_glue.py",
            f"  and tools/rust2lean_glue2.py; readings: PaletteModel/BodyPrimGlue.lean, BodyPrimGlue2.lean).  `PaletteProofs/{tie_file}` proves, for every value of those parameters:",
            ] + ["    " + ", ".join(f"{s['name']} = {s['model']}" for s in tied[i:i + 3]) for i in range(0, len(tied), 3)] + [
            "  Helpers translated and unfolded inside those proofs (no model function of their own): " + (", ".join(s["name"] for s in bodies if not s["model"]) or "none"),
            "",
            "  NOT translated in this sub-family:"] + ["    " + u for u in untranslated] + ["-/"] + [f"import {m}" for m in imports] + [
            "", "set_option linter.unusedVariables false   -- every registered dictionary entry stays a parameter, used or not", "",
            "namespace " + ns, ""] + tied_table(fam, bodies)
    return "\n".join(head) + "\n" + "\n".join(defs) + "\nend " + ns + "\n"

# ================================================================================================ sub-family `alpha` (C01): conversion with transparency, `WithAlpha`
AL, WA, DWA = "alpha/alpha.rs", "alpha.rs", "derive:alpha/with_alpha.rs"
NSA = "Gen.BodyGlue2Alpha"
AOF = {"Alpha": ("Prim.AlphaOf.mk", ["color", "alpha"])}
MAXI, ZERO, ONE = ("T::max_intensity", "maxIntensity", "τ"), ("T::zero", "zero", "τ"), ("T::one", "one", "τ")
GA = "{γ τ : Type}"
TRAIT_WA = (r"\bpub\s+trait\s+WithAlpha\b", "trait WithAlpha")
DERIVED = (r"impl\s+IMPL_GENERICS\s+WITH_ALPHA_TRAIT_PATH\s*<\s*A\s*>\s*for\s+IDENT\b", "#[derive(WithAlpha)] without an alpha field (palette_derive: implement_for_external_alpha)")

BODIES_ALPHA = [
    # ---- `impl<C, A> WithAlpha<A> for Alpha<C, A>` (a colour that already has a transparency)
    B("alphaWithAlpha", AL, impl_of("WithAlpha<A> for Alpha<C, A>"), "with_alpha", "AlphaForms.withAlpha", binders=GA, params=["Prim.AlphaOf γ τ", "τ"], ret="Prim.AlphaOf γ τ",
      structs=AOF),
    B("alphaWithoutAlpha", AL, impl_of("WithAlpha<A> for Alpha<C, A>"), "without_alpha", "AlphaForms.withoutAlpha", binders=GA, params=["Prim.AlphaOf γ τ"], ret="γ", structs=AOF),
    B("alphaSplit", AL, impl_of("WithAlpha<A> for Alpha<C, A>"), "split", "AlphaForms.split", binders=GA, params=["Prim.AlphaOf γ τ"], ret="γ × τ", structs=AOF),
    # ---- `#[derive(WithAlpha)]` for a colour without alpha field: the `quote!` template of palette_derive, read at `#alpha_path = Alpha`, `#alpha_type = A`
    B("plainWithAlpha", DWA, DERIVED, "with_alpha", "AlphaForms.attach", binders=GA, params=["γ", "τ"], ret="Prim.AlphaOf γ τ", structs=AOF, struct_files={"Alpha": AL},
      dict=[MAXI, ZERO]),
    B("plainWithoutAlpha", DWA, DERIVED, "without_alpha", "AlphaForms.plainWithoutAlpha", binders=GA, params=["γ"], ret="γ", dict=[MAXI, ZERO]),
    B("plainSplit", DWA, DERIVED, "split", "AlphaForms.plainSplit", binders=GA, params=["γ"], ret="γ × τ", dict=[MAXI, ZERO, ONE]),
    # ---- trait defaults
    B("withAlphaOpaque", WA, TRAIT_WA, "opaque", "AlphaForms.opaqueOf", binders="{σ ω τ : Type}", params=["σ"], ret="ω",
      dict=[MAXI, ZERO, ONE, ("self.with_alpha", "withAlpha", "σ → τ → ω")]),
    B("withAlphaTransparent", WA, TRAIT_WA, "transparent", "AlphaForms.transparentOf", binders="{σ ω τ : Type}", params=["σ"], ret="ω",
      dict=[MAXI, ZERO, ONE, ("self.with_alpha", "withAlpha", "σ → τ → ω")]),
    # ---- the conversion
    B("alphaFromColorUnclamped", AL, impl_of("FromColorUnclamped<C1> for Alpha<C2, T>"), "from_color_unclamped", "AlphaForms.convertWith", binders="{σ γ γ' τ : Type}",
      params=["σ"], ret="Prim.AlphaOf γ' τ", structs=AOF,
      dict=[("other.split", "split", "σ → γ × τ"), ("color.into_color_unclamped", "conv", "γ → γ'"), ("other.without_alpha", "withoutAlpha", "σ → γ"), MAXI]),
    # ---- `From<C> for Alpha<C, T>`, `Default`, `Deref`, `DerefMut`
    B("alphaFromColor", AL, impl_of("From<C> for Alpha<C, T>"), "from", "AlphaForms.attach", binders=GA, params=["γ"], ret="Prim.AlphaOf γ τ", structs=AOF,
      dict=[MAXI, ZERO, ONE]),
    B("alphaDefault", AL, impl_of("Default for Alpha<C, T>"), "default", "AlphaForms.attach", binders=GA, params=[], ret="Prim.AlphaOf γ τ", structs=AOF,
      dict=[MAXI, ZERO, ONE, ("C::default", "dflt", "γ")]),
    B("alphaDeref", AL, impl_of("Deref for Alpha<C, T>"), "deref", "AlphaForms.withoutAlpha", binders=GA, params=["Prim.AlphaOf γ τ"], ret="γ", structs=AOF),
    B("alphaDerefMut", AL, impl_of("DerefMut for Alpha<C, T>"), "deref_mut", "AlphaForms.withoutAlpha", binders=GA, params=["Prim.AlphaOf γ τ"], ret="γ", structs=AOF),
]
# translated elsewhere (family `alpha` of tools/rust2lean_glue.py, Gen/BodiesAlpha.lean): used here as callees
EXTERNAL_ALPHA = {"Self::max_alpha": dict(lean="Gen.Body.alphaMaxAlpha", dict=["T::max_intensity"], mut=False),
                  "Self::min_alpha": dict(lean="Gen.Body.alphaMinAlpha", dict=["T::zero"], mut=False)}
UNTRANSLATED_ALPHA = [
    "`Alpha::min_alpha` / `max_alpha` (Gen/BodiesAlpha.lean; used here as the callees `Gen.Body.alphaMaxAlpha` ..), the operator / bounds forwarding of `Alpha` (Tie_Alpha),",
    "  `Alpha<Rgb / Luma, A>::into_format` (Gen/BodiesFormat.lean, Tie_Format: `tie_rgbaIntoFormat`, `tie_lumaaIntoFormat`), `Alpha::premultiply` (Tie_Blend: `tie_alphaPremultiply`)",
    "`#[derive(WithAlpha)]` for a colour WITH an alpha field (`implement_for_internal_alpha`: `core::mem::replace`; no colour type of the crate uses it - only `Alpha` itself has",
    "  an alpha field, and its impl is hand-written and translated here); `PartialEq` / `Eq`, approx, `ArrayCast` (C04), `Extend` / `FromIterator` / iterators (C18), `LowerHex` (C12)",
    "the per-type conversion `C1::Color -> C2` (`into_color_unclamped`: the routes of C01) and `Stimulus::max_intensity` (C06): parameters `conv`, `maxIntensity`",
]

def derive_text(src):
    """the `quote! { .. }` template of `implement_for_external_alpha` with its interpolations read as: `#alpha_path` = `Alpha`, `#alpha_type` = `A` (the impl's extra type
    parameter `_A`), `#stimulus_trait_path::max_intensity()` = `A::max_intensity()` (the only `Stimulus` in scope is `_A: Stimulus`); the `let`s that give them these
    meanings are pinned"""
    m = re.search(r"\bfn\s+implement_for_external_alpha\b", src)
    if not m: fail("palette_derive: fn implement_for_external_alpha not found")
    i = src.index("{", m.end())
    body = src[i:R0.match_brace(src, i)]
    for rx, what in ((r'let\s+alpha_path\s*=\s*util::path\(\s*\[\s*"Alpha"\s*\]\s*,\s*item_meta\.internal\s*\)\s*;', "`#alpha_path` is the path of `Alpha`"),
                     (r'let\s+stimulus_trait_path\s*=\s*util::path\(\s*\[\s*"stimulus"\s*,\s*"Stimulus"\s*\]\s*,\s*item_meta\.internal\s*\)\s*;', "`#stimulus_trait_path` is `stimulus::Stimulus`"),
                     (r'let\s+alpha_type\s*:\s*Type\s*=\s*parse_quote!\(\s*_A\s*\)\s*;', "`#alpha_type` is the fresh type parameter `_A`"),
                     (r'push\(\s*parse_quote!\(\s*_A\s*:\s*#stimulus_trait_path\s*\)\s*\)', "`_A: Stimulus` is the bound added to the impl")):
        if not re.search(rx, body): fail(f"palette_derive implement_for_external_alpha: the text that is read as {what} changed")
    q = re.search(r"\bquote!\s*\{", body)
    if not q or len(re.findall(r"\bquote!\s*\{", body)) != 1: fail("palette_derive implement_for_external_alpha: exactly one quote! block expected")
    j = q.end() - 1
    text = body[j + 1:R0.match_brace(body, j) - 1]
    text = re.sub(r"#\[[^\]]*\]", "", text)
    names = {"alpha_path": "Alpha", "alpha_type": "A", "stimulus_trait_path": "A"}
    return re.sub(r"#(\w+)", lambda mm: names.get(mm.group(1), mm.group(1).upper()), text)

def wrap_alpha(read_src):
    def read2(rel):
        if rel.startswith("derive:"): return derive_text(read_src("../../palette_derive/src/" + rel[7:]))
        return read_src(rel)
    return read2

def generate_alpha(read_src, tie_text):
    return generate_glue("alpha", NSA, BODIES_ALPHA, EXTERNAL_ALPHA, wrap_alpha(read_src), tie_text, "Tie_Glue2Alpha.lean",
                         ["Conversion with transparency (C01): `impl FromColorUnclamped<C1> for Alpha<C2, T>`, `WithAlpha` (the impl for `Alpha`, the derive template for plain colours, the",
                          "trait defaults `opaque` / `transparent`), `From<C> for Alpha`, `Default`, `Deref` / `DerefMut` (alpha/alpha.rs, alpha.rs, palette_derive/src/alpha/with_alpha.rs)."],
                         UNTRANSLATED_ALPHA, ["PaletteModel.BodyPrimGlue2", "PaletteModel.AlphaForms", "PaletteModel.Gen.BodiesAlpha"])

# ================================================================================================ sub-family `pre` (C10, C08): `PreAlpha<C>` (blend/pre_alpha.rs)
PA = "blend/pre_alpha.rs"
NSP = "Gen.BodyGlue2Pre"
SA = "{α : Type} [Scalar α]"
OA = "Ops.Alpha α"
POPS = {"PreAlpha": ("Ops.Alpha.mk", ["color", "alpha"])}
PAOPS = {"PreAlpha": ("Ops.Alpha.mk", ["color", "alpha"]), "Alpha": ("Ops.Alpha.mk", ["color", "alpha"])}
C2_, C3_ = "List α → α → List α", "List α → List α → List α"
PSF = {"PreAlpha": PA, "Alpha": AL}

def vpre(macro, first): return f"{PA}#{macro}:{first}"

def pre_arith(fn, Tr):
    cam = R0.camel(fn)
    vb, vs = vpre("impl_binop", Tr), vpre("impl_scalar_binop", Tr)
    out = [
        B(f"preAlpha{cam}", vb, impl_of(f"{Tr} for PreAlpha<C>"), fn, "Ops.Alpha.binC", binders=SA, params=[OA, OA], ret=OA, structs=POPS, struct_files=PSF, prims="scalar",
          dict=[(f"color.{fn}", "opC", C3_)]),
        B(f"preAlpha{cam}Assign", vb, impl_of(f"{Tr}Assign for PreAlpha<C>"), fn + "_assign", "Ops.Alpha.binAssignC", binders=SA, params=[OA, OA], ret=OA, structs=POPS,
          struct_files=PSF, prims="scalar", inout="self", dict=[(f"color.{fn}_assign", "opAssignC", C3_, "mut")]),
    ]
    for ty in ("f32", "f64"):
        out.append(B(f"preAlpha{cam}S{ty.upper()}", vs, impl_of(f"{Tr}<{ty}> for PreAlpha<C>"), fn, "Ops.Alpha.binS", binders=SA, params=[OA, "α"], ret=OA, structs=POPS,
                     struct_files=PSF, prims="scalar", dict=[(f"color.{fn}", "opS", C2_)]))
        out.append(B(f"preAlpha{cam}AssignS{ty.upper()}", vs, impl_of(f"{Tr}Assign<{ty}> for PreAlpha<C>"), fn + "_assign", "Ops.Alpha.binAssignS", binders=SA, params=[OA, "α"],
                     ret=OA, structs=POPS, struct_files=PSF, prims="scalar", inout="self", dict=[(f"color.{fn}_assign", "opAssignS", C2_, "mut")]))
    return out

BODIES_PRE = [
    B("preAlphaMix", PA, impl_of("Mix for PreAlpha<C>"), "mix", "Ops.Alpha.mix", binders=SA, params=[OA, OA, "α"], ret=OA, structs=POPS, prims="scalar",
      dict=[("color.mix", "mixC", "List α → List α → α → List α")]),
    B("preAlphaMixAssign", PA, impl_of("MixAssign for PreAlpha<C>"), "mix_assign", "Ops.Alpha.mixAssign", binders=SA, params=[OA, OA, "α"], ret=OA, structs=POPS, prims="scalar",
      inout="self", dict=[("color.mix_assign", "mixAssignC", "List α → List α → α → List α", "mut")]),
] + [b for (fn, Tr) in (("add", "Add"), ("sub", "Sub"), ("mul", "Mul"), ("div", "Div")) for b in pre_arith(fn, Tr)] + [
    B("preAlphaFromAlpha", PA, impl_of("From<Alpha<C, C::Scalar>> for PreAlpha<C>"), "from", "Blend.premultiply", binders=SA, params=[OA], ret="Blend.WithAlpha α", structs=PAOPS,
      struct_files=PSF, prims="scalar", dict=[("color.premultiply", "premultiply", "List α → α → Blend.WithAlpha α")]),
    B("preAlphaIntoAlpha", PA, impl_of("From<PreAlpha<C>> for Alpha<C, C::Scalar>"), "from", "Blend.unpremultiply", binders=SA, params=["Blend.WithAlpha α"], ret=OA, structs=PAOPS,
      struct_files=PSF, prims="scalar", dict=[("C::unpremultiply", "unpremultiply", "Blend.WithAlpha α → List α × α")]),
    B("preAlphaFromColor", PA, impl_of("From<C> for PreAlpha<C>"), "from", "Blend.premultiply", binders=SA, params=["List α"], ret="Blend.WithAlpha α", prims="scalar",
      dict=[("color.premultiply", "premultiply", "List α → α → Blend.WithAlpha α")]),
    B("preAlphaDeref", PA, impl_of("Deref for PreAlpha<C>"), "deref", "Ops.Alpha.color", binders=SA, params=[OA], ret="List α", structs=POPS, prims="scalar"),
    B("preAlphaDerefMut", PA, impl_of("DerefMut for PreAlpha<C>"), "deref_mut", "Ops.Alpha.color", binders=SA, params=[OA], ret="List α", structs=POPS, prims="scalar"),
]
UNTRANSLATED_PRE = [
    "`PreAlpha::new`, `new_opaque`, `unpremultiply`, `impl Blend / Compose for PreAlpha<C>` (family `blend` of tools/rust2lean.py: Gen/BodiesBlend.lean, Tie_Blend)",
    "`PartialEq` / `Eq`, `Default`, approx, serde (C20), `ArrayCast` / `impl_array_casts!` (C04), bytemuck",
    "the colour's own `mix` / arithmetic / `premultiply` / `unpremultiply` (parameters here): Tie_Ops, Tie_Blend, Tie_Glue2N at every colour type",
    "`core::ops::Add::add` etc. on the scalar alpha (`self.alpha.add(other.alpha)` with `C::Scalar: Add`; `f32` / `f64` in the scalar forms): the operator `+` .. of the component type",
    "lib.rs `clamp` (pinned by digest in family `alpha` of tools/rust2lean_glue.py): `Scalar.clamp`; `T::zero()` / `T::one()` / `C::Scalar::max_intensity()`: `0.0` / `1.0` / `1.0`",
]

def wrap_pre(read_src):
    eng = rust_macros.Engine(read_src, R0.tokenize, [PA])
    def read2(rel):
        if rel.startswith(PA + "#"):
            macro, first = rel.split("#", 1)[1].split(":")
            return eng.expand_invocation(PA, macro, first)[0]
        return read_src(rel)
    return read2

def generate_pre(read_src, tie_text):
    return generate_glue("pre", NSP, BODIES_PRE, {}, wrap_pre(read_src), tie_text, "Tie_Glue2Pre.lean",
                         ["`PreAlpha<C>` (blend/pre_alpha.rs; C10, C08): `Mix`, `MixAssign`, `Add` / `Sub` / `Mul` / `Div` with a `PreAlpha` and with `f32` / `f64`, by value and assigning",
                          "(read from the expansions of `impl_binop!` / `impl_scalar_binop!` at their actual invocations), the three `From` impls, `Deref` / `DerefMut`."],
                         UNTRANSLATED_PRE, ["PaletteModel.BodyPrimGlue2", "PaletteModel.Ops", "PaletteModel.Blend"])

# ================================================================================================ sub-family `n` (C03, C10): the macros at `Luma` (1 component) and `Cam16` (6)
R2 = private("rust2lean", "rust2lean_glue2_core")
NSN = "Gen.BodyGlue2N"
ARITY = {"Luma": 1, "Cam16": 6}                                   # checked against the `struct` on every run (CtxN.fields)
MK = {1: "Prim.V1.mk", 3: "V3.mk", 6: "Prim.V6.mk"}
LEAN_N = {1: "Prim.V1 α", 6: "Prim.V6 α"}
NFILES = {"Luma": "luma/luma.rs", "Cam16": "cam16/full.rs"}

BaseCtx, BaseLower = R2.Ctx, R2.Lower

class CtxN(BaseCtx):
    def fields(self, name):
        name = self.resolve(name)
        if name in ARITY and name not in self._fields:
            fs = [f for f, _ in R2.struct_fields(self.read_src(self.type_files[name][0]), name)]
            if len(fs) != ARITY[name]: fail(f"struct {name}: {len(fs)} non-phantom fields {fs}, registered arity {ARITY[name]} (Prim.V{ARITY[name]})")
            self._fields[name] = fs
        return BaseCtx.fields(self, name)

def arity_of(ty):
    return ARITY.get(ty[1]) if isinstance(ty, tuple) and ty[0] == "V3" and ty[1] in ARITY else None

_lean_ty0 = R2.lean_ty
def lean_ty_n(ty):
    n = arity_of(ty)
    return LEAN_N[n] if n else _lean_ty0(ty)

class LowerN(BaseLower):
    """every place where the lowering of rust2lean.py builds a NAMED colour: the constructor / the component-wise operator of its arity"""
    def fix(self, v):
        n = arity_of(v.ty)
        if n and v.code.startswith("(V3.mk "): return R2.Val("(" + MK[n] + v.code[6:], v.ty)
        return v
    def struct_lit(self, e, env): return self.fix(BaseLower.struct_lit(self, e, env))
    def construct(self, name, args): return self.fix(BaseLower.construct(self, name, args))
    def bind(self, pat, v, env, lines): return BaseLower.bind(self, pat, self.fix(v), env, lines)
    def binary(self, e, env):
        v = BaseLower.binary(self, e, env)
        n = arity_of(v.ty)
        if n and v.code.startswith("(Prim.v3"):
            if n != 1: fail(f"arithmetic on a colour of {n} components is outside the subset")
            return R2.Val("(Prim.v1" + v.code[8:], v.ty)
        return v

R2.Ctx, R2.Lower, R2.lean_ty = CtxN, LowerN, lean_ty_n
R2.TYPES3 = dict(R2.TYPES3, Luma=("luma/luma.rs", "luma/luma.rs"), Cam16=("cam16/full.rs", "cam16/full.rs"))
del R2.STRUCTS2["Cam16"]          # in this private instance `Cam16<T>` is the six-component colour `Prim.V6` (the family `cam16` keeps its `Cam16.Full`)
R2.STRUCTS2["PreAlpha1"] = dict(lean="Prim.PreAlpha1", rust="PreAlpha", file="blend/pre_alpha.rs", fields=[("color", ("V3", "Luma"), "{}.1"), ("alpha", "T", "{}.2")],
                                mk="(({color}, {alpha}) : Prim.PreAlpha1 α)")
NMACROS = R2.MACRO_FILES + ["macros/blend.rs", "macros/color_difference.rs"]

def bodies_n(read_src):
    Bn, impl_in, trait_in = R2.B, R2.impl_in, R2.trait_in
    eng = rust_macros.Engine(read_src, R2.tokenize, NMACROS)
    def has(t, macro): return R2.has_invocation(read_src, NFILES[t], macro, t)
    def exp(t, macro): return eng.expand_invocation(NFILES[t], macro, t)[0]
    for t in ARITY:
        for m in ("impl_clamp", "impl_is_within_bounds"):
            if not has(t, m): fail(f"{NFILES[t]}: no invocation of {m}! for {t}")
    texts = {t: "".join(exp(t, m) for m in ("impl_clamp", "impl_is_within_bounds", "impl_lighten") if has(t, m)) for t in ARITY}
    out = R2.accessor_bodies(read_src, "bound", list(ARITY), lambda ty, fn: re.search(r"Self\s*::\s*" + fn + r"\b", texts[ty]) is not None)
    for b in out: b["prims"] = "clamp"
    for t in ARITY:
        inv = NFILES[t]
        out.append(Bn(f"clamp{t}", inv, impl_in("crate::Clamp", t), "clamp", "Clamp.clampAll", self_ty=t, expand=(inv, "impl_clamp", t), prims="clamp"))
        out.append(Bn(f"clampAssign{t}", inv, impl_in("crate::ClampAssign", t), "clamp_assign", "Clamp.clampAll", self_ty=t, expand=(inv, "impl_clamp", t), inout="self", prims="clamp"))
        out.append(Bn(f"within{t}", inv, impl_in("crate::IsWithinBounds", t), "is_within_bounds", "Clamp.withinAll", self_ty=t, expand=(inv, "impl_is_within_bounds", t), prims="clamp"))
    # every other operator macro invoked for one of these types must be registered below (a new invocation without body / tie stops the run)
    known = {"Luma": ["impl_mix", "impl_lighten", "impl_premultiply", "impl_euclidean_distance", "impl_color_add", "impl_color_sub", "impl_color_mul", "impl_color_div"], "Cam16": []}
    for t in ARITY:
        for m in ("impl_mix", "impl_mix_hue", "impl_lighten", "impl_saturate", "impl_hue_ops", "impl_premultiply", "impl_euclidean_distance", "impl_color_add", "impl_color_sub",
                  "impl_color_mul", "impl_color_div", "impl_lab_color_schemes", "impl_lighten_hwb", "impl_clamp_hwb"):
            if has(t, m) != (m in known[t]):
                fail(f"{NFILES[t]}: the operator macro {m}! is {'now' if has(t, m) else 'no longer'} invoked for {t}; registered: {known[t]}")
    t, inv = "Luma", NFILES["Luma"]
    for fn, tr, _ in R2.ARITH:
        m = "impl_color_" + fn
        out.append(Bn(f"{fn}{t}", inv, trait_in("core::ops::" + tr, "Self", t), fn, f"Ops.{fn}C", self_ty=t, expand=(inv, m, t)))
        out.append(Bn(f"{fn}S{t}", inv, trait_in("core::ops::" + tr, "T", t), fn, f"Ops.{fn}S", self_ty=t, expand=(inv, m, t)))
        out.append(Bn(f"{fn}Assign{t}", inv, trait_in(f"core::ops::{tr}Assign", "Self", t), fn + "_assign", f"Ops.{fn}AssignC", self_ty=t, expand=(inv, m, t), inout="self"))
        out.append(Bn(f"{fn}AssignS{t}", inv, trait_in(f"core::ops::{tr}Assign", "T", t), fn + "_assign", f"Ops.{fn}AssignS", self_ty=t, expand=(inv, m, t), inout="self"))
    out.append(Bn(f"mix{t}", inv, impl_in("crate::Mix", t), "mix", "Ops.mixLin", self_ty=t, expand=(inv, "impl_mix", t)))
    out.append(Bn(f"mixAssign{t}", inv, impl_in("crate::MixAssign", t), "mix_assign", "Ops.mixLinAssign", self_ty=t, expand=(inv, "impl_mix", t), inout="self"))
    m = "impl_lighten"
    out.append(Bn(f"lighten{t}", inv, impl_in("crate::Lighten", t), "lighten", "Ops.incValue", self_ty=t, expand=(inv, m, t)))
    out.append(Bn(f"lightenFixed{t}", inv, impl_in("crate::Lighten", t), "lighten_fixed", "Ops.incFixedValue", self_ty=t, expand=(inv, m, t)))
    out.append(Bn(f"lightenAssign{t}", inv, impl_in("crate::LightenAssign", t), "lighten_assign", "Ops.incAssign", self_ty=t, expand=(inv, m, t), inout="self"))
    out.append(Bn(f"lightenFixedAssign{t}", inv, impl_in("crate::LightenAssign", t), "lighten_fixed_assign", "Ops.incFixedAssign", self_ty=t, expand=(inv, m, t), inout="self"))
    out.append(Bn(f"premultiply{t}", inv, impl_in("crate::blend::Premultiply", t), "premultiply", "Blend.premultiply", self_ty=t, expand=(inv, "impl_premultiply", t),
                  structs={"PreAlpha": "PreAlpha1"}, mask="prop"))
    out.append(Bn(f"unpremultiply{t}", inv, impl_in("crate::blend::Premultiply", t), "unpremultiply", "Blend.unpremultiply", self_ty=t, expand=(inv, "impl_premultiply", t),
                  structs={"PreAlpha": "PreAlpha1"}, mask="bool"))
    out.append(Bn(f"distanceSquared{t}", inv, impl_in("crate::color_difference::EuclideanDistance", t), "distance_squared", "Diff.distSq1", self_ty=t,
                  expand=(inv, "impl_euclidean_distance", t), prims="diff", mask="prop"))
    return out

UNTRANSLATED_N = [
    "`Luma::min_luma` / `max_luma` are translated (`boundLumaMinLuma`, `boundLumaMaxLuma`: `T::zero()`, `T::max_intensity()` = `0.0`, `1.0` at floats; integer components: C06)",
    "`num::Clamp` / `ClampAssign` / `MinMax` for f32 / f64 and the lib.rs wrappers `clamp`, `clamp_min`, `clamp_assign`, `clamp_min_assign` (pinned by digest): read as",
    "  `Clamp.clampV` / `clampMinV` (bounds bodies, order-only model) and `Scalar.clamp` / `Scalar.max` (operator bodies), exactly as the families `clamp` / `ops` read them",
    "`Luma (op) Luma`, `Luma (op) T` inside `impl_mix!` / `impl_premultiply!` / `impl_euclidean_distance!`: `Prim.v1Add` ..; Tie_Glue2N proves each reading to BE the translated",
    "  `impl_color_add!` .. body at `Luma` (`reading_v1`)",
    "`SaturatingAdd` / `SaturatingSub` arms of `impl_color_add!` / `impl_color_sub!` (integer components), `impl_eq!`, `impl_simd_array_conversion!`, `impl_array_casts!` (C04),",
    "  `impl_reference_component_methods!`, `impl_struct_of_arrays_methods!` (C18), `From<PreAlpha<Self>>` arm of `impl_premultiply!` (`Self::unpremultiply(p).0`)",
    "`Lumaa` (= `Alpha<Luma, _>`): the `Alpha` forwarding of Tie_Alpha with these bodies as the colour's operators; `Cam16` has no operator macro besides the two bounds macros",
]

def generate_n(read_src, tie_text):
    names = [b["name"] for b in bodies_n(read_src)]
    rx = re.compile(r"Gen\.Body\.(" + "|".join(sorted(names, key=len, reverse=True)) + r")\b")
    R2.FAMILIES["glue2n"] = dict(
        file="BodiesGlue2N.lean", tie="Tie_Glue2N.lean", imports=["PaletteModel.BodyPrimGlue2", "PaletteModel.Clamp", "PaletteModel.Ops", "PaletteModel.Blend", "PaletteModel.Diff"],
        bodies=bodies_n, untranslated=UNTRANSLATED_N, colour_files={t: [f] for t, f in NFILES.items()}, macro_files=NMACROS, expr_macros=["_clamp_value"], pins=R2.CLAMP_PINS,
        structs=["PreAlpha1"], enums=[],
        what="the clamp / bounds macros (C03) at `Luma<S, T>` (ONE component) and `Cam16<T>` (SIX), and the operator macros (C10, C08, C09) at `Luma`: `impl_clamp!`, "
             "`impl_is_within_bounds!`, `impl_color_add!/_sub!/_mul!/_div!`, `impl_mix!`, `impl_lighten!`, `impl_premultiply!`, `impl_euclidean_distance!`, each expanded "
             "(tools/rust_macros.py) at its actual invocation in luma/luma.rs / cam16/full.rs; colour structs of 1 / 6 components are `Prim.V1` / `Prim.V6` (tools/rust2lean_glue2.py)")
    text = R2.generate_family(read_src, tie_text.replace(NSN + ".", "Gen.Body."), "glue2n")
    text = rx.sub(lambda m: NSN + "." + m.group(1), text)
    text = text.replace("\nnamespace Gen.Body\n", "\nnamespace " + NSN + "\n").replace("\nend Gen.Body\n", "\nend " + NSN + "\n")
    text = text.replace("(tools/rust2lean.py, family `glue2n`)", "(plugin tools/extract_plugins/glue2.py, translator tools/rust2lean_glue2.py on tools/rust2lean.py, sub-family `n`)")
    return text.replace("def tiedGlue2n ", "def tiedN ")

ERRORS = tuple(ERRORS + [R2.Untranslatable])
SUBFAMILIES = {"std": ("BodiesGlue2Std.lean", "Tie_Glue2Std.lean", generate_std, BODIES_STD, "Gen.BodyGlue2Std"),
               "alpha": ("BodiesGlue2Alpha.lean", "Tie_Glue2Alpha.lean", generate_alpha, BODIES_ALPHA, NSA),
               "n": ("BodiesGlue2N.lean", "Tie_Glue2N.lean", generate_n, bodies_n, NSN),
               "pre": ("BodiesGlue2Pre.lean", "Tie_Glue2Pre.lean", generate_pre, BODIES_PRE, NSP)}

def bodies_of(fam, read_src):
    b = SUBFAMILIES[fam][3]
    return b(read_src) if callable(b) else b

if __name__ == "__main__":
    repo = os.environ.get("PALETTE_REPO", "/repo")
    def read_src(rel): return R0.strip_comments(open(os.path.join(repo, "palette", "src", rel)).read())
    root = os.path.dirname(HERE)
    fam = sys.argv[1] if len(sys.argv) > 1 else "std"
    file, tie, gen, _, ns = SUBFAMILIES[fam]
    tp = os.path.join(root, "lean", "PaletteProofs", tie)
    try:
        if os.path.exists(tp) and "--no-tie" not in sys.argv: tt = open(tp).read()
        else: tt = "".join(f"theorem tie_{s['name']} {'(same_S1_S2 := 0) ' if fam == 'std' else ''}: {ns}.{s['name']} = {s['model']} := " for s in bodies_of(fam, read_src))
        sys.stdout.write(gen(read_src, tt))
    except ERRORS as e:
        print("FAILED:", e); sys.exit(1)
