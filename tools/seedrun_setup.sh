#!/bin/sh
# seedrun_setup.sh [lane]: (re)creates the private copy used to run checks against seeded changes:
#   /tmp/seedrun<lane>/repo   git worktree of /repo HEAD (patches are applied here, never in /repo)
#   /tmp/seedrun<lane>/verif  copy of /verif whose harness depends on that worktree (PALETTE_REPO points extract.py at it)
#   run.sh <patch> <Cxx>..    apply, run the quick checks, revert;   sync.sh  bring the copy up to date with /verif
lane=${1:-}
d=/tmp/seedrun$lane
mkdir -p $d && cd $d || exit 2
[ -d $d/repo ] || git -C /repo worktree add -q --detach $d/repo HEAD
rsync -a --exclude harness/target --exclude out --exclude replays --exclude .git /verif/ $d/verif/
mkdir -p $d/verif/out $d/verif/replays
sed -i "s#path = \"/repo/palette\"#path = \"$d/repo/palette\"#" $d/verif/harness/Cargo.toml
cat > $d/run.sh <<EOS
#!/bin/sh
patch=\$1; shift
cd $d/repo && git checkout -q -- . && git clean -qfd && git apply "\$patch" || { echo "PATCH DOES NOT APPLY"; exit 2; }
cd $d/verif
for p in "\$@"; do
  PALETTE_REPO=$d/repo ./check \$p quick > $d/last_\$p.log 2>&1; rc=\$?
  echo "== \$p rc=\$rc"; grep -E "^\[C|^VIOLATION|^KNOWN|broken\[|fails\[" $d/last_\$p.log | cut -c1-260 | head -12
done
cd $d/repo && git checkout -q -- . && git clean -qfd
EOS
cat > $d/sync.sh <<EOS
#!/bin/sh
rsync -a --exclude harness/target --exclude out --exclude replays --exclude .git --exclude lean/.lake --exclude evidence /verif/ $d/verif/
sed -i "s#path = \"/repo/palette\"#path = \"$d/repo/palette\"#" $d/verif/harness/Cargo.toml
EOS
chmod +x $d/run.sh $d/sync.sh
echo "ready: $d"
