#!/usr/bin/env python3
"""
rust2lean_hex -- translate the hex-string / packed-integer / named-colour code of palette (C12) into Lean.

Family `hex`: `Gen/BodiesHex.lean` (namespace `Gen.BodyHex`) <-> `PaletteProofs/Tie_Hex.lean`.  Called by `tools/extract_plugins/hex.py` on every run.
The bodies are *not* float formulas: they are string slicing, integer parsing, `Result` plumbing with `?`, `match` on lengths, `write!` with a
format string, array destructuring and trait-dispatched packing.  This front-end reuses the tokenizer idea / Pratt parser / `find_fn` of
tools/rust2lean.py (subclass `HParser`: string and `char` literals, `e?`, `s[a..b]`, `..b`, literal and `Some(..)`/`None` match patterns, `write!`,
a leading `::`) and adds its own lowering (`HexLower`), which is *continuation-passing*: an operand that can leave the function (`e?`, `&s[i..j]`)
is evaluated first and the rest of the body becomes its continuation, in source evaluation order (left to right, statements in order).

Conventions (readings in lean/PaletteModel/BodyPrimHex.lean, each with the std sentence it rests on):
  * `&str` -> `Hex.Bytes`; `u8/u16/u32/usize` -> `Nat`; tuples and `[T; N]` -> Lean tuples, destructuring is projection; colours are `Prim.Rgb3`,
    `Prim.Luma1`, `Prim.AlphaOf` (BodyPrimGlue.lean; field lists re-read from the `struct`s, `PhantomData` fields dropped, literals must name every field)
  * `Result<_, ParseIntError>` -> `HexPrim.PRes` (ok | err | panic), `Result<_, FromHexError>` -> `Hex.Outcome`; `Ok`/`Err` are their constructors;
    `e?` -> `PRes.bind` / `Outcome.bind` when the error types agree, `HexPrim.tryFrom Gen.BodyHex.fromParseIntError` when a `ParseIntError` is
    converted (the translated `impl From<ParseIntError> for FromHexError`); which applies is decided by the *declared* return types, re-read from the signatures
  * `&s[a..b]` -> `HexPrim.PRes.slice s a b fun t => ..` (`..b` = `0..b`); `uN::from_str_radix(t, 16)` -> `HexPrim.fromStrRadix16 N t` (radix must be the literal 16)
  * `x * y` at `u8/u16/u32` -> `HexPrim.mulU x y`; `+` / `*` at `usize` -> `+` / `*`
  * `s.strip_prefix('c')` -> `HexPrim.stripPrefixChar <code of c> s`; `.map_or(d, |x| e)` -> `HexPrim.mapOr`; `.unwrap_or(d)` -> `HexPrim.unwrapOr`; `.len()` -> `.length`;
    `.char_indices()` -> `HexPrim.charIndices`; `.find(|p| e)` -> `HexPrim.find`; `c.is_ascii_hexdigit()` / `c.len_utf8()` -> `HexPrim.Ch.*`; `.map(|x| e)` on a
    `Result<_, ParseIntError>` -> `HexPrim.PRes.map`; `.copied()` -> `HexPrim.copied`
  * `match n { 3 | 6 => a, 12 => b, _ => c }` -> `if n = 3 ∨ n = 6 then a else if n = 12 then b else c` (last arm must be `_`);
    `match o { Some(p) => a, None => b }` -> Lean `match`
  * enum `FromHexError` (variants and payload types re-read): `ParseIntError(e)` -> `Hex.Err.parseInt e`; the `&'static str` payloads (message text) are dropped
  * `write!(f, "{:0width$x}..", a, b, .., width = w)`: only `{:0<name>$x}` / `{:0<name>$X}` placeholders; each becomes a call of the dictionary entry
    `fmt:<declared type of the argument's field>:<x|X>` at the width; the pieces are joined by `HexPrim.write`
  * `uN::from_be_bytes(a)` / `x.to_be_bytes()` -> `HexPrim.uNFromBeBytes` / `HexPrim.uNToBeBytes` (N from the declared type)
  * dictionary passing as in rust2lean_glue.py: `dict=[(key, lean name, lean type[, code template])]`; a key may be a regex with groups (`Self::from_u32<super::channels::(\\w+)>`),
    the groups are checked against the unit structs found in the channels file and spliced into the template (the type argument `O` becomes a value argument)
Anything else raises `Untranslatable` (-> `die`, `broken[extraction]`); a translated body without `tie_` theorem in Tie_Hex.lean does too.
"""
import re, os, sys
sys.path.insert(0, os.path.dirname(os.path.abspath(__file__)))
import rust2lean as R
from rust2lean import Untranslatable, fail, find_fn, strip_comments, struct_fields, struct_phantoms, split_top, lname, impl_of, enum_variants

NS = "Gen.BodyHex"

# ------------------------------------------------------------------------------------------------ tokens / parser
TOK = re.compile(r"""
  (?P<ws>\s+)
 |(?P<str>"(?:[^"\\]|\\.)*")
 |(?P<char>'(?:[^'\\]|\\.)')
 |(?P<num>0x[0-9a-fA-F_]+(?:u8|u16|u32|u64|u128|usize)?|\d[\d_]*(?:_?(?:usize|u8|u16|u32|u64|u128|i32))?)
 |(?P<id>[A-Za-z_][A-Za-z0-9_]*)
 |(?P<life>'[A-Za-z_][A-Za-z0-9_]*)
 |(?P<op>::|->|=>|==|!=|<=|>=|&&|\|\||\.\.=|\.\.|\+=|-=|\*=|/=|[-+*/%=<>!&|.,;:(){}\[\]\#?$@^])
""", re.X)

def tokenize(src):
    out, i = [], 0
    while i < len(src):
        m = TOK.match(src, i)
        if not m: fail(f"cannot tokenize at {src[i:i+30]!r}")
        i = m.end()
        if m.lastgroup != "ws": out.append((m.lastgroup, m.group(0)))
    return out

class HParser(R.Parser):
    def at(self, v, k=0): return self.peek(k)[1] == v and self.peek(k)[0] in ("id", "op")

    def prefix(self, no_struct):
        k, v = self.peek()
        if k == "op" and v == "..":                       # `..b`
            self.i += 1
            return ("range", None, self.expr(R.BINOPS[".."][1], no_struct))
        return super().prefix(no_struct)

    def atom(self, no_struct):
        k, v = self.peek()
        if k == "str":
            self.i += 1; return ("str", v[1:-1])
        if k == "char":
            self.i += 1; return ("char", v[1:-1])
        if k == "op" and v == "::":                       # `::core::mem::size_of`
            self.i += 1; return self.atom(no_struct)
        if k == "id" and v == "write" and self.at("!", 1):
            self.i += 2
            return ("write", self.balanced())
        return super().atom(no_struct)

    def match_pattern(self):
        k, v = self.peek()
        if k == "num":
            self.i += 1; return ("plit", v)
        return super().match_pattern()

    def postfix(self, e, no_struct):
        while True:
            if self.at("?"):
                self.i += 1; e = ("try", e); continue
            if self.at("["):
                self.i += 1
                idx = self.expr()
                self.expect("]")
                e = ("sindex", e, idx); continue
            if self.at("("):
                self.i += 1; args = []
                while not self.at(")"):
                    args.append(self.expr())
                    if not self.eat(","): break
                self.expect(")")
                e = ("call", e, args); continue
            if self.at("."):
                k, v = self.peek(1)
                if k == "num":
                    self.i += 2; e = ("index", e, int(v)); continue
                if k == "id":
                    self.i += 2; gens = []
                    if self.at("::"):
                        self.i += 1; gens.append(self.skip_angles())
                    if self.at("("):
                        self.i += 1; args = []
                        while not self.at(")"):
                            args.append(self.expr())
                            if not self.eat(","): break
                        self.expect(")")
                        e = ("mcall", e, v, args, gens)
                    else:
                        e = ("field", e, v)
                    continue
            break
        return e

def parse_block(src):
    p = HParser(tokenize(src))
    b = p.block()
    if p.peek()[0] != "eof": fail("trailing tokens after block")
    return b

def norm(t): return re.sub(r"\s+", "", t)

def camel(n):
    parts = n.split("_")
    s = parts[0] + "".join(w[:1].upper() + w[1:] for w in parts[1:])
    return lname(s)

UINTS = {"u8": 8, "u16": 16, "u32": 32}

# ------------------------------------------------------------------------------------------------ declarations that are re-read
STRUCTS = {   # Rust struct -> (file, Lean constructor, fields without PhantomData, PhantomData fields)
    "Rgb": ("rgb/rgb.rs", "Prim.Rgb3.mk", ["red", "green", "blue"], ["standard"]),
    "Luma": ("luma/luma.rs", "Prim.Luma1.mk", ["luma"], ["standard"]),
    "Alpha": ("alpha/alpha.rs", "Prim.AlphaOf.mk", ["color", "alpha"], []),
    "Packed": ("cast/packed.rs", "HexPrim.PackedOf.mk", ["color"], ["channel_order"]),
}
FIELD_TYPES = {}     # (struct, field) -> declared Rust type text, filled by verify_decls
ENUM_FROMHEX = {     # variant -> (Lean constructor, payload kept?)
    "ParseIntError": ("Hex.Err.parseInt", ["ParseIntError"], True),
    "HexFormatError": ("Hex.Err.hexFormat", ["&'staticstr"], False),
    "RgbaHexFormatError": ("Hex.Err.rgbaHexFormat", ["&'staticstr"], False),
}
ORDERS = {"rgb/channels.rs": ("HexPrim.RgbaOrder", ["Abgr", "Argb", "Bgra", "Rgba"]), "luma/channels.rs": ("HexPrim.LumaOrder", ["La", "Al"])}
ALIASES = [("rgb/rgb.rs", r"pub\s+type\s+Rgba\s*<\s*S\s*=\s*\w+\s*,\s*T\s*=\s*\w+\s*>\s*=\s*Alpha\s*<\s*Rgb\s*<\s*S\s*,\s*T\s*>\s*,\s*T\s*>\s*;", "type Rgba<S, T> = Alpha<Rgb<S, T>, T>"),
           ("luma/luma.rs", r"pub\s+type\s+Lumaa\s*<\s*S\s*=\s*\w+\s*,\s*T\s*=\s*\w+\s*>\s*=\s*Alpha\s*<\s*Luma\s*<\s*S\s*,\s*T\s*>\s*,\s*T\s*>\s*;", "type Lumaa<S, T> = Alpha<Luma<S, T>, T>")]

def verify_decls(read_src):
    for n, (file, mk, fields, phantoms) in STRUCTS.items():
        src = read_src(file)
        got = struct_fields(src, n)
        if [f for f, _ in got] != fields: fail(f"struct {n} ({file}): fields {[f for f, _ in got]}, registered {fields}")
        if struct_phantoms(src, n) != phantoms: fail(f"struct {n} ({file}): PhantomData fields {struct_phantoms(src, n)}, registered {phantoms}")
        for f, t in got: FIELD_TYPES[(n, f)] = norm(t)
        if not re.search(r"#\[repr\((?:C|transparent)\)\]\s*(?:#\[[^\]]*\]\s*)*pub\s+struct\s+" + n + r"\b", src):
            fail(f"struct {n} ({file}) is no longer #[repr(C)] / #[repr(transparent)]: the reading of `.into()` as the fields in declaration order does not apply")
    src = read_src("rgb/rgb.rs")
    m = re.search(r"\benum\s+FromHexError\s*\{", src)
    if not m: fail("enum FromHexError not found in rgb/rgb.rs")
    body = src[m.end():R.match_brace(src, m.end() - 1) - 1]
    got = []
    for part in split_top(re.sub(r"#\[[^\]]*\]", "", body)):
        mm = re.match(r"\s*(\w+)\s*(?:\((.*)\))?\s*$", part, re.S)
        if not mm: fail(f"enum FromHexError: variant {part!r}")
        got.append((mm.group(1), [norm(x) for x in split_top(mm.group(2) or "")]))
    want = [(v, p) for v, (_, p, _) in ENUM_FROMHEX.items()]
    if got != want: fail(f"enum FromHexError: variants {got}, registered {want}")
    for file, (_, names) in ORDERS.items():
        got = re.findall(r"\bpub\s+struct\s+(\w+)\s*;", read_src(file).split("mod test")[0])
        if got != names: fail(f"{file}: unit structs {got}, registered channel orders {names}")
    for file, rx, what in ALIASES:
        if not re.search(rx, read_src(file)): fail(f"{file}: `{what}` not found (the bodies written against `Rgba` / `Lumaa` are read at `Alpha<..>`)")

# ------------------------------------------------------------------------------------------------ lowering
class V:
    """a lowered pure value: Lean code + (rough) Rust type"""
    def __init__(self, code, ty=None): self.code, self.ty = code, ty

class HexLower:
    def __init__(self, spec, registry):
        self.spec, self.registry, self.n = spec, registry, 0
        self.ctx = spec["ctx"]                      # "pres" | "outcome" | "pure"
        self.dict = [(k, n, t, (tm[0] if tm else None)) for (k, n, t, *tm) in spec.get("dict", [])]
        self.pure_depth = 0

    def fresh(self, base):
        self.n += 1
        return f"{base}{self.n}"

    # ---- dictionary / registry
    def lookup(self, key, args, what):
        if key in self.registry:
            rec = self.registry[key]
            return V("(" + " ".join([rec["lean"]] + [a.code for a in args]) + ")", rec.get("ty"))
        for (k, name, _, tmpl) in self.dict:
            m = re.fullmatch(k, key) if any(c in k for c in "()\\") else (k == key and re.match("", ""))
            if m:
                head = name
                if tmpl:
                    for g in m.groups():
                        allowed = self.spec.get("orders")
                        if allowed is None or g not in allowed[1]: fail(f"{what}: `{g}` is not one of the channel orders {allowed}")
                    head = tmpl.format(*m.groups())
                return V("(" + " ".join([head] + [a.code for a in args]) + ")" if args else head, self.spec.get("dict_ty", {}).get(k))
        return None

    def path_key(self, e):
        return "::".join(s for s in e[1] if s != "<qualified>") + "".join("<" + norm(g) + ">" for g in e[2])

    # ---- result constructors of the current context
    def ok(self): return {"pres": "HexPrim.PRes.ok", "outcome": "Hex.Outcome.ok"}.get(self.ctx) or fail("`Ok(..)` in a body that does not return a `Result`")

    # ---- computations: `k` receives the pure value, returns the Lean term of the rest of the body
    def comp(self, e, env, k):
        t = e[0]
        if t == "num":
            m = re.fullmatch(r"(0x[0-9a-fA-F_]+|\d[\d_]*?)_?(usize|u8|u16|u32|u64|u128|i32)?", e[1])
            if not m: fail(f"literal {e[1]!r}")
            return k(V(str(int(m.group(1).replace("_", ""), 0)), m.group(2) or "int"))
        if t == "char":
            c = e[1]
            if len(c) != 1 or ord(c) > 127: fail(f"char literal {c!r}: only plain ASCII characters are in the subset")
            return k(V(str(ord(c)), "char"))
        if t == "str": return k(V(None, "strlit"))
        if t == "path": return k(self.path(e, env))
        if t == "unary":
            if e[1] in ("&", "*"):
                if e[2][0] == "sindex": return self.slice(e[2], env, k)
                return self.comp(e[2], env, k)
            if e[1] == "!": return self.comp(e[2], env, lambda v: k(V(f"(!{v.code})", "bool")))
            fail(f"unary `{e[1]}` is outside the subset")
        if t == "sindex": fail("`s[a..b]` without `&` is outside the subset")
        if t == "binary": return self.comp(e[2], env, lambda a: self.comp(e[3], env, lambda b: k(self.binary(e[1], a, b))))
        if t == "tuple": return self.comps(e[1], env, lambda vs: k(V("(" + ", ".join(v.code for v in vs) + ")", ("tuple", [v.ty for v in vs]))))
        if t == "array": return self.comps(e[1], env, lambda vs: k(V("(" + ", ".join(v.code for v in vs) + ")", ("array", len(vs)))))
        if t == "field": return self.comp(e[1], env, lambda b: k(self.field(b, e[2])))
        if t == "index": return self.comp(e[1], env, lambda b: k(self.tindex(b, e[2])))
        if t == "try": return self.comp(e[1], env, lambda v: self.question(v, k))
        if t == "call": return self.call(e, env, k)
        if t == "mcall": return self.mcall(e, env, k)
        if t == "struct": return self.struct_lit(e, env, k)
        if t == "match": return self.match(e, env, k)
        if t == "block": return self.block(e, env, k)
        if t == "write": return self.write(e, env, k)
        if t == "closure": fail("closure outside an argument position")
        fail(f"expression kind {t!r} is outside the subset")

    def comps(self, es, env, k, acc=None):
        acc = acc or []
        if not es: return k(acc)
        return self.comp(es[0], env, lambda v: self.comps(es[1:], env, k, acc + [v]))

    def pure(self, e, env):
        """an expression that cannot leave the function (closure bodies)"""
        self.pure_depth += 1
        try:
            return self.comp(e, env, lambda v: v)
        finally:
            self.pure_depth -= 1

    def path(self, e, env):
        segs = e[1]
        if len(segs) == 1:
            n = segs[0]
            if n in env: return env[n]
            if n == "PhantomData": return V(None, "phantom")
            if n == "None": return V("none", "option")
        r = self.lookup(self.path_key(e), [], self.path_key(e))
        if r is not None: return r
        fail(f"path `{self.path_key(e)}` is neither a local nor a registered callee")

    def binary(self, op, a, b):
        tys = {a.ty, b.ty} - {"int"}
        if op == "*" and tys and tys <= set(UINTS): return V(f"(HexPrim.mulU {a.code} {b.code})", (tys & set(UINTS)).pop())
        if op in ("+", "*") and tys <= {"usize"}: return V(f"({a.code} {op} {b.code})", "usize")
        fail(f"operator `{op}` at types {a.ty} / {b.ty} is outside the subset")

    def field(self, b, f):
        if isinstance(b.ty, tuple) and b.ty[0] == "struct":
            s = b.ty[1]
            if f not in STRUCTS[s][2]: fail(f"field .{f} of struct {s}")
            ft = FIELD_TYPES[(s, f)]
            sub = dict(b.ty[2]).get(ft)
            return V(f"{b.code}.{f}", sub if sub is not None else ft)
        fail(f"field .{f} of a value whose struct is not known ({b.ty})")

    def tindex(self, b, i):
        if isinstance(b.ty, tuple) and b.ty[0] == "tuple":
            return V(R.tup_proj(b.code, i, len(b.ty[1])), b.ty[1][i])
        fail("tuple index on a value that is not a known tuple")

    def question(self, v, k):
        if self.pure_depth: fail("`?` inside a closure")
        if not (isinstance(v.ty, tuple) and v.ty[0] == "res"): fail(f"`?` on a value that is not a known `Result` ({v.ty})")
        _, kind, inner = v.ty
        x = self.fresh("v")
        rest = k(V(x, inner))
        if kind == self.ctx == "pres": return f"(HexPrim.PRes.bind {v.code} fun {x} =>\n{rest})"
        if kind == self.ctx == "outcome": return f"(Hex.Outcome.bind {v.code} fun {x} =>\n{rest})"
        if kind == "pres" and self.ctx == "outcome":
            conv = self.registry.get("From<ParseIntError> for FromHexError") or fail("`?` converts a ParseIntError, but `impl From<ParseIntError> for FromHexError` is not translated")
            return f"(HexPrim.tryFrom {conv['lean']} {v.code} fun {x} =>\n{rest})"
        fail(f"`?` on a {kind} result inside a {self.ctx} body")

    def slice(self, e, env, k):
        if self.ctx != "pres" or self.pure_depth: fail("`&s[a..b]` outside a `Result<_, ParseIntError>` body")
        rng = e[2]
        if rng[0] != "range" or rng[2] is None: fail("`&s[..]`: only `a..b` and `..b`")
        def go(s):
            if s.ty != "str": fail("`&s[a..b]` on a value that is not a `&str`")
            lo = (lambda kk: kk(V("0", "usize"))) if rng[1] is None else (lambda kk: self.comp(rng[1], env, kk))
            def with_lo(a):
                def with_hi(b):
                    t = self.fresh("s")
                    return f"(HexPrim.PRes.slice {s.code} {a.code} {b.code} fun {t} =>\n{k(V(t, 'str'))})"
                return self.comp(rng[2], env, with_hi)
            return lo(with_lo)
        return self.comp(e[1], env, go)

    def call(self, e, env, k):
        f, args = e[1], e[2]
        if f[0] != "path": fail("call of a computed function")
        key = self.path_key(f)
        if key == "Ok" and len(args) == 1:
            return self.comp(args[0], env, lambda v: k(V(f"({self.ok()} {v.code})", ("res", self.ctx, v.ty))))
        if key == "Err" and len(args) == 1:
            if self.ctx != "outcome": fail("`Err(..)` outside a `Result<_, FromHexError>` body")
            return self.comp(args[0], env, lambda v: k(V(f"(Hex.Outcome.err {v.code})", ("res", "outcome", None))))
        m = re.fullmatch(r"(u8|u16|u32)::from_str_radix", key)
        if m and len(args) == 2:
            if args[1] != ("num", "16"): fail("from_str_radix: the radix must be the literal 16")
            def go(s):
                if s.ty != "str": fail("from_str_radix on a value that is not a `&str`")
                return k(V(f"(HexPrim.fromStrRadix16 {UINTS[m.group(1)]} {s.code})", ("res", "pres", m.group(1))))
            return self.comp(args[0], env, go)
        m = re.fullmatch(r"(u16|u32)::from_be_bytes", key)
        if m and len(args) == 1:
            return self.comp(args[0], env, lambda v: k(V(f"(HexPrim.{m.group(1)}FromBeBytes {v.code})", m.group(1))))
        if f[1][0] == "FromHexError" and len(f[1]) == 2 and f[1][1] in ENUM_FROMHEX and len(args) == 1:
            mk, _, keep = ENUM_FROMHEX[f[1][1]]
            return self.comp(args[0], env, lambda v: k(V(f"({mk} {v.code})" if keep else mk, "FromHexError")))
        def go(vs):
            r = self.lookup(key, vs, key)
            if r is None: fail(f"call of `{key}`: not a registered callee of this body")
            return k(r)
        return self.comps(args, env, go)

    def closure(self, c, arg_ty, env):
        """`|pat| body` -> (`fun x => body`) with the pattern bound by projection"""
        if c[0] != "closure" or len(c[1]) != 1: fail("expected a one-parameter closure")
        x = self.fresh("a")
        env2 = dict(env)
        self.bind(c[1][0][0], V(x, arg_ty), env2)
        body = self.pure(c[2], env2)
        return f"(fun {x} => {body.code})", body

    def mcall(self, e, env, k):
        recv, m, args = e[1], e[2], e[3]
        def go(r):
            n = len(args)
            if m == "len" and n == 0 and r.ty == "str": return k(V(f"{r.code}.length", "usize"))
            if m == "strip_prefix" and n == 1 and r.ty == "str":
                return self.comp(args[0], env, lambda c: k(V(f"(HexPrim.stripPrefixChar {c.code} {r.code})", ("option", "str"))) if c.ty == "char" else fail("strip_prefix: the pattern must be a char literal"))
            if m == "map_or" and n == 2 and isinstance(r.ty, tuple) and r.ty[0] == "option":
                fn, body = self.closure(args[1], r.ty[1], env)
                return self.comp(args[0], env, lambda d: k(V(f"(HexPrim.mapOr {d.code} {fn} {r.code})", body.ty)))
            if m == "unwrap_or" and n == 1 and isinstance(r.ty, tuple) and r.ty[0] == "option":
                return self.comp(args[0], env, lambda d: k(V(f"(HexPrim.unwrapOr {d.code} {r.code})", r.ty[1])))
            if m == "copied" and n == 0 and isinstance(r.ty, tuple) and r.ty[0] == "option": return k(V(f"(HexPrim.copied {r.code})", r.ty))
            if m == "char_indices" and n == 0 and r.ty == "str": return k(V(f"(HexPrim.charIndices {r.code})", ("iter", ("tuple", ["usize", "char"]))))
            if m == "find" and n == 1 and isinstance(r.ty, tuple) and r.ty[0] == "iter":
                fn, _ = self.closure(args[0], r.ty[1], env)
                return k(V(f"(HexPrim.find {fn} {r.code})", ("option", r.ty[1])))
            if m == "is_ascii_hexdigit" and n == 0 and r.ty == "char": return k(V(f"(HexPrim.Ch.isAsciiHexdigit {r.code})", "bool"))
            if m == "len_utf8" and n == 0 and r.ty == "char": return k(V(f"(HexPrim.Ch.lenUtf8 {r.code})", "usize"))
            if m == "map" and n == 1 and isinstance(r.ty, tuple) and r.ty[:2] == ("res", "pres"):
                fn, body = self.closure(args[0], r.ty[2], env)
                return k(V(f"(HexPrim.PRes.map {fn} {r.code})", ("res", "pres", body.ty)))
            if m == "to_be_bytes" and n == 0 and r.ty in ("u16", "u32"): return k(V(f"(HexPrim.{r.ty}ToBeBytes {r.code})", ("array", UINTS[r.ty] // 8)))
            rn = R_recv_name(recv)
            me = [] if r.code is None else [r]          # the formatter `f` and statics are not values of the translation
            for key in ([f"{rn}.{m}"] if rn else []) + ([f"{r.ty}.{m}"] if isinstance(r.ty, str) else []) + ["." + m]:
                if self.lookup(key, [], key) is not None:
                    return self.comps(args, env, lambda vs, key=key: k(self.lookup(key, me + vs, key)))
            fail(f"method .{m}() on `{rn}` (type {r.ty}): not in the subset and not a registered callee of this body")
        if recv[0] == "path" and len(recv[1]) == 1 and recv[1][0] not in env and recv[1][0].isupper(): return go(V(None, "static"))
        return self.comp(recv, env, go)

    def struct_lit(self, e, env, k):
        name = e[1][1][-1]
        if name == "Self": name = self.spec.get("self_struct") or fail("`Self { .. }` in a body without `self_struct`")
        if name not in STRUCTS: fail(f"struct literal of the unregistered struct {name}")
        if e[3] is not None: fail("struct update syntax is outside the subset")
        _, mk, fields, phantoms = STRUCTS[name]
        got = dict(e[2])
        if [f for f, _ in e[2]] != fields + phantoms and sorted(got) != sorted(fields + phantoms):
            fail(f"struct literal {name}: fields {sorted(got)}, declared {sorted(fields + phantoms)}")
        for p in phantoms:
            if got[p] != ("path", ["PhantomData"], []): fail(f"struct literal {name}: `{p}` must be `PhantomData`")
        # Rust evaluates the field expressions in the order written
        order = [f for f, _ in e[2] if f in fields]
        return self.comps([got[f] for f in order], env,
                          lambda vs: k(V("(" + " ".join([mk] + [dict(zip(order, vs))[f].code for f in fields]) + ")", ("struct", name, []))))

    def match(self, e, env, k):
        scrut, arms = e[1], e[2]
        def go(s):
            pats = [p for ps, _ in arms for p in ps]
            if all(p[0] in ("plit", "pwild") for p in pats):
                if s.ty != "usize": fail("`match` on integer literals: the scrutinee must be a `usize`")
                if len(arms[-1][0]) != 1 or arms[-1][0][0][0] != "pwild": fail("`match` on integer literals: the last arm must be `_`")
                out = ""
                for ps, body in arms[:-1]:
                    if any(p[0] != "plit" for p in ps): fail("`_` before the last arm")
                    cond = " ∨ ".join(f"{s.code} = {int(p[1])}" for p in ps)
                    out += f"if {cond} then\n{self.comp(body, env, k)}\nelse "
                return "(" + out + self.comp(arms[-1][1], env, k) + ")"
            if isinstance(s.ty, tuple) and s.ty[0] == "option":
                out = f"(match {s.code} with"
                seen = []
                for ps, body in arms:
                    if len(ps) != 1 or ps[0][0] != "penum" or ps[0][1] not in (["Some"], ["None"]): fail("`match` on an Option: arms must be `Some(p)` / `None`")
                    seen.append(ps[0][1][0])
                    if ps[0][1] == ["Some"]:
                        x = self.fresh("m"); env2 = dict(env)
                        if not ps[0][2] or len(ps[0][2]) != 1: fail("`Some(p)`: one sub-pattern")
                        self.bind(ps[0][2][0], V(x, s.ty[1]), env2)
                        out += f"\n| some {x} =>\n{self.comp(body, env2, k)}"
                    else:
                        out += f"\n| none =>\n{self.comp(body, env, k)}"
                if sorted(seen) != ["None", "Some"]: fail("`match` on an Option: exactly the arms `Some(..)` and `None`")
                return out + ")"
            fail(f"`match` on a scrutinee of type {s.ty} is outside the subset")
        return self.comp(scrut, env, go)

    def write(self, e, env, k):
        q = HParser(e[1])
        f = q.expr(); q.expect(",")
        if q.peek()[0] != "str": fail("write!: expected a format string literal")
        fmt = q.next()[1][1:-1]
        pos, named = [], {}
        while q.eat(","):
            if q.peek()[0] == "eof": break
            if q.peek()[0] == "id" and q.peek(1) == ("op", "="):
                n = q.next()[1]; q.i += 1; named[n] = q.expr()
            else:
                pos.append(q.expr())
        if q.peek()[0] != "eof": fail("write!: trailing tokens")
        if f != ("path", ["f"], []): fail("write!: the first argument must be the formatter `f`")
        pieces = re.findall(r"\{:0(\w+)\$([xX])\}", fmt)
        if "".join("{:0%s$%s}" % p for p in pieces) != fmt: fail(f"write!: the format string {fmt!r} is not a sequence of `{{:0<name>$x}}` / `{{:0<name>$X}}` placeholders")
        if len(pieces) != len(pos): fail("write!: number of placeholders and positional arguments differ")
        if sorted(named) != sorted({w for w, _ in pieces}): fail("write!: the named arguments are not exactly the widths the placeholders name")
        def go(ws):
            wenv = dict(zip(sorted(named), ws))
            def go2(vs):
                out = []
                for (w, x), v in zip(pieces, vs):
                    key = f"fmt:{v.ty}:{x}"
                    r = self.lookup(key, [wenv[w], v], key)
                    if r is None: fail(f"write!: no dictionary entry `{key}` (formatting a value of declared type {v.ty} with `{x}`)")
                    out.append(r.code)
                return k(V("(HexPrim.write [" + ", ".join(out) + "])", "fmt::Result"))
            return self.comps(pos, env, go2)
        return self.comps([named[n] for n in sorted(named)], env, go)

    # ---- patterns / blocks
    def bind(self, pat, v, env):
        t = pat[0]
        if t == "pwild": return
        if t == "pid":
            env[pat[1]] = v; return
        if t in ("ptuple", "parray"):
            n = len(pat[1])
            tys = v.ty[1] if isinstance(v.ty, tuple) and v.ty[0] == "tuple" and len(v.ty[1]) == n else [self.spec.get("elem_ty")] * n
            if isinstance(v.ty, tuple) and v.ty[0] in ("tuple",) and len(v.ty[1]) != n: fail("tuple pattern of the wrong arity")
            if isinstance(v.ty, tuple) and v.ty[0] == "array" and v.ty[1] != n: fail("array pattern of the wrong length")
            for i, p in enumerate(pat[1]): self.bind(p, V(R.tup_proj(v.code, i, n), tys[i]), env)
            return
        fail(f"pattern {t} is outside the subset")

    def block(self, b, env, k, i=0):
        stmts, tail = b[1], b[2]
        if i == len(stmts):
            if tail is None: fail("a block without value")
            return self.comp(tail, env, k)
        s = stmts[i]
        if s[0] == "let":
            if s[3] is None: fail("`let` without initialiser")
            def go(v):
                env2 = dict(env)
                if s[2] is not None and isinstance(v.ty, tuple) and v.ty[0] == "array":
                    m = re.fullmatch(r"\[T;(\d+)\]", norm(s[2]))
                    if not m or int(m.group(1)) != v.ty[1]: fail(f"`let ..: {s[2]}`: the annotation does not fit an array of {v.ty[1]}")
                if s[1][0] == "pid":
                    x = camel(s[1][1]); env2[s[1][1]] = V(x, v.ty)
                    return f"let {x} := {v.code};\n{self.block(b, env2, k, i + 1)}"
                self.bind(s[1], v, env2)
                return self.block(b, env2, k, i + 1)
            return self.comp(s[3], env, go)
        if s[0] == "expr":
            return self.comp(s[1], env, lambda v: self.block(b, env, k, i + 1))
        fail(f"statement {s[0]} is outside the subset")

def R_recv_name(e):
    if e[0] == "path" and len(e[1]) == 1: return e[1][0]
    if e[0] == "path": return "::".join(e[1])
    if e[0] == "field": return e[2]
    if e[0] == "unary" and e[1] in "&*": return R_recv_name(e[2])
    return None

# ------------------------------------------------------------------------------------------------ registrations
def B(name, file, where, fn, model, ctx, params, ret, **kw):
    return dict(name=name, file=file, where=where, fn=fn, model=model, ctx=ctx, params=params, ret=ret, **kw)

STR = ("&str", "Hex.Bytes", "str")
def hexfn(name, fn, comp, n, model):
    tup = "(" + ", ".join([comp] * n) + ")"
    return B(name, "rgb/hex.rs", None, fn, model, "pres", [("hex",) + STR], (f"Result<{tup}, ParseIntError>", "HexPrim.PRes (" + " × ".join(["Nat"] * n) + ")"),
             stmt=f"∀ hex, HexPrim.PRes.lift HexPrim.t{n} ({NS}.{name} hex) = {model} hex")

RGB3, RGBA4 = "Prim.Rgb3 Nat", "Prim.AlphaOf (Prim.Rgb3 Nat) Nat"
LUMA1, LUMAA2 = "Prim.Luma1 Nat", "Prim.AlphaOf (Prim.Luma1 Nat) Nat"
def fromstr(name, ty, comp, model, narrower):
    """`impl<S> FromStr for <ty><S, comp>`; `narrower`: the component types whose `from_str` + `into_format()` it may fall back to"""
    alpha = ty == "Rgba"
    lean_c = f"Prim.AlphaOf (Prim.Rgb3 {{0}}) {{0}}" if alpha else "Prim.Rgb3 {0}"
    out_c = "Nat" if comp in UINTS else "φ"
    d, dty = [], {}
    for c in narrower:
        key = f"{ty}::from_str<S,{c}>"
        if c != "u8":       # the u8 impls have no dictionary of their own: called directly
            d.append((key, f"fromStr{c.upper()}", f"Hex.Bytes → Hex.Outcome ({lean_c.format('Nat')})"))
            dty[key] = ("res", "outcome", f"{ty}<{c}>")
        d.append((f"{ty}<{c}>.into_format", f"intoFormat{c.upper()}", f"{lean_c.format('Nat')} → {lean_c.format(out_c)}"))
    return B(name, "rgb/rgb.rs", impl_of(f"FromStr for {ty}<S, {comp}>"), "from_str", model, "outcome", [("hex",) + STR],
             ("Result<Self, Self::Err>", f"Hex.Outcome ({lean_c.format(out_c)})"), dict=d, dict_ty=dty, targs="" if comp in UINTS else "{φ : Type}",
             assoc=("Err", "FromHexError"), self_ty=f"{ty}<{comp}>")

def fmt(name, file, head, model, x, dict_):
    return B(name, file, impl_of(head), "fmt", model, "pure", [("self", "&self", None, None), ("f", "&mut fmt::Formatter", None, None)],
             ("fmt::Result", "Hex.Bytes"), dict=[("f.width", "width", "Option Nat"), ("core::mem::size_of<T>", "sizeOfT", "Nat")] + dict_,
             dict_ty={"f.width": ("option", "usize"), "core::mem::size_of<T>": "usize"}, x=x)

T4, T2 = "{0} × {0} × {0} × {0}", "{0} × {0}"
def order_impl(order, colour, n): return impl_of(f"ComponentOrder<{colour}<S, T>, [T; {n}]> for {order}")
def chan(order, file, colour, n, model_orders):
    low = order.lower()
    col_ty = ("struct", "Alpha", [("C", ("struct", "Rgb" if n == 4 else "Luma", [])), ("T", "T")])
    lean_col = ("Prim.AlphaOf (Prim.Rgb3 τ) τ" if n == 4 else "Prim.AlphaOf (Prim.Luma1 τ) τ")
    arr = (T4 if n == 4 else T2).format("τ")
    into = "HexPrim.rgbaIntoArray" if n == 4 else "HexPrim.lumaaIntoArray"
    return [
        B(f"{low}Pack", file, order_impl(order, colour, n), "pack", "Packed.packArr", "pure", [("color", f"{colour}<S, T>", lean_col, col_ty)], (f"[T; {n}]", arr),
          targs="{τ : Type}", prims={"color.into": (into, ("array", n))}, elem_ty="T", order=(order, model_orders)),
        B(f"{low}Unpack", file, order_impl(order, colour, n), "unpack", "Packed.unpackArr", "pure", [("packed", f"[T; {n}]", arr, ("array", n))], (f"{colour}<S, T>", lean_col),
          targs="{τ : Type}", prims={"packed.into": ("HexPrim.lumaaFromArray", col_ty)} if n == 2 else {}, elem_ty="T", order=(order, model_orders)),
    ]

def blanket(bits, n):
    arr = (T4 if n == 4 else T2).format("Nat")
    d = [("T::pack", "pack", f"γ → {arr}"), ("T::unpack", "unpack", f"{arr} → γ")]
    dty = {"T::pack": ("array", n), "T::unpack": "C"}
    w = impl_of(f"ComponentOrder<C, u{bits}> for T")
    return [B(f"orderPackU{bits}", "cast/packed.rs", w, "pack", f"Packed.packU{bits}", "pure", [("color", "C", "γ", "C")], (f"u{bits}", "Nat"), targs="{γ : Type}", dict=d, dict_ty=dty),
            B(f"orderUnpackU{bits}", "cast/packed.rs", w, "unpack", f"Packed.unpackU{bits}", "pure", [("packed", f"u{bits}", "Nat", f"u{bits}")], ("C", "γ"), targs="{γ : Type}", dict=d, dict_ty=dty)]

def via_order(prefix, file, colour, alpha, bits, models):
    """`<colour>::into_uN::<O>` / `from_uN::<O>` (inherent) and the four plain `From` impls that name an order"""
    rgb = colour == "Rgb"
    base_ty = (RGB3 if rgb else LUMA1)
    full_ty = (RGBA4 if rgb else LUMAA2)
    self_lean = full_ty if alpha else base_ty
    A = colour + "a"
    name = (colour if not alpha else A)
    tyname = f"{name}<S, u8>"
    full_rty = ("struct", "Alpha", [("C", ("struct", colour, [])), ("T", "u8")])
    self_rty = full_rty if alpha else ("struct", colour, [])
    U = f"u{bits}"
    d = [("O::pack", "pack", f"{full_ty} → Nat"), ("O::unpack", "unpack", f"Nat → {full_ty}"), (f"{A}::from", f"{A.lower()}From", f"{base_ty} → {full_ty}")]
    dty = {"O::pack": U, "O::unpack": full_rty, f"{A}::from": full_rty}
    inh = impl_of(f"{A}<S, u8>") if alpha else impl_of(f"{colour}<S, u8>")
    orders_file = "rgb/channels.rs" if rgb else "luma/channels.rs"
    oty, onames = ORDERS[orders_file]
    low = name[0].lower() + name[1:]
    return [
        B(f"{low}IntoU{bits}", file, inh, f"into_{U}", models[0], "pure", [("self", "self", self_lean, self_rty)], (U, "Nat"), dict=d, dict_ty=dty),
        B(f"{low}FromU{bits}", file, inh, f"from_{U}", models[1], "pure", [("color", U, "Nat", U)], ("Self", self_lean), dict=d, dict_ty=dty),
        B(f"{low}OfU{bits}", file, impl_of(f"From<{U}> for {tyname}"), "from", models[1], "pure", [("color", U, "Nat", U)], ("Self", self_lean),
          dict=[(rf"Self::from_{U}<super::channels::(\w+)>", f"from{U.upper()}", f"{oty} → Nat → {self_lean}", f"from{U.upper()} {oty}.{{0}}")], orders=(oty, onames), default_order=True),
        B(f"{low}ToU{bits}", file, impl_of(f"From<{tyname}> for {U}"), "from", models[0], "pure", [("color", tyname, self_lean, self_rty)], ("Self", "Nat"),
          dict=[(rf"{name}::into_{U}<super::channels::(\w+)>", f"into{U.upper()}", f"{oty} → {self_lean} → Nat", f"into{U.upper()} {oty}.{{0}}")], orders=(oty, onames), default_order=True),
    ]

BODIES = [
    # ---- rgb/hex.rs
    B("checkHexDigits", "rgb/hex.rs", None, "check_hex_digits", "Hex.checkHexDigits", "pres", [("hex",) + STR], ("Result<(), ParseIntError>", "HexPrim.PRes Unit")),
    hexfn("rgbFromHex4bit", "rgb_from_hex_4bit", "u8", 3, "Hex.rgbFromHex4bit"), hexfn("rgbaFromHex4bit", "rgba_from_hex_4bit", "u8", 4, "Hex.rgbaFromHex4bit"),
    hexfn("rgbFromHex8bit", "rgb_from_hex_8bit", "u8", 3, "Hex.rgbFromHex8bit"), hexfn("rgbaFromHex8bit", "rgba_from_hex_8bit", "u8", 4, "Hex.rgbaFromHex8bit"),
    hexfn("rgbFromHex16bit", "rgb_from_hex_16bit", "u16", 3, "Hex.rgbFromHex16bit"), hexfn("rgbaFromHex16bit", "rgba_from_hex_16bit", "u16", 4, "Hex.rgbaFromHex16bit"),
    hexfn("rgbFromHex32bit", "rgb_from_hex_32bit", "u32", 3, "Hex.rgbFromHex32bit"), hexfn("rgbaFromHex32bit", "rgba_from_hex_32bit", "u32", 4, "Hex.rgbaFromHex32bit"),
    # ---- rgb/rgb.rs: the error enum's conversions, constructors
    B("fromParseIntError", "rgb/rgb.rs", impl_of("From<ParseIntError> for FromHexError"), "from", "Hex.Err.parseInt", "pure", [("err", "ParseIntError", "Hex.IntErr", "ParseIntError")],
      ("FromHexError", "Hex.Err"), as_key="From<ParseIntError> for FromHexError"),
    B("fromStaticStr", "rgb/rgb.rs", impl_of("From<&'static str> for FromHexError"), "from", "Hex.Err.hexFormat", "pure", [("err", "&'static str", "Unit", "strlit")], ("FromHexError", "Hex.Err")),
    B("rgbNew", "rgb/rgb.rs", impl_of("Rgb<S, T>"), "new", "Prim.Rgb3.mk", "pure", [("red", "T", "τ", "T"), ("green", "T", "τ", "T"), ("blue", "T", "τ", "T")], ("Rgb<S, T>", "Prim.Rgb3 τ"),
      targs="{τ : Type}", as_key=["Self::new@Rgb", "Rgb::new"], ty=("struct", "Rgb", [])),
    B("rgbFromComponents", "rgb/rgb.rs", impl_of("Rgb<S, T>"), "from_components", "HexPrim.t3", "pure", [("t", "(T, T, T)", "τ × τ × τ", ("tuple", ["T", "T", "T"]))], ("Self", "Prim.Rgb3 τ"),
      targs="{τ : Type}", self_name="Rgb", as_key="Self::from_components@Rgb", ty=("struct", "Rgb", [])),
    B("rgbaNew", "rgb/rgb.rs", impl_of("Alpha<Rgb<S, T>, A>"), "new", "Prim.AlphaOf.mk", "pure", [("red", "T", "τ", "T"), ("green", "T", "τ", "T"), ("blue", "T", "τ", "T"), ("alpha", "A", "τ", "A")],
      ("Self", "Prim.AlphaOf (Prim.Rgb3 τ) τ"), targs="{τ : Type}", self_struct="Alpha", as_key=["Self::new@Rgba", "rgb::Rgba::new"], ty=("struct", "Alpha", [("C", ("struct", "Rgb", []))])),
    B("rgbaFromComponents", "rgb/rgb.rs", impl_of("Alpha<Rgb<S, T>, A>"), "from_components", "HexPrim.t4", "pure", [("t", "(T, T, T, A)", "τ × τ × τ × τ", ("tuple", ["T", "T", "T", "A"]))],
      ("Self", "Prim.AlphaOf (Prim.Rgb3 τ) τ"), targs="{τ : Type}", self_name="Rgba", as_key="Self::from_components@Rgba", ty=("struct", "Alpha", [("C", ("struct", "Rgb", []))])),
    B("lumaNew", "luma/luma.rs", impl_of("Luma<S, T>"), "new", "Prim.Luma1.mk", "pure", [("luma", "T", "τ", "T")], ("Luma<S, T>", "Prim.Luma1 τ"), targs="{τ : Type}", as_key=["Luma::new"], ty=("struct", "Luma", [])),
    B("lumaaNew", "luma/luma.rs", impl_of("Alpha<Luma<S, T>, A>"), "new", "Prim.AlphaOf.mk", "pure", [("luma", "T", "τ", "T"), ("alpha", "A", "τ", "A")],
      ("Self", "Prim.AlphaOf (Prim.Luma1 τ) τ"), targs="{τ : Type}", self_struct="Alpha", as_key=["luma::Lumaa::new"], ty=("struct", "Alpha", [("C", ("struct", "Luma", []))])),
    # ---- the ten FromStr impls
    fromstr("fromStrRgbU8", "Rgb", "u8", "Hex.fromStrRgbU8", []), fromstr("fromStrRgbaU8", "Rgba", "u8", "Hex.fromStrRgbaU8", []),
    fromstr("fromStrRgbU16", "Rgb", "u16", "Hex.fromStrRgbU16", ["u8"]), fromstr("fromStrRgbaU16", "Rgba", "u16", "Hex.fromStrRgbaU16", ["u8"]),
    fromstr("fromStrRgbU32", "Rgb", "u32", "Hex.fromStrRgbU32", ["u8", "u16"]), fromstr("fromStrRgbaU32", "Rgba", "u32", "Hex.fromStrRgbaU32", ["u8", "u16"]),
    fromstr("fromStrRgbF32", "Rgb", "f32", "Hex.fromStrRgbF32", ["u8", "u16", "u32"]), fromstr("fromStrRgbaF32", "Rgba", "f32", "Hex.fromStrRgbaF32", ["u8", "u16", "u32"]),
    fromstr("fromStrRgbF64", "Rgb", "f64", "Hex.fromStrRgbF64", ["u8", "u16", "u32"]), fromstr("fromStrRgbaF64", "Rgba", "f64", "Hex.fromStrRgbaF64", ["u8", "u16", "u32"]),
    # ---- LowerHex / UpperHex
    fmt("rgbLowerHex", "rgb/rgb.rs", "fmt::LowerHex for Rgb<S, T>", "Hex.fmtRgb", "x", [("fmt:T:x", "fmtLower", "Nat → τ → Hex.Bytes"), ("fmt:T:X", "fmtUpper", "Nat → τ → Hex.Bytes")]),
    fmt("rgbUpperHex", "rgb/rgb.rs", "fmt::UpperHex for Rgb<S, T>", "Hex.fmtRgb", "X", [("fmt:T:x", "fmtLower", "Nat → τ → Hex.Bytes"), ("fmt:T:X", "fmtUpper", "Nat → τ → Hex.Bytes")]),
    fmt("lumaLowerHex", "luma/luma.rs", "fmt::LowerHex for Luma<S, T>", "Hex.fmtRgb", "x", [("fmt:T:x", "fmtLower", "Nat → τ → Hex.Bytes"), ("fmt:T:X", "fmtUpper", "Nat → τ → Hex.Bytes")]),
    fmt("lumaUpperHex", "luma/luma.rs", "fmt::UpperHex for Luma<S, T>", "Hex.fmtRgb", "X", [("fmt:T:x", "fmtLower", "Nat → τ → Hex.Bytes"), ("fmt:T:X", "fmtUpper", "Nat → τ → Hex.Bytes")]),
    fmt("alphaLowerHex", "alpha/alpha.rs", "fmt::LowerHex for Alpha<C, T>", "Hex.fmtRgba", "x",
        [("fmt:C:x", "fmtColorLower", "Nat → γ → Hex.Bytes"), ("fmt:C:X", "fmtColorUpper", "Nat → γ → Hex.Bytes"), ("fmt:T:x", "fmtLower", "Nat → τ → Hex.Bytes"), ("fmt:T:X", "fmtUpper", "Nat → τ → Hex.Bytes")]),
    fmt("alphaUpperHex", "alpha/alpha.rs", "fmt::UpperHex for Alpha<C, T>", "Hex.fmtRgba", "X",
        [("fmt:C:x", "fmtColorLower", "Nat → γ → Hex.Bytes"), ("fmt:C:X", "fmtColorUpper", "Nat → γ → Hex.Bytes"), ("fmt:T:x", "fmtLower", "Nat → τ → Hex.Bytes"), ("fmt:T:X", "fmtUpper", "Nat → τ → Hex.Bytes")]),
    # ---- cast/packed.rs
    B("packedPack", "cast/packed.rs", impl_of("Packed<O, P>"), "pack", "Packed.packU32", "pure", [("color", "C", "γ", "C")], ("Self", "HexPrim.PackedOf π"), targs="{γ π : Type}",
      dict=[("O::pack", "pack", "γ → π"), ("O::unpack", "unpack", "π → γ")], dict_ty={"O::pack": "P", "O::unpack": "C"}),
    B("packedUnpack", "cast/packed.rs", impl_of("Packed<O, P>"), "unpack", "Packed.unpackU32", "pure", [("self", "self", "HexPrim.PackedOf π", ("struct", "Packed", []))], ("C", "γ"), targs="{γ π : Type}",
      dict=[("O::pack", "pack", "γ → π"), ("O::unpack", "unpack", "π → γ")], dict_ty={"O::pack": "P", "O::unpack": "C"}),
    *blanket(16, 2), *blanket(32, 4),
    # ---- rgb/channels.rs, luma/channels.rs
    *[b for o in ORDERS["rgb/channels.rs"][1] for b in chan(o, "rgb/channels.rs", "rgb::Rgba", 4, "Packed.rgbaOrders")],
    *[b for o in ORDERS["luma/channels.rs"][1] for b in chan(o, "luma/channels.rs", "luma::Lumaa", 2, "Packed.lumaOrders")],
    # ---- alpha/alpha.rs: `Rgba::from(rgb)` / `Lumaa::from(luma)`
    B("alphaFrom", "alpha/alpha.rs", impl_of("From<C> for Alpha<C, T>"), "from", "Packed.withAlpha", "pure", [("color", "C", "γ", "C")], ("Alpha<C, T>", "Prim.AlphaOf γ τ"), targs="{γ τ : Type}",
      dict=[("Self::max_alpha", "maxAlpha", "τ"), ("T::max_intensity", "maxIntensity", "τ"), ("T::one", "one", "τ")], call0=True),
    # ---- into_u32 / from_u32 / From<u32> ..
    *via_order("rgb", "rgb/rgb.rs", "Rgb", False, 32, ("Packed.rgbIntoU32", "Packed.rgbFromU32")),
    *via_order("rgb", "rgb/rgb.rs", "Rgb", True, 32, ("Packed.packU32", "Packed.unpackU32")),
    *via_order("luma", "luma/luma.rs", "Luma", False, 16, ("Packed.lumaIntoU16", "Packed.lumaFromU16")),
    *via_order("luma", "luma/luma.rs", "Luma", True, 16, ("Packed.packU16", "Packed.unpackU16")),
    # ---- named.rs
    B("namedFromStr", "named.rs", None, "from_str", "Named.fromStrNat", "pure", [("name", "&str", "κ", "str")], ("Option<crate::Srgb<u8>>", "Option ν"), targs="{κ ν : Type}",
      dict=[("COLORS.get", "get", "κ → Option ν")], dict_ty={"COLORS.get": ("option", "Srgb<u8>")}),
]

UNTRANSLATED = [
    "`core`: `uN::from_str_radix`, `str` indexing / `is_char_boundary`, `char::is_ascii_hexdigit` (*read* as `Hex.fromStrRadix16`, `Hex.slice`, `Hex.isHexDigit`, which transcribe core; replayed on every run)",
    "`{:0width$x}` of an integer component (`core::fmt`): the dictionary entries `fmtLower` / `fmtUpper`, instantiated at `Hex.fmtComp` in the ties (model of core; correspondence)",
    "`phf::Map::get`: the dictionary entry `get` of `namedFromStr`, instantiated at `Phf.get` over the extracted tables (C12_Named proves it equal to an association list)",
    "`impl Display / Error for FromHexError` (message text only), the message strings inside `HexFormatError(..)` / `RgbaHexFormatError(..)` (dropped)",
    "`Rgb::from_hex` (one line: `hex.parse()` -> the `FromStr` impl, trait dispatch), `into_format` (family `format` of rust2lean_glue.py; a dictionary entry here)",
    "`From<Rgb> for Packed`, `From<Packed> for Rgb/Rgba/Luma/Lumaa`, `ComponentOrder<C, u8/u64/u128>` (same shape as the u16/u32 impls; not used by the plain-integer conversions of C12)",
    "`impl_array_casts!` (`color.into()` between a colour and `[T; N]`: unsafe transmute, *read* as the fields in declaration order - `HexPrim.rgbaIntoArray`; its soundness is C04)",
    "`named::entries / names / colors` and the iterator impls of named.rs (forwarding to `phf`'s iterators)",
]

# ------------------------------------------------------------------------------------------------ driver
def parse_params(text):
    """[(pattern AST | 'self', type text)]"""
    out = []
    for part in split_top(text):
        part = part.strip()
        if not part: continue
        if re.fullmatch(r"(?:&\s*)?(?:mut\s+)?self", part): out.append(("self", part)); continue
        q = HParser(tokenize(part))
        p = q.pattern(); q.expect(":")
        out.append((p, " ".join(v for _, v in q.t[q.i:])))
    return out

def translate(spec, read_src, registry):
    src = read_src(spec["file"])
    where = spec["where"]
    params, ret, body = find_fn(src, where[0] if where else None, spec["fn"], spec.get("nth", 0))
    if norm(ret) != norm(spec["ret"][0]): fail(f"return type is `{ret}`, registered `{spec['ret'][0]}`")
    if spec.get("assoc"):
        i = src.index("{", re.search(where[0], src).end() - 1)
        item = src[i:R.match_brace(src, i)]
        if not re.search(r"\btype\s+" + spec["assoc"][0] + r"\s*=\s*" + spec["assoc"][1] + r"\s*;", item): fail(f"`type {spec['assoc'][0]} = {spec['assoc'][1]};` not found in the impl")
    got = parse_params(params)
    if len(got) != len(spec["params"]): fail(f"{len(got)} parameters, registered {len(spec['params'])}")
    L = HexLower(spec, dict(registry))
    env, binders = {}, []
    for (pat, ty), (rname, rty, lean_ty, *vt) in zip(got, spec["params"]):
        vt = vt[0] if vt else None
        if norm(ty) != norm(rty) and not (pat == "self" and rname == "self"): fail(f"parameter `{rname}`: type `{ty}`, registered `{rty}`")
        if pat == "self":
            if rname != "self": fail("unexpected `self`")
            if lean_ty is None:         # formatting impls: the value formatted
                lean_ty, vt = spec["self_lean"], spec["self_vt"]
            env["self"] = V("self_", vt); binders.append(f"(self_ : {lean_ty})"); continue
        if pat == ("pid", "f", False) and lean_ty is None:
            env["f"] = V(None, "formatter"); continue
        if pat[0] == "pid":
            if pat[1] != rname: fail(f"parameter `{pat[1]}`, registered `{rname}`")
            env[pat[1]] = V(camel(pat[1]), vt); binders.append(f"({camel(pat[1])} : {lean_ty})")
        else:
            L.bind(pat, V(rname, vt), env); binders.append(f"({rname} : {lean_ty})")
    # per-body primitive readings of `.into()` and local aliases of translated callees
    for key, (code, ty) in spec.get("prims", {}).items():
        L.dict.append((key, code, None, None)); spec.setdefault("dict_ty", {})[key] = ty
    for key in list(L.registry):
        if "@" in key:
            base, at = key.split("@")
            if at == spec.get("self_name", spec.get("self_ty", "").split("<")[0]): L.registry[base] = L.registry[key]
    term = L.block(parse_block(body), env, lambda v: v.code)
    dict_binders = [f"({n} : {t})" for (_, n, t, _) in L.dict if t is not None]
    seen, db = set(), []
    for b in dict_binders:
        if b not in seen: seen.add(b); db.append(b)
    sig = " ".join(x for x in [spec.get("targs", "")] + db + binders if x)
    label = (where[1] if where else "free function")
    return f"/-- `{spec['file']}`: `fn {spec['fn']}` of `{label}` -/\ndef {spec['name']} {sig} : {spec['ret'][1]} :=\n{R.indent(term, 2)}\n"

FMT_SELF = {"Rgb": ("Prim.Rgb3 τ", ("struct", "Rgb", []), "{τ : Type}"), "Luma": ("Prim.Luma1 τ", ("struct", "Luma", []), "{τ : Type}"),
            "Alpha": ("Prim.AlphaOf γ τ", ("struct", "Alpha", []), "{γ τ : Type}")}

def generate(read_src, tie_text):
    verify_decls(read_src)
    registry, defs, tied = {}, [], []
    for spec in BODIES:
        spec = dict(spec)
        if spec["fn"] == "fmt":
            s = re.search(r"for (\w+)<", spec["where"][1]).group(1)
            spec["self_lean"], spec["self_vt"], spec["targs"] = FMT_SELF[s]
        try:
            defs.append(translate(spec, read_src, registry))
        except Untranslatable as e:
            raise Untranslatable(f"body {spec['name']} ({spec['file']}: fn {spec['fn']}): {e}")
        except rust2lean_errors as e:
            raise Untranslatable(f"body {spec['name']} ({spec['file']}: fn {spec['fn']}): {type(e).__name__}: {e}")
        rec = dict(lean=f"{NS}.{spec['name']}", ty=spec.get("ty"))
        if spec["ctx"] in ("pres", "outcome"): rec["ty"] = ("res", spec["ctx"], spec.get("self_ty"))
        keys = spec.get("as_key", [])
        for key in ([keys] if isinstance(keys, str) else keys): registry[key] = rec
        if spec["file"] == "rgb/hex.rs": registry[spec["fn"]] = dict(rec, ty=("res", "pres", hex_ret_ty(spec)))
        if spec["fn"] == "from_str" and spec["file"] == "rgb/rgb.rs" and not spec.get("dict"):
            ty, comp = re.match(r"(\w+)<(\w+)>", spec["self_ty"]).groups()
            registry[f"{ty}::from_str<S,{comp}>"] = dict(rec, ty=("res", "outcome", spec["self_ty"]))
        m = re.search(r"\btheorem\s+tie_" + spec["name"] + r"\b(.*?):=", tie_text, re.S)
        if not m: raise Untranslatable(f"body {spec['name']} is translated but lean/PaletteProofs/Tie_Hex.lean has no theorem tie_{spec['name']}")
        if not (re.search(re.escape(NS) + r"\." + spec["name"] + r"\b", m.group(1)) and re.search(r"(?<![\w.])" + re.escape(spec["model"]) + r"(?![\w])", m.group(1))):
            raise Untranslatable(f"theorem tie_{spec['name']} does not state {NS}.{spec['name']} against {spec['model']}")
        tied.append((spec["name"], spec["model"]))
    head = ["/- GENERATED by tools/extract.py (plugin tools/extract_plugins/hex.py, translator tools/rust2lean_hex.py, family `hex`) from the function bodies of palette/src -- do not edit",
            "",
            "  C12: rgb/hex.rs, the `FromStr` / `LowerHex` / `UpperHex` / `From<u32>` impls of rgb/rgb.rs, luma/luma.rs, alpha/alpha.rs, cast/packed.rs, rgb/channels.rs,",
            "  luma/channels.rs, named.rs.  Each definition is the translation of the *current* text of one Rust function (named in its doc comment); conventions in the",
            "  header of tools/rust2lean_hex.py, readings of the std / language constructs in PaletteModel/BodyPrimHex.lean.  Trait-dispatched callees are parameters.",
            "  `PaletteProofs/Tie_Hex.lean` proves for every input (and every value of the parameters, or at the instantiation written in the statement):",
            ] + ["    " + ", ".join(f"{n} ~ {m}" for n, m in tied[i:i + 4]) for i in range(0, len(tied), 4)] + [
            "",
            "  NOT translated in this family:"] + ["    " + u for u in UNTRANSLATED] + ["-/",
            "import PaletteModel.BodyPrimHex", "import PaletteModel.Packed", "import PaletteModel.Named", "",
            "set_option linter.unusedVariables false   -- every registered dictionary entry stays a parameter, used or not", "",
            f"namespace {NS}", "",
            "/-- names of the translated bodies with the model function their `tie_` theorem relates them to -/",
            "def tiedHex : List (String × String) := [\n" + ",\n".join("  " + ", ".join(f'("{n}", "{m}")' for n, m in tied[i:i + 3]) for i in range(0, len(tied), 3)) + "]", ""]
    return "\n".join(head) + "\n" + "\n".join(defs) + f"\nend {NS}\n"

rust2lean_errors = (KeyError, IndexError, TypeError, AttributeError, ValueError)

def hex_ret_ty(spec):
    m = re.search(r"Result<\((.*)\),", norm(spec["ret"][0]))
    items = [x for x in m.group(1).split(",") if x] if m else []
    return ("tuple", items) if items else "unit"

if __name__ == "__main__":
    repo = os.environ.get("PALETTE_REPO", "/repo")
    def read_src(rel): return strip_comments(open(os.path.join(repo, "palette", "src", rel)).read())
    try:
        fake = "".join(f"theorem tie_{s['name']} : {NS}.{s['name']} {s['model']} := " for s in BODIES)
        root = os.path.dirname(os.path.dirname(os.path.abspath(__file__)))
        tie = os.path.join(root, "lean", "PaletteProofs", "Tie_Hex.lean")
        sys.stdout.write(generate(read_src, open(tie).read() if os.path.exists(tie) and "--no-tie" not in sys.argv else fake))
    except Untranslatable as e:
        print("FAILED:", e); sys.exit(1)
