#!/bin/sh
# process_seeds.sh Cxx [Cyy ...]: for k in 1 2: run the property's check on the patched private copy, confirm the seed, store it
for pid in "$@"; do for k in 1 2 3 4 5 6 7 8 9 10; do
  [ -f /tmp/mut/$pid/_out/patch_$k.diff ] || continue
  /tmp/seedrun/run.sh /tmp/mut/$pid/_out/patch_$k.diff $pid > /tmp/seedrun/proc_${pid}_$k.txt 2>&1
  if grep -q "^VIOLATION.*no-failing-input-found" /tmp/seedrun/last_$pid.log; then det=caught-no-input
  elif grep -q "^VIOLATION" /tmp/seedrun/last_$pid.log; then det=caught-with-input
  else det=missed; fi
  conf=$(/verif/tools/confirm_seed.sh $pid $k | tail -1)
  echo "$pid-$k: detection=$det confirm=$conf :: $(grep -E '^  fails\[|^  broken\[' /tmp/seedrun/last_$pid.log | head -2 | cut -c1-220 | tr '\n' ' ')"
  if [ "$conf" = "CONFIRMED" ]; then python3 /verif/tools/store_seed.py $pid $k $det $pid > /dev/null; fi
done; done
