#!/bin/sh
# process_seeds.sh Cxx [Cyy ...]: for each patch_k: run the property's check on the patched private copy, confirm the seed, store it
# SEEDRUN=/tmp/seedrun<lane> selects the private copy (tools/seedrun_setup.sh <lane>)
SR=${SEEDRUN:-/tmp/seedrun}
for pid in "$@"; do for k in 1 2 3 4 5 6 7 8 9 10 11 12 13 14; do
  [ -f /tmp/mut/$pid/_out/patch_$k.diff ] || continue
  $SR/run.sh /tmp/mut/$pid/_out/patch_$k.diff $pid > $SR/proc_${pid}_$k.txt 2>&1
  if grep -q "^VIOLATION.*no-failing-input-found" $SR/last_$pid.log; then det=caught-no-input
  elif grep -q "^VIOLATION" $SR/last_$pid.log; then det=caught-with-input
  else det=missed; fi
  conf=$(/verif/tools/confirm_seed.sh $pid $k | tail -1)
  echo "$pid-$k: detection=$det confirm=$conf :: $(grep -E '^  fails\[|^  broken\[' $SR/last_$pid.log | head -2 | cut -c1-220 | tr '\n' ' ')"
  if [ "$conf" = "CONFIRMED" ]; then SEEDRUN=$SR python3 /verif/tools/store_seed.py $pid $k $det $pid > /dev/null; fi
done; done
