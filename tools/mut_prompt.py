#!/usr/bin/env python3
"""brief for an independent 'breaker' sub-agent: gets only a property's text and a scratch worktree -- nothing from /verif"""
import json, sys
pid = sys.argv[1]
rnd = int(sys.argv[2]) if len(sys.argv) > 2 else 1
k1, k2 = 2 * rnd - 1, 2 * rnd
prop = [json.loads(l) for l in open('/verif/properties.jsonl') if json.loads(l)['id'] == pid][0]
keep = {k: prop[k] for k in ("id", "title", "statement", "quantifier", "why_tests_cant")}
keep["anchors"] = {"files": prop["anchors"]["files"], "mechanism": prop["anchors"]["mechanism"], "observe_at": prop["anchors"].get("observe_at")}
import glob, os
tried = []
if rnd > 1:
    for m in sorted(glob.glob(f'/verif/seeded/{pid}-*/meta.json')):
        tried.append("- " + json.load(open(m))["summary"][:400])
tried_txt = ("\nChanges that were ALREADY tried by others (do something different: another function, another mechanism, another clause of the property, another type/configuration):\n" + "\n".join(tried) + "\n") if tried else ""
print(f"""You are given a scratch git worktree of the Rust crate Ogeon/palette (a colour management library) at /tmp/mut/{pid} (workspace: palette, palette_derive, integration_tests, ...). Work ONLY inside /tmp/mut/{pid}; do not read or write /repo or /verif. No network: always pass `--offline` to cargo.

A semantic property that the library is supposed to satisfy:
{json.dumps(keep, indent=1)}

{tried_txt}
Your task: produce TWO different, realistic changes to the library source (each a small patch a careless or mistaken maintainer could plausibly commit — a refactor gone slightly wrong, an optimisation, an off-by-one, a dropped guard, a changed constant, a swapped branch, two sites that each look fine alone) such that EACH, applied on its own to the unchanged worktree,
  (1) still compiles (`cargo build --offline -p palette` with default features, and with `--features "random serializing wide bytemuck gamma_lut_u16"`),
  (2) still passes the ENTIRE existing test suite unedited: `cargo test --workspace --no-fail-fast --offline --lib --tests` (871 tests: 12+24+6+4+825) — run it and check the counts,
  (3) BREAKS the property above as stated (within the property's own input domain and tolerances — a real violation, not a rounding-level nit), and
  (4) needs something SPECIFIC to manifest: an unusual input, a particular configuration (type, RGB standard, white point, component type), a multi-step sequence of operations, a boundary value, or two cooperating sites — NOT something ordinary use or a casual spot check would expose at once. Prefer subtle over blatant; the two changes should break different clauses / mechanisms of the property.
For each change also write a demonstration: a small Rust test file `tests/demo_<k>.rs` placed in /tmp/mut/{pid}/integration_tests/tests/ (it can `use palette::...`; check integration_tests/Cargo.toml for available features/deps — if you need a feature that crate does not enable, put the demo as a `#[cfg(test)]`-free example under palette/examples/ or as a doc-free test in palette/tests/ instead and say how to run it) that FAILS with the change applied and PASSES on the unchanged tree. Verify both directions yourself.
Deliverables (write them to /tmp/mut/{pid}/_out/): for k = {k1}, {k2}: `patch_<k>.diff` (unified diff of the library change ONLY, produced with `git diff` against the unchanged tree, demo files excluded), `demo_<k>.rs` (the demonstration, plus a one-line comment at its top saying where to place it and the exact cargo command to run it), and `meta_<k>.json` with keys: property ("{pid}"), summary (what was changed), breaks (which clause of the property and why), needs (what specific input / configuration / sequence is required for the violation to show), witness (the concrete failing input and the wrong vs. right output), commands (what you ran to verify compile / full suite / demo fails with / demo passes without). Leave the worktree itself UNCHANGED at the end (`git checkout -- . && git clean -fd -e _out -e target`), so that only _out/ remains besides build output.
Final message: a short summary of the two changes and confirmation of the four requirements for each.""")
