#!/usr/bin/env python3
"""merge_deepen.py <agent copy> <base commit> [--apply] [--props C01,C02]
Three-way merge, file by file, of a deepening agent's copy of /verif: a file the agent changed (vs. the base commit it was copied from) is
taken when /verif has not changed it since; files changed on both sides are reported.  spec/props.json is merged per property entry
(--props), DESIGN.md / MANIFEST.json / evidence / seeded / Gen are never copied."""
import sys, os, subprocess, json, shutil
src, base = sys.argv[1].rstrip("/"), sys.argv[2]
apply = "--apply" in sys.argv
props = sys.argv[sys.argv.index("--props") + 1].split(",") if "--props" in sys.argv else []
dst = "/verif"
SKIP_DIRS = (".git", "lean/.lake", "harness/target", "out", "replays", "evidence", "seeded", "lean/PaletteModel/Gen", "__pycache__", "tools/__pycache__")
SKIP_FILES = ("DESIGN.md", "MANIFEST.json", "spec/props.json", ".lock", "harness/Cargo.lock")
def base_content(rel):
    r = subprocess.run(["git", "-C", dst, "show", f"{base}:{rel}"], capture_output=True)
    return r.stdout if r.returncode == 0 else None
conflicts = []
for root, dirs, files in os.walk(src):
    rel_root = os.path.relpath(root, src)
    if rel_root == ".": rel_root = ""
    dirs[:] = [d for d in dirs if not any((os.path.join(rel_root, d)).startswith(s) for s in SKIP_DIRS)]
    for f in files:
        rel = os.path.join(rel_root, f)
        if rel in SKIP_FILES or rel.endswith(".pyc"): continue
        a = open(os.path.join(src, rel), "rb").read()
        b0 = base_content(rel)
        if b0 is not None and a == b0: continue          # agent did not touch it
        dp = os.path.join(dst, rel)
        cur = open(dp, "rb").read() if os.path.exists(dp) else None
        if cur == a: continue
        if cur is None and b0 is None: kind = "NEW"
        elif cur == b0: kind = "CHANGED"
        elif b0 is None: kind = "CONFLICT(new on both sides)"
        else: kind = "CONFLICT"
        print(kind, rel)
        if kind.startswith("CONFLICT"): conflicts.append(rel); continue
        if apply:
            os.makedirs(os.path.dirname(dp) or ".", exist_ok=True); shutil.copy(os.path.join(src, rel), dp)
if props:
    pa = json.load(open(os.path.join(src, "spec/props.json"))); pb = json.load(open(os.path.join(dst, "spec/props.json")))
    pbase = json.loads(base_content("spec/props.json"))
    for k in props:
        if pb[k] != pbase[k]: print(f"props.json: entry {k} changed in /verif since base -> merge by hand"); conflicts.append("props:" + k); continue
        if apply: pb[k] = pa[k]
        print("props.json: entry", k, "taken" if apply else "would be taken")
    if apply: json.dump(pb, open(os.path.join(dst, "spec/props.json"), "w"), indent=1, ensure_ascii=False)
print("conflicts:", conflicts)
