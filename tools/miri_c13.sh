#!/bin/sh
# Support (not proof, not part of ./check) for the unsafe residual of C13 (DESIGN 2.9-3): the harness's C13 histories
# (tier "miri": 250 random histories on each of two families, every form and operation) executed under Miri, which checks the
# casts and the ptr::read/ptr::write loop of the in-place conversions for undefined behaviour.
#   tools/miri_c13.sh [outdir]
# -Zmiri-deterministic-floats: Miri otherwise adds random rounding errors to powf/cbrt/..., which breaks the bit-for-bit
# comparison of two evaluations of the same conversion (observed: only "values" clauses fail, by a few ulps, no UB).
set -e
OUT="${1:-/tmp/miri_c13}"
cd "$(dirname "$0")/../harness"
MIRIFLAGS="-Zmiri-disable-isolation -Zmiri-deterministic-floats" CARGO_TARGET_DIR=target/miri cargo +nightly miri run --offline -- C13 miri "${VERIF_SEED:-20260926}" "$OUT"
