#!/bin/sh
# seed_sweep.sh <seed>...: runs every claimed quick check under each given VERIF_SEED; prints only checks that do not exit 0 (flakiness hunt)
cd /verif
for s in "$@"; do
  for p in $(python3 -c "import json; print(' '.join(c['property_id'] for c in json.load(open('MANIFEST.json'))['checks']))"); do
    VERIF_SEED=$s ./check $p quick > out/sweep_${p}_$s.log 2>&1; rc=$?
    [ $rc -ne 0 ] && { echo "seed $s $p rc=$rc"; grep -E "^VIOLATION|fails\[|broken\[" out/sweep_${p}_$s.log | head -5 | cut -c1-300; }
  done
  echo "seed $s done"
done
