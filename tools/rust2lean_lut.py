#!/usr/bin/env python3
"""
rust2lean_lut -- source-text tie for the lookup-table transfer functions (C05): family `lut`.

On every run (tools/extract_plugins/lut.py) the *current text* of

  * `encoding/lut.rs`: `linear_f32_to_encoded_u8`, `linear_f32_to_encoded_u16_with_linear_scale` (feature `gamma_lut_u16`), each with the body of
    `unsafe_linear_float_to_encoded_uint!` expanded at the *actual invocation* found in the function (tools/rust_macros.py: the invocation is matched
    against the arms of the `macro_rules!` as written now, so `$enc`, `$lut`, `$bit_width`, `$man_index_width` flow from the call site into the term);
  * every `impl FromLinear<f32|f64, u8|u16> for X` / `impl IntoLinear<f32|f64, u8|u16> for X` of `encoding/{srgb,rec_standards,adobe,p3,prophoto}.rs`
    (the set is re-discovered from the sources: an impl that appears or disappears stops the run)

is parsed (tokenizer / Pratt parser of tools/rust2lean.py, here extended by index expressions `a[i]`) and lowered with a *typed, monomorphic* lowering
(`LutLower`, a subclass of `rust2lean.MonoLower`) onto Lean core's kernel-transparent `Float32` / `Float` / `UIntN` into
`lean/PaletteModel/Gen/BodiesLut.lean` (namespace `Gen.BodyLut`).  `lean/PaletteProofs/Tie_Lut.lean` proves one `tie_<name>` per body: the translated body
computes what the hand model `PaletteModel/Lut.lean` (`Lut.encU8`, `Lut.encU16`, `Lut.fromLinearU8`, ...) computes, for every input.

Lowering conventions beyond `MonoLower` (readings of std / the language in `PaletteModel/BodyPrimLut.lean`):
  * `let mut x = e;` + `x = e';` : shadowing `let`;  `if c { x = a; } else if d { x = b; }` (assignments to ONE outer `let mut` variable only) ->
    `let x := if c then a else if d then b else x`;  `if c { return e; }` followed by the rest of the block -> `if c then e else <rest>`
  * `a.partial_cmp(&b) != Some(core::cmp::Ordering::Greater)` (also `==`, `Less`, `Equal`) -> `Prim.Lut.partialCmp32 a b ≠ some Ordering.gt`
    (the std implementation of `PartialOrd::partial_cmp` for floats, transcribed)
  * `uN` arithmetic `+ - *` is the wrapping arithmetic of Lean's `UIntN` (what a release build executes; the tie proves that no operation wraps,
    so the debug build's overflow checks never fire), `& | >> <<` the bitwise operations; a shift amount must be a literal constant expression
    (`23 - 3 - 8`), is evaluated at translation time and must lie in `[0, width)` (the folded value carries the source text in a comment)
  * `x as usize` for x : u8 / u16 / u32 -> `x.toNat` (zero extension; indices are `Nat`);  `uA as uB` -> core `toUIntB`;  `f64 as f32` -> `Stim.f64ToF32`
  * `table: &[uN]` -> `List UIntN`;  `*table.get_unchecked(i)` -> `Prim.Lut.getUnchecked table i` (= `table.getD i 0`; `C05.index_in_bounds` is the proof
    of `i < len` the `unsafe` relies on)
  * a `const` / `static` of `encoding/lut/codegen.rs` (type re-read from its declaration) is the datum `tools/extract.py` (`gen_lut`) extracted under the
    same name into `Gen/Lut.lean`: `SRGB_MIN_FLOAT` -> `UInt32.ofNat Gen.Lut.srgbMinFloat`, `TO_SRGB_U8` -> `Gen.Lut.srgbEnc.map UInt32.ofNat`,
    `PROPHOTO_RGB_LINEAR_SCALE` -> `Float32.ofBits (UInt32.ofNat Gen.Lut.prophotoLinearScaleBits)`; float tables (`SRGB_U8_TO_F32`, ...) stay lists of bit
    patterns and `T[i]` -> `Prim.Lut.indexF32 T i` / `indexF64`; a table `gen_lut` does not put into `Gen/Lut.lean` (`PROPHOTO_RGB_U16_TO_F64`, 65536
    entries: PaletteThorough/Gen/ProphotoDec.lean) becomes a *parameter* of the translated body
  * `lut::f(args)` -> the translated `f`;  `<X>::from_linear(e)` -> the translated `impl FromLinear<type of e, return type> for X` (must be registered
    earlier: f32 bodies are translated before the f64 ones)
  * `#[cfg(test)] { .. }` / `#[cfg(palette_verif)] { .. }` statement blocks consisting of `debug_assert!` / `assert!` only are not part of the shipped
    code and are dropped; any other attribute on a statement, any other macro, `while` / `loop` / `for` / `match` leave the subset; `unsafe { e }` -> `e`
Anything else raises `Untranslatable` (the plugin turns that into `die`, i.e. `broken[extraction]`).
"""
import re, os, sys
sys.path.insert(0, os.path.dirname(os.path.abspath(__file__)))
import rust2lean as R
import rust_macros
from rust2lean import Untranslatable, fail, Val

LUT = "encoding/lut.rs"
CODEGEN = "encoding/lut/codegen.rs"
MACRO = "unsafe_linear_float_to_encoded_uint"
GEN_FILE, TIE_FILE = "BodiesLut.lean", "Tie_Lut.lean"

LEAN_TY = {"f32": "Float32", "f64": "Float", "u8": "UInt8", "u16": "UInt16", "u32": "UInt32", "u64": "UInt64", "usize": "Nat", "bool": "Bool"}
UBITS = {"u8": 8, "u16": 16, "u32": 32, "u64": 64}

def lean_ty(t):
    if isinstance(t, tuple):
        if t[0] == "slice": return f"List {LEAN_TY[t[1]]}"
        if t[0] == "ftab": return "List Nat"
    return LEAN_TY[t]

def rust_ty(text):
    t = re.sub(r"\s+", "", text)
    if t in LEAN_TY: return t
    m = re.fullmatch(r"&\[(u8|u16|u32|u64)\]", t)
    if m: return ("slice", m.group(1))
    fail(f"parameter / return type `{text.strip()}` is outside the translated subset")

# ------------------------------------------------------------------------------------------------ parser: index expressions
class LutParser(R.Parser):
    def postfix(self, e, no_struct):
        while True:
            e = R.Parser.postfix(self, e, no_struct)
            if self.at("["):
                self.i += 1
                ix = self.expr()
                self.expect("]")
                e = ("idx", e, ix)
                continue
            return e

# ------------------------------------------------------------------------------------------------ token-level preparation of a function body
def group_end(toks, i):
    """toks[i] is an opening bracket: index just after the matching closing one"""
    op = toks[i][1]; cl = {"(": ")", "{": "}", "[": "]"}[op]
    depth = 0
    for j in range(i, len(toks)):
        k, v = toks[j]
        if k == "num": continue
        if v == op: depth += 1
        elif v == cl:
            depth -= 1
            if depth == 0: return j + 1
    fail("unbalanced " + op)

ASSERTS = {"debug_assert", "assert", "debug_assert_eq", "assert_eq"}
DROPPED_CFG = {"cfg ( test )": "test-only code", "cfg ( palette_verif )": "the verification hook (index assertion)"}

def only_asserts(toks):
    i = 0
    while i < len(toks):
        if toks[i][1] == ";": i += 1; continue
        if not (toks[i][0] == "id" and toks[i][1] in ASSERTS and i + 2 < len(toks) and toks[i + 1][1] == "!" and toks[i + 2][1] in "({["): return False
        i = group_end(toks, i + 2)
    return True

def prepare(toks, engine, invocations):
    """expand the invocations of MACRO (recording them), drop the cfg'd assertion blocks and `unsafe`; any other attribute stops the translation"""
    out, i = [], 0
    while i < len(toks):
        k, v = toks[i]
        if k == "id" and v == MACRO and i + 2 < len(toks) and toks[i + 1][1] == "!" and toks[i + 2][1] in "({[":
            j = group_end(toks, i + 2)
            args = toks[i + 3:j - 1]
            try:
                exp = engine.expand_expr_macro(MACRO, args)
            except rust_macros.MacroError as e:
                fail(f"{MACRO}!: {e}")
            invocations.append(" ".join(t[1] for t in args))
            toks = toks[:i] + exp + toks[j:]
            continue
        if k == "op" and v == "#":
            if not (i + 1 < len(toks) and toks[i + 1][1] == "["): fail("stray `#`")
            j = group_end(toks, i + 1)
            attr = " ".join(t[1] for t in toks[i + 2:j - 1])
            if attr in DROPPED_CFG and j < len(toks) and toks[j][1] == "{":
                e = group_end(toks, j)
                if not only_asserts(toks[j + 1:e - 1]): fail(f"a `#[{attr}]` block that does more than assert is outside the translated subset")
                i = e
                continue
            fail(f"attribute `#[{attr}]` inside a body is outside the translated subset")
        if k == "id" and v == "unsafe" and i + 1 < len(toks) and toks[i + 1][1] == "{":
            i += 1
            continue
        out.append(toks[i]); i += 1
    return out

# ------------------------------------------------------------------------------------------------ constants of codegen.rs = data of Gen/Lut.lean
ENCS = {"SRGB": "srgb", "REC_OETF": "recOetf", "ADOBE_RGB": "adobeRgb", "P3_GAMMA": "p3Gamma"}      # as `gen_lut` of tools/extract.py names them
def gen_names():
    g = {}
    for enc, l in ENCS.items():
        g[f"{enc}_MIN_FLOAT"] = ("u32", f"{l}MinFloat")
        g[f"TO_{enc}_U8"] = ("[u32]", f"{l}Enc")
        g[f"{enc}_U8_TO_F32"] = ("[f32]", f"{l}Dec32")
        g[f"{enc}_U8_TO_F64"] = ("[f64]", f"{l}Dec64")
    g["PROPHOTO_RGB_MIN_FLOAT"] = ("u32", "prophotoMinFloat")
    g["PROPHOTO_RGB_LINEAR_SCALE"] = ("f32", "prophotoLinearScaleBits")
    g["TO_PROPHOTO_RGB_U16"] = ("[u64]", "prophotoEnc")
    return g
PARAM_TABLES = {"PROPHOTO_RGB_U16_TO_F64": "[f64]"}       # not in Gen/Lut.lean (65536 entries): a parameter of the body that reads it

def codegen_decls(read_src):
    """name -> (element/scalar type, length | None) of every `pub const|static` of codegen.rs, as declared now"""
    out = {}
    for m in re.finditer(r"pub\s+(?:const|static)\s+(\w+)\s*:\s*(?:\[\s*(\w+)\s*;\s*(\d+)(?:usize)?\s*\]|(\w+))\s*=", read_src(CODEGEN)):
        out[m.group(1)] = ("[" + m.group(2) + "]", int(m.group(3))) if m.group(2) else (m.group(4), None)
    return out

# ------------------------------------------------------------------------------------------------ lowering
ORDERINGS = {"Greater": "Ordering.gt", "Less": "Ordering.lt", "Equal": "Ordering.eq"}

class LutLower(R.MonoLower):
    def __init__(self, consts, fns, decls, self_ty, ret_ty):
        R.MonoLower.__init__(self, consts, {}, self_ty, ret_ty)
        self.fns = fns            # registry: ("fn", name) | ("from_linear"|"into_linear", Type, arg type, ret type) -> (Lean name, [param types], ret type, [extra table params])
        self.decls = decls        # codegen.rs declarations
        self.gen = gen_names()
        self.mutable = set()
        self.extra = []           # tables that became parameters: [(name, lean type)]

    # ---- statics / constants of codegen.rs
    def static(self, name):
        if name in PARAM_TABLES:
            if name not in self.decls or self.decls[name][0] != PARAM_TABLES[name]: fail(f"{name}: declared {self.decls.get(name)}, expected {PARAM_TABLES[name]}")
            if name not in [n for n, _ in self.extra]: self.extra.append((name, "List Nat"))
            return Val(name, ("ftab", PARAM_TABLES[name][1:-1]))
        if name not in self.gen: return None
        kind, g = self.gen[name]
        if name not in self.decls: fail(f"{name} is not declared in {CODEGEN}")
        if self.decls[name][0] != kind: fail(f"{name}: declared as {self.decls[name][0]} in {CODEGEN}, Gen/Lut.lean holds it as {kind}")
        if kind == "u32": return Val(f"(UInt32.ofNat Gen.Lut.{g})", "u32")
        if kind == "f32": return Val(f"(Float32.ofBits (UInt32.ofNat Gen.Lut.{g}))", "f32")
        if kind in ("[u32]", "[u64]"): return Val(f"(Gen.Lut.{g}.map {LEAN_TY[kind[1:-1]]}.ofNat)", ("slice", kind[1:-1]))
        return Val(f"Gen.Lut.{g}", ("ftab", kind[1:-1]))

    # ---- literal constant expressions (shift amounts)
    def const_int(self, e):
        if e[0] == "num" and re.fullmatch(r"\d[\d_]*", e[1]): return int(e[1].replace("_", "")), e[1]
        if e[0] == "binary" and e[1] in ("+", "-", "*"):
            (a, ta), (b, tb) = self.const_int(e[2]), self.const_int(e[3])
            if e[3][0] == "binary": tb = f"({tb})"
            return {"+": a + b, "-": a - b, "*": a * b}[e[1]], f"{ta} {e[1]} {tb}"
        fail("a shift amount must be a literal constant expression")

    def cast(self, v, to):
        if to == "usize":
            if v.ty in ("u8", "u16", "u32"): return Val(f"{v.code}.toNat" if re.fullmatch(r"[\w.']+", v.code) else f"({v.code}).toNat", "usize")
            fail(f"`as usize` on a {v.ty} is outside the translated subset")
        if isinstance(v.ty, tuple) or v.ty == "usize": fail(f"`as {to}` on {v.ty}")
        return R.MonoLower.cast(self, v, to)

    def is_partial_cmp(self, e):
        return e[0] == "mcall" and e[2] == "partial_cmp" and len(e[3]) == 1

    def expr(self, e, env, expect=None):
        k = e[0]
        if k == "path" and len(e[1]) == 1 and e[1][0] not in env:
            s = self.static(e[1][0])
            if s is not None: return s
        if k == "cast":
            return self.cast(self.expr(e[1], env), e[2])
        if k == "idx":
            t = self.expr(e[1], env)
            if not (isinstance(t.ty, tuple) and t.ty[0] == "ftab"): fail("indexing: only the float tables of codegen.rs")
            i = self.expr(e[2], env)
            if i.ty != "usize": fail(f"index of type {i.ty}")
            return Val(f"(Prim.Lut.index{t.ty[1].upper()} {t.code} {i.code})", t.ty[1])
        if k == "binary":
            op = e[1]
            if op in ("==", "!=") and self.is_partial_cmp(e[2]):
                a = self.expr(e[2][1], env)
                if a.ty not in ("f32", "f64"): fail("partial_cmp on a non-float")
                b = self.expr(e[2][3][0], env, a.ty)
                if b.ty != a.ty: fail("partial_cmp: operand types")
                r = e[3]
                if not (r[0] == "call" and r[1][0] == "path" and r[1][1] == ["Some"] and len(r[2]) == 1 and r[2][0][0] == "path"
                        and r[2][0][1][-2:-1] == ["Ordering"] and r[2][0][1][-1] in ORDERINGS):
                    fail("partial_cmp may only be compared with `Some(Ordering::..)`")
                return Val(f"(Prim.Lut.partialCmp{a.ty[1:]} {a.code} {b.code} {'≠' if op == '!=' else '='} some {ORDERINGS[r[2][0][1][-1]]})", "prop")
            if op in ("<<", ">>"):
                a = self.expr(e[2], env, expect)
                if a.ty not in UBITS: fail(f"`{op}` on a {a.ty}")
                n, txt = self.const_int(e[3])
                if not 0 <= n < UBITS[a.ty]: fail(f"shift amount {txt} = {n} outside [0, {UBITS[a.ty]}) for {a.ty}")
                return Val(f"({a.code} {'<<<' if op == '<<' else '>>>'} ({n} : {LEAN_TY[a.ty]}) /- {txt} -/)", a.ty)
            if op in ("+", "-", "*", "&", "|"):
                a = self.expr(e[2], env, expect) if e[2][0] != "num" else None
                b = self.expr(e[3], env, a.ty if a is not None else expect)
                if a is None: a = self.expr(e[2], env, b.ty)
                if a.ty != b.ty: fail(f"`{op}` on {a.ty} and {b.ty}")
                if a.ty in UBITS:
                    lop = {"&": "&&&", "|": "|||"}.get(op, op)
                    return Val(f"({a.code} {lop} {b.code})", a.ty)
                if a.ty in ("f32", "f64") and op in "+-*": return Val(f"({a.code} {op} {b.code})", a.ty)
                fail(f"`{op}` on {a.ty}")
        if k == "call" and e[1][0] == "path":
            segs, gens = e[1][1], e[1][2]
            if segs[0] == "<qualified>" and len(segs) == 2 and segs[1] in ("from_linear", "into_linear") and len(e[2]) == 1:
                v = self.expr(e[2][0], env)
                key = (segs[1], re.sub(r"\s+", "", gens[0]), v.ty, expect or self.ret_ty)
                if key not in self.fns: fail(f"`<{gens[0]}>::{segs[1]}` at ({v.ty} -> {key[3]}) is not a translated body (registered: f32 bodies before f64 ones)")
                name, ptys, rty, extra = self.fns[key]
                for x in extra:
                    if x not in self.extra: self.extra.append(x)
                return Val("(" + " ".join([name] + [n for n, _ in extra] + [v.code]) + ")", rty)
            if ("fn", segs[-1]) in self.fns and segs[:-1] in ([], ["lut"], ["crate", "encoding", "lut"]):
                name, ptys, rty, extra = self.fns[("fn", segs[-1])]
                if len(ptys) != len(e[2]): fail(f"{segs[-1]}: {len(e[2])} arguments, {len(ptys)} parameters")
                args = []
                for x, t in zip(e[2], ptys):
                    v = self.expr(x, env, t if not isinstance(t, tuple) else None)
                    if v.ty != t: fail(f"{segs[-1]}: argument of type {v.ty} for a parameter of type {t}")
                    args.append(v.code)
                return Val("(" + " ".join([name] + args) + ")", rty)
        if k == "mcall" and e[2] == "get_unchecked" and len(e[3]) == 1:
            t = self.expr(e[1], env)
            if not (isinstance(t.ty, tuple) and t.ty[0] == "slice"): fail("get_unchecked on a non-slice")
            i = self.expr(e[3][0], env)
            if i.ty != "usize": fail(f"get_unchecked: index of type {i.ty}")
            return Val(f"(Prim.Lut.getUnchecked {t.code} {i.code})", t.ty[1])
        if k in ("for", "match", "closure", "return"): fail(f"`{k}` in expression position is outside the translated subset")
        return R.MonoLower.expr(self, e, env, expect)

    # ---- blocks with `let mut`, assignment, `if` statements, early return
    def block(self, b, env, expect=None):
        code, ty = self.stmts(b[1], 0, b[2], dict(env), expect)
        return Val(code, ty)

    @staticmethod
    def returns(b):
        return (b[2] is not None and b[2][0] == "return") or (b[2] is None and b[1] and b[1][-1][0] == "expr" and b[1][-1][1][0] == "return")

    def value_of_returning(self, b, env, expect):
        ss, tail = list(b[1]), b[2]
        if tail is None: tail = ss.pop()[1]
        if tail[1] is None: fail("`return;` without value")
        return self.stmts(ss, 0, tail[1], dict(env), expect)

    def assign_branch(self, b, var, env):
        """a block of assignments to `var` only -> the final value (Val)"""
        if b[2] is not None: fail("an `if` statement whose branch has a value")
        env = dict(env)
        for s in b[1]:
            if not (s[0] == "assign" and s[1][0] == "path" and s[1][1] == [var]): fail("an `if` statement may only assign one outer `let mut` variable")
            v = self.expr(s[2], env, env[var].ty)
            if v.ty != env[var].ty: fail(f"assignment of a {v.ty} to `{var}` : {env[var].ty}")
            env[var] = v
        return env[var]

    def if_assign(self, e, var, env):
        c = self.expr(e[1], env)
        if c.ty != "prop": fail("if: a comparison expected")
        a = self.assign_branch(e[2], var, env)
        if e[3] is None: b = env[var]
        elif e[3][0] == "if": b = self.if_assign(e[3], var, env)
        else: b = self.assign_branch(e[3], var, env)
        return Val(f"(if {c.code} then {a.code} else {b.code})", a.ty)

    @staticmethod
    def first_assigned(e):
        for s in e[2][1]:
            if s[0] == "assign" and s[1][0] == "path" and len(s[1][1]) == 1: return s[1][1][0]
        fail("an `if` statement that neither returns nor assigns")

    def stmts(self, ss, i, tail, env, expect):
        if i == len(ss):
            if tail is None: fail("block without value")
            if tail[0] == "return":
                if tail[1] is None: fail("`return;` without value")
                tail = tail[1]
            v = self.expr(tail, env, expect)
            return v.code, v.ty
        s = ss[i]
        def bind(name, v):
            n = R.lname(name)
            env2 = dict(env); env2[name] = Val(n, v.ty)
            rest, ty = self.stmts(ss, i + 1, tail, env2, expect)
            return "(" + f"let {n} : {lean_ty(v.ty)} := {v.code};\n" + (rest[1:-1] if rest.startswith("(let ") else rest) + ")", ty
        if s[0] == "let":
            if s[1][0] != "pid" or s[3] is None: fail("only `let [mut] x [: T] = e;`")
            want = rust_ty(s[2]) if s[2] else None
            v = self.expr(s[3], env, want if not isinstance(want, tuple) else None)
            if want is not None and v.ty != want: fail(f"`let {s[1][1]}: {s[2]}` bound to a {v.ty}")
            if v.ty in ("prop", "bits"): fail("binding a comparison")
            if s[1][2]: self.mutable.add(s[1][1])
            else: self.mutable.discard(s[1][1])
            return bind(s[1][1], v)
        if s[0] == "assign":
            if not (s[1][0] == "path" and len(s[1][1]) == 1 and s[1][1][0] in env and s[1][1][0] in self.mutable): fail("assignment to something that is not a `let mut` variable")
            name = s[1][1][0]
            v = self.expr(s[2], env, env[name].ty)
            if v.ty != env[name].ty: fail(f"assignment of a {v.ty} to `{name}` : {env[name].ty}")
            return bind(name, v)
        if s[0] == "expr" and s[1][0] == "if":
            e = s[1]
            if self.returns(e[2]):
                if e[3] is not None: fail("`if .. { return .. } else ..` is outside the translated subset")
                c = self.expr(e[1], env)
                if c.ty != "prop": fail("if: a comparison expected")
                a, aty = self.value_of_returning(e[2], env, self.ret_ty)
                b, bty = self.stmts(ss, i + 1, tail, env, expect)
                if aty != bty: fail(f"early return of a {aty}, the block has type {bty}")
                return f"(if {c.code} then {a} else {b})", aty
            var = self.first_assigned(e)
            if var not in env or var not in self.mutable: fail(f"`{var}` is not a `let mut` variable")
            return bind(var, self.if_assign(e, var, env))
        if s[0] == "expr" and s[1][0] == "return":
            if i != len(ss) - 1 or tail is not None: fail("statements after `return`")
            return self.stmts(ss, i + 1, s[1], env, expect)
        if s[0] == "expr" and s[1][0] == "block" and not s[1][1] and s[1][2] is None:
            return self.stmts(ss, i + 1, tail, env, expect)
        fail(f"statement kind {s[1][0] if s[0] == 'expr' else s[0]!r} is outside the translated subset")

# ------------------------------------------------------------------------------------------------ registrations
def camel(s):
    p = s.split("_")
    return p[0] + "".join(w[:1].upper() + w[1:] for w in p[1:])

IMPL_FILES = [("encoding/srgb.rs", "srgb"), ("encoding/rec_standards.rs", "rec"), ("encoding/adobe.rs", "adobe"), ("encoding/p3.rs", "p3"), ("encoding/prophoto.rs", "prophoto")]
TYPE_LEAN = {"Srgb": ("srgb", ".srgb"), "RecOetf": ("recOetf", ".recOetf"), "AdobeRgb": ("adobeRgb", ".adobeRgb"), "P3Gamma": ("p3Gamma", ".p3Gamma"), "ProPhotoRgb": ("prophoto", None)}

def model_of(trait, ty, f, u):
    """the hand-model function the tie must name"""
    if ty == "ProPhotoRgb":
        return {("FromLinear", "f32", "u16"): "Lut.prophotoFromLinearU16", ("FromLinear", "f64", "u16"): "Lut.prophotoFromLinearU16_f64",
                ("IntoLinear", "f64", "u16"): "Lut.tableRead64", ("IntoLinear", "f32", "u16"): "Lut.tableRead64"}.get((trait, f, u))
    if u != "u8": return None
    return {("FromLinear", "f32"): "Lut.fromLinearU8", ("FromLinear", "f64"): "Lut.fromLinearU8_f64",
            ("IntoLinear", "f32"): "Lut.intoLinear32", ("IntoLinear", "f64"): "Lut.intoLinear64"}[(trait, f)]

def discover(read_src):
    """every `impl (From|Into)Linear<f32|f64, u8|u16> for X` of the encoding files, in translation order"""
    found = []
    for file, _ in IMPL_FILES:
        for m in re.finditer(r"\bimpl\s+(FromLinear|IntoLinear)\s*<\s*(f32|f64)\s*,\s*(u8|u16)\s*>\s*for\s+(\w+)\s*\{", read_src(file)):
            found.append((file, m.group(1), m.group(2), m.group(3), m.group(4)))
    keys = [x[1:] for x in found]
    if len(set(keys)) != len(keys): fail("an integer `FromLinear` / `IntoLinear` impl occurs twice")
    want = {(t, f, "u8", ty) for t in ("FromLinear", "IntoLinear") for f in ("f32", "f64") for ty in ("Srgb", "RecOetf", "AdobeRgb", "P3Gamma")} | \
           {(t, f, "u16", "ProPhotoRgb") for t in ("FromLinear", "IntoLinear") for f in ("f32", "f64")}
    if set(keys) != want:
        fail(f"integer FromLinear / IntoLinear impls found differ from the registered 20: {sorted(set(keys) ^ want)}")
    found.sort(key=lambda x: (x[2] != "f32",))       # f32 bodies first (callees of the f64 ones); stable otherwise
    return found

UNTRANSLATED = [
    "`encoding/lut/codegen.rs` (the tables and constants): *data*, re-extracted by `gen_lut` into Gen/Lut.lean (and PaletteThorough/Gen/ProphotoDec.lean) and",
    "  compared with the running code through `IntoLinear` / the breakpoints of `FromLinear` on every run; the bodies below refer to it by name",
    "the `#[cfg(test)]` / `#[cfg(palette_verif)]` assertion blocks of `unsafe_linear_float_to_encoded_uint!` (not part of the shipped code; dropped only when",
    "  they consist of `debug_assert!` / `assert!`); `#[cfg(feature = \"gamma_lut_u16\")]` on the u16 items is taken as enabled (as in the harness)",
    "the generic float curves `FromLinear<T, T>` / `IntoLinear<T, T>` of the same files: translated by tools/rust2lean.py (Gen/Bodies.lean, Tie_Bodies.lean)",
    "`FromLinear` / `IntoLinear` for `LinearFn` / `GammaFn` and the `Rgb::into_linear` / `from_linear` / `into_encoding` wrappers (trait dispatch on the standard's",
    "  `TransferFn`): not part of this family",
    "what the language defines (readings in PaletteModel/BodyPrimLut.lean and PaletteModel/Stimulus.lean): `partial_cmp` on floats, `get_unchecked`, array indexing,",
    "  `uN as usize`, `uA as uB`, `f64 as f32` (Stim.f64ToF32), `to_bits` / `from_bits`, wrapping `+ - *`, `& | << >>` on words (core Lean's `UIntN`)",
    "NaN payloads: Lean's `Float32` / `Float` have one NaN; the bodies only compare their float input before replacing it, so a payload cannot be observed",
]

def translate_fn(read_src, engine, file, where, fn, lean_name, fns, decls, consts, label, self_ty=None):
    src = read_src(file)
    params, ret, body = R.find_fn(src, where, fn)
    ret_ty = rust_ty(ret)
    if isinstance(ret_ty, tuple): fail("slice return type")
    ps = []
    for p in R.split_top(params):
        if not p.strip(): continue
        m = re.fullmatch(r"\s*(\w+)\s*:\s*(.+?)\s*", p, re.S)
        if not m: fail(f"parameter `{p.strip()}`")
        ps.append((m.group(1), rust_ty(m.group(2))))
    invs = []
    toks = prepare(R.tokenize(body), engine, invs)
    p = LutParser(toks)
    ast = p.block()
    if p.peek()[0] != "eof": fail("trailing tokens after the body")
    lo = LutLower(consts, fns, decls, self_ty, ret_ty)
    env = {n: Val(R.lname(n), t) for n, t in ps}
    v = lo.block(ast, env, ret_ty)
    if v.ty != ret_ty: fail(f"body has type {v.ty}, signature says {ret_ty}")
    code = v.code[1:-1] if v.code.startswith("(let ") else v.code
    binders = "".join(f" ({n} : {t})" for n, t in lo.extra) + "".join(f" ({R.lname(n)} : {lean_ty(t)})" for n, t in ps)
    doc = f"/-- `{file}`: `fn {fn}`" + (f" of `{label}`" if label else "") + \
          "".join(f", with `{MACRO}!({i})` expanded from the `macro_rules!` text" for i in invs) + " -/"
    text = f"{doc}\ndef {lean_name}{binders} : {LEAN_TY[ret_ty]} :=\n{R.indent(R.reflow(code), 2)}\n"
    return text, [t for _, t in ps], ret_ty, list(lo.extra), invs

def destring(src):
    """string literals (they occur in the assertion messages only) become the identifier `__str`: unbound wherever a body would use one"""
    return re.sub(r'"(?:[^"\\\n]|\\.)*"', " __str ", src)

def generate(read_src0, tie_text):
    """-> text of Gen/BodiesLut.lean.  Raises Untranslatable when a registered body leaves the subset or disappears, an unregistered integer
    `FromLinear` / `IntoLinear` impl appears, or a translated body has no `tie_` theorem naming it and its model function in Tie_Lut.lean."""
    cache = {}
    def read_src(rel):
        if rel not in cache: cache[rel] = destring(read_src0(rel))
        return cache[rel]
    engine = rust_macros.Engine(read_src, R.tokenize, [LUT])
    decls = codegen_decls(read_src)
    lut_src = read_src(LUT)
    consts = {m.group(1): (m.group(2), m.group(3)) for m in re.finditer(r"\bconst\s+(\w+)\s*:\s*(u32|u64)\s*=\s*(0x[0-9a-fA-F_]+|\d[\d_]*)\s*;", lut_src)}
    fns, defs, tied, all_invs = {}, [], [], []
    def one(name, model, *a, **kw):
        try:
            text, ptys, rty, extra, invs = translate_fn(read_src, engine, *a, **kw)
        except Untranslatable as e:
            raise Untranslatable(f"body {name} ({a[0]}: fn {a[2]}): {e}")
        except rust_macros.MacroError as e:
            raise Untranslatable(f"body {name} ({a[0]}: fn {a[2]}): {e}")
        defs.append(text); all_invs.extend(invs)
        if model:
            tied.append((name, model))
            m = re.search(r"\btheorem\s+tie_" + name + r"\b(.*?):=", tie_text, re.S)
            if not m: raise Untranslatable(f"body {name} is translated but lean/PaletteProofs/{TIE_FILE} has no theorem tie_{name}")
            if not (re.search(r"Gen\.BodyLut\." + name + r"\b", m.group(1)) and re.search(re.escape(model) + r"(?![\w.])", m.group(1))):
                raise Untranslatable(f"theorem tie_{name} does not state Gen.BodyLut.{name} against {model}")
        return ptys, rty, extra
    # the two encoders of lut.rs
    for fn, model in (("linear_f32_to_encoded_u8", "Lut.encU8"), ("linear_f32_to_encoded_u16_with_linear_scale", "Lut.encU16")):
        name = camel(fn)
        ptys, rty, extra = one(name, model, LUT, None, fn, name, fns, decls, consts, None)
        fns[("fn", fn)] = ("Gen.BodyLut." + name, ptys, rty, extra)
    if sorted(re.findall(r"\bfn\s+(\w+)", lut_src)) != sorted(["linear_f32_to_encoded_u8", "linear_f32_to_encoded_u16_with_linear_scale"]):
        fail(f"{LUT}: functions {sorted(re.findall('fn ([a-z_0-9]+)', lut_src))}: only the two encoders are registered")
    if len(all_invs) != len(re.findall(r"(?<![\w$])" + MACRO + r"\s*!\s*\(", lut_src)) - 0:
        fail(f"{LUT}: an invocation of {MACRO}! outside the two translated functions")
    # the impls
    for (file, trait, f, u, ty) in discover(read_src):
        fnname = "from_linear" if trait == "FromLinear" else "into_linear"
        name = TYPE_LEAN[ty][0] + trait + f.upper() + u.upper()
        where = r"\bimpl\s+" + trait + r"\s*<\s*" + f + r"\s*,\s*" + u + r"\s*>\s*for\s+" + ty + r"\s*\{"
        ptys, rty, extra = one(name, model_of(trait, ty, f, u), file, where, fnname, name, fns, decls, consts, f"impl {trait}<{f}, {u}> for {ty}", self_ty=ty)
        want = ([f], u) if trait == "FromLinear" else ([u], f)
        if (ptys, rty) != want: fail(f"{name}: signature {ptys} -> {rty}, the trait says {want[0]} -> {want[1]}")
        fns[(fnname, ty, ptys[0], rty)] = ("Gen.BodyLut." + name, ptys, rty, extra)
    head = ["/- GENERATED by tools/extract.py (plugin tools/extract_plugins/lut.py, translator tools/rust2lean_lut.py, family `lut`) from palette/src -- do not edit",
            "",
            "  transfer-function lookup tables (C05): `encoding/lut.rs` (`linear_f32_to_encoded_u8`, `linear_f32_to_encoded_u16_with_linear_scale`, each with the body of",
            f"  `{MACRO}!` expanded at the invocation found in it: " + "; ".join(f"`({i})`" for i in all_invs) + ") and every",
            "  `impl FromLinear<f32|f64, u8|u16> for X` / `impl IntoLinear<f32|f64, u8|u16> for X` of encoding/{srgb,rec_standards,adobe,p3,prophoto}.rs.",
            "  Each definition is the translation of the *current* text of one Rust function into a typed Lean term over core `Float32` / `Float` / `UIntN`",
            "  (conventions in the header of tools/rust2lean_lut.py, readings of std constructs in PaletteModel/BodyPrimLut.lean).",
            f"  `PaletteProofs/{TIE_FILE}` proves, for every input (`tie_<name>`):"] + \
           ["    " + ", ".join(f"{n} ~ {m}" for n, m in tied[i:i + 3]) for i in range(0, len(tied), 3)] + [
            "",
            "  NOT translated in this family:"] + ["    " + u for u in UNTRANSLATED] + ["-/",
            "import PaletteModel.BodyPrimLut", "import PaletteModel.LutForms", "",
            "namespace Gen.BodyLut", "",
            "/-- names of the translated bodies of family `lut` with the model function their `tie_` theorem names -/",
            "def tiedLut : List (String × String) := [\n" + ",\n".join("  " + ", ".join(f'("{n}", "{m}")' for n, m in tied[i:i + 3]) for i in range(0, len(tied), 3)) + "]",
            "",
            f"/-- the invocations of `{MACRO}!` found in lut.rs (arguments as written) -/",
            "def macroInvocations : List String := [" + ", ".join('"' + i + '"' for i in all_invs) + "]", ""]
    return "\n".join(head) + "\n" + "\n".join(defs) + "\nend Gen.BodyLut\n"

if __name__ == "__main__":
    repo = os.environ.get("PALETTE_REPO", "/repo")
    def read_src(rel): return R.strip_comments(open(os.path.join(repo, "palette", "src", rel)).read())
    root = os.path.dirname(os.path.dirname(os.path.abspath(__file__)))
    tie = os.path.join(root, "lean", "PaletteProofs", TIE_FILE)
    try:
        if os.path.exists(tie) and "--no-tie" not in sys.argv: tt = open(tie).read()
        else:      # development aid: a synthetic tie text that names every body with every model function
            names = ["linearF32ToEncodedU8", "linearF32ToEncodedU16WithLinearScale"] + \
                    [TYPE_LEAN[ty][0] + t + f.upper() + u.upper() for ty in TYPE_LEAN for t in ("FromLinear", "IntoLinear") for f in ("f32", "f64") for u in ("u8", "u16")]
            models = ["Lut.encU8", "Lut.encU16", "Lut.fromLinearU8", "Lut.fromLinearU8_f64", "Lut.intoLinear32", "Lut.intoLinear64", "Lut.prophotoFromLinearU16",
                      "Lut.prophotoFromLinearU16_f64", "Lut.tableRead64"]
            tt = "".join(f"theorem tie_{n} : Gen.BodyLut.{n} " + " ".join(models) + " := " for n in names)
        sys.stdout.write(generate(read_src, tt))
    except Untranslatable as e:
        print("FAILED:", e); sys.exit(1)
