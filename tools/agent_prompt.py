#!/usr/bin/env python3
"""prints the standing brief for a builder sub-agent working on one property in its own copy of /verif"""
import json, sys
pid = sys.argv[1]
extra = sys.argv[2] if len(sys.argv) > 2 else ""
prop = [json.loads(l) for l in open('/verif/properties.jsonl') if json.loads(l)['id'] == pid][0]
print(f"""You are extending a Lean-4-proof based verification framework for the Rust crate Ogeon/palette (source in /repo, read-only for you).
Your job: build the complete module for property {pid} in YOUR OWN COPY of the framework, following its conventions exactly.

## Setup (do this first)
  mkdir -p /tmp/w_{pid} && cp -r /verif /tmp/w_{pid}/verif && cd /tmp/w_{pid}/verif
Work ONLY inside /tmp/w_{pid}/verif. Never write to /verif or /repo (the harness depends on /repo/palette by absolute path; that is fine, it only reads it).
No network. Lean 4.33 + Mathlib are preinstalled (`lake build` inside lean/ just works; never add a `require`; never `import Mathlib` wholesale, only single modules, and never in PaletteModel/ or Driver.lean). Rust: always `cargo build --release --offline` inside harness/.
Read, in this order: AGENT_GUIDE.md (conventions, MUST follow), DESIGN.md sections 2 and "### {pid}" in section 3 (the plan for your property; section 5 lists suspected defects), then the worked example C06 (harness/src/c06.rs, lean/PaletteModel/Stimulus.lean, lean/PaletteModel/StimulusDriver.lean, lean/PaletteProofs/C06_Stimulus.lean, spec/props.json, check) and C05 for extraction (tools/extract.py, lean/PaletteModel/Lut.lean, lean/PaletteProofs/C05_Lut.lean, harness/src/c05.rs).

## The property (fixed text, do not reinterpret it more strictly or more loosely)
{json.dumps(prop, indent=1)}

## Deliverables (all inside your copy)
1. lean/PaletteModel/... : executable model of the code the property is anchored in (transcribe the Rust faithfully; read the anchored files fully before writing).
2. lean/PaletteModel/...Driver.lean + registration in lean/Driver.lean: protocol line handler(s).
3. harness/src/{pid.lower()}.rs + registration in harness/src/main.rs: calls the REAL palette API in-process, emits protocol lines, and evaluates the property's own predicate on the implementation (oracle) over structured + boundary + random inputs; `thorough` tier much deeper (exhaustive where finite). Cover every configuration class the property's quantifier names (types, component types, forms).
4. lean/PaletteProofs/{pid}_*.lean: the property stated as theorems about the model and PROVED (no sorry/admit/axiom/native_decide/bv_decide). Unbounded statements by induction/algebra; finite tables by `decide`/`decide +kernel`. Add non-vacuity `example`s. Anything you cannot prove: keep the full statement in a comment, prove a clearly named `..._partial`, and say what is missing.
5. If the property involves data tables (names, orders, bounds, field lists): a new section in tools/extract.py generating lean/PaletteModel/Gen/<X>.lean from /repo sources, cross-checked by harness output.
6. spec/props.json entry for {pid} (honest level_text / level_note: say exactly what is proved, what is only covered by the oracle/correspondence, and the trusted base), then `python3 tools/gen_manifest.py`.
7. `./check {pid} quick` must exit 0 on the unchanged /repo in < 3 minutes warm, and `./check {pid} thorough` must exit 0 too (< 20 min).
8. Sanity-test detection: make 3 different small semantic mutations of the anchored palette code that still compile (in a scratch copy: `git -C /repo worktree add /tmp/w_{pid}/repo_mut HEAD`, edit there, and temporarily point harness/Cargo.toml's palette path to /tmp/w_{pid}/repo_mut/palette and run tools/extract.py with PALETTE_REPO=/tmp/w_{pid}/repo_mut; restore afterwards and `git -C /repo worktree remove --force /tmp/w_{pid}/repo_mut`). Your check should flag each; strengthen generators where it does not. Never edit /repo itself.

## Genuine defects
If the real palette code violates the property as stated (DESIGN.md section 5 lists suspects), do NOT weaken the oracle and do NOT special-case the input. Reproduce it (oracle failure with concrete input), write a minimal maintainer-quality patch as /tmp/w_{pid}/fix.diff (unified diff against /repo, touching only what the defect requires, existing tests must still pass - verify in your scratch worktree with `cargo test --offline -p palette --lib`), make the model mirror the FIXED code, and make your check pass against the fixed worktree. Report this clearly in your final message; I will apply the fix to /repo myself.

## Final report (your last message, short)
- list of files added/changed in your copy (relative paths), and the exact snippets you added to the shared files lean/Driver.lean, harness/src/main.rs, spec/props.json, tools/extract.py, harness/Cargo.toml (if any) so they can be merged
- what is proved (theorem names) vs. only tested, wall time of quick/thorough, the mutations you tried and whether they were caught
- any genuine defect found (input, behaviour, fix.diff path)
Do not remove /tmp/w_{pid}/verif when done (remove only scratch worktrees and their build output).
{extra}
""")
