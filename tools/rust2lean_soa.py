#!/usr/bin/env python3
"""
rust2lean_soa -- family `soa`: the struct-of-arrays collection code (C18) re-translated from the current source text.

What is read (on every run, from PALETTE_REPO):
  * palette/src/macros/struct_of_arrays.rs: the four macros `impl_struct_of_arrays_methods!`, `impl_struct_of_arrays_methods_hue!`,
    `impl_struct_of_array_traits!`, `impl_struct_of_array_traits_hue!`, expanded by tools/rust_macros.py at the *actual invocations* of one type per
    shape (SHAPES below: `Rgb` 3 columns without hue, `Hsv` hue + 2, `Luma` 1 column, `Cam16Jch` hue + 2 written inside `make_partial_cam16!`: the
    inner invocation is instantiated at the first `make_partial_cam16!` invocation into a virtual file, as tools/rust2lean_more.py does), including the
    helper macros `first!` / `skip_first!`;
  * palette/src/alpha/alpha.rs: `alpha::Iter` (`next`, `next_back`, `size_hint`, `count`, `len`), `Extend` and `FromIterator` for `Alpha<C, A>`.
Tokenizer, Pratt parser (`rust2lean.Parser`, extended here with `if let`, `?`, tuple-struct patterns) and `find_fn` are those of tools/rust2lean.py; the
lowering is new (class `Lower`), because this code is not arithmetic but *state passing over columns*:

  * a colour struct whose components are collections is `Soa.Cols α k` (column order = the invocation: `hue` first for the `_hue` macros, then the `[..]`
    list), a colour value `Soa.Row α k`, the generated `Iter` struct `Vector (SoaPrim.ColIter α) k`; `self.<field>` is `self[<column index>]`;
    `Alpha<Cols, Vec>` is `Soa.Nest α k`, an `Alpha` colour value `Soa.Row α (k + 1)` (`Soa.rowColor` / `Soa.rowAlpha`), `alpha::Iter` is `SoaPrim.AIter`;
  * `Vec` / slice / iterator methods on a column are the column operations of PaletteModel/BodyPrimSoa.lean (= those of PaletteModel/Soa.lean);
  * STATEMENT ORDER IS KEPT: every effectful call (`push`, `pop`, `clear`, `drain`, `extend(once(..))`, `next`, `next_back`) on `self.<field>` rebinds
    `self` (`let self := self.set i ..`) at the place where it occurs, struct-literal fields are evaluated in the order written; a call that can panic
    (`Vec::drain`) becomes `match .. with | none => .panic self | some t => ..` so the panic carries the receiver as mutated so far (`SoaPrim.Outcome`);
    `e?` becomes `match e with | none => <return None with the current self> | some q => ..` at the place where it occurs;
  * `if let (Some(a), ..) = (x, ..) { A } else { B }` -> `match x, .. with | some a, .. => A | _, .. => B`;
  * `for c in iter { .. }` -> `SoaPrim.forIn iter self (fun self c => ..)`;
  * `self.color.<method>(..)` inside the `Alpha` impls is a call of the translated body of the same type (`Gen.BodySoa.rgbPush ..`);
  * `get` / `get_mut` are generic over `I: SliceIndex`: each is translated twice, at `I = usize` and at `I = a range` (`Soa.Rng`);
  * alpha.rs is generic over the two iterator / collection types: dictionary passing (every method of `self.color` / `self.alpha` is a parameter);
  * `debug_assert_eq!(a, b, "..")` has no effect in the release build the harness runs: its arguments must still translate, then it is dropped;
    `.clone()`, `&`, `&mut`, `*`, `.as_ref()`, `.as_mut()`, `.into()`, `.into_inner()` (hue newtype) are the identity; `PhantomData` fields are dropped.
Anything else raises `Untranslatable` (tools/extract_plugins/soa.py turns it into `die`, i.e. `broken[extraction]`).

METHOD SETS (class `MethodSets`): for every impl block a body is translated from (`impl Iterator / DoubleEndedIterator / ExactSizeIterator for Iter<..>`, the 26
`IntoIterator` impls, `Extend`, `FromIterator`, the four inherent impls, per shape; the five blocks of alpha.rs) the `fn` names written in the block are compared with
the registered ones: a method that appears and is not translated (a new override of a provided method: `nth`, `nth_back`, `fold`, `last`, ..) raises `Untranslatable`
naming the impl and the method -- the model derives the provided methods from `next` / `next_back`, so an override is code the tie would otherwise not see.
"""
import re, os, sys
sys.path.insert(0, os.path.dirname(os.path.abspath(__file__)))
import rust2lean as R
import rust_macros
from rust2lean import Untranslatable, fail

SOA = "macros/struct_of_arrays.rs"
STR = "__STR__"
NS = "Gen.BodySoa"
TIE = "Tie_Soa.lean"

def tokenize(src):
    """rust2lean's tokenizer has no string literals (formula code has none): a string literal becomes the identifier `__STR__`"""
    return R.tokenize(re.sub(r'"(?:[^"\\]|\\.)*"', " " + STR + " ", src))

# ------------------------------------------------------------------------------------------------ parser extensions
class SParser(R.Parser):
    def pattern(self):
        if self.at("(") or self.at("["): return R.Parser.pattern(self)
        self.eat("&"); mut = self.eat("mut")
        k, v = self.next()
        if k != "id": fail(f"pattern: unexpected {v!r}")
        if v == "_": return ("pwild",)
        name = v
        while self.at("::"):
            self.i += 1; name = self.next()[1]
        if self.eat("("):
            ps = []
            while not self.at(")"):
                ps.append(self.pattern())
                if not self.eat(","): break
            self.expect(")")
            return ("ptstruct", name, ps)
        if self.at("{"): fail("struct patterns are outside the translated subset of this family")
        return ("pid", name, mut)

    def if_expr(self):
        self.expect("if")
        if self.eat("let"):
            p = self.pattern(); self.expect("=")
            e = self.expr(0, True)
            th = self.block()
            if not self.eat("else"): fail("`if let` without `else`")
            if self.at("if"): fail("`else if` after `if let`")
            return ("iflet", p, e, th, self.block())
        c = self.expr(0, True)
        th = self.block()
        el = None
        if self.eat("else"): el = self.if_expr() if self.at("if") else self.block()
        return ("if", c, th, el)

# R.Parser.postfix raises on `?`: the same loop with `e?` -> ("try", e)
def _postfix(self, e, no_struct):
    while True:
        if self.at("?"):
            self.i += 1; e = ("try", e); continue
        if self.at("("):
            self.i += 1; args = []
            while not self.at(")"):
                args.append(self.expr())
                if not self.eat(","): break
            self.expect(")"); e = ("call", e, args); continue
        if self.at("."):
            k, v = self.peek(1)
            if k == "num":
                self.i += 2
                if not re.fullmatch(r"\d+", v): fail(f"tuple index {v!r}")
                e = ("index", e, int(v)); continue
            if k == "id":
                self.i += 2
                if self.at("::"):
                    self.i += 1; self.skip_angles()
                if self.at("("):
                    self.i += 1; args = []
                    while not self.at(")"):
                        args.append(self.expr())
                        if not self.eat(","): break
                    self.expect(")"); e = ("mcall", e, v, args, []); continue
                e = ("field", e, v); continue
        return e
SParser.postfix = _postfix

def prep_tokens(toks, eng):
    """expand `first!(..)` / `skip_first!(..)` (helper macros of struct_of_arrays.rs, arms as written now) and turn the statement
    `debug_assert_eq!(a, b, "..");` into the call `debug_assert_eq(a, b, __STR__);` (dropped by the lowering after its arguments translated)"""
    out, i = [], 0
    while i < len(toks):
        k, v = toks[i]
        if k == "id" and i + 2 < len(toks) and toks[i + 1] == ("op", "!") and toks[i + 2][1] in ("(", "{", "["):
            op = toks[i + 2][1]; cl = {"(": ")", "{": "}", "[": "]"}[op]
            depth, j = 0, i + 2
            while True:
                if toks[j][0] != "num" and toks[j][1] == op: depth += 1
                elif toks[j][0] != "num" and toks[j][1] == cl:
                    depth -= 1
                    if depth == 0: break
                j += 1
                if j >= len(toks): fail(f"{v}!: unbalanced")
            inner = toks[i + 3:j]
            if v in ("first", "skip_first"):
                try:
                    ex = eng.expand_expr_macro(v, inner)
                except rust_macros.MacroError as e:
                    fail(f"{v}!: {e}")
                ex = prep_tokens(ex, eng)
                out += ([("op", "(")] + ex + [("op", ")")]) if v == "first" else ex
                i = j + 1; continue
            if v == "debug_assert_eq":
                out += [("id", "debug_assert_eq"), ("op", "(")] + prep_tokens(inner, eng) + [("op", ")")]
                i = j + 1; continue
            fail(f"macro {v}! is outside the translated subset")
        out.append(toks[i]); i += 1
    return out

# ------------------------------------------------------------------------------------------------ types of lowered values
COL, ELEM, CITER, NAT, RNG, UNIT, SPLIT, HINT, PHANTOM = "col", "elem", "citer", "nat", "rng", "unit", "split", "hint", "phantom"
def vec(k, t): return ("vec", k, t)
def opt(t): return ("opt", t)

def lean_ty(t):
    if t == COL: return "List α"
    if t == ELEM: return "α"
    if t == CITER: return "SoaPrim.ColIter α"
    if t == NAT: return "Nat"
    if t == RNG: return "Soa.Rng"
    if t == UNIT: return "Unit"
    if t == SPLIT: return "(List α × List α × List α)"
    if t == HINT: return "(Nat × Option Nat)"
    if t[0] == "vec":
        if t[2] == COL: return f"Soa.Cols α {t[1]}"
        if t[2] == ELEM: return f"Soa.Row α {t[1]}"
        return f"Vector ({lean_ty(t[2])}) {t[1]}"
    if t[0] == "opt": return f"Option ({lean_ty(t[1])})"
    if t[0] == "nest": return f"Soa.Nest α {t[1]}"
    if t[0] == "arow": return f"Soa.Row α ({t[1]} + 1)"
    if t[0] == "pair": return f"{'SoaPrim.AIter' if t[3] == 'AIter' else 'Prim.AlphaOf'} ({lean_ty(t[1])}) ({lean_ty(t[2])})"
    if t[0] == "list": return f"List ({lean_ty(t[1])})"
    if t[0] == "opaque": return t[1]
    if t[0] == "outcome": return f"SoaPrim.Outcome ({lean_ty(t[1])}) ({lean_ty(t[2])})"
    if t[0] == "tup": return "(" + " × ".join(lean_ty(x) for x in t[1]) + ")"
    fail(f"no Lean type for {t!r}")

class Val:
    __slots__ = ("code", "ty", "place")
    def __init__(self, code, ty, place=None): self.code, self.ty, self.place = code, ty, place      # place: (root variable, field | None)

def alpha_ty(tc, ta):
    if tc[0] == "vec" and tc[2] == ELEM and ta == ELEM: return ("arow", tc[1])
    if tc[0] == "vec" and tc[2] == COL and ta == COL: return ("nest", tc[1])
    return ("pair", tc, ta, "AlphaOf")

# ------------------------------------------------------------------------------------------------ lowering
class Lower:
    def __init__(self, spec, registry):
        self.spec, self.reg = spec, registry
        self.shape = spec.get("shape")             # dict(name, k, cols={field: index}, phantom)
        self.lines, self.n, self.env = [], 0, {}
        self.may_panic = False
        self.root = None                           # the `&mut` receiver / mutated local, for early returns
        self.dicts = {}                            # generic mode: (opaque type name, method) -> (parameter, kind, result type)
        self.mutated = set()

    def tmp(self, p="t"):
        self.n += 1; return f"{p}{self.n - 1}"

    def emit(self, line): self.lines.append(line)

    # ---- the value a function returns, given the (current) receiver
    def ret(self, v):
        kind = self.spec["self"]
        if self.may_panic: return f".ok {self.root} {v.code}"
        if kind == "mut" or self.spec.get("state"):
            return self.root if v is None or v.ty == UNIT else f"({self.root}, {v.code})"
        return v.code

    def ret_ty(self, vty):
        kind = self.spec["self"]
        rt = self.env[self.root].ty if self.root else None
        if self.may_panic: return ("outcome", rt, vty)
        if kind == "mut" or self.spec.get("state"):
            return rt if vty in (None, UNIT) else ("tup", [rt, vty])
        return vty

    # ---- places
    def update(self, place, new_code):
        root, field = place
        rv = self.env[root]
        self.mutated.add(root)
        if field is None:
            self.emit(f"let {root} := {new_code}")
        elif rv.ty[0] == "vec":
            self.emit(f"let {root} := {root}.set {self.col(field)} ({new_code})")
        elif rv.ty[0] in ("nest", "pair"):
            if field not in ("color", "alpha"): fail(f"field {field} of an Alpha")
            self.emit(f"let {root} := {{ {root} with {field} := {new_code} }}")
        else: fail(f"cannot assign into {rv.ty!r}")

    def col(self, field):
        if self.shape is None or field not in self.shape["cols"]: fail(f"`{field}` is not a column of the registered shape ({self.shape and list(self.shape['cols'])})")
        return self.shape["cols"][field]

    def field(self, v, f):
        t = v.ty
        place = (v.place[0], f) if v.place is not None and v.place[1] is None else None
        if t[0] == "vec": return Val(f"({v.code}[{self.col(f)}])", t[2], place)
        if t[0] == "nest":
            if f == "color": return Val(f"{v.code}.color", vec(t[1], COL), place)
            if f == "alpha": return Val(f"{v.code}.alpha", COL, place)
        if t[0] == "arow":
            if f == "color": return Val(f"(Soa.rowColor {v.code})", vec(t[1], ELEM))
            if f == "alpha": return Val(f"(Soa.rowAlpha {v.code})", ELEM)
        if t[0] == "pair":
            if f == "color": return Val(f"{v.code}.color", t[1], place)
            if f == "alpha": return Val(f"{v.code}.alpha", t[2], place)
        fail(f"field `{f}` of a value of type {t!r}")

    # ---- expressions
    def expr(self, e):
        k = e[0]
        if k == "path":
            segs = e[1]
            if len(segs) == 1:
                n = segs[0]
                if n in self.env:
                    v = self.env[n]; return Val(v.code, v.ty, (n, None))
                if n == "None": return Val("none", ("opt", None))
                if n == STR: return Val('""', "str")
            if segs[-1] == "PhantomData": return Val("()", PHANTOM)
            fail(f"unknown name `{'::'.join(segs)}`")
        if k == "unary":
            if e[1] in ("&", "*"): return self.expr(e[2])
            fail(f"unary `{e[1]}`")
        if k == "field": return self.field(self.expr(e[1]), e[2])
        if k == "tuple":
            vs = [self.expr(x) for x in e[1]]
            return Val("(" + ", ".join(v.code for v in vs) + ")", ("tup", [v.ty for v in vs]))
        if k == "call": return self.call(e)
        if k == "mcall": return self.mcall(e)
        if k == "struct": return self.struct(e)
        if k == "try":
            v = self.expr(e[1])
            if v.ty[0] != "opt": fail("`?` on a value that is not an Option")
            if self.may_panic: fail("`?` in a function that can panic")
            q = self.tmp("q")
            self.emit(f"match {v.code} with")
            self.emit(f"| none => {self.ret(Val('none', ('opt', None)))}")
            self.emit(f"| some {q} =>")
            return Val(q, v.ty[1])
        if k == "iflet": return self.iflet(e)
        if k == "block":
            if e[1]: fail("a block with statements in expression position")
            return self.expr(e[2])
        fail(f"expression form `{k}` is outside the translated subset")

    def pure(self, e):
        """lower `e` requiring that it emits no statement"""
        n = len(self.lines)
        v = self.expr(e)
        if len(self.lines) != n: fail("an effectful call where only a pure expression is translated")
        return v

    def iflet(self, e):
        _, pat, scrut, th, el = e
        pats = pat[1] if pat[0] == "ptuple" else [pat]
        scs = scrut[1] if scrut[0] == "tuple" else [scrut]
        if len(pats) != len(scs): fail("`if let`: pattern and scrutinee have different arity")
        svals = [self.pure(x) for x in scs]
        saved = dict(self.env)
        lhs = []
        for p, s in zip(pats, svals):
            if not (p[0] == "ptstruct" and p[1] == "Some" and len(p[2]) == 1 and p[2][0][0] == "pid"): fail("`if let`: only `Some(name)` patterns are translated")
            if s.ty[0] != "opt": fail("`if let Some(..)` on a value that is not an Option")
            nm = R.lname(p[2][0][1])
            self.env[p[2][0][1]] = Val(nm, s.ty[1]); lhs.append(f"some {nm}")
        tv = self.pure(th)
        self.env = saved
        ev = self.pure(el)
        if ev.ty == ("opt", None): ev = Val(ev.code, tv.ty)
        if ev.ty != tv.ty: fail(f"`if let`: branches of different types {tv.ty!r} / {ev.ty!r}")
        return Val(f"(match {', '.join(s.code for s in svals)} with | {', '.join(lhs)} => {tv.code} | {', '.join('_' for _ in lhs)} => {ev.code})", tv.ty)

    def struct(self, e):
        _, p, fields, base = e
        if base is not None: fail("struct update syntax")
        name = p[1][-1]
        segs = p[1]
        vals = [(f, self.expr(x)) for f, x in fields]          # in the order written: effects are emitted in this order
        kind = None
        if name == "Self": kind = self.spec["self_struct"]
        elif name == "Alpha": kind = "alpha"
        elif name == "Iter": kind = "aiter" if "alpha" in segs else "iter"
        elif self.shape is not None and name == self.shape["name"]: kind = "color"
        else: fail(f"struct `{'::'.join(segs)}`")
        if kind in ("color", "iter"):
            sh = self.shape
            if sh is None: fail("a colour struct literal in generic code")
            slots = [None] * sh["k"]
            for f, v in vals:
                if v.ty == PHANTOM:
                    if f != sh["phantom"]: fail(f"PhantomData field `{f}`, the invocation names `{sh['phantom']}`")
                    continue
                i = self.col(f)
                if slots[i] is not None: fail(f"field `{f}` twice")
                slots[i] = v
            if any(s is None for s in slots): fail(f"struct literal does not set every column ({[f for f, _ in vals]})")
            t = slots[0].ty
            if any(s.ty != t for s in slots): fail(f"columns of different types {[s.ty for s in slots]!r}")
            if kind == "iter" and t != CITER: fail("`Iter { .. }` of something that is not a column iterator")
            return Val("#v[" + ", ".join(s.code for s in slots) + "]", vec(sh["k"], t))
        d = dict(vals)
        if [f for f, _ in vals] not in (["color", "alpha"], ["alpha", "color"]): fail(f"`{name}` literal with fields {[f for f, _ in vals]}")
        c, a = d["color"], d["alpha"]
        if kind == "aiter": return Val(f"(SoaPrim.AIter.mk {c.code} {a.code})", ("pair", c.ty, a.ty, "AIter"))
        t = alpha_ty(c.ty, a.ty)
        if t[0] == "arow": return Val(f"({c.code}.push {a.code})", t)
        if t[0] == "nest": return Val(f"(Soa.Nest.mk {c.code} {a.code})", t)
        return Val(f"(Prim.AlphaOf.mk {c.code} {a.code})", t)

    def callee(self, key):
        if key not in self.reg: fail(f"call of `{key}`: that body is not translated (registered: the callee must come first)")
        return self.reg[key]

    def call(self, e):
        _, f, args = e
        if f[0] != "path": fail("call of a computed function")
        segs = f[1]; name = "::".join(segs)
        if name == "Some":
            v = self.expr(args[0]); return Val(f"(some {v.code})", opt(v.ty))
        if name == "debug_assert_eq":
            if len(args) != 3: fail("debug_assert_eq!: three arguments expected")
            a, b = self.pure(args[0]), self.pure(args[1])
            if a.ty != b.ty: fail("debug_assert_eq!: operands of different types")
            return Val("()", UNIT)
        if segs[-2:] == ["Vec", "with_capacity"]:
            c = self.expr(args[0])
            if c.ty != NAT: fail("Vec::with_capacity of a non-usize")
            return Val(f"(SoaPrim.vecWithCapacity {c.code})", COL)
        if segs[-1] == "with_capacity" and self.shape is not None and segs[0] == self.shape["name"]:
            c = self.expr(args[0])
            return Val(f"({self.callee((self.shape['name'], 'with_capacity'))} {c.code})", vec(self.shape["k"], COL))
        if segs[-1] == "default" and len(segs) == 2:
            if self.spec.get("generic"):
                d = self.dict_for(segs[0], "default")
                return Val(d[0], d[2])
            return Val("SoaPrim.vecDefault", COL)
        if segs[-1] == "from_iter" and len(segs) == 2 and self.spec.get("generic"):
            if not (len(args) == 1 and args[0] == ("path", ["None"], [])): fail("`from_iter` of something other than `None`")
            d = self.dict_for(segs[0], "from_iter_none")
            return Val(d[0], d[2])
        if segs == ["IntoIterator", "into_iter"]:
            return self.method(self.expr(args[0]), "into_iter", [], None)
        fail(f"call of `{name}` is outside the translated subset")

    def dict_for(self, tyname, method):
        key = (tyname, method)
        if key not in self.spec["dicts"]: fail(f"`{tyname}`: method `{method}` is not a registered callee of this body")
        return self.spec["dicts"][key]

    def mcall(self, e):
        _, recv, m, args, _ = e
        if m == "extend" and len(args) == 1 and args[0][0] == "call" and args[0][1][0] == "path" and args[0][1][1][-1] == "once":
            r = self.expr(recv)
            x = self.expr(args[0][2][0])
            return self.method(r, "extend_once", [x], recv)
        r = self.expr(recv)
        return self.method(r, m, [self.expr(a) for a in args], recv)

    def effect(self, r, new_code, what):
        if r.place is None: fail(f"`{what}` on something that is not `self.<field>` / a local")
        self.update(r.place, new_code)

    def method(self, r, m, args, recv_ast):
        t = r.ty
        if m in ("clone", "as_ref", "as_mut", "into", "into_inner") and not args: return Val(r.code, r.ty, r.place)
        # ---- generic (dictionary-passing) receivers
        if t[0] == "opaque":
            d = self.dict_for(t[1], m)
            par, kind, rty = d
            a = " ".join(x.code for x in args)
            if kind == "pure": return Val(f"({par} {r.code}{' ' + a if a else ''})", rty)
            if kind == "update":
                self.effect(r, f"{par} {r.code}{' ' + a if a else ''}", m); return Val("()", UNIT)
            if kind == "step":
                tv = self.tmp()
                self.emit(f"let {tv} := {par} {r.code}{' ' + a if a else ''}")
                self.effect(r, f"{tv}.1", m)
                return Val(f"{tv}.2", rty)
            fail(f"dictionary kind {kind}")
        if t == ("list", None) or t[0] == "list":
            if m == "into_iter" and not args: return Val(r.code, r.ty, r.place)
        # ---- one column
        if t == COL:
            if m == "push" and len(args) == 1 and args[0].ty == ELEM:
                self.effect(r, f"SoaPrim.vecPush {r.code} {args[0].code}", m); return Val("()", UNIT)
            if m == "extend_once" and args[0].ty == ELEM:
                self.effect(r, f"SoaPrim.vecExtendOnce {r.code} {args[0].code}", m); return Val("()", UNIT)
            if m == "pop" and not args:
                tv = self.tmp(); self.emit(f"let {tv} := SoaPrim.vecPop {r.code}")
                self.effect(r, f"{tv}.1", m); return Val(f"{tv}.2", opt(ELEM))
            if m == "clear" and not args:
                self.effect(r, f"SoaPrim.vecClear {r.code}", m); return Val("()", UNIT)
            if m == "drain" and len(args) == 1 and args[0].ty == RNG:
                if r.place is None: fail("`drain` on something that is not `self.<field>`")
                self.may_panic = True
                tv = self.tmp()
                self.emit(f"match SoaPrim.vecDrain {r.code} {args[0].code} with")
                self.emit(f"| none => .panic {self.root}")
                self.emit(f"| some {tv} =>")
                self.update(r.place, f"{tv}.1")
                return Val(f"{tv}.2", CITER)
            if m in ("get", "get_mut") and len(args) == 1:
                i = args[0]
                fn = {("get", NAT): ("sliceGet", ELEM), ("get", RNG): ("sliceGetRange", COL),
                      ("get_mut", NAT): ("sliceGetMut", ELEM), ("get_mut", RNG): ("sliceGetMutRange", SPLIT)}.get((m, i.ty))
                if fn is None: fail(f"`{m}` with an index of type {i.ty!r}")
                return Val(f"(SoaPrim.{fn[0]} {r.code} {i.code})", opt(fn[1]))
            if m == "into_iter" and not args: return Val(f"(SoaPrim.colIntoIter {r.code})", CITER)
        if t == CITER:
            if m in ("next", "next_back") and not args:
                tv = self.tmp(); self.emit(f"let {tv} := SoaPrim.ColIter.{'next' if m == 'next' else 'nextBack'} {r.code}")
                self.effect(r, f"{tv}.1", m); return Val(f"{tv}.2", opt(ELEM))
            if m == "size_hint" and not args: return Val(f"(SoaPrim.ColIter.sizeHint {r.code})", HINT)
            if m == "len" and not args: return Val(f"(SoaPrim.ColIter.len {r.code})", NAT)
            if m == "count" and not args: return Val(f"(SoaPrim.ColIter.count {r.code})", NAT)
        # ---- the colour's own collection (inside the Alpha impls, `result.extend(iter)` in from_iter): calls of translated bodies
        if t[0] == "vec" and t[2] == COL and self.shape is not None:
            nm, k = self.shape["name"], t[1]
            if m == "push" and len(args) == 1 and args[0].ty == vec(k, ELEM):
                self.effect(r, f"{self.callee((nm, 'push'))} {r.code} {args[0].code}", m); return Val("()", UNIT)
            if m == "extend" and len(args) == 1 and args[0].ty == ("list", vec(k, ELEM)):
                self.effect(r, f"{self.callee((nm, 'extend'))} {r.code} {args[0].code}", m); return Val("()", UNIT)
            if m == "clear" and not args:
                self.effect(r, f"{self.callee((nm, 'clear'))} {r.code}", m); return Val("()", UNIT)
            if m == "pop" and not args:
                tv = self.tmp(); self.emit(f"let {tv} := {self.callee((nm, 'pop'))} {r.code}")
                self.effect(r, f"{tv}.1", m); return Val(f"{tv}.2", opt(vec(k, ELEM)))
            if m == "drain" and len(args) == 1 and args[0].ty == RNG:
                if r.place is None: fail("`drain` on something that is not `self.<field>`")
                self.may_panic = True
                tc, tv = self.tmp("c"), self.tmp()
                self.emit(f"match {self.callee((nm, 'drain'))} {r.code} {args[0].code} with")
                root, field = r.place
                self.emit(f"| .panic {tc} => .panic {{ {root} with {field} := {tc} }}")
                self.emit(f"| .ok {tc} {tv} =>")
                self.update(r.place, tc)
                return Val(tv, vec(k, CITER))
            if m in ("get", "get_mut") and len(args) == 1:
                i = args[0]
                fn = {("get", NAT): ("get", vec(k, ELEM)), ("get", RNG): ("get_range", vec(k, COL)),
                      ("get_mut", NAT): ("get_mut", vec(k, ELEM)), ("get_mut", RNG): ("get_mut_range", vec(k, SPLIT))}.get((m, i.ty))
                if fn is None: fail(f"`{m}` with an index of type {i.ty!r}")
                return Val(f"({self.callee((nm, fn[0]))} {r.code} {i.code})", opt(fn[1]))
            if m == "into_iter" and not args:
                # which `IntoIterator` impl: `self.color` by value / `&self.color` / `&mut self.color`, at the container of this form
                form = self.spec.get("into_iter_form")
                if form is None: fail("`into_iter` of a colour collection outside an IntoIterator / iter / iter_mut body")
                return Val(f"({self.callee((nm, 'into_iter', form(self.spec.get('ref_of_color', ''))))} {r.code})", vec(k, CITER))
        fail(f"method `{m}` on a value of type {t!r} is outside the translated subset")

    # ---- statements
    def block(self, b, top=False):
        _, stmts, tail = b
        for s in stmts:
            if s[0] == "let":
                _, p, ty, init = s
                if p[0] != "pid" or init is None: fail("`let` with a pattern / without initialiser")
                v = self.expr(init)
                nm = R.lname(p[1])
                if v.ty == UNIT: fail("`let` of a unit value")
                self.emit(f"let {nm} := {v.code}")
                self.env[p[1]] = Val(nm, v.ty)
                if p[2] and self.root is None and self.spec["self"] == "none": self.root = p[1]        # `let mut result = ..` of a constructor
            elif s[0] == "expr":
                e = s[1]
                if e[0] == "for": self.for_loop(e); continue
                v = self.expr(e)
                if v.ty != UNIT: fail("an expression statement whose value is dropped")
            else: fail(f"statement `{s[0]}` is outside the translated subset")
        if tail is not None and tail[0] == "for":
            self.for_loop(tail); return None
        return self.expr(tail) if tail is not None else None

    def for_loop(self, e):
        _, p, it, body = e
        if p[0] != "pid": fail("`for` with a pattern")
        iv = self.expr(it)
        if iv.ty[0] != "list": fail("`for` over something that is not the iterator parameter")
        sub = Lower(self.spec, self.reg)
        sub.env = dict(self.env); sub.root = self.root; sub.n = self.n + 100
        sub.env[p[1]] = Val(R.lname(p[1]), iv.ty[1])
        if sub.block(body) is not None: fail("`for` body with a value")
        if sub.may_panic: fail("a call that can panic inside `for`")
        if len(sub.mutated) != 1: fail(f"`for` body must mutate exactly one variable, mutates {sorted(sub.mutated)}")
        st = next(iter(sub.mutated))
        self.emit(f"let {st} := SoaPrim.forIn {iv.code} {st} (fun {st} {R.lname(p[1])} =>")
        for l in sub.lines: self.emit("  " + l)
        self.emit(f"  {st})")
        self.mutated.add(st)

# ------------------------------------------------------------------------------------------------ one body
def translate(spec, text, registry, eng):
    """-> (Lean definition text, signature for the registry)"""
    params, ret, body = R.find_fn(text, spec["where"], spec["fn"], spec.get("nth", 0))
    toks = prep_tokens(tokenize(body), eng)
    p = SParser(toks)
    b = p.block()
    if p.peek()[0] != "eof": fail("trailing tokens after the body")
    lw = Lower(spec, registry)
    if spec.get("into_iter_form") is not None:
        # the shared parser drops `mut` of `&mut e`; `(&mut self.color)` / `(&self.color)` occur only as the receiver of `.into_iter()`: read it from the tokens
        s = " ".join(v for _, v in toks)
        lw.spec = spec = dict(spec, ref_of_color=("Mut" if re.search(r"\(\s*&\s*mut\s+self\s*\.\s*color\s*\)", s) else
                                                  "Ref" if re.search(r"\(\s*&\s*self\s*\.\s*color\s*\)", s) else ""))
    # parameters
    names = []
    for part in R.split_top(params):
        part = part.strip()
        if not part: continue
        if re.fullmatch(r"&?\s*(?:'\w+\s+)?(?:mut\s+)?self", part): names.append("self"); continue
        mm = re.match(r"(?:mut\s+)?(\w+)\s*:", part)
        if not mm: fail(f"parameter {part!r}")
        names.append(mm.group(1))
    want = (["self"] if spec["self"] != "none" else []) + [n for n, _ in spec["params"]]
    if names != want: fail(f"parameters {names}, registered {want}")
    binders = []
    if spec["self"] != "none":
        lw.env["self"] = Val("self", spec["self_ty"])
        binders.append(f"(self : {lean_ty(spec['self_ty'])})")
        if spec["self"] == "mut": lw.root = "self"
    for n, t in spec["params"]:
        lw.env[n] = Val(R.lname(n), t)
        binders.append(f"({R.lname(n)} : {lean_ty(t)})")
    v = lw.block(b, top=True)
    if spec["self"] == "mut" and lw.root is None: fail("no receiver")
    if spec.get("state") and lw.root is None: fail("constructor without `let mut` state")
    if spec.get("state"):
        # `let mut result = ..; result.extend(iter); result`: the value is the state
        if v is None or v.place != (lw.root, None): fail("the constructor does not return its state variable")
        v = None
    vty = v.ty if v is not None else None
    if vty is not None and vty[0] == "opt" and vty[1] is None: fail("cannot infer the type of `None`")
    rty = lw.ret_ty(vty)
    if "ret" in spec and rty != spec["ret"]: fail(f"the body has type {rty!r}, registered {spec['ret']!r}")
    lines = lw.lines + [lw.ret(v)]
    gen = spec.get("generic")
    dparams = [f"({par} : {sig})" for par, sig in spec.get("dict_binders", [])]
    if gen:     # only the type parameters the signature mentions (an unused implicit could never be inferred)
        sig_text = " ".join(dparams + binders) + " " + lean_ty(rty)
        gen = [g for g in gen if re.search(r"(?<![\w])" + g + r"(?![\w])", sig_text)]
    tyb = "{" + " ".join(gen) + " : Type}" if gen else "{α : Type}"
    head = f"def {spec['name']} {tyb} " + " ".join(dparams + binders) + f" : {lean_ty(rty)} :="
    doc = f"/-- {spec['doc']} -/"
    return doc + "\n" + head + "\n" + "\n".join("  " + l for l in lines) + "\n", rty

# ------------------------------------------------------------------------------------------------ method sets of the translated impl blocks
def block_fns(src, where):
    """names of the `fn` items written directly inside the first item whose header matches `where` (the block `find_fn` reads bodies from)"""
    m = re.search(where, src)
    if not m: fail(f"item /{where}/ not found")
    i = src.index("{", m.end() - 1)
    scope = src[i + 1:R.match_brace(src, i) - 1]
    out, depth = [], 0
    for t in re.finditer(r"[{}]|\bfn\s+(\w+)", scope):
        if t.group(0) == "{": depth += 1
        elif t.group(0) == "}": depth -= 1
        elif depth == 0: out.append(t.group(1))
    return out

class MethodSets:
    """Every impl block a body is translated from must contain exactly the registered methods: a method that is written in the block and is not
    registered (a NEW override, e.g. `Iterator::nth`, `fold`, `nth_back`, `last`: it replaces a provided method the model derives from `next` /
    `next_back`) is neither modelled nor tied, so the run stops and names it."""
    def __init__(self): self.blocks = {}          # (id(text), where) -> [text, where, item description, {registered fn}]
    def add(self, text, where, item, fn):
        b = self.blocks.setdefault((id(text), where), [text, where, item, set()])
        b[3].add(fn)
    def check(self):
        bad = []
        for text, where, item, fns in self.blocks.values():
            found = block_fns(text, where)
            for f in found:
                if f not in fns: bad.append(f"{item}: the block contains `fn {f}`, which is not a registered / translated method of this block (translated: {sorted(fns)})")
            for f in sorted(fns):
                if found.count(f) != 1: bad.append(f"{item}: `fn {f}` occurs {found.count(f)} times in the block, exactly once expected")
        if bad:
            raise Untranslatable("method sets of the translated impl blocks: " + " ;; ".join(bad) + " -- a new method (an override of a provided method such as "
                                 "`Iterator::nth`) must be modelled, registered in tools/rust2lean_soa.py and tied (`tie_<name>`) before the run can pass")

# ------------------------------------------------------------------------------------------------ shapes and registrations
def partial_vfile(read_src):
    """cam16/partial.rs: the two struct-of-arrays invocations inside `macro_rules! make_partial_cam16`, instantiated at the first actual invocation"""
    import rust2lean_more as M
    src = read_src(M.PARTIAL)
    m = re.search(r"\bmacro_rules!\s+make_partial_cam16\s*\{", src)
    if not m: fail("macro_rules! make_partial_cam16 not found in cam16/partial.rs")
    end = M.balanced(src, m.end() - 1)
    body, rest = src[m.end():end], src[end:]
    pieces = []
    for macro in ("impl_struct_of_arrays_methods_hue", "impl_struct_of_array_traits_hue"):
        ms = list(re.finditer(r"(?<![\w$])" + macro + r"\s*!\s*([({])", body))
        if len(ms) != 1: fail(f"make_partial_cam16!: {len(ms)} invocations of {macro}! in the macro body, exactly one expected")
        pieces.append(body[ms[0].start():M.balanced(body, ms[0].end() - 1)] + ";")
    A = R.ATTRS
    im = re.search(r"(?<![\w$])make_partial_cam16\s*!\s*\{" + A + r"(\w+)\s*::\s*(\w+)\s*\{" + A + r"(\w+)\s*:\s*\w+\s*," + A + r"(\w+)\s*:\s*\w+\s*\}\s*\}", rest)
    if not im: fail("no make_partial_cam16! invocation recognised")
    _, name, lum, chr_ = im.groups()
    t = "\n".join(pieces)
    for a, b in (("name", name), ("luminance", lum), ("chromaticity", chr_)): t = re.sub(r"\$" + a + r"\b", b, t)
    left = sorted(set(re.findall(r"[$]\w+", t)))
    if left: fail(f"make_partial_cam16! at {name}: metavariables left after substitution: {left}")
    return name, t

# (type, prefix, file, hue macro?)  -- one type per shape; the element list, phantom field and column order come from the invocation
SHAPE_TYPES = [("Rgb", "rgb", "rgb/rgb.rs", False), ("Hsv", "hsv", "hsv.rs", True), ("Luma", "luma", "luma/luma.rs", False), ("PARTIAL", None, None, True)]

def tokpat(s):
    return r"\s*".join(re.escape(v) for _, v in tokenize(s))

def shape_of(eng, file, name, hue):
    """read the invocation `impl_struct_of_arrays_methods[_hue]!(Name<P>, [e1, ..], phantom)` (and the traits one: same lists) as written now"""
    out = {}
    for macro in ("impl_struct_of_arrays_methods" + ("_hue" if hue else ""), "impl_struct_of_array_traits" + ("_hue" if hue else "")):
        invs = [x for x in eng.invocations(file, macro) if x and x[0][0] == "tok" and x[0][2] == name]
        if len(invs) != 1: fail(f"{file}: {len(invs)} invocations of {macro}! for {name}, exactly one expected")
        lists = [it for it in invs[0] if it[0] == "group" and it[1] == "["]
        if len(lists) != 1: fail(f"{macro}!({name} ..): element list not recognised")
        elems = [it[2] for it in lists[0][2] if it[0] == "tok" and it[1] == "id"]
        tail = invs[0][invs[0].index(lists[0]) + 1:]
        ph = [it[2] for it in tail if it[0] == "tok" and it[1] == "id"]
        pty = None
        if len(invs[0]) > 1 and rust_macros.is_tok(invs[0][1], "<"): pty = invs[0][2][2] if invs[0][2][0] == "tok" and invs[0][2][1] == "id" else None
        out[macro] = (elems, ph[0] if ph else None, pty)
    a, b = list(out.values())
    if a != b: fail(f"{name}: the methods and traits invocations list different elements {a} / {b}")
    elems, ph, pty = a
    if not elems: fail(f"{name}: empty element list")
    cols = (["hue"] if hue else []) + elems
    return dict(name=name, k=len(cols), cols={f: i for i, f in enumerate(cols)}, order=cols, phantom=ph, pty=pty, hue=hue)

CONTAINERS = [  # (form name, self-type template over {C} = colour type with the container, by-value / & / &mut)
    ("Arr", "[T; N]"), ("Slice", "&'a [T]"), ("SliceMut", "&'a mut [T]"), ("Vec", "alloc::vec::Vec<T>"),
]
REF_CONTAINERS = [("Arr", "[T; N]"), ("Slice", "&'b [T]"), ("SliceMut", "&'b mut [T]"), ("Vec", "alloc::vec::Vec<T>"), ("Box", "alloc::boxed::Box<[T]>")]
MUT_CONTAINERS = [("Arr", "[T; N]"), ("SliceMut", "&'b mut [T]"), ("Vec", "alloc::vec::Vec<T>"), ("Box", "alloc::boxed::Box<[T]>")]

def into_iter_forms():
    out = []
    for n, c in CONTAINERS: out.append((n, "", c))
    for n, c in REF_CONTAINERS: out.append(("Ref" + n, "&'a ", c))
    for n, c in MUT_CONTAINERS: out.append(("Mut" + n, "&'a mut ", c))
    return out

def bodies_for(sh, prefix, src_m, src_t, label):
    """registrations for one type: (spec, expansion text).  Order: callees first."""
    T, k, P = sh["name"], sh["k"], (sh["pty"] + " , ") if sh["pty"] else ""
    Pp = (sh["pty"] + ", ") if sh["pty"] else ""
    cols, row, iters = vec(k, COL), vec(k, ELEM), vec(k, CITER)
    def ty(container): return f"{T}<{Pp}{container}>"
    def W(s): return tokpat(s)
    out = []
    def add(name, text, where, fn, self_kind, self_ty, params, key, **kw):
        out.append((dict(name=prefix + name, where=where, fn=fn, self=self_kind, self_ty=self_ty, params=params, shape=sh, key=key,
                         self_struct=kw.pop("self_struct", "color"),
                         doc=f"{label}: `fn {fn}` in `{kw.pop('item')}`" + kw.pop("note", ""), **kw), text))
    # ---- traits macro: IntoIterator (13 forms), Iter
    for form, ref, c in into_iter_forms():
        hdr = f"IntoIterator for {ref}{ty(c)}"
        add("IntoIter" + form, src_t, r"impl\s*<[^{]*?>\s*" + W(hdr) + r"\s*(?:where[^{]*)?\{", "into_iter", "val", cols, [], (T, "into_iter", form), item="impl " + hdr)
    it_hdr = "Iter<I" + (", " + sh["pty"] if sh["pty"] else "") + ">"
    for fn, tr, kind in (("next", "Iterator", "mut"), ("size_hint", "Iterator", "ref"), ("count", "Iterator", "val"),
                         ("next_back", "DoubleEndedIterator", "mut"), ("len", "ExactSizeIterator", "ref")):
        nm = "Iter" + "".join(w.capitalize() for w in fn.split("_"))
        add(nm, src_t, r"impl\s*<[^{]*?>\s*" + W(f"{tr} for {it_hdr}"), fn, kind, iters, [], (T, "iter_" + fn), item=f"impl {tr} for {it_hdr}")
    # ---- methods macro: generic container
    g = r"impl\s*<\s*" + W(Pp + "C") + r"\s*>\s*" + W(ty("C")) + r"\s*\{"
    gi = f"impl<{Pp}C> {ty('C')}"
    add("Iter", src_m, g, "iter", "ref", cols, [], (T, "iter"), item=gi, into_iter_form=lambda ref: "RefVec",
        note=" (`self.into_iter()` at `&'a Self`, dispatched at the `Vec` container: `IntoIterator for &'a " + ty("alloc::vec::Vec<T>") + "`)")
    add("IterMut", src_m, g, "iter_mut", "mut_as_ref", cols, [], (T, "iter_mut"), item=gi, into_iter_form=lambda ref: "MutVec",
        note=" (`self.into_iter()` at `&'a mut Self`, dispatched at the `Vec` container)")
    add("Get", src_m, g, "get", "ref", cols, [("index", NAT)], (T, "get"), item=gi, note=" at `I = usize`")
    add("GetRange", src_m, g, "get", "ref", cols, [("index", RNG)], (T, "get_range"), item=gi, note=" at `I` = a range")
    add("GetMut", src_m, g, "get_mut", "ref", cols, [("index", NAT)], (T, "get_mut"), item=gi, note=" at `I = usize` (the places; writes are applied by the caller)")
    add("GetMutRange", src_m, g, "get_mut", "ref", cols, [("index", RNG)], (T, "get_mut_range"), item=gi, note=" at `I` = a range")
    # ---- methods macro: Vec
    v = r"impl\s*<\s*" + W(Pp + "T") + r"\s*>\s*" + W(ty("alloc::vec::Vec<T>")) + r"\s*\{"
    vi = f"impl<{Pp}T> {ty('alloc::vec::Vec<T>')}"
    add("WithCapacity", src_m, v, "with_capacity", "none", None, [("capacity", NAT)], (T, "with_capacity"), item=vi)
    add("Push", src_m, v, "push", "mut", cols, [("value", row)], (T, "push"), item=vi)
    add("Pop", src_m, v, "pop", "mut", cols, [], (T, "pop"), item=vi)
    add("Clear", src_m, v, "clear", "mut", cols, [], (T, "clear"), item=vi)
    add("Drain", src_m, v, "drain", "mut", cols, [("range", RNG)], (T, "drain"), item=vi)
    # ---- traits macro: Extend, FromIterator
    eh = f"Extend<{ty('T')}> for {ty('C')}"
    add("Extend", src_t, r"impl\s*<[^{]*?>\s*" + W(eh), "extend", "mut", cols, [("iter", ("list", row))], (T, "extend"), item="impl " + eh)
    fh = f"core::iter::FromIterator<{ty('T')}> for {ty('C')}"
    add("FromIter", src_t, r"impl\s*<[^{]*?>\s*" + W(fh), "from_iter", "none", None, [("iter", ("list", row))], (T, "from_iter"), item="impl " + fh, state=True)
    # ---- methods macro: Alpha, generic containers
    nest, arow = ("nest", k), ("arow", k)
    ag = r"impl\s*<\s*" + W(Pp + "Ct, Ca") + r"\s*>\s*" + W(f"crate::Alpha<{ty('Ct')}, Ca>") + r"\s*\{"
    agi = f"impl<{Pp}Ct, Ca> crate::Alpha<{ty('Ct')}, Ca>"
    add("aGet", src_m, ag, "get", "ref", nest, [("index", NAT)], (T, "a_get"), item=agi, self_struct="alpha", note=" at `I = usize`")
    add("aGetRange", src_m, ag, "get", "ref", nest, [("index", RNG)], (T, "a_get_range"), item=agi, self_struct="alpha", note=" at `I` = a range")
    add("aGetMut", src_m, ag, "get_mut", "ref", nest, [("index", NAT)], (T, "a_get_mut"), item=agi, self_struct="alpha", note=" at `I = usize`")
    add("aGetMutRange", src_m, ag, "get_mut", "ref", nest, [("index", RNG)], (T, "a_get_mut_range"), item=agi, self_struct="alpha", note=" at `I` = a range")
    av = r"impl\s*<\s*" + W(Pp + "T, A") + r"\s*>\s*" + W(f"crate::Alpha<{ty('alloc::vec::Vec<T>')}, alloc::vec::Vec<A>>") + r"\s*\{"
    avi = f"impl<{Pp}T, A> crate::Alpha<{ty('alloc::vec::Vec<T>')}, alloc::vec::Vec<A>>"
    add("aWithCapacity", src_m, av, "with_capacity", "none", None, [("capacity", NAT)], (T, "a_with_capacity"), item=avi, self_struct="alpha")
    add("aPush", src_m, av, "push", "mut", nest, [("value", arow)], (T, "a_push"), item=avi, self_struct="alpha")
    add("aPop", src_m, av, "pop", "mut", nest, [], (T, "a_pop"), item=avi, self_struct="alpha")
    add("aClear", src_m, av, "clear", "mut", nest, [], (T, "a_clear"), item=avi, self_struct="alpha")
    add("aDrain", src_m, av, "drain", "mut", nest, [("range", RNG)], (T, "a_drain"), item=avi, self_struct="alpha")
    # ---- traits macro: IntoIterator for Alpha (13 forms)
    for form, ref, c in into_iter_forms():
        inner = re.sub(r"^(Ref|Mut)", "", form)
        hdr = f"IntoIterator for {ref}crate::alpha::Alpha<{ty(c)}, {c}>"
        add("aIntoIter" + form, src_t, r"impl\s*<[^{]*?>\s*" + W(hdr) + r"\s*(?:where[^{]*)?\{", "into_iter", "val", nest, [], (T, "a_into_iter", form),
            item="impl " + hdr, self_struct="alpha", into_iter_form=lambda ref, inner=inner: ref + inner)
    return out

def alpha_rs_bodies():
    """alpha/alpha.rs: generic over the colour / alpha iterator (`C`, `A`) resp. collection types: dictionary passing"""
    G, T_, RC, RA = ("opaque", "γ"), ("opaque", "τ"), ("opaque", "ρc"), ("opaque", "ρa")
    aiter = ("pair", G, T_, "AIter")
    item = ("pair", RC, RA, "AlphaOf")
    def it_dicts():
        d, b = {}, []
        for f, ty_, r in (("color", "γ", RC), ("alpha", "τ", RA)):
            for m, kind, res, sig in (("next", "step", opt(r), f"{ty_} → {ty_} × Option {r[1]}"), ("next_back", "step", opt(r), f"{ty_} → {ty_} × Option {r[1]}"),
                                      ("size_hint", "pure", HINT, f"{ty_} → Nat × Option Nat"), ("count", "pure", NAT, f"{ty_} → Nat"), ("len", "pure", NAT, f"{ty_} → Nat")):
                par = f + "".join(w.capitalize() for w in m.split("_"))
                d[(ty_, m)] = (par, kind, res); b.append((m, par, sig))
        return d, b
    d, b = it_dicts()
    out = []
    def add(name, where, fn, kind, uses, **kw):
        out.append(dict(name=name, where=where, fn=fn, self=kind, self_ty=aiter, params=[], shape=None, key=("alpha", fn), self_struct="alpha",
                        generic=["γ", "τ", "ρc", "ρa"], dicts=d, dict_binders=[(par, sig) for m, par, sig in b if m in uses],
                        doc=f"alpha/alpha.rs: `fn {fn}` in `impl {kw['item']}` (every method of the two wrapped iterators is a parameter)"))
    add("alphaIterNext", r"impl\s*<\s*C\s*,\s*A\s*>\s*Iterator\s+for\s+Iter\s*<\s*C\s*,\s*A\s*>", "next", "mut", ["next"], item="Iterator for Iter<C, A>")
    add("alphaIterSizeHint", r"impl\s*<\s*C\s*,\s*A\s*>\s*Iterator\s+for\s+Iter\s*<\s*C\s*,\s*A\s*>", "size_hint", "ref", ["size_hint"], item="Iterator for Iter<C, A>")
    add("alphaIterCount", r"impl\s*<\s*C\s*,\s*A\s*>\s*Iterator\s+for\s+Iter\s*<\s*C\s*,\s*A\s*>", "count", "val", ["count"], item="Iterator for Iter<C, A>")
    add("alphaIterNextBack", r"impl\s*<\s*C\s*,\s*A\s*>\s*DoubleEndedIterator\s+for\s+Iter\s*<\s*C\s*,\s*A\s*>", "next_back", "mut", ["next_back"], item="DoubleEndedIterator for Iter<C, A>")
    add("alphaIterLen", r"impl\s*<\s*C\s*,\s*A\s*>\s*ExactSizeIterator\s+for\s+Iter\s*<\s*C\s*,\s*A\s*>", "len", "ref", ["len"], item="ExactSizeIterator for Iter<C, A>")
    # Extend / FromIterator for Alpha<C, A>
    coll = ("pair", G, T_, "AlphaOf")
    de = {("γ", "extend_once"): ("colorExtendOnce", "update", UNIT), ("τ", "extend_once"): ("alphaExtendOnce", "update", UNIT),
          ("C", "from_iter_none"): ("colorFromIterNone", "pure", G), ("A", "default"): ("alphaDefault", "pure", T_)}
    eb = [("colorExtendOnce", "γ → ρc → γ"), ("alphaExtendOnce", "τ → ρa → τ")]
    out.append(dict(name="alphaExtend", where=r"impl\s*<\s*Tc\s*,\s*Ta\s*,\s*C\s*,\s*A\s*>\s*Extend\s*<\s*Alpha\s*<\s*Tc\s*,\s*Ta\s*>\s*>\s*for\s+Alpha\s*<\s*C\s*,\s*A\s*>",
                    fn="extend", self="mut", self_ty=coll, params=[("iter", ("list", item))], shape=None, key=("alpha", "extend"), self_struct="alpha",
                    generic=["γ", "τ", "ρc", "ρa"], dicts=de, dict_binders=eb,
                    doc="alpha/alpha.rs: `fn extend` in `impl Extend<Alpha<Tc, Ta>> for Alpha<C, A>` (`C::extend(once(..))`, `A::extend(once(..))` are parameters)"))
    out.append(dict(name="alphaFromIter", where=r"impl\s*<\s*Tc\s*,\s*Ta\s*,\s*C\s*,\s*A\s*>\s*FromIterator\s*<\s*Alpha\s*<\s*Tc\s*,\s*Ta\s*>\s*>\s*for\s+Alpha\s*<\s*C\s*,\s*A\s*>",
                    fn="from_iter", self="none", self_ty=None, params=[("iter", ("list", item))], shape=None, key=("alpha", "from_iter"), self_struct="alpha", state=True,
                    generic=["γ", "τ", "ρc", "ρa"], dicts=de, dict_binders=[("colorFromIterNone", "γ"), ("alphaDefault", "τ")] + eb,
                    doc="alpha/alpha.rs: `fn from_iter` in `impl FromIterator<Alpha<Tc, Ta>> for Alpha<C, A>` (`C::from_iter(None)`, `A::default()` and the two `extend(once(..))` are parameters)"))
    return out

UNTRANSLATED = [
    "the same four macros at the other 22 invocations (Lab, Xyz, Luv, Yxy, Lms, Oklab, Cam16UcsJab: the `Rgb` shape; Hsl, Hwb, Lch, Lchuv, Hsluv, Okhsl, Okhsv, Okhwb, Oklch,",
    "  Cam16UcsJmh and the other five partial CAM16 types: the `Hsv` / `Cam16Jch` shape): the macro text is the one translated here, the element lists are data",
    "  (Gen/Soa.lean, `C18.methods_eq_traits`), every type is replayed by the correspondence run",
    "the hue collections of hues.rs (`make_hues!`: `$name<Vec<T>>::push/pop/clear/drain/get/get_mut`, `$iter_name::next/..`, `Extend`, `IntoIterator`): one-line forwards to",
    "  `self.0`; the hue column is read as a column like the others (its methods are the `SoaPrim` column operations)",
    "`Iter::count` consumes the column iterators inside `debug_assert_eq!` (debug builds only); `mem::forget` of a `Drain` (`Soa.Op.forgetDrain`) is std's behaviour, not a macro body",
    "`iter` / `iter_mut` are generic over the container: translated at the `Vec` container only (the 13 `IntoIterator` impls they dispatch to are all translated)",
    "the `Alpha` inherent `iter` / `iter_mut` of alpha/alpha.rs (`self.into_iter()`), `struct_of_arrays_tests!` (test code)",
]

def generate(read_src, tie_text):
    """-> text of Gen/BodiesSoa.lean.  Raises Untranslatable / MacroError when a registered body leaves the subset or disappears, or a translated body has no
    `tie_<name>` theorem in PaletteProofs/Tie_Soa.lean."""
    pname, ptext = partial_vfile(read_src)
    VF = "cam16/partial.rs#soa"
    def read2(rel): return ptext if rel == VF else read_src(rel)
    eng = rust_macros.Engine(read2, tokenize, [SOA])
    registry, defs, names = {}, [], []
    listing = []
    msets = MethodSets()
    for (T, prefix, file, hue) in SHAPE_TYPES:
        if T == "PARTIAL": T, prefix, file = pname, pname[0].lower() + pname[1:], VF
        sh = shape_of(eng, file, T, hue)
        m1 = "impl_struct_of_arrays_methods" + ("_hue" if hue else ""); m2 = "impl_struct_of_array_traits" + ("_hue" if hue else "")
        src_m, inv_m = eng.expand_invocation(file, m1, T)
        src_t, inv_t = eng.expand_invocation(file, m2, T)
        label_m = f"{file.split('#')[0]}: {m1}!({R.pretty_tokens(inv_m)})" if hasattr(R, "pretty_tokens") else f"{file}: {m1}!(..)"
        listing.append(f"{T} ({'hue + ' if hue else ''}{', '.join(sh['order'][1:] if hue else sh['order'])}; k = {sh['k']})")
        for spec, text in bodies_for(sh, prefix, src_m, src_t, None):
            which = m1 if text is src_m else m2
            spec["doc"] = f"{file.split('#')[0]}: `{which}!({R.pretty_tokens(inv_m if text is src_m else inv_t)})`" + spec["doc"][len("None"):]
            if spec["self"] == "mut_as_ref": spec["self"] = "ref"
            msets.add(text, spec["where"], spec["doc"].split(": `fn ")[0] + ", " + spec["doc"].split(" in `", 1)[1].split("`")[0], spec["fn"])
            try:
                d, rty = translate(spec, text, registry, eng)
            except (Untranslatable, rust_macros.MacroError) as e:
                raise Untranslatable(f"body {spec['name']} ({file}: fn {spec['fn']}): {e}")
            registry[spec["key"]] = NS + "." + spec["name"]
            defs.append(d); names.append(spec["name"])
    asrc = read_src("alpha/alpha.rs")
    for spec in alpha_rs_bodies():
        msets.add(asrc, spec["where"], "alpha/alpha.rs, " + spec["doc"].split(" in `", 1)[1].split("`")[0], spec["fn"])
        try:
            d, rty = translate(spec, asrc, registry, eng)
        except (Untranslatable, rust_macros.MacroError) as e:
            raise Untranslatable(f"body {spec['name']} (alpha/alpha.rs: fn {spec['fn']}): {e}")
        defs.append(d); names.append(spec["name"])
    msets.check()
    for n in (names if tie_text is not None else []):
        m = re.search(r"\btheorem\s+tie_" + n + r"\b(.*?):=", tie_text, re.S)
        if not m: raise Untranslatable(f"body {n} is translated but lean/PaletteProofs/{TIE} (and the parts it imports) has no theorem tie_{n}")
        if not re.search(re.escape(NS + "." + n) + r"\b", m.group(1)) or not re.search(r"\bSoa\.", m.group(1)):
            raise Untranslatable(f"theorem tie_{n} does not state {NS}.{n} against a function of the model (namespace `Soa`)")
    head = ["/- GENERATED by tools/extract.py (tools/extract_plugins/soa.py -> tools/rust2lean_soa.py, family `soa`) from the current source text -- do not edit",
            "",
            "  The struct-of-arrays collection code (C18): palette/src/macros/struct_of_arrays.rs (`impl_struct_of_arrays_methods[_hue]!`, `impl_struct_of_array_traits[_hue]!`,",
            "  `first!`, `skip_first!`) expanded by tools/rust_macros.py at the actual invocations of one type per shape:",
            "    " + "; ".join(listing),
            "  and `alpha::Iter`, `Extend`, `FromIterator` of alpha/alpha.rs.  Per type: `with_capacity`, `push`, `pop`, `clear`, `drain`, `get` / `get_mut` (at `usize` and at a",
            "  range), `iter`, `iter_mut`, `Extend::extend`, `FromIterator::from_iter`, the 13 `IntoIterator` impls, `Iter::{next, next_back, size_hint, count, len}`, and the same",
            "  for `Alpha<Color<..>, ..>` (inherent methods + 13 `IntoIterator` impls).  Conventions: header of tools/rust2lean_soa.py; primitives: PaletteModel/BodyPrimSoa.lean.",
            f"  `PaletteProofs/{TIE}` proves one `tie_<name>` per definition below ({len(names)}) against `Soa.step` / `Soa.nstep` / `Soa.Zip.*` / `Soa.NZip.*`",
            "  (PaletteModel/Soa.lean, SoaNested.lean), for every component type and every state.",
            "",
            "  NOT translated (still tied to the source by the correspondence run / the regex checks of `gen_soa` only):"] + ["    " + u for u in UNTRANSLATED] + ["-/",
            "import PaletteModel.BodyPrimSoa", "import PaletteModel.BodyPrimGlue", "",
            "set_option linter.unusedVariables false", "",
            f"namespace {NS}", "",
            "/-- names of the translated bodies (each has a `tie_` theorem) -/",
            "def tiedSoa : List String := [\n" + ",\n".join("  " + ", ".join(f'"{n}"' for n in names[i:i + 6]) for i in range(0, len(names), 6)) + "]", ""]
    return "\n".join(head) + "\n" + "\n".join(defs) + f"\nend {NS}\n"

if __name__ == "__main__":
    repo = os.environ.get("PALETTE_REPO", "/repo")
    def read_src(rel): return R.strip_comments(open(os.path.join(repo, "palette", "src", rel)).read())
    root = os.path.dirname(os.path.dirname(os.path.abspath(__file__)))
    import glob
    tie = os.path.join(root, "lean", "PaletteProofs", TIE)
    tie_text = "\n".join(open(p).read() for p in sorted(glob.glob(os.path.join(root, "lean", "PaletteProofs", "Tie_Soa*.lean"))))
    try:
        sys.stdout.write(generate(read_src, None if "--no-tie" in sys.argv else tie_text))
    except (Untranslatable, rust_macros.MacroError) as e:
        print("FAILED:", e); sys.exit(1)
