#!/usr/bin/env python3
"""
rust2lean_simd -- the *mask-generic* reading of palette's generic function bodies (C17).

tools/rust2lean.py translates the bodies of the conversion functions into Lean terms over `class Scalar`, reading them the way
`f32`/`f64` execute them: `lazy_select!`/`select` become `if`, comparisons become `Prop`s, `TypeId::of::<T::Mask>() == bool` is
true.  This tool re-reads the *same source text* (same parser, same registrations) the way the SIMD component types
`wide::{f32x4, f32x8, f64x2, f64x4}` execute it and lowers it to `def Gen.BodyV.<name> {α μ} [Simd.VScalar α μ] ...` in
lean/PaletteModel/Gen/BodiesV.lean:

  * comparisons (`a.lt(&b)`, `.gt`, `.lt_eq`, `.gt_eq`, `.eq`, `.neq`, `x.is_valid_divisor()`) produce a *mask* (`μ`):
    `VScalar.lt a b`, ..., in the orientation the source writes; masks are combined with `Mask.and/or/not` (`& | !`)
  * `lazy_select! { if c => a, .. else => b }`, `m.lazy_select(|| a, || b)` -> `Simd.lazySelect c a b`, `m.select(a, b)` -> `VScalar.select m a b`
    (both branches are values; nothing is skipped)
  * `TypeId::of::<T::Mask>() == TypeId::of::<bool>()` is *false*
  * arithmetic, `min`/`max`, `sqrt cbrt abs floor ceil sin cos powf atan2 exp ln` -> the `VScalar` operations; `mul_add`/`mul_sub` ->
    `VFused.mulAdd/mulSub`; `hypot`, `to_degrees`, `to_radians`, `T::from_f64(PI)` -> `class Angle`; `recip`, `powi(2|3)`, colour (op) colour
    -> PaletteModel/SimdPrim.lean
  * the per-type angle helpers are read from `angle/wide.rs` (`impl_angle_wide_float!`), not from `angle.rs`

and it REFUSES (`Untranslatable`, which extract.py turns into `broken[extraction]`) everything that is not lane-wise:

  * an `if` / early `return` / assignment under `if` whose condition is a mask or a comparison (only compiles for `Mask = bool`),
  * `mask.is_true()` / `mask.is_false()` (horizontal reductions), `<`/`>`/`==` operators on components (they yield `bool`),
  * an unresolved `TypeId` comparison, loops.

So a registered SIMD-capable body that acquires a second representation switch, a horizontal test or a real branch stops the run;
a changed formula flows into Gen/BodiesV.lean and breaks its `tieV_<name>` theorem (PaletteProofs/C17_TieV.lean), which states that
at `Mask = bool` the mask-generic reading *is* the scalar reading `Gen.Body.<name>` (or, for blend.rs, the hand model function).
"""
import re
import rust2lean as R
from rust2lean import Val, fail, Untranslatable

_base_lean_ty = R.lean_ty
def _lean_ty(ty):
    if ty == "M": return "μ"
    return _base_lean_ty(ty)
R.lean_ty = _lean_ty          # the methods of `Lower` look the function up in their module; "M" never occurs in scalar mode

PRIM1V = {"sqrt": "VScalar.sqrt", "cbrt": "VScalar.cbrt", "abs": "VScalar.abs", "sin": "VScalar.sin", "cos": "VScalar.cos",
          "floor": "VScalar.floor", "ceil": "VScalar.ceil", "round": "VScalar.round", "exp": "VScalar.exp", "ln": "VScalar.ln",
          "recip": "recipV", "degrees_to_radians": "Angle.degToRad", "radians_to_degrees": "Angle.radToDeg",
          "is_valid_divisor": "VScalar.isValidDivisor"}
PRIM2V = {"max": "VScalar.max", "min": "VScalar.min", "powf": "VScalar.powf", "atan2": "VScalar.atan2", "hypot": "Angle.hypot"}
PRIM3V = {"mul_add": "VFused.mulAdd", "mul_sub": "VFused.mulSub"}
CMPV = {"gt": "VScalar.gt", "lt": "VScalar.lt", "gt_eq": "VScalar.ge", "lt_eq": "VScalar.le", "eq": "VScalar.eq", "neq": "VScalar.ne"}
IDENTITY_V = R.IDENTITY_METHODS - {"is_true"}
V3OPS = {"+": "Add", "-": "Sub", "*": "Mul", "/": "Div"}

class LowerV(R.Lower):
    def __init__(self, *a, **kw):
        super().__init__(*a, **kw)
        self.uses_fused = False

    # a condition of a real `if`: never lane-wise
    def as_cond(self, v):
        fail(f"`if` on a mask ({v.code}): only compiles for T::Mask = bool -- not lane-wise")
    def as_bool(self, v):
        if v.ty == "M": return v.code
        fail(f"mask expected, found {v.ty!r}: {v.code}")

    def from_f64(self, e):
        if e[0] == "path" and "::".join(e[1]) in self.subst:
            e = ("num", self.subst["::".join(e[1])])
        if e[0] == "path" and e[1] == ["core", "f64", "consts", "PI"]:
            self.uses_angle = True
            return Val("Angle.pi", "T")
        if self.kmode == "sci":
            if e[0] == "num": return Val(f"({self.sci(e[1])} : α)", "T")
            if e[0] == "unary" and e[1] == "-" and e[2][0] == "num": return Val(f"(-({self.sci(e[2][1])} : α))", "T")
        return Val(f"(VScalar.const {self.k_expr(e)} : α)", "T")

    def select(self, m, a, b, lazy):
        if m.ty != "M": fail(f"select on {m.ty!r}: {m.code}")
        if a.ty != "T" or b.ty != "T": fail(f"select of {a.ty!r} / {b.ty!r}: `Select<T>` is implemented for components only")
        return Val(f"({'lazySelect' if lazy else 'VScalar.select'} {m.code} {a.code} {b.code})", "T")

    def expr(self, e, env):
        if e[0] == "lazy_select":
            out = self.expr(e[2], env)
            for c, a in reversed(e[1]):
                out = self.select(self.expr(c, env), self.expr(a, env), out, True)
            return out
        if e[0] == "if":
            st, _ = self.static_cond(e[1], env)
            if st is None: fail("`if` expression whose condition is not resolved statically: only compiles for T::Mask = bool -- not lane-wise")
        return super().expr(e, env)

    def unary(self, e, env):
        op = e[1]
        v = self.expr(e[2], env)
        if op in ("&", "*"): return v
        if op == "-": return Val(f"(-{self.scalar(v, ' under unary -')})", "T")
        if op == "!":
            if v.ty == "M": return Val(f"(Mask.not {v.code})", "M")
            fail(f"`!` on {v.ty!r}")
        fail(f"unary {op}")

    def binary(self, e, env):
        op = e[1]
        a, b = self.expr(e[2], env), self.expr(e[3], env)
        if a.ty != "T" and a.ty[0] == "typeid":
            if op != "==" or b.ty[0] != "typeid": fail("TypeId used outside `==`")
            key = f"{a.ty[1]} == {b.ty[1]}"
            self.typeids_seen.append(key)
            if key not in self.typeid: fail(f"TypeId comparison `{key}` is not resolved by the registration of this body (a further representation switch?)")
            return Val("True" if self.typeid[key] else "False", ("static", self.typeid[key]))
        if op in "+-*/":
            if a.ty == "T" and b.ty == "T": return Val(f"({a.code} {op} {b.code})", "T")
            if a.ty[0] == "V3" and b.ty[0] == "V3": return Val(f"(v3{V3OPS[op]} {a.code} {b.code})", a.ty)
            if a.ty[0] == "V3" and b.ty == "T": return Val(f"(v3{V3OPS[op]}S {a.code} {b.code})", a.ty)
            fail(f"`{op}` on {a.ty!r} and {b.ty!r}")
        if op in R.CMP_OPS or op in ("==", "!="):
            fail(f"operator `{op}` on components yields `bool`: only for scalar component types -- not lane-wise")
        if op in ("|", "||"): return Val(f"(Mask.or {self.as_bool(a)} {self.as_bool(b)})", "M")
        if op in ("&", "&&"): return Val(f"(Mask.and {self.as_bool(a)} {self.as_bool(b)})", "M")
        if op == "^": return Val(f"(Mask.xor {self.as_bool(a)} {self.as_bool(b)})", "M")
        fail(f"binary {op}")

    def prim(self, name, a):
        n = len(a)
        if name in PRIM1V and n == 1:
            lean = PRIM1V[name]
            if lean.startswith("Angle."): self.uses_angle = True
            return Val(f"({lean} {self.scalar(a[0])})", "M" if name == "is_valid_divisor" else "T")
        if name in PRIM2V and n == 2:
            lean = PRIM2V[name]
            if lean.startswith("Angle."): self.uses_angle = True
            return Val(f"({lean} {self.scalar(a[0])} {self.scalar(a[1])})", "T")
        if name in PRIM3V and n == 3:
            self.uses_fused = True
            return Val(f"({PRIM3V[name]} {self.scalar(a[0])} {self.scalar(a[1])} {self.scalar(a[2])})", "T")
        fail(f"primitive {name} with {n} arguments")

    def apply_fn(self, d, args, what):
        v = super().apply_fn(d, args, what)
        if d.get("fused"): self.uses_fused = True
        return v

    def mcall(self, e, env):
        recv, name, xs = e[1], e[2], e[3]
        if recv[0] == "call" and recv[1][0] == "path":
            key = "::".join(recv[1][1]) + "()." + name
            if key in self.ctx.fns:
                return self.apply_fn(self.ctx.fns[key], self.args(recv[2], env) + self.args(xs, env), key)
        r = self.expr(recv, env)
        if name in ("is_true", "is_false"):
            fail(f"`.{name}()` on a mask is a horizontal reduction over the lanes -- not lane-wise")
        if name in IDENTITY_V and not xs: return r
        if r.ty == "T":
            if name == "into" and not xs: return r
            if name == "powi":
                if len(xs) != 1 or xs[0][0] != "num" or xs[0][1] not in ("2", "3"): fail("powi with an exponent other than the literals 2, 3")
                return Val(f"(powi{xs[0][1]}V {r.code})", "T")
            if name == "sin_cos" and not xs:
                return Val(f"(VScalar.sin {r.code}, VScalar.cos {r.code})", ("tup", ["T", "T"]))
            if name in CMPV and len(xs) == 1:
                return Val(f"({CMPV[name]} {r.code} {self.scalar(self.expr(xs[0], env))})", "M")
            if name in PRIM1V or name in PRIM2V or name in PRIM3V:
                return self.prim(name, [r] + self.args(xs, env))
            if ("T", name) in self.ctx.methods:
                return self.apply_fn(self.ctx.methods[("T", name)], [r] + self.args(xs, env), name)
            fail(f"scalar method .{name}() is outside the translated subset")
        if r.ty == "M":
            if name == "select" and len(xs) == 2:
                a, b = self.args(xs, env)
                return self.select(r, a, b, False)
            if name == "lazy_select" and len(xs) == 2:
                a, b = self.args(xs, env)
                if a.ty[0] != "thunk" or b.ty[0] != "thunk": fail("lazy_select: expects two `||` closures")
                return self.select(r, Val(a.code, a.ty[1]), Val(b.code, b.ty[1]), True)
            fail(f"mask method .{name}()")
        if r.ty[0] == "V3":
            if name == "into" and not xs: return Val(r.code, ("V3", None))
            key = (self.ctx.resolve(r.ty[1]) if r.ty[1] else None, name)
            if key in self.ctx.methods:
                return self.apply_fn(self.ctx.methods[key], [r] + self.args(xs, env), f"{key[0]}::{name}")
            fail(f"method .{name}() of {r.ty[1]} is outside the translated subset")
        fail(f"method .{name}() on {r.ty!r}")

    # statements: an `if` statement is lane-wise only when its condition is static
    def if_return_chain(self, e, ss, nxt, tail, env):
        st, _ = self.static_cond(e[1], env)
        if st is None: fail("early `return` under a run-time condition: only compiles for T::Mask = bool -- not lane-wise")
        return super().if_return_chain(e, ss, nxt, tail, env)
    def if_assign(self, e, ss, i, tail, env):
        st, _ = self.static_cond(e[1], env)
        if st is None: fail("assignment under a run-time condition: only compiles for T::Mask = bool -- not lane-wise")
        return super().if_assign(e, ss, i, tail, env)
    def for_loop(self, e, ss, i, tail, env):
        fail("loop (none of the SIMD-capable bodies has one)")

# ------------------------------------------------------------------------------------------------ registration
SIMD_MASK = {"T::Mask == bool": False}
WIDE_ANGLE = (r"macro_rules!\s+impl_angle_wide_float\b", "macro_rules! impl_angle_wide_float")

# bodies of rust2lean.BODIES that compile for the wide component types, by name.  `tie` = the scalar reading it is proved equal to at
# `Mask = bool` (default: `Gen.Body.<name>`).  The others (Luv <-> Xyz, HSLuv, Okhsl/Okhsv/Okhwb and everything of ok_utils.rs) carry
# `HasBoolMask<Mask = bool>` bounds and real `if`s; they are listed in `BOOL_ONLY` and the tool checks that it indeed refuses them.
SIMD_BODIES = [
    "hueFromRadians", "hueIntoRawRadians", "hueIntoPositiveDegrees", "hueFromCartesian", "hueIntoCartesian", "labGetHue", "luvGetHue",
    "xyzToYxy", "yxyToXyz", "xyzToLab", "labToXyz", "labToLch", "lchToLab", "luvToLchuv", "lchuvToLuv",
    "rgbToHsvMask", "rgbToHslMask", "hsvToRgb", "hslToRgb", "hslToHsv", "hsvToHsl", "hsvToHwb", "hwbToHsv",
    "srgbIntoLinear", "srgbFromLinear", "recIntoLinear", "recFromLinear", "adobeIntoLinear", "adobeFromLinear", "p3IntoLinear", "p3FromLinear",
    "prophotoIntoLinear", "prophotoFromLinear", "gammaIntoLinear", "gammaFromLinear",
    "matMulVec", "oklabM1", "oklabM1Inv", "oklabM2", "oklabM2Inv", "xyzToOklab", "oklabToXyz", "linSrgbToOklab", "oklabToLinSrgb",
    "oklabGetHue", "oklabGetChroma", "oklabToOklch", "oklchToOklab", "okhsvToOkhwb", "okhwbToOkhsv",
]
# registered in scalar mode, must be refused in mask-generic mode, with the reason the tool has to give (substring)
BOOL_ONLY = {
    "rgbToHsv": "horizontal reduction", "rgbToHsl": "horizontal reduction",
    "xyzToLuv": "not lane-wise", "luvToXyz": "not lane-wise",
    "maxSaturation": "not lane-wise", "findGamutIntersection": "not lane-wise",
    "okhslToOklab": "not lane-wise", "oklabToOkhsl": "not lane-wise", "okhsvToOklab": "not lane-wise", "oklabToOkhsv": "not lane-wise",
}

def B(name, file, where, fn, tie, **kw):
    d = R.B(name, file, where, fn, tie, **kw)
    return d

# bodies that only this tool reads: the wide flavour of the angle helpers, and blend/blend.rs (hand model: PaletteModel/Blend.lean)
EXTRA_FIRST = [
    B("angleNormalizeUnsigned", "angle/wide.rs", WIDE_ANGLE, "normalize_unsigned_angle", "Gen.Body.angleNormalizeUnsigned",
      self_ty="T", as_method=[("T", "normalize_unsigned_angle")]),
    B("angleNormalizeSigned", "angle/wide.rs", WIDE_ANGLE, "normalize_signed_angle", "Ops.normSigned",
      self_ty="T", as_method=[("T", "normalize_signed_angle")]),
]
EXTRA_LAST = [
    B("multiplyBlend", "blend/blend.rs", None, "multiply_blend", "Blend.multiplyBlend", as_fn=["multiply_blend"]),
    B("screenBlend", "blend/blend.rs", None, "screen_blend", "Blend.screenBlend", as_fn=["screen_blend"]),
    B("hardLightBlend", "blend/blend.rs", None, "hard_light_blend", "Blend.hardLightBlend", as_fn=["hard_light_blend"]),
    B("overlayBlend", "blend/blend.rs", None, "overlay_blend", "Blend.overlayBlend", as_fn=["overlay_blend"]),
    B("darkenBlend", "blend/blend.rs", None, "darken_blend", "Blend.darkenBlend", as_fn=["darken_blend"]),
    B("lightenBlend", "blend/blend.rs", None, "lighten_blend", "Blend.lightenBlend", as_fn=["lighten_blend"]),
    B("dodgeBlend", "blend/blend.rs", None, "dodge_blend", "Blend.dodgeBlend", as_fn=["dodge_blend"]),
    B("burnBlend", "blend/blend.rs", None, "burn_blend", "Blend.burnBlend", as_fn=["burn_blend"]),
    B("softLightBlend", "blend/blend.rs", None, "soft_light_blend", "Blend.softLightBlend", as_fn=["soft_light_blend"]),
    B("differenceBlend", "blend/blend.rs", None, "difference_blend", "Blend.differenceBlend", as_fn=["difference_blend"]),
    B("exclusionBlend", "blend/blend.rs", None, "exclusion_blend", "Blend.exclusionBlend", as_fn=["exclusion_blend"]),
]

def translate_body_v(ctx, spec, read_src, keep_typeid=False):
    """-> (Lean definition text, callee record); the mask-generic counterpart of rust2lean.translate_body"""
    src = read_src(spec["file"])
    params, ret, body = R.find_fn(src, spec["where"], spec["fn"])
    self_ty = spec.get("self_ty")
    if self_ty is None and spec["where"]:
        m = re.search(r"\bfor\s+(\w+)", re.search(spec["where"], src).group(0))
        if m: self_ty = m.group(1)
    subst = {}
    for k, (f, rx) in (spec.get("subst") or {}).items():
        m = re.search(rx, read_src(f))
        if not m: fail(f"associated constant {k}: /{rx}/ not found in {f}")
        subst[k] = m.group(1)
    typeid = (spec.get("typeid") if keep_typeid else SIMD_MASK) if spec.get("typeid") else None
    lo = LowerV(ctx, self_ty=self_ty, kmode=spec.get("k", "sci"), consts=R.module_consts(src), typeid=typeid,
                wp="wp" if spec.get("wp") else None, subst=subst)
    env, binders, ptys = {}, [], []
    if spec.get("wp"): binders.append("(wp : V3 α)")
    for p in R.split_top(params):
        p = p.strip()
        if not p: continue
        if p in ("self", "&self", "mut self"):
            ty = R.ty_of(ctx, "Self", self_ty); n = "self"
        else:
            m = re.match(r"(?:mut\s+)?(\w+)\s*:\s*(.+)$", p, re.S)
            if not m: fail(f"parameter {p!r}")
            n, ty = m.group(1), R.ty_of(ctx, m.group(2), self_ty)
        env[n] = Val(R.lname(n) if n != "self" else "self_", ty)
        binders.append(f"({env[n].code} : {R.lean_ty(ty)})")
        ptys.append(ty)
    rty = R.ty_of(ctx, ret, self_ty)
    blk = R.parse_block(body)
    v = lo.stmts(blk[1], 0, blk[2], env)
    ok = v.ty == rty or (v.ty != "T" and rty != "T" and v.ty[0] == "V3" and rty[0] == "V3")
    if not ok: fail(f"body has type {v.ty!r}, signature says {rty!r}")
    unused = [k for k in (typeid or {}) if k not in lo.typeids_seen]
    if unused: fail(f"registered TypeId comparison(s) {unused} do not occur in the body any more")
    if lo.uses_viaf64: fail("f64 detour (luv_bounds.rs) in a SIMD body -- not lane-wise")
    inst = "[VScalar α μ]" + (" [VFused α]" if lo.uses_fused else "") + (" [Angle α]" if lo.uses_angle else "")
    where = spec.get("label") or spec["where"] or ""
    doc = f"/-- `{spec['file']}`: `fn {spec['fn']}`" + (f" of `{where}`" if where else "") + \
          (", branch {'T::Mask == bool': False}" if typeid else "") + (f", with {subst}" if subst else "") + " -/"
    text = f"{doc}\ndef {spec['name']} {{α μ : Type}} {inst} {' '.join(binders)} : {R.lean_ty(rty)} :=\n{R.indent(R.reflow(v.code), 2)}\n"
    rec = dict(lean="Gen.BodyV." + spec["name"], params=ptys, ret=rty, angle=lo.uses_angle, fused=lo.uses_fused,
               extra=["wp"] if spec.get("wp") else [])
    return text, rec, lo

def generate(read_src, tie_text):
    """-> text of Gen/BodiesV.lean"""
    ctx = R.make_ctx(read_src)
    ctx.fns = {k: v for k, v in ctx.fns.items() if not v.get("viaf64")}
    by_name = {s["name"]: s for s in R.BODIES}
    missing = [n for n in SIMD_BODIES + list(BOOL_ONLY) if n not in by_name]
    if missing: fail(f"not registered in rust2lean.BODIES any more: {missing}")
    specs = list(EXTRA_FIRST)
    for s in R.BODIES:
        if s["name"] in SIMD_BODIES:
            if s["name"] in ("angleNormalizeUnsigned",): continue
            d = dict(s); d["model"] = "Gen.Body." + s["name"]
            specs.append(d)
    specs += EXTRA_LAST
    defs, table = [], []
    for spec in specs:
        try:
            text, rec, lo = translate_body_v(ctx, spec, read_src)
        except Untranslatable as e:
            raise Untranslatable(f"mask-generic body {spec['name']} ({spec['file']}: fn {spec['fn']}): {e}")
        defs.append(text)
        for k in spec.get("as_fn", []): ctx.fns[k] = rec
        for k in spec.get("as_method", []):
            ctx.methods[tuple(k)] = dict(rec, hint=spec["hint"]) if spec.get("hint") else rec
        table.append((spec["name"], spec["model"], spec["file"]))
        m = re.search(r"\btheorem\s+tieV_" + spec["name"] + r"\b(.*?):=", tie_text, re.S)
        if not m:
            raise Untranslatable(f"mask-generic body {spec['name']} is translated but lean/PaletteProofs/C17_TieV.lean has no theorem tieV_{spec['name']}")
        if not (re.search(r"Gen\.BodyV\." + spec["name"] + r"\b", m.group(1)) and spec["model"] in m.group(1)):
            raise Untranslatable(f"theorem tieV_{spec['name']} does not state Gen.BodyV.{spec['name']} = {spec['model']}")
    # the bool-only bodies must be refused, for the reason on record (a body that silently *became* translatable would mean the
    # representation contract of that conversion changed)
    refused = []
    # every callee gets its *scalar* record here, so that a refusal is about the text of the body itself
    ctx2 = R.make_ctx(read_src)
    for s in R.BODIES:
        _, rec = R.translate_body(ctx2, s, read_src)
        for k in s.get("as_fn", []): ctx2.fns[k] = rec
        for k in s.get("as_method", []):
            ctx2.methods[tuple(k)] = dict(rec, hint=s["hint"]) if s.get("hint") else rec
    for n, why in BOOL_ONLY.items():
        try:
            translate_body_v(ctx2, dict(by_name[n]), read_src, keep_typeid=True)
        except Untranslatable as e:
            refused.append((n, str(e)))
            continue
        raise Untranslatable(f"body {n} is registered as `Mask = bool` only, but its text is now lane-wise translatable: move it to SIMD_BODIES")
    esc = lambda s: s.replace("\\", "\\\\").replace('"', '\\"')
    head = ["/- GENERATED by tools/extract.py (tools/rust2lean_simd.py) from the function bodies of palette/src -- do not edit",
            "",
            "  The *mask-generic* reading of the generic function bodies that compile for the SIMD component types",
            "  `wide::{f32x4, f32x8, f64x2, f64x4}`: the same source text `Gen/Bodies.lean` reads the way `f32`/`f64` execute it, read the",
            "  way a type with `T::Mask != bool` executes it -- comparisons produce masks, `lazy_select!`/`select` blend two computed",
            "  values, `TypeId::of::<T::Mask>() == TypeId::of::<bool>()` is false.  Conventions and the list of constructs the translator",
            "  refuses because they are not lane-wise (`if` on a mask, `.is_true()`, early `return`, `<` on components, an unregistered",
            "  `TypeId` test): header of tools/rust2lean_simd.py.  Primitives: PaletteModel/SimdPrim.lean.",
            "  `PaletteProofs/C17_TieV.lean` proves, for every `[Scalar α]`, `Gen.BodyV.<name>` at `μ = Bool` (`Simd.ofScalar`) equal to the",
            "  scalar reading (`tieV_<name>`); `PaletteProofs/C17_Edges.lean` instantiates the lifting theorem for each of them.",
            "-/",
            "import PaletteModel.SimdPrim", "",
            "namespace Gen.BodyV", "open Simd", "",
            "/-- (name, what `tieV_<name>` proves it equal to at `Mask = bool`, source file) -/",
            "def tied : List (String × String × String) := [\n" + ",\n".join(f'  ("{n}", "{m}", "{f}")' for n, m, f in table) + "]", "",
            "/-- bodies registered for the scalar reading that the mask-generic translator refuses, with its reason: they only compile for",
            "    `T::Mask = bool` (real branches, horizontal `is_true()`), so they are outside the SIMD half of C17 -/",
            "def boolOnly : List (String × String) := [\n" + ",\n".join(f'  ("{n}", "{esc(w)}")' for n, w in refused) + "]", ""]
    for n, why in refused:
        if BOOL_ONLY[n] not in why:
            raise Untranslatable(f"body {n}: refused for an unexpected reason ({why}); expected `{BOOL_ONLY[n]}`")
    return "\n".join(head) + "\n" + "\n".join(defs) + "\nend Gen.BodyV\n"

if __name__ == "__main__":
    import os, sys
    repo = os.environ.get("PALETTE_REPO", "/repo")
    def read_src(rel): return R.strip_comments(open(os.path.join(repo, "palette", "src", rel)).read())
    root = os.path.dirname(os.path.dirname(os.path.abspath(__file__)))
    tie = os.path.join(root, "lean", "PaletteProofs", "C17_TieV.lean")
    try:
        if os.path.exists(tie) and "--no-tie" not in sys.argv: tt = open(tie).read()
        else:
            class Any(str):
                pass
            tt = None
        if tt is None:
            # bootstrap: pretend every tie exists
            names = [s["name"] for s in EXTRA_FIRST] + SIMD_BODIES + [s["name"] for s in EXTRA_LAST]
            models = {s["name"]: s["model"] for s in EXTRA_FIRST + EXTRA_LAST}
            tt = "".join(f"theorem tieV_{n} : Gen.BodyV.{n} = {models.get(n, 'Gen.Body.' + n)} := " for n in names)
        sys.stdout.write(generate(read_src, tt))
    except Untranslatable as e:
        print("FAILED:", e); sys.exit(1)
