#!/usr/bin/env python3
"""rewrites the table of seeded changes in DESIGN.md (between the SEEDS markers) from seeded/*/meta.json"""
import json, os, glob, re
ROOT = os.path.dirname(os.path.dirname(os.path.abspath(__file__)))
rows = []
def _key(d):
    b = os.path.basename(d); a, _, k = b.partition("-")
    return (a, int(k) if k.isdigit() else 0)
for d in sorted(glob.glob(os.path.join(ROOT, "seeded", "*")), key=_key):
    m = json.load(open(os.path.join(d, "meta.json")))
    det = m["detection"]
    first = ""
    for l in det.get("output", "").split("\n"):
        l = l.strip()
        if l.startswith("fails[") or l.startswith("broken["):
            first = l.split("]")[0] + "]"; break
    summ = (m.get("summary") or "").replace("\n", " ").replace("|", "/")
    if len(summ) > 170: summ = summ[:167] + "…"
    note = det.get("note", "").replace("|", "/")
    res = {"caught-with-input": "caught, failing input", "caught-no-input": "caught (`no-failing-input-found`)", "missed": "**missed**"}[det["result"]]
    if "FIRST RUN" in note: res += " — after strengthening"
    rows.append(f"| {m['seed']} | {summ} | {res} | {', '.join(det['checks_run'])}: `{first}` {('— ' + note[:260]) if 'FIRST RUN' in note else ''} |")
table = "| seed | change (independent sub-agent, property text only) | result | by |\n|---|---|---|---|\n" + "\n".join(rows)
p = os.path.join(ROOT, "DESIGN.md")
s = open(p).read()
s = re.sub(r"<!-- SEEDS:BEGIN -->.*?<!-- SEEDS:END -->", "<!-- SEEDS:BEGIN -->\n" + table + "\n<!-- SEEDS:END -->", s, flags=re.S)
open(p, "w").write(s)
print(len(rows), "seeds")
